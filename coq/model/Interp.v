(* Interp.v — executable model of /repo/pkg/base/polynomials/interpolation/{lagrange,
   vandermonde,birkhoff}.  No proofs.
     lagrange.BasisAt / InterpolateAt / InterpolateInExponentAt
        -> [basis_at] / [lagrange_interpolate_at] / [lagrange_interpolate_in_exponent_at]
        (num, den accumulated over j != i exactly as coded; TryDiv by a zero denominator,
         i.e. a duplicate node, is the error [ErrDiv])
     vandermonde.BuildVandermondeMatrix / Interpolate -> [build_vandermonde] / [vandermonde_interpolate]
        (rows 1, x, x^2, ... by repeated multiplication; coefficients by SolveRight)
     birkhoff.BuildVandermondeMatrix / Interpolate / InterpolateInExponent, internal.Phi, internal.SortNodes
        -> [build_birkhoff] / [birkhoff_interpolate] / [birkhoff_interpolate_in_exponent], [phi], [sort_nodes]
        (Cramer's rule through Determinant / SetColumn, minors and cofactor signs in the exponent;
         nodes are sorted by (x as a natural number, j) — the key [fkey] is a parameter since an
         abstract field has no order; for Z_p on canonical representatives it is the identity). *)
From Coq Require Import List Arith Bool NArith ZArith.
Import ListNotations.
Require Import V.base.Fld V.model.LinAlg V.model.Poly.

Inductive ierr := ErrLength | ErrDiv | ErrEmpty | ErrSingular | ErrDim.
Inductive res (A : Type) := Ok (a : A) | Err (e : ierr).
Arguments Ok {A} _. Arguments Err {A} _.

Fixpoint sequence_opt {A : Type} (l : list (option A)) : option (list A) :=
  match l with
  | [] => Some []
  | None :: _ => None
  | Some a :: t => match sequence_opt t with None => None | Some r => Some (a :: r) end
  end.

Section Interp.
Context {F : Type} (K : fops F).

(* ---- Lagrange ------------------------------------------------------------------ *)

(* for j := range xs { if i == j {continue}; num *= (at - xj); den *= (xi - xj) } *)
Definition basis_num_den (xs : list F) (at_ : F) (i : nat) (xi : F) : F * F :=
  fold_left (fun nd jx => if Nat.eqb (fst jx) i then nd
                          else (fmul K (fst nd) (fsub K at_ (snd jx)),
                                fmul K (snd nd) (fsub K xi (snd jx))))
            (combine (seq 0 (length xs)) xs) (f1 K, f1 K).

Definition basis_term (xs : list F) (at_ : F) (i : nat) (xi : F) : option F :=
  let nd := basis_num_den xs at_ i xi in
  if fis0 K (snd nd) then None else Some (fdiv K (fst nd) (snd nd)).

Definition basis_at (xs : list F) (at_ : F) : option (list F) :=
  sequence_opt (mapi (fun i xi => basis_term xs at_ i xi) xs).

Definition lagrange_interpolate_at (nodes values : list F) (at_ : F) : res F :=
  if negb (Nat.eqb (length nodes) (length values)) then Err ErrLength
  else match basis_at nodes at_ with
       | None => Err ErrDiv
       | Some bs => Ok (dot K bs values)
       end.

Section Exponent.
Context {G : Type} (Mo : mops G F).

Definition lagrange_interpolate_in_exponent_at (nodes : list F) (values : list G) (at_ : F) : res G :=
  if negb (Nat.eqb (length nodes) (length values)) then Err ErrLength
  else match basis_at nodes at_ with
       | None => Err ErrDiv
       | Some bs => Ok (gdot Mo bs values)
       end.
End Exponent.

(* ---- Vandermonde ----------------------------------------------------------------- *)

Fixpoint pow_row (x acc : F) (c : nat) : list F :=
  match c with O => [] | S c' => acc :: pow_row x (fmul K acc x) c' end.

Definition build_vandermonde (nodes : list F) (cols : nat) : res (list (list F)) :=
  match nodes, cols with
  | [], _ => Err ErrEmpty
  | _, O => Err ErrEmpty
  | _, _ => Ok (map (fun x => pow_row x (f1 K) cols) nodes)
  end.

Definition vandermonde_interpolate (nodes values : list F) : res (list F) :=
  if negb (Nat.eqb (length nodes) (length values)) then Err ErrLength
  else match nodes with
       | [] => Err ErrDim                       (* NewMatrixModule(0, 1) refuses *)
       | _ => match build_vandermonde nodes (length nodes) with
              | Err e => Err e
              | Ok V => match solve_right K V values with
                        | None => Err ErrSingular
                        | Some c => Ok c
                        end
              end
       end.

(* ---- Birkhoff ---------------------------------------------------------------------- *)

(* Phi(t, x, j): j-th derivative of X^t evaluated at x; zero when j > t *)
Definition phi (t : nat) (x : F) (j : N) : F :=
  if N.ltb (N.of_nat t) j then f0 K
  else peval K (pderiv_iter K (N.to_nat j) (repeat (f0 K) t ++ [f1 K])) x.

Definition build_birkhoff (xs : list F) (js : list N) (cols : nat) : list (list F) :=
  map (fun xj => map (fun c => phi c (fst xj) (snd xj)) (seq 0 cols)) (combine xs js).

Section Sorted.
Context (fkey : F -> Z) {Y : Type}.

Definition node_lt (a b : F * N * Y) : bool :=
  let ka := fkey (fst (fst a)) in let kb := fkey (fst (fst b)) in
  Z.ltb ka kb || (Z.eqb ka kb && N.ltb (snd (fst a)) (snd (fst b))).

Fixpoint insert_node (a : F * N * Y) (l : list (F * N * Y)) : list (F * N * Y) :=
  match l with
  | [] => [a]
  | b :: t => if node_lt b a then b :: insert_node a t else a :: l
  end.
Definition sort_nodes (l : list (F * N * Y)) : list (F * N * Y) := fold_right insert_node [] l.
End Sorted.

Definition birkhoff_interpolate (fkey : F -> Z) (xs : list F) (js : list N) (ys : list F) : res (list F) :=
  if negb (Nat.eqb (length xs) (length js) && Nat.eqb (length xs) (length ys)) then Err ErrLength
  else match xs with
  | [] => Err ErrEmpty
  | _ =>
    let nodes := sort_nodes fkey (combine (combine xs js) ys) in
    let xs' := map (fun n => fst (fst n)) nodes in
    let js' := map (fun n => snd (fst n)) nodes in
    let ys' := map snd nodes in
    let V := build_birkhoff xs' js' (length xs') in
    let den := determinant K V in
    if fis0 K den then Err ErrSingular
    else match sequence_opt (map (fun c => match set_column c ys' V with
                                           | None => None
                                           | Some Vc => Some (fdiv K (determinant K Vc) den)
                                           end) (seq 0 (length xs'))) with
         | None => Err ErrDim
         | Some cs => Ok cs
         end
  end.

Section BirkhoffExponent.
Context {G : Type} (Mo : mops G F).

Definition birkhoff_interpolate_in_exponent (fkey : F -> Z) (xs : list F) (js : list N) (ys : list G) : res (list G) :=
  if negb (Nat.eqb (length xs) (length js) && Nat.eqb (length xs) (length ys)) then Err ErrLength
  else match xs with
  | [] => Err ErrEmpty
  | _ =>
    let nodes := sort_nodes fkey (combine (combine xs js) ys) in
    let xs' := map (fun n => fst (fst n)) nodes in
    let js' := map (fun n => snd (fst n)) nodes in
    let ys' := map snd nodes in
    let V := build_birkhoff xs' js' (length xs') in
    let den := determinant K V in
    if fis0 K den then Err ErrSingular
    else
      let den_inv := finv K den in
      match sequence_opt (map (fun c =>
              match sequence_opt (mapi (fun r y =>
                      match minor r c V with
                      | None => None                 (* Minor refuses 1x1 *)
                      | Some m => let d := determinant K m in
                                  Some (if Nat.even (r + c) then d else fopp K d, y)
                      end) ys') with
              | None => None
              | Some dys => Some (gsmul Mo (fold_left (fun num dy => gadd Mo num (gsmul Mo (snd dy) (fst dy))) dys (g0 Mo)) den_inv)
              end) (seq 0 (length xs'))) with
      | None => Err ErrDim
      | Some cs => Ok cs
      end
  end.
End BirkhoffExponent.

End Interp.
