(* C14Model.v — the executable functions the C14 driver calls: the affine model of Curve.v and
   the window / bucket algorithms of ScalarMul.v instantiated on it.  No proofs. *)
From Coq Require Import ZArith NArith List Bool.
Import ListNotations.
Require Import V.base.Fld V.model.CurveParams V.model.Curve V.model.ScalarMul.

Definition opt_is_none {A} (P : option A) : bool := match P with None => true | Some _ => false end.

(* ScalarMulLowLevel / MultiScalarMulLowLevel run on the affine Weierstrass group over Z_p *)
Definition w_smw (c : wparams) : @wpoint Z -> list N -> @wpoint Z :=
  scalar_mul_window None (w_add c) (w_double c).
Definition w_msm_code (c : wparams) : list (@wpoint Z) -> list (list N) -> option (@wpoint Z) :=
  msm None (w_add c) (w_double c) opt_is_none.
Definition w_msm_buckets (c : wparams) : list (@wpoint Z) -> list (list N) -> N -> @wpoint Z :=
  msm_buckets None (w_add c) opt_is_none.

Definition w2_smw (c : w2params) : @wpoint (Z * Z) -> list N -> @wpoint (Z * Z) :=
  scalar_mul_window None (w2_add c) (w2_double c).
Definition w2_msm_code (c : w2params) : list (@wpoint (Z * Z)) -> list (list N) -> option (@wpoint (Z * Z)) :=
  msm None (w2_add c) (w2_double c) opt_is_none.

Definition e_is_zero (c : eparams) (P : Z * Z) : bool := e_eqb c P (eaff_zero (Zp (ep_p c))).
Definition e_smw (c : eparams) : Z * Z -> list N -> Z * Z :=
  scalar_mul_window (eaff_zero (Zp (ep_p c))) (e_add c) (e_double c).
Definition e_msm_code (c : eparams) : list (Z * Z) -> list (list N) -> option (Z * Z) :=
  msm (eaff_zero (Zp (ep_p c))) (e_add c) (e_double c) (e_is_zero c).

Definition m_smw (c : mparams) : @mpoint Z -> list N -> @mpoint Z :=
  scalar_mul_window None (m_add c) (m_double c).

(* field operations on Z_p by name *)
Definition zp_add (p x y : Z) : Z := fadd (Zp p) x y.
Definition zp_sub (p x y : Z) : Z := fsub (Zp p) x y.
Definition zp_mul (p x y : Z) : Z := fmul (Zp p) x y.
Definition zp_neg (p x : Z) : Z := fopp (Zp p) x.
Definition zp_inv_opt (p x : Z) : option Z := if (x mod p =? 0)%Z then None else Some (finv (Zp p) x).
Definition fp2_add (p : Z) (x y : Z * Z) := fadd (Fp2 p) x y.
Definition fp2_sub (p : Z) (x y : Z * Z) := fsub (Fp2 p) x y.
Definition fp2_mulz (p : Z) (x y : Z * Z) := fmul (Fp2 p) x y.
Definition fp2_neg (p : Z) (x : Z * Z) := fopp (Fp2 p) x.
Definition fp2_inv_opt (p : Z) (x : Z * Z) : option (Z * Z) :=
  if feqb (Fp2 p) x (f0 (Fp2 p)) then None else Some (finv (Fp2 p) x).
