(* PointCodec.v — executable model of the element encodings of pkg/base/curves
   (property C13).  Every decoder is written after the Go code, branch for branch:
   length check, flag bytes/bits, reduction (or refusal) of the coordinates, the reserved
   identity encodings, square root by the code's Tonelli–Shanks (for e = 1 this is the
   exponentiation by (p+1)/4), choice of the root by parity / lexicographic sign, final
   curve-equation and subgroup checks.  A decoder returns [None] where the code returns an
   error.  The model is parametric in the curve (a record of Z constants): the theorems in
   proofs/PointCodec_proofs.v quantify over every codec record, the named instances
   below use the constants of model/CurveParams.v.  No proofs here.

   Go sources modelled:
     k256/curve.go, p256/curve.go               sec1_*      (SEC1-style, tags 02/03/04)
     pasta/pallas.go, pasta/vesta.go            pasta_*     (ZCash pasta: LE x, sign in bit 255)
     pairable/bls12381/g1.go                    blsg1_*     (ZCash BLS: C/I/S flag bits)
     edwards25519/curve.go, primecurve.go       ed_*, edp_* (RFC 8032 + uncompressed y||x)
     curve25519/curve.go, subgroup.go           x_*, xp_*   (u-coordinates through edwards25519)
     impl/traits/prime_field.go + */impl/f?.gen.go, edwards25519/impl/fp.go
                                                fld_*       (FromBytes / FromWideBytes)
     algebra/impl/fields/sqrt.go, pow.go        ts_sqrt                                     *)
From Coq Require Import ZArith List Bool Lia.
Require Import V.base.Fld V.model.CurveParams V.model.Curve V.gen.Formulas.
Import ListNotations.
Local Open Scope Z_scope.

(* ---- byte strings (lists of Z in [0,256)) -------------------------------------------- *)

Fixpoint le_val (l : list Z) : Z :=
  match l with [] => 0 | b :: r => b + 256 * le_val r end.
(* the code reverses big-endian input and reads it little-endian (slices.Reverse + SetBytes) *)
Definition be_val (l : list Z) : Z := le_val (rev l).

Fixpoint le_enc (k : nat) (n : Z) : list Z :=
  match k with O => [] | S k' => (n mod 256) :: le_enc k' (n / 256) end.
Definition be_enc (k : nat) (n : Z) : list Z := rev (le_enc k n).

Definition zeros (k : nat) : list Z := repeat 0 k.
Definition all_zero (l : list Z) : bool := forallb (fun b => b =? 0) l.
Definition is_bytes (l : list Z) : Prop := Forall (fun b => 0 <= b < 256) l.

(* ---- F_p on canonical representatives ------------------------------------------------ *)

Definition addm (p x y : Z) : Z := (x + y) mod p.
Definition subm (p x y : Z) : Z := (x - y) mod p.
Definition mulm (p x y : Z) : Z := (x * y) mod p.
Definition negm (p x : Z) : Z := (- x) mod p.

(* SetAffine / SetFromAffineX: Square(x); AddA; Mul(x); AddB *)
Definition w_rhs (p a b x : Z) : Z := addm p (mulm p (addm p (mulm p x x) a) x) b.

(* ---- fields.TonelliShanks (sqrt.go), loop for loop ------------------------------------ *)

Fixpoint sq_iter (p : Z) (n : nat) (b : Z) : Z :=
  match n with O => b | S n' => sq_iter p n' (mulm p b b) end.

(* [for k := e; k > 1; k--]; the argument is the current k *)
Fixpoint ts_loop (p : Z) (k : nat) (s t z : Z) : Z :=
  match k with
  | O => s
  | S k' =>
      match k' with
      | O => s
      | S k'' =>
          let b := sq_iter p k'' t in                 (* k-2 squarings of t *)
          let isone := b =? 1 mod p in
          let s' := if isone then s else mulm p s z in
          let z' := mulm p z z in
          let t' := if isone then t else mulm p t z' in
          ts_loop p k' s' t' z'
      end
  end.

(* [g] is the progenitor exponent, the generated constant F?ProgenitorExp = (m-1)/2 where
   p - 1 = 2^e * m, m odd; [rou] = F?RootOfUnity, a primitive 2^e-th root of unity *)
Definition ts_sqrt (p : Z) (e : nat) (g : Z) (rou : Z) (x : Z) : option Z :=
  let y := zp_pow p x g in
  let s := mulm p y x in
  let t := mulm p s y in
  let r := ts_loop p e s t rou in
  if mulm p r r =? x mod p then Some r else None.

(* ---- short Weierstrass codecs ----------------------------------------------------------- *)

(* curve constants + what the field's Sqrt needs + coordinate size in bytes *)
Record wcodec := mk_wcodec { wc : wparams; wc_e : nat; wc_g : Z; wc_rou : Z; wc_len : nat }.

Definition wc_p (c : wcodec) := wp_p (wc c).
Definition wc_sqrt (c : wcodec) (v : Z) : option Z := ts_sqrt (wc_p c) (wc_e c) (wc_g c) (wc_rou c) v.
Definition wc_rhs (c : wcodec) (x : Z) : Z := w_rhs (wc_p c) (wp_a (wc c)) (wp_b (wc c)) x.

Definition wpt := @wpoint Z.      (* None = identity, Some (x, y) affine *)

(* points.SetAffine *)
Definition w_set_affine (c : wcodec) (x y : Z) : option wpt :=
  if mulm (wc_p c) y y =? wc_rhs c x then Some (Some (x, y)) else None.

(* points.SetFromAffineX followed by the parity fix-up that every caller applies *)
Definition w_from_x (c : wcodec) (x : Z) (sign : Z) : option wpt :=
  match wc_sqrt c (wc_rhs c x) with
  | None => None
  | Some y => Some (Some (x, if y mod 2 =? sign then y else negm (wc_p c) y))
  end.

(* Curve.FromAffine (k256, p256, pallas, vesta): arguments are field elements *)
Definition w_from_affine (c : wcodec) (x y : Z) : option wpt := w_set_affine c x y.
(* Curve.FromAffineX *)
Definition w_from_affine_x (c : wcodec) (x : Z) (odd : bool) : option wpt :=
  w_from_x c x (if odd then 1 else 0).

(* -- SEC1 style: k256 / p256 -- *)

Definition sec1_dec_c (c : wcodec) (bs : list Z) : option wpt :=
  if negb (Nat.eqb (length bs) (S (wc_len c))) then None
  else match bs with
       | [] => None
       | tag :: xb =>
           if negb ((tag =? 2) || (tag =? 3)) then None
           else
             let x := be_val xb mod wc_p c in           (* Fp.SetBytes reduces *)
             if x =? 0 then Some None                   (* x = 0 => identity, whatever the tag *)
             else w_from_x c x (tag mod 2)
       end.

Definition sec1_enc_c (c : wcodec) (P : wpt) : list Z :=
  match P with
  | None => 2 :: zeros (wc_len c)
  | Some (x, y) => (2 + y mod 2) :: be_enc (wc_len c) x
  end.

Definition sec1_dec_u (c : wcodec) (bs : list Z) : option wpt :=
  if negb (Nat.eqb (length bs) (S (2 * wc_len c))) then None
  else match bs with
       | [] => None
       | tag :: r =>
           if negb (tag =? 4) then None
           else
             let x := be_val (firstn (wc_len c) r) mod wc_p c in
             let y := be_val (skipn (wc_len c) r) mod wc_p c in
             if (x =? 0) && (y =? 0) then Some None
             else w_set_affine c x y
       end.

Definition sec1_enc_u (c : wcodec) (P : wpt) : list Z :=
  match P with
  | None => 4 :: zeros (2 * wc_len c)
  | Some (x, y) => 4 :: be_enc (wc_len c) x ++ be_enc (wc_len c) y
  end.

(* -- pasta: little-endian x, bit 8*len-1 = parity of y, identity = all zero -- *)

Definition top_bit (c : wcodec) : Z := 2 ^ (8 * Z.of_nat (wc_len c) - 1).

Definition pasta_dec_c (c : wcodec) (bs : list Z) : option wpt :=
  if negb (Nat.eqb (length bs) (wc_len c)) then None
  else
    let v := le_val bs in
    let sign := v / top_bit c in                        (* input[31] >> 7 *)
    let x := (v mod top_bit c) mod wc_p c in            (* buffer[31] &= 0x7f; SetBytes reduces *)
    if (x =? 0) && (sign =? 0) then Some None
    else w_from_x c x sign.

Definition pasta_enc_c (c : wcodec) (P : wpt) : list Z :=
  match P with
  | None => zeros (wc_len c)
  | Some (x, y) => le_enc (wc_len c) (x + (y mod 2) * top_bit c)
  end.

Definition pasta_dec_u (c : wcodec) (bs : list Z) : option wpt :=
  if negb (Nat.eqb (length bs) (2 * wc_len c)) then None
  else
    let x := le_val (firstn (wc_len c) bs) mod wc_p c in
    let y := le_val (skipn (wc_len c) bs) mod wc_p c in
    if (x =? 0) && (y =? 0) then Some None
    else w_set_affine c x y.

Definition pasta_enc_u (c : wcodec) (P : wpt) : list Z :=
  match P with
  | None => zeros (2 * wc_len c)
  | Some (x, y) => le_enc (wc_len c) x ++ le_enc (wc_len c) y
  end.

(* -- BLS12-381 G1: big-endian, three flag bits C (compressed) I (infinity) S (sort) -- *)

(* fieldsImpl.IsNegative: v > -v on canonical representatives *)
Definition is_neg (p v : Z) : bool := negm p v <? v.

(* PointG1.IsTorsionFree: [order]P = identity *)
Definition w_torsion_free (c : wcodec) (P : wpt) : bool :=
  match w_mul (wc c) (wp_n (wc c)) P with None => true | Some _ => false end.

Definition flagC (b0 : Z) : Z := (b0 / 128) mod 2.
Definition flagI (b0 : Z) : Z := (b0 / 64) mod 2.
Definition flagS (b0 : Z) : Z := (b0 / 32) mod 2.

Definition blsg1_dec_c (c : wcodec) (bs : list Z) : option wpt :=
  if negb (Nat.eqb (length bs) (wc_len c)) then None
  else match bs with
       | [] => None
       | b0 :: r =>
           if negb (flagC b0 =? 1) then None
           else if flagI b0 =? 1 then
             if flagS b0 =? 1 then None
             else if (b0 mod 32 =? 0) && all_zero r then Some None else None
           else
             let x := be_val ((b0 mod 32) :: r) mod wc_p c in     (* SetBytes reduces, no range check *)
             match wc_sqrt c (wc_rhs c x) with
             | None => None
             | Some y =>
                 let y' := if xorb (is_neg (wc_p c) y) (flagS b0 =? 1) then negm (wc_p c) y else y in
                 let P := Some (x, y') in
                 if w_torsion_free c P then Some P else None
             end
       end.

Definition blsg1_enc_c (c : wcodec) (P : wpt) : list Z :=
  let hi := 2 ^ (8 * Z.of_nat (wc_len c) - 1) in
  match P with
  | None => be_enc (wc_len c) (hi + hi / 2)
  | Some (x, y) => be_enc (wc_len c) (x + hi + (if is_neg (wc_p c) y then hi / 4 else 0))
  end.

Definition blsg1_dec_u (c : wcodec) (bs : list Z) : option wpt :=
  if negb (Nat.eqb (length bs) (2 * wc_len c)) then None
  else match bs with
       | [] => None
       | b0 :: r =>
           if flagC b0 =? 1 then None
           else if flagS b0 =? 1 then None
           else if flagI b0 =? 1 then
             if (b0 mod 32 =? 0) && all_zero r then Some None else None
           else
             let x := be_val ((b0 mod 32) :: firstn (wc_len c - 1) r) mod wc_p c in
             let y := be_val (skipn (wc_len c - 1) r) mod wc_p c in
             match w_set_affine c x y with
             | None => None
             | Some P => if w_torsion_free c P then Some P else None
             end
       end.

Definition blsg1_enc_u (c : wcodec) (P : wpt) : list Z :=
  match P with
  | None => 64 :: zeros (2 * wc_len c - 1)
  | Some (x, y) => be_enc (wc_len c) x ++ be_enc (wc_len c) y
  end.

(* G1.FromAffine and G1.FromAffineX check the subgroup *)
Definition blsg1_from_affine_x (c : wcodec) (x : Z) (odd : bool) : option wpt :=
  match wc_sqrt c (wc_rhs c x) with
  | None => None
  | Some y =>
      if w_torsion_free c (Some (x, y)) then
        Some (Some (x, if y mod 2 =? (if odd then 1 else 0) then y else negm (wc_p c) y))
      else None
  end.

Definition blsg1_from_affine (c : wcodec) (x y : Z) : option wpt :=
  match w_set_affine c x y with
  | None => None
  | Some P => if w_torsion_free c P then Some P else None
  end.

(* ---- BLS12-381 G2: the same ZCash format over F_p[u]/(u^2+1), coordinates c1 || c0 ---------- *)

Definition z2 := (Z * Z)%type.                 (* (c0, c1) = c0 + c1 u *)
Definition w2pt := @wpoint z2.

(* base-field Tonelli–Shanks constants + coordinate size of ONE F_p coefficient *)
Record w2codec := mk_w2codec { w2c : w2params; w2c_e : nat; w2c_g : Z; w2c_rou : Z; w2c_len : nat }.
Definition w2c_p (c : w2codec) := w2_p (w2c c).
Definition w2c_sqrt_p (c : w2codec) (v : Z) : option Z := ts_sqrt (w2c_p c) (w2c_e c) (w2c_g c) (w2c_rou c) v.
Definition K2 (c : w2codec) : fops z2 := Fp2 (w2c_p c).

(* fields.QuadraticFieldExtensionImpl.Sqrt (beta = -1), the repaired version: the generic branch
   (norm, (v0 +- sqrt norm)/2, the root of the "neg" candidate wins when both exist, c1 = v1/(2 c0))
   and the base-field branch for v1 = 0 *)
Definition fp2_sqrt (c : w2codec) (v : z2) : option z2 :=
  let p := w2c_p c in
  let '(v0, v1) := v in
  if v1 =? 0 then
    match w2c_sqrt_p c v0 with
    | Some s0 => Some (s0, 0)
    | None =>
        match w2c_sqrt_p c (negm p v0) with      (* v0 / beta *)
        | Some s1 => Some (0, s1)
        | None => None
        end
    end
  else
    match w2c_sqrt_p c (addm p (mulm p v0 v0) (mulm p v1 v1)) with
    | None => None
    | Some rt =>
        let half := zp_inv p (2 mod p) in
        let pos := mulm p (addm p v0 rt) half in
        let neg := mulm p (subm p v0 rt) half in
        let root := match w2c_sqrt_p c neg with Some sn => Some sn | None => w2c_sqrt_p c pos end in
        match root with
        | None => None
        | Some r0 =>
            let com2 := addm p r0 r0 in
            if com2 =? 0 then None else Some (r0, mulm p (zp_inv p com2) v1)
        end
    end.

(* SetAffine / SetFromAffineX over Fp2: Square; AddA (a = 0: identity); Mul; AddB *)
Definition w2_rhs (c : w2codec) (x : z2) : z2 :=
  fadd (K2 c) (fmul (K2 c) (fmul (K2 c) x x) x) (w2_b (w2c c)).

Definition w2_set_affine (c : w2codec) (x y : z2) : option w2pt :=
  if feqb (K2 c) (fmul (K2 c) y y) (w2_rhs c x) then Some (Some (x, y)) else None.

(* g2.go isNegative: lexicographic, c1 first *)
Definition is_neg2 (p : Z) (y : z2) : bool :=
  is_neg p (snd y) || ((snd y =? 0) && is_neg p (fst y)).

Definition w2_torsion_free (c : w2codec) (P : w2pt) : bool :=
  match w2_mul (w2c c) (w2_n (w2c c)) P with None => true | Some _ => false end.

Definition blsg2_dec_c (c : w2codec) (bs : list Z) : option w2pt :=
  if negb (Nat.eqb (length bs) (2 * w2c_len c)) then None
  else match bs with
       | [] => None
       | b0 :: r =>
           if negb (flagC b0 =? 1) then None
           else if flagI b0 =? 1 then
             if flagS b0 =? 1 then None
             else if (b0 mod 32 =? 0) && all_zero r then Some None else None
           else
             let x1 := be_val ((b0 mod 32) :: firstn (w2c_len c - 1) r) mod w2c_p c in
             let x0 := be_val (skipn (w2c_len c - 1) r) mod w2c_p c in
             let x := (x0, x1) in
             match fp2_sqrt c (w2_rhs c x) with
             | None => None
             | Some y =>
                 let y' := if xorb (is_neg2 (w2c_p c) y) (flagS b0 =? 1) then fopp (K2 c) y else y in
                 let P := Some (x, y') in
                 if w2_torsion_free c P then Some P else None
             end
       end.

Definition blsg2_enc_c (c : w2codec) (P : w2pt) : list Z :=
  let hi := 2 ^ (8 * Z.of_nat (w2c_len c) - 1) in
  match P with
  | None => be_enc (w2c_len c) (hi + hi / 2) ++ zeros (w2c_len c)
  | Some ((x0, x1), y) =>
      be_enc (w2c_len c) (x1 + hi + (if is_neg2 (w2c_p c) y then hi / 4 else 0)) ++ be_enc (w2c_len c) x0
  end.

Definition blsg2_dec_u (c : w2codec) (bs : list Z) : option w2pt :=
  if negb (Nat.eqb (length bs) (4 * w2c_len c)) then None
  else match bs with
       | [] => None
       | b0 :: r =>
           if flagC b0 =? 1 then None
           else if flagS b0 =? 1 then None
           else if flagI b0 =? 1 then
             if (b0 mod 32 =? 0) && all_zero r then Some None else None
           else
             let n := w2c_len c in
             let x1 := be_val ((b0 mod 32) :: firstn (n - 1) r) mod w2c_p c in
             let r1 := skipn (n - 1) r in
             let x0 := be_val (firstn n r1) mod w2c_p c in
             let r2 := skipn n r1 in
             let y1 := be_val (firstn n r2) mod w2c_p c in
             let y0 := be_val (skipn n r2) mod w2c_p c in
             match w2_set_affine c (x0, x1) (y0, y1) with
             | None => None
             | Some P => if w2_torsion_free c P then Some P else None
             end
       end.

Definition blsg2_enc_u (c : w2codec) (P : w2pt) : list Z :=
  let n := w2c_len c in
  match P with
  | None => 64 :: zeros (4 * n - 1)
  | Some ((x0, x1), (y0, y1)) => be_enc n x1 ++ be_enc n x0 ++ be_enc n y1 ++ be_enc n y0
  end.

Definition blsg2_from_affine (c : w2codec) (x y : z2) : option w2pt :=
  match w2_set_affine c x y with
  | None => None
  | Some P => if w2_torsion_free c P then Some P else None
  end.

(* ---- BLS12-381 GT: Gt.FromBytes = twelve reduced F_p coefficients + membership x^r = 1 ---------
   The tower Fp12 = Fp6[w]/(w^2 - v), Fp6 = Fp2[v]/(v^3 - (1+u)); multiplication by the formulas
   regenerated from algebra/impl/fields/{quadratic,cubic}.go (gen/Formulas.v Q_Mul, C_Mul). *)

Definition z6 := (z2 * z2 * z2)%type.
Definition z12 := (z6 * z6)%type.

Definition xi2 (p : Z) : z2 := (1 mod p, 1 mod p).            (* cubic non-residue 1 + u *)

Definition fp6_mul (p : Z) (x y : z6) : z6 :=
  let '(x0, x1, x2) := x in let '(y0, y1, y2) := y in
  C_Mul (Fp2 p) (xi2 p) x0 x1 x2 y0 y1 y2.

(* only +, -, * and negation of this record are used (by Q_Mul); inversion is not modelled *)
Definition Fp6ops (p : Z) : fops z6 :=
  let K := Fp2 p in
  let lift2 (f : z2 -> z2 -> z2) (x y : z6) : z6 :=
    let '(x0, x1, x2) := x in let '(y0, y1, y2) := y in (f x0 y0, f x1 y1, f x2 y2) in
  {| f0 := (f0 K, f0 K, f0 K); f1 := (f1 K, f0 K, f0 K);
     fadd := lift2 (fadd K); fmul := fp6_mul p; fsub := lift2 (fsub K);
     fopp := fun x => let '(x0, x1, x2) := x in (fopp K x0, fopp K x1, fopp K x2);
     finv := fun x => x; fdiv := fun x _ => x;
     feqb := fun x y => let '(x0, x1, x2) := x in let '(y0, y1, y2) := y in
                        feqb K x0 y0 && feqb K x1 y1 && feqb K x2 y2 |}.

Definition beta6 (p : Z) : z6 := ((0, 0), (1 mod p, 0), (0, 0)).   (* v *)

Definition fp12_mul (p : Z) (x y : z12) : z12 :=
  Q_Mul (Fp6ops p) (beta6 p) (fst x) (snd x) (fst y) (snd y).

Definition fp12_one (p : Z) : z12 := (f1 (Fp6ops p), f0 (Fp6ops p)).

Definition fp12_eqb (p : Z) (x y : z12) : bool :=
  feqb (Fp6ops p) (fst x) (fst y) && feqb (Fp6ops p) (snd x) (snd y).

Definition fp12_pow (p : Z) (x : z12) (e : Z) : z12 :=
  match e with Zpos n => Pos.iter_op (fp12_mul p) n x | _ => fp12_one p end.

Fixpoint chunks (n : nat) (k : nat) (l : list Z) : list (list Z) :=   (* k chunks of n *)
  match k with O => [] | S k' => firstn n l :: chunks n k' (skipn n l) end.

(* coefficient order of impl/gt.go: U0.U0.U0, U0.U0.U1, U0.U1.U0, ... U1.U2.U1 *)
Definition gt_of_coeffs (l : list Z) : option z12 :=
  match l with
  | [a0; a1; a2; a3; a4; a5; b0; b1; b2; b3; b4; b5] =>
      Some (((a0, a1), (a2, a3), (a4, a5)), ((b0, b1), (b2, b3), (b4, b5)))
  | _ => None
  end.

Definition gt_coeffs (x : z12) : list Z :=
  let '(((a0, a1), (a2, a3), (a4, a5)), ((b0, b1), (b2, b3), (b4, b5))) := x in
  [a0; a1; a2; a3; a4; a5; b0; b1; b2; b3; b4; b5].

Definition gt_from_bytes (p r : Z) (len : nat) (bs : list Z) : option z12 :=
  if negb (Nat.eqb (length bs) (12 * len)) then None
  else match gt_of_coeffs (map (fun ch => be_val ch mod p) (chunks len 12 bs)) with
       | None => None
       | Some x => if fp12_eqb p (fp12_pow p x r) (fp12_one p) then Some x else None
       end.

Definition gt_bytes (len : nat) (x : z12) : list Z :=
  concat (map (be_enc len) (gt_coeffs x)).

(* ---- twisted Edwards: edwards25519 ------------------------------------------------------- *)

Record ecodec := mk_ecodec { ec : eparams; ec_e : nat; ec_g : Z; ec_rou : Z; ec_len : nat }.
Definition ec_p (c : ecodec) := ep_p (ec c).
Definition ept := (Z * Z)%type.
Definition e_top (c : ecodec) : Z := 2 ^ (8 * Z.of_nat (ec_len c) - 1).

(* points.SetAffine (edwards.go): a x^2 + y^2 = 1 + d x^2 y^2 *)
Definition e_set_affine (c : ecodec) (x y : Z) : option ept :=
  let p := ec_p c in
  let xx := mulm p x x in let yy := mulm p y y in
  let l := addm p (mulm p (ep_a (ec c)) xx) yy in
  let r := addm p (mulm p (ep_d (ec c)) (mulm p xx yy)) (1 mod p) in
  if l =? r then Some (x, y) else None.

(* points.SetFromAffineY: x = sqrt((1 - y^2) / (a - d y^2)), the root Tonelli–Shanks returns *)
Definition e_from_y (c : ecodec) (y : Z) : option ept :=
  let p := ec_p c in
  let yy := mulm p y y in
  let num := subm p (1 mod p) yy in
  let den := subm p (ep_a (ec c)) (mulm p (ep_d (ec c)) yy) in
  if den =? 0 then None                                            (* Inv fails: ok1 = 0 *)
  else match ts_sqrt p (ec_e c) (ec_g c) (ec_rou c) (mulm p num (zp_inv p den)) with
       | None => None
       | Some x => Some (x, y)
       end.

(* edwards25519 Fp.SetBytes: 32 bytes, top bit clear, value reduced *)
Definition e_fp_set_bytes (c : ecodec) (bs : list Z) : option Z :=
  if negb (Nat.eqb (length bs) (ec_len c)) then None
  else let v := le_val bs in if e_top c <=? v then None else Some (v mod ec_p c).

Definition ed_dec_c (c : ecodec) (bs : list Z) : option ept :=
  if negb (Nat.eqb (length bs) (ec_len c)) then None
  else
    let v := le_val bs in
    let sign := v / e_top c in
    let y := (v mod e_top c) mod ec_p c in
    match e_from_y c y with
    | None => None
    | Some (x, y) => Some (if x mod 2 =? sign then x else negm (ec_p c) x, y)
    end.

Definition ed_enc_c (c : ecodec) (P : ept) : list Z :=
  let '(x, y) := P in le_enc (ec_len c) (y + (x mod 2) * e_top c).

(* uncompressed: y || x *)
Definition ed_dec_u (c : ecodec) (bs : list Z) : option ept :=
  if negb (Nat.eqb (length bs) (2 * ec_len c)) then None
  else match e_fp_set_bytes c (skipn (ec_len c) bs), e_fp_set_bytes c (firstn (ec_len c) bs) with
       | Some x, Some y => e_set_affine c x y
       | _, _ => None
       end.

Definition ed_enc_u (c : ecodec) (P : ept) : list Z :=
  let '(x, y) := P in le_enc (ec_len c) y ++ le_enc (ec_len c) x.

Definition ed_from_affine (c : ecodec) (x y : Z) : option ept := e_set_affine c x y.

(* prime-subgroup type: the same decoders followed by AsPrimeSubGroupPoint *)
Definition e_torsion_free (c : ecodec) (P : ept) : bool :=
  let '(x, y) := e_mul (ec c) (ep_n (ec c)) P in (x =? 0) && (y =? 1 mod ec_p c).

Definition e_sub (c : ecodec) (r : option ept) : option ept :=
  match r with Some P => if e_torsion_free c P then Some P else None | None => None end.

Definition edp_dec_c c bs := e_sub c (ed_dec_c c bs).
Definition edp_dec_u c bs := e_sub c (ed_dec_u c bs).
Definition edp_from_affine c x y := e_sub c (ed_from_affine c x y).

(* ---- curve25519: Montgomery u (and v) through the Edwards point -------------------------- *)

(* Point.AffineX: (Z+Y)/(Z-Y) ; error when Z = Y *)
Definition x_affine_u (c : ecodec) (P : ept) : option Z :=
  let p := ec_p c in let '(x, y) := P in
  let w := subm p (1 mod p) y in
  if w =? 0 then None else Some (mulm p (addm p (1 mod p) y) (zp_inv p w)).

(* Point.AffineY: cst * (Z+Y)/(X-T) ; when X = T: 0 for the point of order two (Z+Y = 0),
   an error for the identity *)
Definition x_affine_v (c : ecodec) (cst : Z) (P : ept) : option Z :=
  let p := ec_p c in let '(x, y) := P in
  let w := subm p x (mulm p x y) in
  if w =? 0 then (if addm p (1 mod p) y =? 0 then Some 0 else None)
  else Some (mulm p (mulm p (addm p (1 mod p) y) (zp_inv p w)) cst).

Definition e_is_identity (c : ecodec) (P : ept) : bool :=
  let '(x, y) := P in (x =? 0) && (y =? 1 mod ec_p c).

Definition x_dec_c (c : ecodec) (bs : list Z) : option ept :=
  if negb (Nat.eqb (length bs) (ec_len c)) then None
  else if all_zero bs then Some (0, 1 mod ec_p c)
  else match e_fp_set_bytes c bs with
       | None => None
       | Some u =>
           let p := ec_p c in
           let d := addm p u (1 mod p) in
           if d =? 0 then None
           else e_from_y c (mulm p (subm p u (1 mod p)) (zp_inv p d))
       end.

Definition x_enc_c (c : ecodec) (P : ept) : option (list Z) :=   (* None = the code panics *)
  if e_is_identity c P then Some (zeros (ec_len c))
  else match x_affine_u c P with None => None | Some u => Some (le_enc (ec_len c) u) end.

Definition x_from_affine (c : ecodec) (cst : Z) (u v : Z) : option ept :=
  match x_dec_c c (le_enc (ec_len c) u) with
  | None => None
  | Some P =>
      match x_affine_v c cst P with
      | None => None
      | Some v2 =>
          if v =? v2 then Some P
          else
            let P' := (negm (ec_p c) (fst P), snd P) in
            match x_affine_v c cst P' with
            | None => None
            | Some v3 => if v =? v3 then Some P' else None
            end
      end
  end.

Definition x_dec_u (c : ecodec) (cst : Z) (bs : list Z) : option ept :=
  if negb (Nat.eqb (length bs) (2 * ec_len c)) then None
  else if all_zero bs then Some (0, 1 mod ec_p c)
  else match e_fp_set_bytes c (firstn (ec_len c) bs), e_fp_set_bytes c (skipn (ec_len c) bs) with
       | Some u, Some v => x_from_affine c cst u v
       | _, _ => None
       end.

Definition x_enc_u (c : ecodec) (cst : Z) (P : ept) : option (list Z) :=
  if e_is_identity c P then Some (zeros (2 * ec_len c))
  else match x_affine_u c P, x_affine_v c cst P with
       | Some u, Some v => Some (le_enc (ec_len c) u ++ le_enc (ec_len c) v)
       | _, _ => None
       end.

Definition xp_dec_c c bs := e_sub c (x_dec_c c bs).
Definition xp_dec_u c cst bs := e_sub c (x_dec_u c cst bs).

(* ---- scalars and base-field elements --------------------------------------------------- *)

(* PrimeFieldTrait.FromBytes over a word-by-word Montgomery field (every generated F?):
   big-endian, exactly [len] bytes, any value, reduced *)
Definition fld_from_bytes (q : Z) (len : nat) (bs : list Z) : option Z :=
  if Nat.eqb (length bs) len then Some (be_val bs mod q) else None.

(* PrimeFieldTrait.FromWideBytes -> SetBytesWide: at most 2*len bytes, zero-padded at the
   most significant end, d0 + d1 * 2^(8 len) *)
Definition fld_from_wide (q : Z) (len : nat) (bs : list Z) : option Z :=
  if Nat.leb (length bs) (2 * len) then
    let le := rev bs ++ zeros (2 * len - length bs) in
    let d0 := le_val (firstn len le) in
    let d1 := le_val (skipn len le) in
    Some (addm q (d0 mod q) (mulm q (d1 mod q) (2 ^ (8 * Z.of_nat len) mod q)))
  else None.

Definition fld_enc (len : nat) (v : Z) : list Z := be_enc len v.

(* edwards25519 base field (unsaturated Solinas): FromBytes refuses a set top bit *)
Definition fld25519_from_bytes (p : Z) (bs : list Z) : option Z :=
  if Nat.eqb (length bs) 32 then
    let v := be_val bs in if 2 ^ 255 <=? v then None else Some (v mod p)
  else None.

(* edwards25519 Fp.SetBytesWide: bits 255 and 511 folded in by hand *)
Definition fld25519_from_wide (p : Z) (bs : list Z) : option Z :=
  if Nat.leb (length bs) 64 then
    let le := rev bs ++ zeros (64 - length bs) in
    let w0 := le_val (firstn 32 le) in
    let w1 := le_val (skipn 32 le) in
    let p255 := w0 / 2 ^ 255 in let lo := (w0 mod 2 ^ 255) mod p in
    let p511 := w1 / 2 ^ 255 in let hi := mulm p ((w1 mod 2 ^ 255) mod p) 38 in
    let lo' := addm p lo (if p255 =? 1 then 19 else 0) in
    let hi' := addm p hi (if p511 =? 1 then 722 else 0) in
    Some (addm p lo' hi')
  else None.

(* ---- instances --------------------------------------------------------------------------- *)

(* p - 1 = 2^e * m, m odd: the progenitor exponent is (m-1)/2 *)
Definition ts_progenitor (p : Z) (e : nat) : Z := ((p - 1) / 2 ^ Z.of_nat e - 1) / 2.

(* The Tonelli–Shanks constants (2-adicity, progenitor exponent, root of unity) and the coordinate
   sizes below are proved equal to the constants regenerated from the field sources
   (gen/CodecConsts.v) in proofs/PointCodec_proofs.v (codec_consts_tie). *)
Definition k256_codec : wcodec :=
  mk_wcodec k256_params 1 (ts_progenitor (wp_p k256_params) 1) (wp_p k256_params - 1) 32.
Definition p256_codec : wcodec :=
  mk_wcodec p256_params 1 (ts_progenitor (wp_p p256_params) 1) (wp_p p256_params - 1) 32.
Definition pallas_codec : wcodec :=
  mk_wcodec pallas_params 32 (ts_progenitor (wp_p pallas_params) 32)
    0x2bce74deac30ebda362120830561f81aea322bf2b7bb7584bdad6fabd87ea32f 32.
Definition vesta_codec : wcodec :=
  mk_wcodec vesta_params 32 (ts_progenitor (wp_p vesta_params) 32)
    0x2de6a9b8746d3f589e5c4dfd492ae26e9bb97ea3c106f049a70e2c1102b6d05f 32.
Definition blsg1_codec : wcodec :=
  mk_wcodec bls12381g1_params 1 (ts_progenitor bls12381_p 1) (bls12381_p - 1) 48.
Definition blsg2_codec : w2codec :=
  mk_w2codec bls12381g2_params 1 (ts_progenitor bls12381_p 1) (bls12381_p - 1) 48.
Definition ed25519_codec : ecodec :=
  mk_ecodec ed25519_params 2 (ts_progenitor (ep_p ed25519_params) 2)
    0x2b8324804fc1df0b2b4d00993dfbd7a72f431806ad2fe478c4ee1b274a0ea0b0 32.
Definition curve25519_c : Z := mp_c curve25519_params.


(* The same instances once more with every constant written out inside a function body: the
   extracted OCaml evaluates them on demand (forty 256..381-bit constants at module level exhaust
   the OCaml compiler's stack).  proofs/PointCodec_proofs.v shows  k256_codec_f tt = k256_codec
   etc., so these are the instances the theorems speak about. *)
Definition k256_codec_f (_ : unit) : wcodec :=
  let p := 0xfffffffffffffffffffffffffffffffffffffffffffffffffffffffefffffc2f in
  mk_wcodec (mk_wparams p 0 7
      0x79be667ef9dcbbac55a06295ce870b07029bfcdb2dce28d959f2815b16f81798
      0x483ada7726a3c4655da4fbfc0e1108a8fd17b448a68554199c47d08ffb10d4b8
      0xfffffffffffffffffffffffffffffffebaaedce6af48a03bbfd25e8cd0364141 1)
    1 (ts_progenitor p 1) (p - 1) 32.

Definition p256_codec_f (_ : unit) : wcodec :=
  let p := 0xffffffff00000001000000000000000000000000ffffffffffffffffffffffff in
  mk_wcodec (mk_wparams p 0xffffffff00000001000000000000000000000000fffffffffffffffffffffffc 0x5ac635d8aa3a93e7b3ebbd55769886bc651d06b0cc53b0f63bce3c3e27d2604b
      0x6b17d1f2e12c4247f8bce6e563a440f277037d812deb33a0f4a13945d898c296
      0x4fe342e2fe1a7f9b8ee7eb4a7c0f9e162bce33576b315ececbb6406837bf51f5
      0xffffffff00000000ffffffffffffffffbce6faada7179e84f3b9cac2fc632551 1)
    1 (ts_progenitor p 1) (p - 1) 32.

Definition pallas_codec_f (_ : unit) : wcodec :=
  let p := 0x40000000000000000000000000000000224698fc094cf91b992d30ed00000001 in
  mk_wcodec (mk_wparams p 0 5
      1
      0x1b74b5a30a12937c53dfa9f06378ee548f655bd4333d477119cf7a23caed2abb
      0x40000000000000000000000000000000224698fc0994a8dd8c46eb2100000001 1)
    32 (ts_progenitor p 32) 0x2bce74deac30ebda362120830561f81aea322bf2b7bb7584bdad6fabd87ea32f 32.

Definition vesta_codec_f (_ : unit) : wcodec :=
  let p := 0x40000000000000000000000000000000224698fc0994a8dd8c46eb2100000001 in
  mk_wcodec (mk_wparams p 0 5
      1
      0x1943666ea922ae6b13b64e3aae89754cacce3a7f298ba20c4e4389b9b0276a62
      0x40000000000000000000000000000000224698fc094cf91b992d30ed00000001 1)
    32 (ts_progenitor p 32) 0x2de6a9b8746d3f589e5c4dfd492ae26e9bb97ea3c106f049a70e2c1102b6d05f 32.

Definition blsg1_codec_f (_ : unit) : wcodec :=
  let p := 0x1a0111ea397fe69a4b1ba7b6434bacd764774b84f38512bf6730d2a0f6b0f6241eabfffeb153ffffb9feffffffffaaab in
  mk_wcodec (mk_wparams p 0 4
      0x17f1d3a73197d7942695638c4fa9ac0fc3688c4f9774b905a14e3a3f171bac586c55e83ff97a1aeffb3af00adb22c6bb
      0x08b3f481e3aaa0f1a09e30ed741d8ae4fcf5e095d5d00af600db18cb2c04b3edd03cc744a2888ae40caa232946c5e7e1
      0x73eda753299d7d483339d80809a1d80553bda402fffe5bfeffffffff00000001 1)
    1 (ts_progenitor p 1) (p - 1) 48.

Definition blsg2_codec_f (_ : unit) : w2codec :=
  let p := 0x1a0111ea397fe69a4b1ba7b6434bacd764774b84f38512bf6730d2a0f6b0f6241eabfffeb153ffffb9feffffffffaaab in
  mk_w2codec (mk_w2params p (0, 0) (4, 4)
      (0x024aa2b2f08f0a91260805272dc51051c6e47ad4fa403b02b4510b647ae3d1770bac0326a805bbefd48056c8c121bdb8,
       0x13e02b6052719f607dacd3a088274f65596bd0d09920b61ab5da61bbdc7f5049334cf11213945d57e5ac7d055d042b7e)
      (0x0ce5d527727d6e118cc9cdc6da2e351aadfd9baa8cbdd3a76d429a695160d12c923ac9cc3baca289e193548608b82801,
       0x0606c4a02ea734cc32acd2b02bc28b99cb3e287e85a763af267492ab572e99ab3f370d275cec1da1aaa9075ff05f79be)
      0x73eda753299d7d483339d80809a1d80553bda402fffe5bfeffffffff00000001 1)
    1 (ts_progenitor p 1) (p - 1) 48.

Definition ed25519_codec_f (_ : unit) : ecodec :=
  let p := 0x7fffffffffffffffffffffffffffffffffffffffffffffffffffffffffffffed in
  mk_ecodec (mk_eparams p 0x7fffffffffffffffffffffffffffffffffffffffffffffffffffffffffffffec 0x52036cee2b6ffe738cc740797779e89800700a4d4141d8ab75eb4dca135978a3
      0x216936d3cd6e53fec0a4e231fdd6dc5c692cc7609525a7b2c9562d608f25d51a
      0x6666666666666666666666666666666666666666666666666666666666666658
      0x1000000000000000000000000000000014def9dea2f79cd65812631a5cf5d3ed 8)
    2 (ts_progenitor p 2) 0x2b8324804fc1df0b2b4d00993dfbd7a72f431806ad2fe478c4ee1b274a0ea0b0 32.

Definition curve25519_params_f (_ : unit) : mparams :=
  mk_mparams 0x7fffffffffffffffffffffffffffffffffffffffffffffffffffffffffffffed 486662 9
    0x5f51e65e475f794b1fe122d388b72eb36dc2b28192839e4dd6163a5d81312c14
    0x1000000000000000000000000000000014def9dea2f79cd65812631a5cf5d3ed 8
    0x0f26edf460a006bbd27b08dc03fc4f7ec5a1d3d14b7d1a82cc6e04aaff457e06.

(* is b a square?  (Euler) — decides whether a point with x = 0 exists *)
Definition euler (p v : Z) : Z := zp_pow p v ((p - 1) / 2).
