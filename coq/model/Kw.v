(* Kw.v — executable model of the Karchmer–Wigderson MSP-based sharing scheme
   (scheme/kw/{scheme,dealerfunc,share}.go).  No proofs here.

     NewDealerFunc / DealAndRevealDealerFunc -> [deal_lambda] / [deal]   (lambda = M·r, r_0 = secret)
     DealerFunc.ShareOf                      -> [share_of]
     Scheme.Reconstruct / shareColumn        -> [reconstruct] / [share_column]
     Scheme.ConvertShareToAdditive           -> [to_additive]
     Share.Add / Share.ScalarMul             -> [share_add] / [share_scale]

   A share is (holder ID, values ordered by ascending MSP row index). *)
From Coq Require Import List NArith Bool Arith.
Import ListNotations.
Require Import V.base.Fld V.model.LinAlg V.model.Access V.model.Msp.

Section Kw.
Context {F : Type} (K : fops F).

Definition share := (N * list F)%type.

(* NewDealerFunc: the random column has at least 2 rows (a one-column MSP is refused) and
   M·r must be defined (TryMul dimension check) *)
Definition deal_lambda (m : msp (F:=F)) (r : list F) : option (list F) :=
  if Nat.ltb (length r) 2 then None
  else if negb (Nat.eqb (msp_D m) (length r)) then None
  else Some (mvec K (msp_M m) r).

Definition share_of (m : msp (F:=F)) (lambda : list F) (id : N) : share :=
  (id, map (fun i => nth i lambda (f0 K)) (rows_of m id)).

(* DealAndRevealDealerFunc: one share per shareholder of the MSP (listed by ascending ID) *)
Definition deal (m : msp (F:=F)) (r : list F) : option (list share) :=
  match deal_lambda m r with
  | None => None
  | Some lambda => Some (map (share_of m lambda) (msp_holders m))
  end.

(* shareColumn: checks per share, then the column of length nRows = Σ |rows_i| (over the share
   LIST, repetitions included) whose first entries are the values by ascending row index
   (a later share for the same rows overwrites an earlier one), the rest zero *)
Fixpoint lookup_row (r : nat) (l : list (nat * F)) : option F :=
  match l with
  | [] => None
  | (k, v) :: t => if Nat.eqb k r then Some v else lookup_row r t
  end.

Definition share_column (m : msp (F:=F)) (shares : list share) : option (list F) :=
  if forallb (fun sh => match rows_of m (fst sh) with
                        | [] => false
                        | rows => Nat.eqb (length rows) (length (snd sh))
                        end) shares
  then
    let nrows := fold_right (fun sh acc => (length (rows_of m (fst sh)) + acc)%nat) O shares in
    (* lambdaByRow, later shares first so that they win *)
    let byrow := flat_map (fun sh => combine (rows_of m (fst sh)) (snd sh)) (rev shares) in
    let keys := filter (fun r => match lookup_row r byrow with Some _ => true | None => false end)
                       (seq 0 (msp_size m)) in
    let vals := map (fun r => match lookup_row r byrow with Some v => v | None => f0 K end) keys in
    Some (vals ++ repeat (f0 K) (nrows - length keys))
  else None.

Definition reconstruct (m : msp (F:=F)) (shares : list share) : option F :=
  match shares with
  | [] => None
  | _ =>
    match recon_vector K m (map fst shares) with
    | None => None
    | Some rv =>
      match share_column m shares with
      | None => None
      | Some col =>
        if Nat.eqb (length rv) (length col) then Some (dot K rv col) else None  (* DotProduct length check *)
      end
    end
  end.

(* ConvertShareToAdditive(share, quorum): Σ coefficient_i · value_i over the holder's rows *)
Definition to_additive (m : msp (F:=F)) (sh : share) (quorum : list N) : option F :=
  if negb (memN (fst sh) quorum) then None else
  match recon_coeffs K m (fst sh) quorum with
  | None => None
  | Some cs =>
    if Nat.eqb (length (snd sh)) (length cs)
    then Some (fold_left (fun acc cv => fadd K acc (fmul K (fst cv) (snd cv))) (combine cs (snd sh)) (f0 K))
    else None
  end.

(* Share.Add panics on different IDs or lengths: None *)
Definition share_add (a b : share) : option share :=
  if N.eqb (fst a) (fst b) && Nat.eqb (length (snd a)) (length (snd b))
  then Some (fst a, map (fun xy => fadd K (fst xy) (snd xy)) (combine (snd a) (snd b)))
  else None.

Definition share_scale (c : F) (a : share) : share :=
  (fst a, map (fun x => fmul K x c) (snd a)).

End Kw.
