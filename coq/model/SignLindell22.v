(* SignLindell22.v — executable model, in the exponent, of Lindell22 threshold Schnorr signing
   (pkg/mpc/signatures/schnorr/lindell22/signing/{rounds,aggregator,participant}.go) with the
   three Schnorr flavours of pkg/signatures/schnorrlike/{schnorr,bip340,mina}.

   The group is the field F in the exponent (k·g is k).  Abstract observations of a point:
     odd k    parity of the affine y-coordinate of k·g
     xo k     the x-only encoding of k·g (what BIP-340 hashes / compares; what Mina hashes of R)
   The Fiat–Shamir hash is an arbitrary function [chal] of (encoding of R, encoding of P, m).
   Parties are the indices 0..n-1 of the quorum; names follow the code:
     k i        the nonce of Round1 (RandomNonIdentity)
     a i        ConvertShareToAdditive(share_i, quorum)
     z i        c.state.zeroShift (party i's additive share of the HJKY zero sharing)
   Commit/open of R_i and the dlog proofs do not change values; they are modelled as the
   equality checks the receivers perform.  No proofs here. *)
From Coq Require Import List Bool Arith ZArith.
Import ListNotations.
Require Import V.base.Fld.

Inductive flavour := Vanilla (response_negative : bool) | Bip340 | Mina.

Section L22.
  Context {F : Type} (K : fops F) {M : Type}.
  Variable odd : F -> bool.
  Variable xo : F -> F.
  Variable chal : F -> F -> M -> F.

  Local Notation "x + y" := (fadd K x y).
  Local Notation "x - y" := (fsub K x y).
  Local Notation "x * y" := (fmul K x y).
  Local Notation "- x" := (fopp K x).

  Definition sum_over (l : list nat) (f : nat -> F) : F :=
    fold_right (fun i acc => f i + acc) (f0 K) l.
  Definition parties (n : nat) : list nat := seq 0 n.

  Record inputs := mk_inputs { in_n : nat; in_k : nat -> F; in_a : nat -> F; in_z : nat -> F }.

  (* what ComputeChallenge feeds the hash for the nonce commitment / the public key *)
  Definition enc_r (fl : flavour) (r : F) : F :=
    match fl with Vanilla _ => r | Bip340 => xo r | Mina => xo r end.
  Definition enc_p (fl : flavour) (p : F) : F :=
    match fl with Bip340 => xo p | _ => p end.
  Definition challenge (fl : flavour) (r p : F) (m : M) : F := chal (enc_r fl r) (enc_p fl p) m.

  (* variant.CorrectAdditiveSecretShareParity / CorrectPublicKeyShareParity: x = exponent of the aggregate key *)
  Definition correct_share (fl : flavour) (x s : F) : F :=
    match fl with Bip340 => if odd x then - s else s | _ => s end.
  (* variant.CorrectPartialNonceParity / CorrectPartialNonceCommitmentParity: r = exponent of the aggregate nonce commitment *)
  Definition correct_nonce (fl : flavour) (r k : F) : F :=
    match fl with Vanilla _ => k | _ => if odd r then - k else k end.
  (* variant.ComputeResponse *)
  Definition response (fl : flavour) (x k e : F) : F :=
    match fl with Vanilla true => k + (- (e * x)) | _ => k + e * x end.

  (* step 3.4: R = sum of all R_j (own one included) *)
  Definition big_r (inp : inputs) : F := sum_over (parties (in_n inp)) (in_k inp).
  (* the effective additive share: ashare.Add(zeroShift) *)
  Definition eff_share (inp : inputs) (i : nat) : F := in_a inp i + in_z inp i.

  (* partial signature (E, R, S) *)
  Definition psig := (F * F * F)%type.

  (* Round3 at party i; x is the exponent of the shard's public key.  None = error.
     For the two parity flavours the y-coordinate of the aggregate R is needed, which does not
     exist for the identity. *)
  Definition round3 (fl : flavour) (inp : inputs) (m : M) (x : F) (i : nat) : option psig :=
    let r := big_r inp in
    let needs_y := match fl with Vanilla _ => false | _ => true end in
    (* Round2, computeEffectivePartialPublicKeys: abort if some effective partial public key is the identity *)
    if existsb (fun j => fis0 K (eff_share inp j)) (parties (in_n inp)) then None
    else if needs_y && fis0 K r then None
    else if (match fl with Bip340 => fis0 K x | _ => false end) then None
    else
      let e := challenge fl r x m in
      let sh := correct_share fl x (eff_share inp i) in
      let k' := correct_nonce fl r (in_k inp i) in
      Some (e, k', response fl sh k' e).

  (* ---- single-party verifiers (the library's own) ------------------------------------ *)
  Definition ssig := (F * F * F)%type.   (* (E, R, S) *)

  (* schnorrlike.VerifierTrait.Verify: s·g = R ± e·P, e recomputed *)
  Definition verify_generic (fl : flavour) (neg : bool) (x : F) (m : M) (sg : ssig) : bool :=
    let '(_, r, s) := sg in
    negb (fis0 K x) && negb (fis0 K s) && negb (fis0 K r) &&
    (let e := challenge fl r x m in
     feqb K s (if neg then r + (- (e * x)) else r + e * x)).

  (* bip340.Verifier.Verify (standard path) *)
  Definition verify_bip340 (x : F) (m : M) (sg : ssig) : bool :=
    let '(_, r, s) := sg in
    negb (fis0 K r) && negb (fis0 K s) && negb (fis0 K x) &&
    (let d := if odd x then - x else x in          (* lift_x *)
     let e := challenge Bip340 r d m in
     let r' := s - e * d in
     negb (fis0 K r') && negb (odd r') && feqb K (xo r') (xo r)).

  Definition verify (fl : flavour) (x : F) (m : M) (sg : ssig) : bool :=
    match fl with
    | Vanilla neg => verify_generic fl neg x m sg
    | Mina => verify_generic fl false x m sg
    | Bip340 => verify_bip340 x m sg
    end.

  (* the partial-signature verifier of the cosigning aggregator for sender i:
     psig.R equals the corrected R_i it recorded, and  s_i·g - e·P'_i = R'_i  (resp. + for the
     negative response operator) with the stored challenge *)
  Definition psig_ok (fl : flavour) (inp : inputs) (x : F) (i : nat) (p : psig) : bool :=
    let '(e, r, s) := p in
    feqb K r (correct_nonce fl (big_r inp) (in_k inp i)) &&
    negb (fis0 K (eff_share inp i)) && negb (fis0 K s) && negb (fis0 K r) &&
    (let pi := correct_share fl x (eff_share inp i) in
     feqb K s (response fl pi r e)).

  (* Aggregator.Aggregate.  cosigning = the aggregator was made with NewCosigningAggregator *)
  Definition aggregate (fl : flavour) (cosigning : bool) (inp : inputs) (m : M) (x : F) (ps : list psig)
    : option ssig :=
    if cosigning && negb (forallb (fun ip => psig_ok fl inp x (fst ip) (snd ip)) (combine (parties (in_n inp)) ps))
    then None
    else
      (* cosigning: the cosigner's uncorrected aggregate, passed through
         variant.CorrectPartialNonceCommitmentParity(bigR, bigR) (fix 087e5ff: before it the
         uncorrected aggregate was used and Mina signing failed whenever R had odd y);
         otherwise the sum of the corrected partial commitments *)
      let r := if cosigning then correct_nonce fl (big_r inp) (big_r inp)
               else fold_right (fun p acc => snd (fst p) + acc) (f0 K) ps in
      let s := fold_right (fun p acc => snd p + acc) (f0 K) ps in
      let needs_y := match fl with Vanilla _ => false | _ => true end in
      if needs_y && fis0 K r then None           (* ComputeChallenge needs affine coordinates *)
      else
        let e := challenge fl r x m in
        if negb (forallb (fun p => feqb K (fst (fst p)) e) ps) then None
        else if fis0 K s then None               (* schnorrlike.NewSignature *)
        else if verify fl x m (e, r, s) then Some (e, r, s) else None.

  Fixpoint all_some {A} (l : list (option A)) : option (list A) :=
    match l with
    | [] => Some []
    | None :: _ => None
    | Some a :: t => match all_some t with Some t' => Some (a :: t') | None => None end
    end.

  Definition sign (fl : flavour) (cosigning : bool) (inp : inputs) (m : M) (x : F) : option ssig :=
    match all_some (map (round3 fl inp m x) (parties (in_n inp))) with
    | None => None
    | Some ps => aggregate fl cosigning inp m x ps
    end.

  (* closed forms *)
  Definition expected_r (fl : flavour) (inp : inputs) : F := correct_nonce fl (big_r inp) (big_r inp).
  Definition expected_s (fl : flavour) (inp : inputs) (m : M) (x : F) : F :=
    let r := big_r inp in
    response fl (correct_share fl x x) (expected_r fl inp) (challenge fl r x m).

  (* the serialised signature: what SerializeSignature keeps of R, and s *)
  Definition wire (fl : flavour) (sg : ssig) : F * F :=
    let '(_, r, s) := sg in (enc_r fl r, s).

End L22.

(* ---- concrete instance for the correspondence check: Z_q, x-only = min(k, -k), the parity
   table restricted to the points that occur (R, -R, P, -P), the challenge supplied. *)
Definition l22_inputs_Z (n : nat) (k a z : list Z) : inputs (F:=Z) :=
  let g (l : list Z) (i : nat) := nth i l 0%Z in mk_inputs n (g k) (g a) (g z).

Definition l22_run_Z (q : Z) (fl : flavour) (cosigning : bool) (inp : inputs (F:=Z)) (x e : Z) (odd_r odd_p : bool)
  : option (Z * Z * Z) * Z * Z :=
  let K := Zp q in
  let r := big_r K inp in
  let oddf := fun t : Z =>
    if (t =? r)%Z then odd_r else if (t =? fopp K r)%Z then negb odd_r
    else if (t =? x)%Z then odd_p else if (t =? fopp K x)%Z then negb odd_p else false in
  let xof := fun t : Z => Z.min t (fopp K t) in
  let chalf := fun (_ _ : Z) (_ : unit) => e in
  (sign K oddf xof chalf fl cosigning inp tt x, r, expected_s K oddf xof chalf fl inp tt x).
