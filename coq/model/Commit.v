(* Commit.v — executable model of pkg/commitments (C18).  No proofs here.

   hashcom      keyed BLAKE2b-256 (blake2b.New256(key)) over  message ‖ witness,
                key/witness/digest 32 bytes, Open = recompute and compare
                (internal.GenericOpen).
   pedersencom  C = m·g + r·h in a prime-order group written in the exponent:
                elements are linear forms c0 + c1·X over Z_q (g ↦ 1, h ↦ X when the
                discrete log of h is unknown; h = λ·g for a trapdoor key).
   intcom       C = s^m · t^r mod N̂ over Z (signed exponents: ExpI inverts first).
   indcpacom    C = Enc_ek(m; r): abstract deterministic [enc]; executable instance
                ElGamal in the exponent  (r, μ + r·x).
   key extraction  hashcom/pedersencom/intcom ExtractCommitmentKey = a transcript
                extraction (model/Transcript.v) post-processed by a map into keys. *)
From Coq Require Import List NArith ZArith Bool Zpow_facts.
Import ListNotations.
Require Import V.base.Bytes V.base.Fld V.gen.Hagrid V.gen.Hashcom V.model.Transcript.

(* ===================================================================== *)
(* hashcom                                                                *)
(* ===================================================================== *)

(* sizes, the hash key and the bytes written to the hash are regenerated from
   hashcom.go / key.go (gen/Hashcom.v) *)
Definition KeySize : nat := hashcom_KeySize.
Definition DigestSize : nat := hashcom_DigestSize.

Fixpoint bytes_eqb (a b : bytes) : bool :=
  match a, b with
  | [], [] => true
  | x :: a', y :: b' => N.eqb x y && bytes_eqb a' b'
  | _, _ => false
  end.

(* h.Write(message); h.Write(witness[:])  — no length prefix, witness last *)
Definition hashcom_input (k msg w : bytes) : bytes := hashcom_writes k msg w.

(* key and witness are Go arrays [32]byte: other lengths are not representable *)
Definition hashcom_wf (k w : bytes) : Prop := length k = KeySize /\ length w = DigestSize.

Section Hashcom.
  Variable H : bytes -> bytes -> bytes.    (* H key input = BLAKE2b-256 keyed with key *)

  Definition hashcom_commit (k msg w : bytes) : bytes := H (hashcom_hash_key k) (hashcom_input k msg w).

  (* GenericOpen: recompute, Commitment.Equal = bytes.Equal *)
  Definition hashcom_open (k c msg w : bytes) : bool := bytes_eqb (hashcom_commit k msg w) c.
End Hashcom.

(* ===================================================================== *)
(* scalars mod q and linear forms                                         *)
(* ===================================================================== *)

Definition sc_add (q a b : Z) : Z := ((a + b) mod q)%Z.
Definition sc_sub (q a b : Z) : Z := ((a - b) mod q)%Z.
Definition sc_neg (q a : Z) : Z := ((- a) mod q)%Z.
Definition sc_mul (q a b : Z) : Z := ((a * b) mod q)%Z.

(* TryInv: extended Euclid (base/Fld.v egcd); None when not invertible *)
Definition try_inv (q a : Z) : option Z :=
  let '(g, x, _) := egcd (S (Z.to_nat (Z.log2_up q) * 2 + 2)) (a mod q)%Z q in
  if (g =? 1)%Z then Some (x mod q)%Z else None.

Definition lf := (Z * Z)%type.          (* c0 + c1·X *)

Definition lf_norm (q : Z) (a : lf) : lf := ((fst a mod q)%Z, (snd a mod q)%Z).
Definition lf_add (q : Z) (a b : lf) : lf := (sc_add q (fst a) (fst b), sc_add q (snd a) (snd b)).
Definition lf_neg (q : Z) (a : lf) : lf := (sc_neg q (fst a), sc_neg q (snd a)).
Definition lf_scale (q k : Z) (a : lf) : lf := (sc_mul q k (fst a), sc_mul q k (snd a)).
Definition lf_eqb (a b : lf) : bool := Z.eqb (fst a) (fst b) && Z.eqb (snd a) (snd b).
Definition lf_is_zero (q : Z) (a : lf) : bool := lf_eqb (lf_norm q a) (0, 0)%Z.

(* ===================================================================== *)
(* pedersencom                                                            *)
(* ===================================================================== *)

Record ped_key := { pk_g : lf; pk_h : lf }.

(* the key whose second generator has unknown discrete log: g ↦ 1, h ↦ X *)
Definition ped_std_key : ped_key := {| pk_g := (1, 0)%Z; pk_h := (0, 1)%Z |}.

(* NewCommitmentKeyUnchecked: rejects equal generators and the identity *)
Definition ped_new_key (q : Z) (g h : lf) : option ped_key :=
  if lf_eqb (lf_norm q g) (lf_norm q h) then None
  else if lf_is_zero q g || lf_is_zero q h then None
  else Some {| pk_g := lf_norm q g; pk_h := lf_norm q h |}.

(* CommitWithWitness: g.ScalarOp(m).Op(h.ScalarOp(r)) *)
Definition ped_commit (q : Z) (k : ped_key) (m r : Z) : lf :=
  lf_add q (lf_scale q m (pk_g k)) (lf_scale q r (pk_h k)).

(* Open = GenericOpen: recompute and compare group elements *)
Definition ped_open (q : Z) (k : ped_key) (c : lf) (m r : Z) : bool :=
  lf_eqb (ped_commit q k m r) (lf_norm q c).

(* homomorphic operations as the API names them *)
Definition ped_commitment_op (q : Z) (c1 c2 : lf) : lf := lf_add q c1 c2.
Definition ped_commitment_op_inv (q : Z) (c : lf) : lf := lf_neg q c.
Definition ped_commitment_scalar_op (q : Z) (c : lf) (s : Z) : lf := lf_scale q s c.
Definition ped_rerandomise (q : Z) (k : ped_key) (c : lf) (shift : Z) : lf :=
  lf_add q c (lf_scale q shift (pk_h k)).
Definition ped_shift (q : Z) (k : ped_key) (c : lf) (d : Z) : lf :=
  lf_add q c (lf_scale q d (pk_g k)).

(* trapdoor key: generator g and λ with h = λ·g *)
Record ped_tkey := { tk_g : lf; tk_lambda : Z }.

(* NewTrapdoorKey: rejects identity g, λ = 0, λ = 1 *)
Definition ped_new_tkey (q : Z) (g : lf) (lambda : Z) : option ped_tkey :=
  if lf_is_zero q g then None
  else if (lambda mod q =? 0)%Z then None
  else if (lambda mod q =? 1)%Z then None
  else Some {| tk_g := lf_norm q g; tk_lambda := (lambda mod q)%Z |}.

(* Export: the public key (g, h = λ·g) *)
Definition ped_export (q : Z) (t : ped_tkey) : ped_key :=
  {| pk_g := tk_g t; pk_h := lf_scale q (tk_lambda t) (tk_g t) |}.

(* TrapdoorKey.CommitWithWitness: (m + λ·r)·g *)
Definition ped_tcommit (q : Z) (t : ped_tkey) (m r : Z) : lf :=
  lf_scale q (sc_add q m (sc_mul q (tk_lambda t) r)) (tk_g t).

(* Equivocate: r' = r + λ⁻¹·(m − m'); refuses when λ is not invertible *)
Definition ped_equivocate (q : Z) (t : ped_tkey) (m r m' : Z) : option Z :=
  match try_inv q (tk_lambda t) with
  | None => None
  | Some li => Some (sc_add q r (sc_mul q li (sc_sub q m m')))
  end.

(* ===================================================================== *)
(* intcom: ring-Pedersen over Z_N̂^*                                      *)
(* ===================================================================== *)

Definition zn_inv (N a : Z) : Z := match try_inv N a with Some x => x | None => 0%Z end.

(* ExpI: negative exponents invert the base first *)
Definition zn_expi (N a e : Z) : Z :=
  if (0 <=? e)%Z then Zpow_mod a e N else Zpow_mod (zn_inv N a) (- e) N.

Record int_key := { ik_n : Z; ik_s : Z; ik_t : Z }.

(* CommitWithWitness: s.ExpI(m).Mul(t.ExpI(r)); m, r arbitrary signed integers *)
Definition int_commit (k : int_key) (m r : Z) : Z :=
  ((zn_expi (ik_n k) (ik_s k) m * zn_expi (ik_n k) (ik_t k) r) mod ik_n k)%Z.

Definition int_open (k : int_key) (c m r : Z) : bool := Z.eqb (int_commit k m r) (c mod ik_n k)%Z.

Definition int_commitment_op (k : int_key) (c1 c2 : Z) : Z := ((c1 * c2) mod ik_n k)%Z.
Definition int_commitment_op_inv (k : int_key) (c : Z) : Z := zn_inv (ik_n k) c.
Definition int_commitment_scalar_op (k : int_key) (c e : Z) : Z := zn_expi (ik_n k) c e.
Definition int_rerandomise (k : int_key) (c shift : Z) : Z :=
  ((c * zn_expi (ik_n k) (ik_t k) shift) mod ik_n k)%Z.
Definition int_shift (k : int_key) (c d : Z) : Z :=
  ((c * zn_expi (ik_n k) (ik_s k) d) mod ik_n k)%Z.

(* SampleWitness range [−N̂·2^80, N̂·2^80) *)
Definition int_witness_upper (k : int_key) : Z := (ik_n k * 2 ^ 80)%Z.
Definition int_witness_in_range (k : int_key) (r : Z) : bool :=
  ((- int_witness_upper k <=? r) && (r <? int_witness_upper k))%Z.

(* Equivocate (trapdoor λ = log_t s, ord = φ(N̂)/4 = modulus of λ): the result is
   r0 + x·ord with r0 = (r + λ(m − m')) mod ord and x drawn so that the result lies
   in the witness range; for m = m' the witness itself.  The sampled x is not
   modelled: [int_equivocate_ok] is the relation the returned witness must satisfy
   for the opening to verify (the range is a matter of hiding, reported separately
   through [int_witness_in_range]). *)
Definition int_equivocate_ok (ord lambda m r m' r' : Z) : bool :=
  if (m =? m')%Z then (r' =? r)%Z
  else ((r' - (r + lambda * (m - m'))) mod ord =? 0)%Z.

(* ===================================================================== *)
(* indcpacom                                                              *)
(* ===================================================================== *)

Section IndCpa.
  Variables K M R C : Type.
  Variable enc : K -> M -> R -> C.          (* EncryptWithNonce, deterministic *)
  Variable ceqb : C -> C -> bool.           (* Ciphertext.Equal *)

  Definition indcpa_commit (k : K) (m : M) (r : R) : C := enc k m r.
  Definition indcpa_open (k : K) (c : C) (m : M) (r : R) : bool := ceqb (enc k m r) c.
End IndCpa.

(* ElGamal in the exponent: secret x, h = x·g, plaintext μ·g, nonce r:
   ciphertext (r·g, μ·g + r·h) ↦ (r, μ + r·x) *)
Definition eg_enc (q x mu r : Z) : lf := ((r mod q)%Z, sc_add q mu (sc_mul q r x)).
Definition eg_open (q x : Z) (c : lf) (mu r : Z) : bool :=
  indcpa_open Z Z Z lf (eg_enc q) lf_eqb x (lf_norm q c) mu r.
Definition eg_rerandomise (q x : Z) (c : lf) (s : Z) : lf := lf_add q c (eg_enc q x 0 s).
Definition eg_shift (q : Z) (c : lf) (d : Z) : lf := lf_add q c (0, d mod q)%Z.

(* ===================================================================== *)
(* sequences of homomorphic operations on tracked openings                *)
(* ===================================================================== *)

Inductive hop :=
| HNew (m r : Z)               (* CommitWithWitness *)
| HOp (i j : nat)              (* CommitmentOp / MessageOp / WitnessOp *)
| HInv (i : nat)               (* …OpInv *)
| HScal (i : nat) (s : Z)      (* …ScalarOp *)
| HRer (i : nat) (shift : Z)   (* ReRandomise, witness ↦ WitnessOp(r, shift) *)
| HShift (i : nat) (d : Z).    (* Shift, message ↦ MessageOp(m, d) *)

Record hscheme (C : Type) := {
  hs_commit : Z -> Z -> C;
  hs_mop : Z -> Z -> Z; hs_minv : Z -> Z; hs_mscal : Z -> Z -> Z;
  hs_wop : Z -> Z -> Z; hs_winv : Z -> Z; hs_wscal : Z -> Z -> Z;
  hs_cop : C -> C -> C; hs_cinv : C -> C; hs_cscal : C -> Z -> C;
  hs_rer : C -> Z -> C; hs_shift : C -> Z -> C
}.
Arguments hs_commit {C}. Arguments hs_mop {C}. Arguments hs_minv {C}. Arguments hs_mscal {C}.
Arguments hs_wop {C}. Arguments hs_winv {C}. Arguments hs_wscal {C}.
Arguments hs_cop {C}. Arguments hs_cinv {C}. Arguments hs_cscal {C}.
Arguments hs_rer {C}. Arguments hs_shift {C}.

Definition hreg (C : Type) := (Z * Z * C)%type.     (* message, witness, commitment *)

Definition hstep {C} (S : hscheme C) (regs : list (hreg C)) (o : hop) : list (hreg C) :=
  match o with
  | HNew m r => regs ++ [(m, r, hs_commit S m r)]
  | HOp i j =>
      match nth_error regs i, nth_error regs j with
      | Some (m1, r1, c1), Some (m2, r2, c2) =>
          regs ++ [(hs_mop S m1 m2, hs_wop S r1 r2, hs_cop S c1 c2)]
      | _, _ => regs
      end
  | HInv i =>
      match nth_error regs i with
      | Some (m, r, c) => regs ++ [(hs_minv S m, hs_winv S r, hs_cinv S c)]
      | None => regs
      end
  | HScal i s =>
      match nth_error regs i with
      | Some (m, r, c) => regs ++ [(hs_mscal S m s, hs_wscal S r s, hs_cscal S c s)]
      | None => regs
      end
  | HRer i sft =>
      match nth_error regs i with
      | Some (m, r, c) => regs ++ [(m, hs_wop S r sft, hs_rer S c sft)]
      | None => regs
      end
  | HShift i d =>
      match nth_error regs i with
      | Some (m, r, c) => regs ++ [(hs_mop S m d, r, hs_shift S c d)]
      | None => regs
      end
  end.

Definition hrun {C} (S : hscheme C) (ops : list hop) : list (hreg C) :=
  fold_left (hstep S) ops [].

Definition ped_scheme (q : Z) (k : ped_key) : hscheme lf := {|
  hs_commit := ped_commit q k;
  hs_mop := sc_add q; hs_minv := sc_neg q; hs_mscal := sc_mul q;
  hs_wop := sc_add q; hs_winv := sc_neg q; hs_wscal := sc_mul q;
  hs_cop := ped_commitment_op q; hs_cinv := ped_commitment_op_inv q;
  hs_cscal := ped_commitment_scalar_op q;
  hs_rer := ped_rerandomise q k; hs_shift := ped_shift q k |}.

Definition int_scheme (k : int_key) : hscheme Z := {|
  hs_commit := int_commit k;
  hs_mop := Z.add; hs_minv := Z.opp; hs_mscal := Z.mul;
  hs_wop := Z.add; hs_winv := Z.opp; hs_wscal := Z.mul;
  hs_cop := int_commitment_op k; hs_cinv := int_commitment_op_inv k;
  hs_cscal := int_commitment_scalar_op k;
  hs_rer := int_rerandomise k; hs_shift := int_shift k |}.

Definition eg_scheme (q x : Z) : hscheme lf := {|
  hs_commit := eg_enc q x;
  hs_mop := sc_add q; hs_minv := sc_neg q; hs_mscal := sc_mul q;
  hs_wop := sc_add q; hs_winv := sc_neg q; hs_wscal := sc_mul q;
  hs_cop := lf_add q; hs_cinv := lf_neg q; hs_cscal := fun c s => lf_scale q s c;
  hs_rer := eg_rerandomise q x; hs_shift := eg_shift q |}.

(* ===================================================================== *)
(* the Equal methods: component-wise equality of keys                     *)
(* ===================================================================== *)

(* pedersencom CommitmentKey.Equal: g and h; TrapdoorKey.Equal: g and λ *)
Definition ped_key_eqb (q : Z) (a b : ped_key) : bool :=
  lf_eqb (lf_norm q (pk_g a)) (lf_norm q (pk_g b)) && lf_eqb (lf_norm q (pk_h a)) (lf_norm q (pk_h b)).
Definition ped_tkey_eqb (q : Z) (a b : ped_tkey) : bool :=
  lf_eqb (lf_norm q (tk_g a)) (lf_norm q (tk_g b)) && (tk_lambda a mod q =? tk_lambda b mod q)%Z.

(* intcom CommitmentKey.Equal: s and t (elements carry their modulus);
   TrapdoorKey.Equal: t and λ (λ carries its modulus, the order) *)
Definition int_key_eqb (a b : int_key) : bool :=
  ((ik_n a =? ik_n b) && (ik_s a =? ik_s b) && (ik_t a =? ik_t b))%Z.
Record int_tkey := { itk_n : Z; itk_t : Z; itk_lambda : Z; itk_ord : Z }.
Definition int_tkey_eqb (a b : int_tkey) : bool :=
  ((itk_n a =? itk_n b) && (itk_t a =? itk_t b) && (itk_lambda a =? itk_lambda b) && (itk_ord a =? itk_ord b))%Z.

(* indcpacom over ElGamal: the key is h = x·g *)
Definition eg_key_eqb (q x y : Z) : bool := (x mod q =? y mod q)%Z.

(* ===================================================================== *)
(* commitment keys extracted from a transcript                            *)
(* ===================================================================== *)

(* the XOF call made by transcript.ExtractBytes(label, n) after history h *)
Definition extract_call (name : bytes) (h : list op) (label : bytes) (n : N) : option xof_call :=
  snd (step (fst (run (new_transcript name) h)) (Ext label n)).

Definition label_empty (l : bytes) : bool := match l with [] => true | _ => false end.

Section Extract.
  Variable Key : Type.
  Variable XOF : xof_call -> bytes.        (* cSHAKE256 squeezed to xc_len bytes *)
  Variable of_bytes : bytes -> Key.        (* identity for hashcom; group.Hash for pedersencom *)

  (* ExtractCommitmentKey: refuses the empty label; n = KeySize for hashcom,
     ElementSize + 10 for a group (transcripts.Extract) *)
  Definition extract_key (n : N) (name : bytes) (h : list op) (label : bytes) : option Key :=
    if label_empty label then None
    else option_map (fun c => of_bytes (XOF c)) (extract_call name h label n).
End Extract.
