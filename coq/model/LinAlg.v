(* LinAlg.v — executable model of /repo/pkg/base/mat (L2 of DESIGN.md §3).  No proofs here;
   lemmas are in proofs/LinAlg_proofs.v, property theorems in props/C20.v.

   Matrices are row-major lists of rows over an arbitrary field record [K : fops F]
   (base/Fld.v).  Go's matrices always have rows >= 1 and cols >= 1 (NewMatrixModule
   rejects 0), so the column count is read off the first row ([ncols]).

   Written after the code, loop for loop where the algorithm matters:
     solver.go     solveAugmented -> [solve_augmented] ([gj_loop]/[gj_step]: first non-zero
                   pivot at or below pivotRow, swap, scale by the inverse pivot, eliminate
                   the column from ALL other rows (skipping zero factors), consistency scan
                   over the rows below the last pivot, free variables zero),
                   SolveRight -> [solve_right], SolveLeft -> [solve_left]
     square.go     TryInv -> [try_inv], Determinant -> [determinant], findPivotRow -> [find_pivot_row]
     traits.go     TryMul -> [try_mul]/[mmul], Transpose -> [transpose], Augment -> [augment],
                   SwapRowAssign -> [swap_rows], Minor -> [minor], SetColumn -> [set_column]
     vectors.go    DotProduct -> [dot]
     module_valued.go  Lift -> [lift], LeftAction -> [left_action], RightAction -> [right_action]
                   over an abstract module given by operations ([mops]).

   NAMES AND SHAPES BELOW ARE PUBLISHED (C02/C05 import this file): matrix, wf_matrix,
   wf_matrixb, dot, mvec, vecm, mmul, transpose, augment, col_vector, identity,
   solve_augmented, solve_right, solve_left, try_inv, determinant, mops, mlaws, lift,
   left_action, right_action. *)
From Coq Require Import List Arith Bool.
Import ListNotations.
Require Import V.base.Fld.

(* replace the i-th element (no-op when i is out of range) *)
Fixpoint upd {A : Type} (i : nat) (x : A) (l : list A) {struct l} : list A :=
  match l with
  | [] => []
  | h :: t => match i with O => x :: t | S i' => h :: upd i' x t end
  end.

(* map with index, indices starting at k *)
Fixpoint mapi_from {A B : Type} (k : nat) (f : nat -> A -> B) (l : list A) : list B :=
  match l with
  | [] => []
  | h :: t => f k h :: mapi_from (S k) f t
  end.
Definition mapi {A B : Type} (f : nat -> A -> B) (l : list A) : list B := mapi_from 0 f l.

(* an abstract module over the scalars S: the group operation, its identity and the
   scalar action  (Go: Op, OpIdentity, ScalarOp(elem, scalar)) *)
Record mops (G S : Type) := mk_mops {
  g0 : G;
  gadd : G -> G -> G;
  gsmul : G -> S -> G            (* gsmul x s = x.ScalarOp(s) *)
}.
Arguments g0 {G S} _. Arguments gadd {G S} _. Arguments gsmul {G S} _.

(* what proofs assume about a module over the field K *)
Record mlaws {F G : Type} (K : fops F) (Mo : mops G F) : Prop := mk_mlaws {
  ml_add_assoc : forall x y z, gadd Mo x (gadd Mo y z) = gadd Mo (gadd Mo x y) z;
  ml_add_comm : forall x y, gadd Mo x y = gadd Mo y x;
  ml_add_0_l : forall x, gadd Mo (g0 Mo) x = x;
  ml_smul_add_r : forall x s t, gsmul Mo x (fadd K s t) = gadd Mo (gsmul Mo x s) (gsmul Mo x t);
  ml_smul_add_l : forall x y s, gsmul Mo (gadd Mo x y) s = gadd Mo (gsmul Mo x s) (gsmul Mo y s);
  ml_smul_mul : forall x s t, gsmul Mo (gsmul Mo x s) t = gsmul Mo x (fmul K s t);
  ml_smul_1 : forall x, gsmul Mo x (f1 K) = x;
  ml_smul_0 : forall x, gsmul Mo x (f0 K) = g0 Mo;
  ml_0_smul : forall s, gsmul Mo (g0 Mo) s = g0 Mo
}.

Section LinAlg.
Context {F : Type} (K : fops F).

Definition matrix := list (list F).

Definition nrows (M : matrix) : nat := length M.
Definition ncols (M : matrix) : nat := match M with [] => O | r :: _ => length r end.

Definition wf_matrix (rows cols : nat) (M : matrix) : Prop :=
  length M = rows /\ Forall (fun r => length r = cols) M.
Definition wf_matrixb (rows cols : nat) (M : matrix) : bool :=
  Nat.eqb (length M) rows && forallb (fun r => Nat.eqb (length r) cols) M.

Definition row (i : nat) (M : matrix) : list F := nth i M [].
Definition entry (i j : nat) (M : matrix) : F := nth j (nth i M []) (f0 K).
Definition col (j : nat) (M : matrix) : list F := map (fun r => nth j r (f0 K)) M.

(* DotProduct / the inner accumulation loops of TryMul:  sum = sum.Add(a_k.Mul(b_k)) from Zero *)
Definition dot (u v : list F) : F :=
  fold_left (fun acc ab => fadd K acc (fmul K (fst ab) (snd ab))) (combine u v) (f0 K).

Definition mvec (M : matrix) (x : list F) : list F := map (fun r => dot r x) M.          (* M·x *)
Definition vecm (x : list F) (M : matrix) : list F :=                                     (* x·M *)
  map (fun j => dot x (col j M)) (seq 0 (ncols M)).
Definition mmul (A B : matrix) : matrix := map (fun r => vecm r B) A.
Definition transpose (M : matrix) : matrix := map (fun j => col j M) (seq 0 (ncols M)).

(* TryMul: dimension guard, then the triple loop *)
Definition try_mul (A B : matrix) : option matrix :=
  if Nat.eqb (ncols A) (nrows B) then Some (mmul A B) else None.

(* Augment: [A | B], row by row (caller guards equal row counts) *)
Definition augment (A B : matrix) : matrix := map (fun rs => fst rs ++ snd rs) (combine A B).
Definition col_vector (b : list F) : matrix := map (fun x => [x]) b.
Definition identity (n : nat) : matrix :=
  map (fun i => map (fun j => if Nat.eqb i j then f1 K else f0 K) (seq 0 n)) (seq 0 n).
Definition zero_vec (n : nat) : list F := repeat (f0 K) n.
Definition unit_vec (n i : nat) : list F := map (fun j => if Nat.eqb i j then f1 K else f0 K) (seq 0 n).

(* ---- elementary row operations as the code performs them --------------------- *)

Definition swap_rows (i j : nat) (M : matrix) : matrix := upd i (row j M) (upd j (row i M) M).

(* d[idx] = d[idx].Mul(c) over a whole row *)
Definition vscale (c : F) (r : list F) : list F := map (fun a => fmul K a c) r.
Definition scale_row (i : nat) (c : F) (M : matrix) : matrix := upd i (vscale c (row i M)) M.

(* d[ii] = d[ii].Sub(factor.Mul(d[pi])) over a whole row:  r - f*p *)
Definition vsubmul (f : F) (p r : list F) : list F :=
  map (fun ab => fsub K (fst ab) (fmul K f (snd ab))) (combine r p).

(* "for i := range rows { if i == pivotRow {continue}; factor := ...; if factor.IsZero() {continue}; row_i -= factor*row_p }"
   with the factors given (solveAugmented reads them from column pc of the same matrix, TryInv
   reads them from [a] and applies them to both [a] and [out]) *)
Definition eliminate_by (fs : list F) (p : nat) (M : matrix) : matrix :=
  let prow := row p M in
  mapi (fun i r => if Nat.eqb i p then r
                   else let f := nth i fs (f0 K) in
                        if fis0 K f then r else vsubmul f prow r) M.
Definition eliminate (p pc : nat) (M : matrix) : matrix := eliminate_by (col pc M) p M.

(* first row index >= start whose entry in column pc is non-zero; [rows] = skipn start M *)
Fixpoint find_pivot (pc start : nat) (rows : list (list F)) : option nat :=
  match rows with
  | [] => None
  | r :: t => if fis0 K (nth pc r (f0 K)) then find_pivot pc (S start) t else Some start
  end.
Definition find_pivot_row (pc start : nat) (M : matrix) : option nat :=
  find_pivot pc start (skipn start M).

(* ---- solveAugmented ------------------------------------------------------------ *)

Record gj_state := mk_gj { gj_M : matrix; gj_pr : nat; gj_pivs : list nat }.

(* one iteration of the column loop, for pivot column pc.  (The code's "pivot not
   invertible" branch is unreachable over a field: the pivot was just tested non-zero.) *)
Definition gj_step (pc : nat) (st : gj_state) : gj_state :=
  let M := gj_M st in let pr := gj_pr st in
  match find_pivot_row pc pr M with
  | None => st                                            (* free variable *)
  | Some p =>
      let M1 := if Nat.eqb p pr then M else swap_rows pr p M in
      let M2 := scale_row pr (finv K (entry pr pc M1)) M1 in
      let M3 := eliminate pr pc M2 in
      mk_gj M3 (S pr) (gj_pivs st ++ [pc])
  end.

(* for pc := 0; pc < numVars && pivotRow < rows; pc++   (todo = numVars - pc) *)
Fixpoint gj_loop (todo pc : nat) (st : gj_state) : gj_state :=
  match todo with
  | O => st
  | S t => if Nat.ltb (gj_pr st) (nrows (gj_M st)) then gj_loop t (S pc) (gj_step pc st) else st
  end.

(* sol := zeros; for i, pc := range pivotCols { sol[pc] = d[i, numVars] } *)
Definition extract_solution (n : nat) (M : matrix) (pivs : list nat) : list F :=
  fold_left (fun sol ip => upd (snd ip) (entry (fst ip) n M) sol)
            (combine (seq 0 (length pivs)) pivs) (zero_vec n).

Definition solve_augmented (aug : matrix) : option (list F) :=
  let n := pred (ncols aug) in
  let st := gj_loop n 0 (mk_gj aug 0 []) in
  if forallb (fun r => fis0 K (nth n r (f0 K))) (skipn (gj_pr st) (gj_M st))
  then Some (extract_solution n (gj_M st) (gj_pivs st))
  else None.                                              (* inconsistent: no solution exists *)

(* SolveRight: M·x = b, b a column of length rows(M) *)
Definition solve_right (M : matrix) (b : list F) : option (list F) :=
  if Nat.eqb (length b) (nrows M) then solve_augmented (augment M (col_vector b)) else None.

(* SolveLeft: x·M = r, r a row of length cols(M); builds [M^T | r^T] *)
Definition solve_left (M : matrix) (r : list F) : option (list F) :=
  if Nat.eqb (length r) (ncols M) then solve_augmented (augment (transpose M) (col_vector r)) else None.

(* ---- TryInv (square.go) ---------------------------------------------------------- *)

Definition inv_step (k : nat) (st : matrix * matrix) : option (matrix * matrix) :=
  let a := fst st in let out := snd st in
  match find_pivot_row k k a with
  | None => None                                           (* "matrix is singular" *)
  | Some p =>
      let a1 := if Nat.eqb p k then a else swap_rows k p a in
      let o1 := if Nat.eqb p k then out else swap_rows k p out in
      let c := fdiv K (f1 K) (entry k k a1) in
      let a2 := scale_row k c a1 in
      let o2 := scale_row k c o1 in
      let fs := col k a2 in
      Some (eliminate_by fs k a2, eliminate_by fs k o2)
  end.

Fixpoint inv_loop (todo k : nat) (st : matrix * matrix) : option (matrix * matrix) :=
  match todo with
  | O => Some st
  | S t => match inv_step k st with None => None | Some st' => inv_loop t (S k) st' end
  end.

Definition try_inv (M : matrix) : option matrix :=
  let n := nrows M in
  match inv_loop n 0 (M, identity n) with None => None | Some st => Some (snd st) end.

(* ---- Determinant (square.go): forward elimination, sign flips on swaps ------------ *)

Record det_state := mk_det { det_M : matrix; det_sign : F; det_acc : F }.

Definition det_elim (k : nat) (pivot : F) (M : matrix) : matrix :=
  let prow := row k M in
  mapi (fun i r => if Nat.ltb k i
                   then let factor := fdiv K (nth k r (f0 K)) pivot in
                        mapi (fun j a => if Nat.ltb k j then fsub K a (fmul K factor (nth j prow (f0 K)))
                                         else if Nat.eqb j k then f0 K else a) r
                   else r) M.

Definition det_step (k : nat) (st : det_state) : option det_state :=
  match find_pivot_row k k (det_M st) with
  | None => None                                           (* return Zero *)
  | Some p =>
      let M1 := if Nat.eqb p k then det_M st else swap_rows k p (det_M st) in
      let sg := if Nat.eqb p k then det_sign st else fopp K (det_sign st) in
      let pivot := entry k k M1 in
      Some (mk_det (det_elim k pivot M1) sg (fmul K (det_acc st) pivot))
  end.

Fixpoint det_loop (todo k : nat) (st : det_state) : option det_state :=
  match todo with
  | O => Some st
  | S t => match det_step k st with None => None | Some st' => det_loop t (S k) st' end
  end.

Definition determinant (M : matrix) : F :=
  match det_loop (nrows M) 0 (mk_det M (f1 K) (f1 K)) with
  | None => f0 K
  | Some st => fmul K (det_acc st) (det_sign st)
  end.

(* Minor(row, col): remove one row and one column; the code refuses dimensions <= 1 and
   out-of-range indices *)
Definition remove_nth {A : Type} (i : nat) (l : list A) : list A := firstn i l ++ skipn (S i) l.
Definition minor (r c : nat) (M : matrix) : option matrix :=
  if Nat.ltb r (nrows M) && Nat.ltb c (ncols M) && Nat.ltb 1 (nrows M) && Nat.ltb 1 (ncols M)
  then Some (map (remove_nth c) (remove_nth r M)) else None.

(* SetColumn(c, data) *)
Definition set_column (c : nat) (data : list F) (M : matrix) : option matrix :=
  if Nat.ltb c (ncols M) && Nat.eqb (length data) (nrows M)
  then Some (map (fun rd => upd c (snd rd) (fst rd)) (combine M data)) else None.

(* ---- module-valued matrices (module_valued.go) ----------------------------------- *)

Section ModuleValued.
Context {G : Type} (Mo : mops G F).

Definition gmatrix := list (list G).
Definition gncols (X : gmatrix) : nat := match X with [] => O | r :: _ => length r end.
Definition gcol (j : nat) (X : gmatrix) : list G := map (fun r => nth j r (g0 Mo)) X.

(* Lift: entry (i,j) = basePoint.ScalarOp(m[i,j]) *)
Definition lift_vec (v : list F) (g : G) : list G := map (fun c => gsmul Mo g c) v.
Definition lift (M : matrix) (g : G) : gmatrix := map (fun r => lift_vec r g) M.

(* sum = sum.Op(x_k.ScalarOp(a_k)) from OpIdentity *)
Definition gdot (a : list F) (xs : list G) : G :=
  fold_left (fun acc ax => gadd Mo acc (gsmul Mo (snd ax) (fst ax))) (combine a xs) (g0 Mo).

(* LeftAction actor x: (i,j) = Σ_k x[k,j]·actor[i,k] *)
Definition left_action (A : matrix) (X : gmatrix) : gmatrix :=
  map (fun r => map (fun j => gdot r (gcol j X)) (seq 0 (gncols X))) A.
Definition try_left_action (A : matrix) (X : gmatrix) : option gmatrix :=
  if Nat.eqb (ncols A) (length X) then Some (left_action A X) else None.

(* RightAction x actor: (i,j) = Σ_k x[i,k]·actor[k,j] *)
Definition right_action (X : gmatrix) (A : matrix) : gmatrix :=
  map (fun xr => map (fun j => gdot (col j A) xr) (seq 0 (ncols A))) X.
Definition try_right_action (X : gmatrix) (A : matrix) : option gmatrix :=
  if Nat.eqb (gncols X) (nrows A) then Some (right_action X A) else None.

End ModuleValued.

End LinAlg.

(* a field acting on itself is a module: used to run lift/left_action "in the exponent" *)
Definition self_module {F : Type} (K : fops F) : mops F F :=
  mk_mops F F (f0 K) (fadd K) (fmul K).
