(* Sigma.v — executable model of the sigma-protocol layer of pkg/proofs:
   - Maurer's unified protocol (pkg/proofs/internal/meta/maurer09/protocol.go) over two
     abelian groups given by their operations, a homomorphism phi, challenges acting as
     integers (big-endian value of the challenge bytes), the anchor (u, l);
   - batch Schnorr (pkg/proofs/dlog/batch_schnorr) in the exponent;
   - AND composition (sigma/compose/sigand: n-ary with a shared challenge, cartesian with
     per-branch challenge prefixes) and OR composition (sigma/compose/sigor: one real
     branch, all others simulated, challenge shares that XOR to the challenge);
   - the executable instance used by the correspondence check: prime-order groups as
     Z_q in the exponent, elements of the statement group as linear forms (vectors of
     coefficients over a basis of group elements of unknown mutual discrete logs).
   No proofs here (proofs/Sigma_proofs.v). *)
From Coq Require Import List ZArith NArith Bool.
Import ListNotations.
Require Import V.base.Bytes.
Local Open Scope Z_scope.

(* challenge bytes -> the integer the scalar multiplications use (num.N().FromBytes,
   big.Int.SetBytes: big endian) *)
Definition chal_int (e : bytes) : Z := Z.of_N (be_value e).

(* ---------- extended Euclid (math/big GCD as used by Extract) ---------- *)

(* returns (g, s, t) with s*a + t*b = g; fuel exhaustion returns (a,1,0), which still
   satisfies the identity but need not be the gcd — callers test g = 1 *)
Fixpoint egcd_fuel (n : nat) (a b : Z) : Z * Z * Z :=
  match n with
  | O => (a, 1, 0)
  | S n' =>
      if b =? 0 then (a, 1, 0)
      else let '(g, s, t) := egcd_fuel n' b (a mod b) in (g, t, s - (a / b) * t)
  end.

Definition egcd (a b : Z) : Z * Z * Z :=
  let fuel := Z.to_nat (4 * (Z.log2 (Z.abs a) + Z.log2 (Z.abs b)) + 16) in
  let '(g, s, t) := egcd_fuel fuel a b in
  if g <? 0 then (- g, - s, - t) else (g, s, t).

(* ---------- Maurer's protocol, generic in the two groups ---------- *)

Section Maurer.
  Variables W X : Type.
  (* pre-image (witness) group *)
  Variable wadd : W -> W -> W.
  Variable wneg : W -> W.
  Variable wsmul : Z -> W -> W.
  (* image (statement) group *)
  Variable xadd : X -> X -> X.
  Variable xneg : X -> X.
  Variable xsmul : Z -> X -> X.
  Variable xeqb : X -> X -> bool.
  (* the one-way homomorphism *)
  Variable phi : W -> X.

  (* ComputeProverCommitment: s <- random; a = phi(s) *)
  Definition maurer_commit (k : W) : X := phi k.

  (* ComputeProverResponse: z = s + e*w *)
  Definition maurer_respond (k w : W) (e : bytes) : W := wadd k (wsmul (chal_int e) w).

  (* Verify: phi(z) == a + e*x   (no length check on the challenge: the code has none) *)
  Definition maurer_verify (x a : X) (e : bytes) (z : W) : bool :=
    xeqb (phi z) (xadd a (xsmul (chal_int e) x)).

  (* RunSimulator: z <- random; a = phi(z) + e*(-x) *)
  Definition maurer_simulate (x : X) (e : bytes) (z : W) : X * W :=
    (xadd (phi z) (xsmul (chal_int e) (xneg x)), z).

  (* preImageScalarMulI: a negative exponent multiplies the inverse by |e| *)
  Definition wsmulI (b : W) (e : Z) : W :=
    if e <? 0 then wsmul (Z.abs e) (wneg b) else wsmul e b.

  (* Extract: both transcripts must verify; u = anchor.PreImage(x);
     (g,alpha,beta) = GCD(l, e1-e2); g must be 1; w = alpha*u + beta*(-z2 + z1) *)
  Definition maurer_extract (anchor_pre : X -> W) (ell : Z)
             (x a : X) (e1 : bytes) (z1 : W) (e2 : bytes) (z2 : W) : option W :=
    if negb (maurer_verify x a e1 z1) then None
    else if negb (maurer_verify x a e2 z2) then None
    else
      let u := anchor_pre x in
      let '(g, alpha, beta) := egcd ell (chal_int e1 - chal_int e2) in
      if negb (g =? 1) then None
      else Some (wadd (wsmulI u alpha) (wsmulI (wadd (wneg z2) z1) beta)).

  (* ValidateStatement *)
  Definition maurer_valid (x : X) (w : W) : bool := xeqb (phi w) x.
End Maurer.

(* ---------- abstract sigma protocols (for the composition layer) ---------- *)

Record sproto := {
  sp_X : Type;   (* statements *)
  sp_W : Type;   (* witnesses *)
  sp_A : Type;   (* commitments *)
  sp_S : Type;   (* prover state *)
  sp_Z : Type;   (* responses *)
  sp_R : Type;   (* randomness of one commitment / one simulation *)
  sp_len : nat;  (* GetChallengeBytesLength *)
  sp_commit : sp_X -> sp_W -> sp_R -> sp_A * sp_S;
  sp_respond : sp_X -> sp_W -> sp_A -> sp_S -> bytes -> sp_Z;
  sp_verify : sp_X -> sp_A -> bytes -> sp_Z -> bool;
  sp_sim : sp_X -> bytes -> sp_R -> sp_A * sp_Z;
  sp_valid : sp_X -> sp_W -> bool   (* ValidateStatement *)
}.

(* Maurer's protocol as an sproto (randomness = a pre-image group element) *)
Definition maurer_proto (W X : Type) (wadd : W -> W -> W) (wsmul : Z -> W -> W)
           (xadd : X -> X -> X) (xneg : X -> X) (xsmul : Z -> X -> X) (xeqb : X -> X -> bool)
           (phi : W -> X) (len : nat) : sproto :=
  {| sp_X := X; sp_W := W; sp_A := X; sp_S := W; sp_Z := W; sp_R := W;
     sp_len := len;
     sp_commit := fun _ _ k => (maurer_commit W X phi k, k);
     sp_respond := fun _ w _ k e => maurer_respond W wadd wsmul k w e;
     sp_verify := fun x a e z => maurer_verify W X xadd xsmul xeqb phi x a e z;
     sp_sim := fun x e z => maurer_simulate W X xadd xneg xsmul phi x e z;
     sp_valid := fun x w => maurer_valid W X xeqb phi x w |}.

(* ---------- sigand ---------- *)

(* cartesian.go: two different protocols, each gets the prefix of the challenge of its
   own length; the composed length is the maximum *)
Definition and2 (P0 P1 : sproto) : sproto :=
  {| sp_X := sp_X P0 * sp_X P1; sp_W := sp_W P0 * sp_W P1; sp_A := sp_A P0 * sp_A P1;
     sp_S := sp_S P0 * sp_S P1; sp_Z := sp_Z P0 * sp_Z P1; sp_R := sp_R P0 * sp_R P1;
     sp_len := Nat.max (sp_len P0) (sp_len P1);
     sp_commit := fun x w r =>
       let '(a0, s0) := sp_commit P0 (fst x) (fst w) (fst r) in
       let '(a1, s1) := sp_commit P1 (snd x) (snd w) (snd r) in
       ((a0, a1), (s0, s1));
     sp_respond := fun x w a s e =>
       (sp_respond P0 (fst x) (fst w) (fst a) (fst s) (firstn (sp_len P0) e),
        sp_respond P1 (snd x) (snd w) (snd a) (snd s) (firstn (sp_len P1) e));
     sp_verify := fun x a e z =>
       sp_verify P0 (fst x) (fst a) (firstn (sp_len P0) e) (fst z) &&
       sp_verify P1 (snd x) (snd a) (firstn (sp_len P1) e) (snd z);
     sp_sim := fun x e r =>
       let '(a0, z0) := sp_sim P0 (fst x) (firstn (sp_len P0) e) (fst r) in
       let '(a1, z1) := sp_sim P1 (snd x) (firstn (sp_len P1) e) (snd r) in
       ((a0, a1), (z0, z1));
     sp_valid := fun x w => sp_valid P0 (fst x) (fst w) && sp_valid P1 (snd x) (snd w) |}.

(* and.go: n copies of one protocol sharing the whole challenge; every length must be
   the configured count *)
Section AndN.
  Variable P : sproto.
  Variable count : nat.

  Fixpoint forallb3 {A B C} (f : A -> B -> C -> bool) (l1 : list A) (l2 : list B) (l3 : list C) : bool :=
    match l1, l2, l3 with
    | [], [], [] => true
    | a :: r1, b :: r2, c :: r3 => f a b c && forallb3 f r1 r2 r3
    | _, _, _ => false
    end.

  Definition andn_verify (xs : list (sp_X P)) (az : list (sp_A P)) (e : bytes) (zs : list (sp_Z P)) : bool :=
    Nat.eqb (length xs) count && Nat.eqb (length az) count && Nat.eqb (length zs) count &&
    forallb3 (fun x a z => sp_verify P x a e z) xs az zs.

  Fixpoint map3 {A B C D} (f : A -> B -> C -> D) (l1 : list A) (l2 : list B) (l3 : list C) : list D :=
    match l1, l2, l3 with
    | a :: r1, b :: r2, c :: r3 => f a b c :: map3 f r1 r2 r3
    | _, _, _ => []
    end.

  Definition andn_commit (xs : list (sp_X P)) (ws : list (sp_W P)) (rs : list (sp_R P)) : list (sp_A P * sp_S P) :=
    map3 (sp_commit P) xs ws rs.

  Definition andn_sim (xs : list (sp_X P)) (e : bytes) (rs : list (sp_R P)) : list (sp_A P * sp_Z P) :=
    map (fun xr => sp_sim P (fst xr) e (snd xr)) (combine xs rs).
End AndN.

(* ---------- sigor ---------- *)

Fixpoint xor_bytes (a b : bytes) : bytes :=   (* subtle.XORBytes on equal lengths *)
  match a, b with
  | x :: a', y :: b' => N.lxor x y :: xor_bytes a' b'
  | _, _ => []
  end.

Definition zero_bytes (n : nat) : bytes := repeat 0%N n.

Definition xor_all (n : nat) (es : list bytes) : bytes := fold_left xor_bytes es (zero_bytes n).

Section OrN.
  Variable P : sproto.
  Variable count : nat.

  Definition bytes_eqb (a b : bytes) : bool :=
    Nat.eqb (length a) (length b) && forallb (fun p => N.eqb (fst p) (snd p)) (combine a b).

  (* Verify: all lengths = count, challenge and every share of the protocol's challenge
     length, the shares XOR to the challenge, every branch verifies under its share *)
  Definition or_verify (xs : list (sp_X P)) (az : list (sp_A P)) (e : bytes)
             (es : list bytes) (zs : list (sp_Z P)) : bool :=
    Nat.eqb (length xs) count && Nat.eqb (length az) count && Nat.eqb (length zs) count &&
    Nat.eqb (length es) count && Nat.eqb (length e) (sp_len P) &&
    forallb (fun ei => Nat.eqb (length ei) (sp_len P)) es &&
    bytes_eqb e (xor_all (sp_len P) es) &&
    forallb3 (fun xa ei z => sp_verify P (fst xa) (snd xa) ei z) (combine xs az) es zs.

  (* prover: branch b is real (randomness r), branch i<>b is simulated with the share and
     simulator randomness given in sims (one entry per branch; entry b is unused).
     ComputeProverResponse: e_b = e xor (xor of all simulated shares), z_b = response of
     the real branch under e_b; simulated branches keep their (e_i, z_i). *)
  Fixpoint others {A} (i b : nat) (l : list A) : list A :=
    match l with
    | [] => []
    | x :: r => if Nat.eqb i b then others (S i) b r else x :: others (S i) b r
    end.

  Definition or_real_share (b : nat) (e : bytes) (sims : list (bytes * sp_R P)) : bytes :=
    fold_left xor_bytes (others 0 b (map fst sims)) e.

  Fixpoint or_branches (i b : nat) (eb : bytes) (xs : list (sp_X P)) (w : sp_W P) (r : sp_R P)
           (sims : list (bytes * sp_R P)) : list (sp_A P * bytes * sp_Z P) :=
    match xs, sims with
    | x :: xs', (ei, ri) :: sims' =>
        (if Nat.eqb i b
         then let '(a, s) := sp_commit P x w r in (a, eb, sp_respond P x w a s eb)
         else let '(a, z) := sp_sim P x ei ri in (a, ei, z))
        :: or_branches (S i) b eb xs' w r sims'
    | _, _ => []
    end.

  (* the whole prover: per branch (a_i, e_i, z_i) *)
  Definition or_prove (b : nat) (xs : list (sp_X P)) (w : sp_W P) (r : sp_R P)
             (sims : list (bytes * sp_R P)) (e : bytes) : list (sp_A P * bytes * sp_Z P) :=
    or_branches 0 b (or_real_share b e sims) xs w r sims.

  (* Verify on the prover's output format *)
  Definition or_verify_branches (xs : list (sp_X P)) (e : bytes) (br : list (sp_A P * bytes * sp_Z P)) : bool :=
    or_verify xs (map (fun t => fst (fst t)) br) e (map (fun t => snd (fst t)) br) (map snd br).
End OrN.

(* ---------- executable instance: Z_q in the exponent, linear forms ---------- *)

Definition vec := list Z.

Section Lin.
  Variable q : Z.

  Fixpoint vadd (a b : vec) : vec :=
    match a, b with
    | x :: a', y :: b' => ((x + y) mod q) :: vadd a' b'
    | _, _ => []
    end.
  Definition vneg (a : vec) : vec := map (fun x => (- x) mod q) a.
  Definition vsmul (n : Z) (a : vec) : vec := map (fun x => (n * x) mod q) a.
  Definition vzero (n : nat) : vec := repeat 0 n.
  Fixpoint veqb (a b : vec) : bool :=
    match a, b with
    | [], [] => true
    | x :: a', y :: b' => (x mod q =? y mod q) && veqb a' b'
    | _, _ => false
    end.

  (* phi as a matrix: row i is the image (a linear form of dimension n) of the i-th unit
     vector of the witness group; phi(w) = sum_i w_i * row_i *)
  Definition lin_phi (n : nat) (rows : list vec) (w : vec) : vec :=
    fold_left vadd (map (fun p => vsmul (fst p) (snd p)) (combine w rows)) (vzero n).

  Definition lin_commit n rows (k : vec) := maurer_commit vec vec (lin_phi n rows) k.
  Definition lin_respond (k w : vec) (e : bytes) := maurer_respond vec vadd vsmul k w e.
  Definition lin_verify n rows (x a : vec) (e : bytes) (z : vec) :=
    maurer_verify vec vec vadd vsmul veqb (lin_phi n rows) x a e z.
  Definition lin_simulate n rows (x : vec) (e : bytes) (z : vec) :=
    maurer_simulate vec vec vadd vneg vsmul (lin_phi n rows) x e z.
  Definition lin_extract n rows (u : vec) (ell : Z) (x a : vec) e1 z1 e2 z2 :=
    maurer_extract vec vec vadd vneg vsmul vadd vsmul veqb (lin_phi n rows) (fun _ => u) ell x a e1 z1 e2 z2.

  Definition lin_proto (n : nat) (rows : list vec) (len : nat) : sproto :=
    maurer_proto vec vec vadd vsmul vadd vneg vsmul veqb (lin_phi n rows) len.

  (* batch Schnorr in the exponent of the statement's generator: z = s + sum w_i e^i,
     check  z = a + sum x_i e^i  with e = FromWideBytes(challenge) = value mod q *)
  Definition horner (c0 : Z) (cs : list Z) (e : Z) : Z :=
    (c0 + e * fold_right (fun c acc => (c + e * acc) mod q) 0 cs) mod q.
  Definition batch_respond (s : Z) (ws : list Z) (e : bytes) : Z := horner s ws (chal_int e mod q).
  Definition batch_verify (k len : nat) (xs : list Z) (a : Z) (e : bytes) (z : Z) : bool :=
    Nat.eqb (length xs) k && Nat.eqb (length e) len &&
    (horner a xs (chal_int e mod q) =? z mod q).
  Definition batch_simulate (xs : list Z) (e : bytes) (z : Z) : Z :=
    (z - horner 0 xs (chal_int e mod q)) mod q.
End Lin.
