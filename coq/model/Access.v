(* Access.v — executable model of /repo/pkg/mpc/sharing/accessstructures: policies as data,
   their constructors' guards, and IsQualified per family.  No proofs here (proofs/Access_proofs.v).

   Written after the code:
     threshold.go     NewThresholdAccessStructure -> [thr_new],  IsQualified -> [is_qualified (Thr ..)]
     unanimity.go     NewUnanimityAccessStructure -> [una_new]
     cnf.go           NewCNFAccessStructure / normaliseCNF -> [cnf_new] / [cnf_normalise]
     hierarchical.go  NewHierarchicalConjunctiveThresholdAccessStructure -> [hier_new], Rank -> [hier_rank]
     boolexpr.go      checkTree -> [check_tree], treeEval -> [tree_eval], treeCountLeaves -> [count_leaves]

   Shareholder IDs are [N] (uint64 in the code; the uint64 range only matters where the code
   wraps: hierarchical.CheckConstraints, modelled in Msp.v).  Go hash sets are lists here;
   every function that the code applies to a *set* de-duplicates first ([nodupN]).  Thresholds
   are [nat] (small by construction: a threshold above the number of holders is refused). *)
From Coq Require Import List NArith Bool Arith.
Import ListNotations.
Local Open Scope N_scope.

(* ---- finite sets of IDs as lists --------------------------------------------------- *)

Definition memN (x : N) (l : list N) : bool := existsb (N.eqb x) l.
Definition nodupN (l : list N) : list N := nodup N.eq_dec l.
Definition subsetb (a b : list N) : bool := forallb (fun x => memN x b) a.
Definition seteqb (a b : list N) : bool := subsetb a b && subsetb b a.
Definition card (l : list N) : nat := length (nodupN l).
Definition interN (a b : list N) : list N := filter (fun x => memN x b) a.
Definition diffN (a b : list N) : list N := filter (fun x => negb (memN x b)) a.

(* slices.Sort on IDs: insertion sort (the result is determined by the input multiset) *)
Fixpoint insertN (x : N) (l : list N) : list N :=
  match l with
  | [] => [x]
  | h :: t => if N.leb x h then x :: l else h :: insertN x t
  end.
Definition sortN (l : list N) : list N := fold_right insertN [] l.

(* ---- policies ------------------------------------------------------------------------ *)

(* boolexpr.Node: attribute leaf or threshold gate with ordered children *)
Inductive tree : Type :=
| Leaf (id : N)
| Gate (t : nat) (cs : list tree).

Inductive policy : Type :=
| Thr (t : nat) (ps : list N)                 (* threshold.Threshold{t, ps} *)
| Una (ps : list N)                           (* unanimity.Unanimity{ps} *)
| Cnf (mus : list (list N))                   (* cnf.CNF: the normalised maximal unqualified sets, constructor order *)
| Hier (levels : list (nat * list N))         (* hierarchical: (cumulative threshold, level parties) in order *)
| GateT (root : tree).                        (* boolexpr.ThresholdGateAccessStructure *)

(* ---- threshold-gate trees ------------------------------------------------------------ *)

Definition count_true (l : list bool) : nat := length (filter (fun b => b) l).

Fixpoint tree_eval (ids : list N) (n : tree) : bool :=
  match n with
  | Leaf a => memN a ids
  | Gate t cs => Nat.leb t (count_true (map (tree_eval ids) cs))
  end.

Fixpoint count_leaves (n : tree) : nat :=
  match n with
  | Leaf _ => 1%nat
  | Gate _ cs => fold_right (fun c acc => (count_leaves c + acc)%nat) 0%nat cs
  end.

Fixpoint tree_size (n : tree) : nat :=
  match n with
  | Leaf _ => 1%nat
  | Gate _ cs => S (fold_right (fun c acc => (tree_size c + acc)%nat) 0%nat cs)
  end.

Fixpoint tree_leaves (n : tree) : list N :=
  match n with
  | Leaf a => [a]
  | Gate _ cs => flat_map tree_leaves cs
  end.

Definition is_leaf (n : tree) : bool := match n with Leaf _ => true | Gate _ _ => false end.
Definition leaf_ids (cs : list tree) : list N :=
  flat_map (fun c => match c with Leaf a => [a] | Gate _ _ => [] end) cs.

(* checkTree: leaf id non-zero; gate: 0 < threshold <= #children, the attribute children of
   one gate are pairwise distinct, children valid *)
Fixpoint check_tree (n : tree) : bool :=
  match n with
  | Leaf a => negb (N.eqb a 0)
  | Gate t cs =>
      Nat.ltb 0 t && Nat.leb t (length cs)
      && Nat.eqb (length (nodupN (leaf_ids cs))) (length (leaf_ids cs))
      && forallb check_tree cs
  end.

(* ---- shareholders ------------------------------------------------------------------------ *)

Definition shareholders (p : policy) : list N :=
  match p with
  | Thr _ ps => nodupN ps
  | Una ps => nodupN ps
  | Cnf mus => nodupN (concat mus)
  | Hier levels => nodupN (flat_map snd levels)
  | GateT root => nodupN (tree_leaves root)
  end.

(* ---- IsQualified ---------------------------------------------------------------------------- *)

(* hierarchical: for each level, |(parties of this and all previous levels) ∩ ids| >= threshold *)
Fixpoint hier_eval (ids cum : list N) (levels : list (nat * list N)) : bool :=
  match levels with
  | [] => true
  | (t, ps) :: rest =>
      let cum' := cum ++ ps in
      if Nat.ltb (card (interN cum' ids)) t then false else hier_eval ids cum' rest
  end.

Definition is_qualified (p : policy) (ids : list N) : bool :=
  match p with
  | Thr t ps => Nat.leb t (card ids) && subsetb ids ps
  | Una ps => seteqb ids ps
  | Cnf mus => subsetb ids (concat mus) && forallb (fun u => negb (subsetb ids u)) mus
  | Hier levels => hier_eval ids [] levels
  | GateT root => tree_eval ids root
  end.

(* ---- constructors (guards) ---------------------------------------------------------------------- *)

(* NewThresholdAccessStructure: ps is a set; 0 not in ps; t >= 2; t <= |ps| *)
Definition thr_new (t : nat) (ps : list N) : option policy :=
  let ps := nodupN ps in
  if memN 0 ps then None
  else if Nat.ltb t 2 then None
  else if Nat.ltb (length ps) t then None
  else Some (Thr t ps).

(* NewUnanimityAccessStructure: |ps| >= 2, 0 not in ps *)
Definition una_new (ps : list N) : option policy :=
  let ps := nodupN ps in
  if Nat.ltb (length ps) 2 then None
  else if memN 0 ps then None
  else Some (Una ps).

(* normaliseCNF: at least one set; each non-empty, without 0; drop repeated sets (first kept);
   keep the sets that are not a subset of another of the unique sets, in order *)
Fixpoint uniq_sets (seen : list (list N)) (l : list (list N)) : list (list N) :=
  match l with
  | [] => []
  | s :: t => if existsb (seteqb s) seen then uniq_sets seen t else s :: uniq_sets (seen ++ [s]) t
  end.

Definition keep_maximal (u : list (list N)) : list (list N) :=
  let iu := combine (seq 0 (length u)) u in
  map snd (filter (fun isi =>
    negb (existsb (fun jsj => negb (Nat.eqb (fst isi) (fst jsj)) && subsetb (snd isi) (snd jsj)) iu)) iu).

Definition cnf_normalise (sets : list (list N)) : option (list (list N)) :=
  match sets with
  | [] => None
  | _ =>
    if existsb (fun s => match s with [] => true | _ => memN 0 s end) sets then None
    else Some (keep_maximal (uniq_sets [] (map nodupN sets)))
  end.

(* NewCNFAccessStructure: normalise, shareholders = union, at least 2 of them *)
Definition cnf_new (sets : list (list N)) : option policy :=
  match cnf_normalise sets with
  | None => None
  | Some mus => if Nat.ltb (card (concat mus)) 2 then None else Some (Cnf mus)
  end.

(* NewHierarchicalConjunctiveThresholdAccessStructure *)
Fixpoint hier_check (cur : nat) (cum : list N) (levels : list (nat * list N)) : option (list (nat * list N)) :=
  match levels with
  | [] => Some []
  | (t, ps0) :: rest =>
      let ps := nodupN ps0 in
      if memN 0 ps then None
      else if Nat.leb t cur then None                              (* thresholds strictly increasing *)
      else if negb (match interN cum ps with [] => true | _ => false end) then None   (* disjoint *)
      else let cum' := cum ++ ps in
           if Nat.ltb (length cum') t then None
           else match hier_check t cum' rest with
                | None => None
                | Some ls => Some ((t, ps) :: ls)
                end
  end.

Definition hier_new (levels : list (nat * list N)) : option policy :=
  match levels with
  | [] => None
  | _ => match hier_check 0 [] levels with None => None | Some ls => Some (Hier ls) end
  end.

(* Rank(id): the threshold of the previous level (0 for the first level) *)
Fixpoint hier_rank_from (r : nat) (levels : list (nat * list N)) (id : N) : option nat :=
  match levels with
  | [] => None
  | (t, ps) :: rest => if memN id ps then Some r else hier_rank_from t rest id
  end.
Definition hier_rank (levels : list (nat * list N)) (id : N) : option nat := hier_rank_from 0 levels id.

(* NewThresholdGateAccessStructure *)
Definition gate_new (root : tree) : option policy :=
  if check_tree root then Some (GateT root) else None.
