(* SignLindell17.v — executable model of Lindell17 two-party ECDSA signing
   (pkg/mpc/signatures/ecdsa/lindell17/signing/{signing.go (CalcC3), rounds.go}).

   Scalars are canonical representatives in [0,q) (Zp q); the Paillier plaintext of c3 is
   modelled as the INTEGER the homomorphic operations produce, reduced mod N (Paillier adds
   plaintexts mod N), exactly as the code forms it:
       rho*q + (k2^-1 m' mod q) + sum_i ((k2^-1 r lambda_i mod q) * x1_i)
             + (k2^-1 r (-zeta2) mod q) + (k2^-1 r (x2 + zeta2) mod q)
   where x1_i are the integer plaintexts of the primary's encrypted share components
   ([0,q) from the trusted dealer, [0,3q) from the DKG), lambda_i the primary's reconstruction
   coefficients for the two-party quorum, x2 the secondary's additive share, zeta2 its PRZS zero
   share, rho in [0,q^2).  Abstract point observations as in SignDkls.v:
     xc k (x-coordinate scalar of k·g), yodd k, xover k, high s.
   No proofs here. *)
From Coq Require Import List Bool ZArith.
Import ListNotations.
Require Import V.base.Fld.
Local Open Scope Z_scope.

Section L17.
  Variable q N : Z.
  Variable xc : Z -> Z.
  Variable yodd : Z -> bool.
  Variable xover : Z -> bool.
  Variable high : Z -> bool.

  Definition K := Zp q.

  Record inputs := mk_inputs {
    in_k1 : Z; in_k2 : Z;
    in_x1 : list Z;        (* plaintexts of encryptedPrimaryShares *)
    in_lam : list Z;       (* primaryReconstructionCoefficients *)
    in_x2 : Z;             (* secondary: ConvertShareToAdditive(share, quorum) *)
    in_zeta2 : Z;          (* secondary: przs zero share *)
    in_rho : Z
  }.

  (* the code's no-wrap test:  2*(q^3 + 3*d*q^2 + 2q) < N  for d components *)
  Definition full_signing_bound (d : Z) : Z := q * q * q + q * q * 3 * d + q * 2.
  Definition bound_ok (d : Z) : bool := full_signing_bound d * 2 <? N.

  Fixpoint primary_term (scale : Z) (lam x1 : list Z) : Z :=
    match lam, x1 with
    | l :: lam', x :: x1' => fmul K scale l * x + primary_term scale lam' x1'
    | _, _ => 0
    end.

  (* exponent of R and the scalar r both parties derive *)
  Definition big_r (inp : inputs) : Z := fmul K (in_k1 inp) (in_k2 inp).
  Definition r_of (inp : inputs) : Z := xc (big_r inp).

  (* the integer under the encryption c3 before reduction mod N *)
  Definition c3_int (inp : inputs) (m' : Z) : Z :=
    let k2inv := finv K (in_k2 inp) in
    let scale := fmul K k2inv (r_of inp) in
    in_rho inp * q + fmul K k2inv m'
    + primary_term scale (in_lam inp) (in_x1 inp)
    + fmul K scale (fopp K (in_zeta2 inp))
    + fmul K scale (fadd K (in_x2 inp) (in_zeta2 inp)).

  (* CalcC3: None = returns an error *)
  Definition calc_c3 (inp : inputs) (m' : Z) : option Z :=
    match in_x1 inp with
    | [] => None
    | _ =>
      if negb (Nat.eqb (length (in_x1 inp)) (length (in_lam inp))) then None
      else if fis0 K (in_k2 inp) then None                              (* k2.TryInv *)
      else if negb (bound_ok (Z.of_nat (length (in_x1 inp)))) then None
      else Some (c3_int inp m' mod N)
    end.

  (* Plaintext.Normalise: representative in (-N/2, N/2] *)
  Definition sym (t : Z) : Z := let u := t mod N in if N <? 2 * u then u - N else u.

  (* paillierPlaintextToScalar *)
  Definition to_scalar (z : Z) : Z := if z <? 0 then fopp K (Z.abs z mod q) else z mod q.

  Definition sig := (Z * Z * (bool * bool))%type.
  Definition recid (k : Z) : bool * bool := (yodd k, xover k).
  Definition normalise (sg : sig) : sig :=
    let '(rx, s, (b0, b1)) := sg in
    if high s then (rx, fopp K s, (negb b0, b1)) else sg.

  Definition verify (m x : Z) (sg : sig) : bool :=
    let '(rx, s, v) := sg in
    negb (fis0 K rx) && negb (fis0 K s) &&
    (let k' := fdiv K (fadd K m (fmul K rx x)) s in
     feqb K (xc k') rx && Bool.eqb (fst (recid k')) (fst v) && Bool.eqb (snd (recid k')) (snd v)).

  (* PrimaryCosigner.Round5 on the plaintext p of c3 *)
  Definition round5 (inp : inputs) (m x : Z) (p : Z) : option sig :=
    let s' := to_scalar (sym p) in
    if fis0 K (in_k1 inp) then None                                      (* k1.TryInv *)
    else
      let s'' := fmul K (finv K (in_k1 inp)) s' in
      if fis0 K (big_r inp) then None                                    (* AffineX of the identity (Round3) *)
      else if fis0 K (r_of inp) || fis0 K s'' then None                  (* NewSignature *)
      else
        let sg := normalise (r_of inp, s'', recid (big_r inp)) in
        if verify m x sg then Some sg else None.

  Definition sign (inp : inputs) (m x : Z) : option sig :=
    match calc_c3 inp m with
    | None => None
    | Some p => round5 inp m x p
    end.

  (* the primary's additive share as the reconstruction would form it, mod q *)
  Fixpoint primary_additive (lam x1 : list Z) : Z :=
    match lam, x1 with
    | l :: lam', x :: x1' => fadd K (fmul K l (x mod q)) (primary_additive lam' x1')
    | _, _ => 0
    end.

  Definition expected_sig (inp : inputs) (m x : Z) : sig :=
    let k := big_r inp in
    normalise (xc k, fdiv K (fadd K m (fmul K (xc k) x)) k, recid k).

End L17.

(* concrete run for the correspondence check: the point observations are supplied for the
   two points that occur (k·g and (-k)·g) *)
Definition l17_run_Z (q N : Z) (inp : inputs) (m x rx : Z) (odd over : bool)
  : option (Z * Z * (bool * bool)) * Z * Z :=
  let Kq := Zp q in
  let k := big_r q inp in
  let xcf := fun e : Z => if ((e =? k) || (e =? fopp Kq k))%Z then rx else fadd Kq rx 1%Z in
  let yoddf := fun e : Z => if (e =? k)%Z then odd else negb odd in
  let xoverf := fun _ : Z => over in
  let highf := fun s : Z => (fopp Kq s <? s)%Z in
  (sign q N xcf yoddf xoverf highf inp m x, k, c3_int q xcf inp m).

Definition l17_inputs_Z (k1 k2 : Z) (x1 lam : list Z) (x2 zeta2 rho : Z) : inputs :=
  mk_inputs k1 k2 x1 lam x2 zeta2 rho.
