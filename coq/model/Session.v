(* Session.v — executable model of pkg/mpc/session (participant.go, context.go,
   messages.go) over byte strings.  No proofs here.

   The three hash primitives are parameters of the model (section variables):
     com  k i        BLAKE2b-256 keyed with k over i          (hashcom.CommitWithWitness)
     h512 i          SHA3-512 of i                            (NewContext)
     xof  S i off n  bytes [off, off+n) of cSHAKE256(N="", S) over input i
   Everything else — which bytes are fed to them, in which order, with which
   fixed-width fields — is modelled byte-exactly after the code.  The
   correspondence check instantiates the three parameters with Go's own
   blake2b / sha3 (not the library under test) and compares with the library.

   Party randomness is a tape (byte string) read 32 bytes at a time exactly as the
   code reads its prng: Round1 reads ck, common contribution, witness; Round2 reads,
   for each other party in ascending ID order, pairwise contribution then witness. *)
From Coq Require Import List NArith Bool.
Import ListNotations.
Require Import V.base.Bytes V.gen.Hagrid V.gen.SessionConsts V.model.Transcript.
Local Open Scope N_scope.

(* The constants of participant.go / context.go that enter hashes (domain separators,
   transcript name and labels, cSHAKE customisation strings, the common commitment key)
   are regenerated from the source: gen/SessionConsts.v. *)

(* base.CollisionResistanceBytesCeil = hashcom.KeySize = hashcom.DigestSize *)
Definition W : nat := 32.

(* ---------- small utilities ---------- *)

(* binary.LittleEndian.AppendUint64 / binary.Write(.., LittleEndian, uint64(x)) *)
Definition le64 (n : N) : bytes := le_bytes 8 n.

Fixpoint bytes_eqb (a b : bytes) : bool :=
  match a, b with
  | [], [] => true
  | x :: a', y :: b' => (x =? y) && bytes_eqb a' b'
  | _, _ => false
  end.

(* slices.Sort on IDs: insertion sort, ascending *)
Fixpoint insert (x : N) (l : list N) : list N :=
  match l with
  | [] => [x]
  | y :: r => if x <=? y then x :: l else y :: insert x r
  end.

Fixpoint isort (l : list N) : list N :=
  match l with
  | [] => []
  | x :: r => insert x (isort r)
  end.

Definition mem (x : N) (l : list N) : bool := existsb (N.eqb x) l.
Definition subset (a b : list N) : bool := forallb (fun x => mem x b) a.

(* Go maps keyed by ID: association lists, most recent binding first *)
Definition amap (A : Type) := list (N * A).

Fixpoint get {A} (k : N) (m : amap A) : option A :=
  match m with
  | [] => None
  | (k', v) :: r => if k =? k' then Some v else get k r
  end.

Definition put {A} (k : N) (v : A) (m : amap A) : amap A := (k, v) :: m.

(* reading W bytes from the tape (io.ReadFull on the prng) *)
Definition read32 (t : bytes) : option (bytes * bytes) :=
  if Nat.ltb (length t) (W) then None else Some (firstn W t, skipn W t).

(* array == [32]byte{} : all bytes zero (also true of the nil *CommitmentKey, modelled as []) *)
Definition nonzero (b : bytes) : bool := negb (forallb (fun x => x =? 0) b).

(* ---------- verdicts ---------- *)

Inductive verdict :=
| VOk
| VReject                 (* error without identifiable-abort tag *)
| VBlame (id : N).        (* error tagged with exactly this party *)

Inductive res (A : Type) :=
| Ok (a : A)
| Err (v : verdict).
Arguments Ok {A} a.
Arguments Err {A} v.

(* ---------- messages (messages.go) ---------- *)

Record r1b := { r1_ccom : bytes; r1_ck : bytes }.              (* Round1Broadcast *)
Record r2b := { r2_cc : bytes; r2_cw : bytes }.                (* Round2Broadcast *)
Record r2u := { r2_pcom : bytes }.                             (* Round2P2P *)
Record r3u := { r3_pc : bytes; r3_pw : bytes }.                (* Round3P2P *)

Definition valid_r1b (m : r1b) : bool := nonzero (r1_ccom m) && nonzero (r1_ck m).
Definition valid_r2b (m : r2b) : bool := nonzero (r2_cc m) && nonzero (r2_cw m).
Definition valid_r2u (m : r2u) : bool := nonzero (r2_pcom m).
Definition valid_r3u (m : r3u) : bool := nonzero (r3_pc m) && nonzero (r3_pw m).

(* network.ValidateIncomingMessages: the first sender (in the given order) whose
   message is missing or fails Validate *)
Fixpoint first_bad {M} (ok : M -> bool) (senders : list N) (inbox : amap M) : option N :=
  match senders with
  | [] => None
  | s :: r =>
      match get s inbox with
      | None => Some s
      | Some m => if ok m then first_bad ok r inbox else Some s
      end
  end.

(* ---------- byte layouts ---------- *)

(* one party's block of the common seed *)
Definition cs_entry (id : N) (ck ccom cc cw : bytes) : bytes :=
  le64 id ++ ck ++ ccom ++ cc ++ cw.

(* Round4: the loop over p.sortedQuorum reading the four maps *)
Fixpoint cs_body (ids : list N) (cks ccoms ccs cws : amap bytes) : option bytes :=
  match ids with
  | [] => Some []
  | id :: r =>
      match get id cks, get id ccoms, get id ccs, get id cws, cs_body r cks ccoms ccs cws with
      | Some k, Some c, Some m, Some w, Some rest => Some (cs_entry id k c m w ++ rest)
      | _, _, _, _, _ => None
      end
  end.

Definition common_seed_bytes (sorted : list N) (cks ccoms ccs cws : amap bytes) : option bytes :=
  match cs_body sorted cks ccoms ccs cws with
  | Some b => Some (sessionDomainSeparator ++ le64 (len sorted) ++ b)
  | None => None
  end.

(* Round4: seedDomainSeparator ‖ commonSeed ‖ contribution of the smaller ID ‖ of the larger ID *)
Definition pair_seed_bytes (common_seed c_lo c_hi : bytes) : bytes :=
  seedDomainSeparator ++ common_seed ++ c_lo ++ c_hi.

(* NewContext: what is written into the per-peer cSHAKE *)
Definition seed_input (a b : N) (pairwise : bytes) : bytes :=
  le64 (N.min a b) ++ le64 (N.max a b) ++ pairwise.

(* SubContext: subQuorumData *)
Definition subquorum_data (sorted : list N) : bytes :=
  le64 (len sorted) ++ flat_map le64 sorted.

(* ---------- contexts (context.go) ---------- *)

(* a cSHAKE256 reader: customisation, absorbed input; 32 dummy bytes have been read *)
Record seed := { sd_S : bytes; sd_in : bytes }.
Definition seed_off : N := 32.

Record context := {
  cx_sid : bytes;
  cx_holder : N;
  cx_quorum : list N;            (* sorted *)
  cx_tape : sponge;              (* hagrid transcript state (model of C19) *)
  cx_hist : list op;             (* the same state as a C19 history, for the theorems *)
  cx_seeds : amap seed
}.

Section Hashes.
  Variable com : bytes -> bytes -> bytes.
  Variable h512 : bytes -> bytes.
  Variable xof : bytes -> bytes -> N -> N -> bytes.

  (* hashcom *)
  Definition commit (ck msg wit : bytes) : bytes := com ck (msg ++ wit).
  Definition open_ok (ck c msg wit : bytes) : bool := bytes_eqb (commit ck msg wit) c.

  Definition seed_read (s : seed) (n : N) : bytes := xof (sd_S s) (sd_in s) seed_off n.

  Definition top_seed (a b : N) (pairwise : bytes) : seed :=
    {| sd_S := seedDomainSeparatorLabel; sd_in := seed_input a b pairwise |}.

  Definition sub_seed (parent : seed) (sqd : bytes) : seed :=
    {| sd_S := subContextDomainSeparatorLabel;
       sd_in := seed_read parent (N.of_nat W) ++ sqd |}.

  (* NewContext: the loop over sortedQuorum building seeds *)
  Fixpoint nc_seeds (id : N) (sorted : list N) (pairwise : amap bytes) : amap seed :=
    match sorted with
    | [] => []
    | i :: r =>
        if i =? id then nc_seeds id r pairwise
        else
          match get i pairwise with
          | Some s => (i, top_seed id i s) :: nc_seeds id r pairwise
          | None => nc_seeds id r pairwise      (* excluded by the guard of new_context *)
          end
    end.

  Definition nc_guard (id : N) (quorum : list N) (common_seed : bytes) (pairwise : amap bytes) : bool :=
    (1 <=? id) && Nat.leb (2) (length quorum) && mem id quorum &&
    Nat.leb (W) (length common_seed) &&
    forallb (fun i => (i =? id) ||
                      match get i pairwise with
                      | Some s => Nat.leb (W) (length s)
                      | None => false
                      end) quorum.

  Definition init_hist (common_seed : bytes) : list op :=
    [App transcriptInitLabel [skipn W (h512 common_seed)]].

  Definition new_context (id : N) (quorum : list N) (common_seed : bytes) (pairwise : amap bytes)
    : option context :=
    if nc_guard id quorum common_seed pairwise then
      let sorted := isort quorum in
      Some {| cx_sid := firstn W (h512 common_seed);
              cx_holder := id;
              cx_quorum := sorted;
              cx_tape := fst (run (new_transcript transcriptName) (init_hist common_seed));
              cx_hist := init_hist common_seed;
              cx_seeds := nc_seeds id sorted pairwise |}
    else None.

  (* SubContext: the loop over subQuorumSorted *)
  Fixpoint sc_seeds (holder : N) (sorted : list N) (seeds : amap seed) (sqd : bytes) : option (amap seed) :=
    match sorted with
    | [] => Some []
    | i :: r =>
        if i =? holder then sc_seeds holder r seeds sqd
        else
          match get i seeds, sc_seeds holder r seeds sqd with
          | Some s, Some rest => Some ((i, sub_seed s sqd) :: rest)
          | _, _ => None        (* nil map entry: excluded by the subset guard *)
          end
    end.

  Definition sub_context (c : context) (subq : list N) : option context :=
    if Nat.leb (2) (length subq) && subset subq (cx_quorum c) && mem (cx_holder c) subq then
      let sorted := isort subq in
      let sqd := subquorum_data sorted in
      match sc_seeds (cx_holder c) sorted (cx_seeds c) sqd with
      | Some seeds =>
          Some {| cx_sid := cx_sid c;
                  cx_holder := cx_holder c;
                  cx_quorum := sorted;
                  cx_tape := fst (step (cx_tape c) (App subQuorumLabel [sqd]));
                  cx_hist := cx_hist c ++ [App subQuorumLabel [sqd]];
                  cx_seeds := seeds |}
      | None => None
      end
    else None.

  (* Transcript().ExtractBytes(label, n) on a clone *)
  Definition ctx_extract (c : context) (label : bytes) (n : N) : option bytes :=
    match snd (step (cx_tape c) (Ext label n)) with
    | Some xc => Some (xof (xc_custom xc) (xc_input xc) 0 (xc_len xc))
    | None => None
    end.

  (* ---------- the participant (participant.go) ---------- *)

  Record party := {
    p_id : N;
    p_q : list N;                 (* sortedQuorum *)
    p_tape : bytes;               (* unread randomness *)
    p_round : N;
    p_ck : amap bytes;            (* commitmentKeys *)
    p_ccom : amap bytes;          (* commonContributionCommitments *)
    p_cc : amap bytes;            (* commonContributions *)
    p_cw : amap bytes;            (* commonContributionWitnesses *)
    p_pcom : amap bytes;          (* pairwiseContributionCommitments (received) *)
    p_pc : amap bytes;            (* pairwiseContributions (own, per peer) *)
    p_pw : amap bytes             (* pairwiseContributionWitnesses (own, per peer) *)
  }.

  Definition new_participant (id : N) (quorum : list N) (tape : bytes) : option party :=
    if Nat.ltb (length quorum) (2) then None
    else if id <? 1 then None
    else if negb (mem id quorum) then None
    else Some {| p_id := id; p_q := isort quorum; p_tape := tape; p_round := 1;
                 p_ck := []; p_ccom := []; p_cc := []; p_cw := [];
                 p_pcom := []; p_pc := []; p_pw := [] |}.

  Definition others (p : party) : list N := filter (fun x => negb (x =? p_id p)) (p_q p).

  Definition set_round (p : party) (r : N) : party :=
    {| p_id := p_id p; p_q := p_q p; p_tape := p_tape p; p_round := r;
       p_ck := p_ck p; p_ccom := p_ccom p; p_cc := p_cc p; p_cw := p_cw p;
       p_pcom := p_pcom p; p_pc := p_pc p; p_pw := p_pw p |}.

  (* Round1 *)
  Definition round1 (p : party) : res (party * r1b) :=
    if negb (p_round p =? 1) then Err VReject else
    match read32 (p_tape p) with
    | None => Err VReject
    | Some (ck, t1) =>
      match read32 t1 with
      | None => Err VReject
      | Some (cc, t2) =>
        match read32 t2 with
        | None => Err VReject
        | Some (cw, t3) =>
          let c := commit commonCommitmentKey cc cw in
          Ok ({| p_id := p_id p; p_q := p_q p; p_tape := t3; p_round := 2;
                 p_ck := put (p_id p) ck (p_ck p);
                 p_ccom := put (p_id p) c (p_ccom p);
                 p_cc := put (p_id p) cc (p_cc p);
                 p_cw := put (p_id p) cw (p_cw p);
                 p_pcom := p_pcom p; p_pc := p_pc p; p_pw := p_pw p |},
              {| r1_ccom := c; r1_ck := ck |})
        end
      end
    end.

  (* Round2, first loop: store keys and commitments of the others *)
  Fixpoint r2_store (ids : list N) (inB : amap r1b) (cks ccoms : amap bytes)
    : option (amap bytes * amap bytes) :=
    match ids with
    | [] => Some (cks, ccoms)
    | id :: r =>
        match get id inB with
        | None => None
        | Some b => r2_store r inB (put id (r1_ck b) cks) (put id (r1_ccom b) ccoms)
        end
    end.

  (* Round2, second loop: sample, commit under the recipient's key *)
  Fixpoint r2_loop (ids : list N) (cks : amap bytes) (tape : bytes)
    : option (bytes * list (N * (bytes * bytes * bytes))) :=
    match ids with
    | [] => Some (tape, [])
    | id :: r =>
        match get id cks with
        | None => None
        | Some ck =>
            match read32 tape with
            | None => None
            | Some (pc, t1) =>
                match read32 t1 with
                | None => None
                | Some (pw, t2) =>
                    match r2_loop r cks t2 with
                    | None => None
                    | Some (t3, rest) => Some (t3, (id, (pc, pw, commit ck pc pw)) :: rest)
                    end
                end
            end
        end
    end.

  Definition round2 (p : party) (inB : amap r1b) : res (party * r2b * amap r2u) :=
    if negb (p_round p =? 2) then Err VReject else
    match first_bad valid_r1b (others p) inB with
    | Some s => Err (VBlame s)
    | None =>
      match r2_store (others p) inB (p_ck p) (p_ccom p) with
      | None => Err VReject
      | Some (cks, ccoms) =>
        match get (p_id p) (p_cc p), get (p_id p) (p_cw p) with
        | Some cc, Some cw =>
          match r2_loop (others p) cks (p_tape p) with
          | None => Err VReject
          | Some (t, l) =>
              Ok ({| p_id := p_id p; p_q := p_q p; p_tape := t; p_round := 3;
                     p_ck := cks; p_ccom := ccoms; p_cc := p_cc p; p_cw := p_cw p;
                     p_pcom := p_pcom p;
                     p_pc := map (fun e => (fst e, fst (fst (snd e)))) l;
                     p_pw := map (fun e => (fst e, snd (fst (snd e)))) l |},
                  {| r2_cc := cc; r2_cw := cw |},
                  map (fun e => (fst e, {| r2_pcom := snd (snd e) |})) l)
          end
        | _, _ => Err VReject
        end
      end
    end.

  (* Round3, first loop: open the common contributions, store *)
  Fixpoint r3_open (ids : list N) (inB : amap r2b) (inU : amap r2u) (ccoms ccs cws pcoms : amap bytes)
    : res (amap bytes * amap bytes * amap bytes) :=
    match ids with
    | [] => Ok (ccs, cws, pcoms)
    | id :: r =>
        match get id inB, get id inU with
        | Some b, Some u =>
            match get id ccoms with
            | Some c =>
                if open_ok commonCommitmentKey c (r2_cc b) (r2_cw b)
                then r3_open r inB inU ccoms (put id (r2_cc b) ccs) (put id (r2_cw b) cws)
                             (put id (r2_pcom u) pcoms)
                else Err (VBlame id)
            | None => Err (VBlame id)   (* zero-value commitment never opens *)
            end
        | _, _ => Err VReject
        end
    end.

  (* Round3, second loop *)
  Fixpoint r3_out (ids : list N) (pcs pws : amap bytes) : option (amap r3u) :=
    match ids with
    | [] => Some []
    | id :: r =>
        match get id pcs, get id pws, r3_out r pcs pws with
        | Some c, Some w, Some rest => Some ((id, {| r3_pc := c; r3_pw := w |}) :: rest)
        | _, _, _ => None
        end
    end.

  Definition round3 (p : party) (inB : amap r2b) (inU : amap r2u) : res (party * amap r3u) :=
    if negb (p_round p =? 3) then Err VReject else
    match first_bad valid_r2b (others p) inB with
    | Some s => Err (VBlame s)
    | None =>
      match first_bad valid_r2u (others p) inU with
      | Some s => Err (VBlame s)
      | None =>
        match r3_open (others p) inB inU (p_ccom p) (p_cc p) (p_cw p) (p_pcom p) with
        | Err v => Err v
        | Ok (ccs, cws, pcoms) =>
          match r3_out (others p) (p_pc p) (p_pw p) with
          | None => Err VReject
          | Some out =>
              Ok ({| p_id := p_id p; p_q := p_q p; p_tape := p_tape p; p_round := 4;
                     p_ck := p_ck p; p_ccom := p_ccom p; p_cc := ccs; p_cw := cws;
                     p_pcom := pcoms; p_pc := p_pc p; p_pw := p_pw p |}, out)
          end
        end
      end
    end.

  (* Round4, the loop opening pairwise contributions and laying out pairwise seeds *)
  Fixpoint r4_loop (self : N) (ck cseed : bytes) (ids : list N) (inU : amap r3u) (pcoms pcs : amap bytes)
    : res (amap bytes) :=
    match ids with
    | [] => Ok []
    | id :: r =>
        match get id inU with
        | None => Err VReject
        | Some u =>
            match get id pcoms with
            | None => Err VReject
            | Some c =>
                if open_ok ck c (r3_pc u) (r3_pw u) then
                  match get id pcs with
                  | None => Err VReject
                  | Some mine =>
                      let s := if self <? id then pair_seed_bytes cseed mine (r3_pc u)
                               else pair_seed_bytes cseed (r3_pc u) mine in
                      match r4_loop self ck cseed r inU pcoms pcs with
                      | Ok rest => Ok ((id, s) :: rest)
                      | Err v => Err v
                      end
                  end
                else Err (VBlame id)
            end
        end
    end.

  Definition round4 (p : party) (inU : amap r3u) : res (party * context) :=
    if negb (p_round p =? 4) then Err VReject else
    match first_bad valid_r3u (others p) inU with
    | Some s => Err (VBlame s)
    | None =>
      match get (p_id p) (p_ck p) with
      | None => Err VReject
      | Some ck =>
        match common_seed_bytes (p_q p) (p_ck p) (p_ccom p) (p_cc p) (p_cw p) with
        | None => Err VReject
        | Some cseed =>
          match r4_loop (p_id p) ck cseed (others p) inU (p_pcom p) (p_pc p) with
          | Err v => Err v
          | Ok pairwise =>
            match new_context (p_id p) (p_q p) cseed pairwise with
            | None => Err VReject
            | Some c => Ok (set_round p 5, c)
            end
          end
        end
      end
    end.

  (* ---------- one party from construction to context, given what was delivered to it ---------- *)

  Record prun := {
    pr_r1 : option r1b;
    pr_r2b : option r2b;
    pr_r2u : amap r2u;
    pr_r3u : amap r3u;
    pr_verdict : verdict;
    pr_round : N;                (* round in which the verdict arose (0 = constructor) *)
    pr_ctx : option context
  }.

  Definition stop (o1 : option r1b) (o2 : option r2b) (u2 : amap r2u) (u3 : amap r3u) (v : verdict) (r : N) : prun :=
    {| pr_r1 := o1; pr_r2b := o2; pr_r2u := u2; pr_r3u := u3; pr_verdict := v; pr_round := r; pr_ctx := None |}.

  (* undec = r > 0: a message delivered for round r did not decode; the party rejects
     (without blame) instead of running round r — what the exchange layer does. *)
  Definition party_run (id : N) (quorum : list N) (tape : bytes) (undec : N)
             (inB1 : amap r1b) (inB2 : amap r2b) (inU2 : amap r2u) (inU3 : amap r3u) : prun :=
    match new_participant id quorum tape with
    | None => stop None None [] [] VReject 0
    | Some p0 =>
      match round1 p0 with
      | Err v => stop None None [] [] v 1
      | Ok (p1, o1) =>
        if undec =? 2 then stop (Some o1) None [] [] VReject 2 else
        match round2 p1 inB1 with
        | Err v => stop (Some o1) None [] [] v 2
        | Ok (p2, o2, u2) =>
          if undec =? 3 then stop (Some o1) (Some o2) u2 [] VReject 3 else
          match round3 p2 inB2 inU2 with
          | Err v => stop (Some o1) (Some o2) u2 [] v 3
          | Ok (p3, u3) =>
            if undec =? 4 then stop (Some o1) (Some o2) u2 u3 VReject 4 else
            match round4 p3 inU3 with
            | Err v => stop (Some o1) (Some o2) u2 u3 v 4
            | Ok (_, c) =>
                {| pr_r1 := Some o1; pr_r2b := Some o2; pr_r2u := u2; pr_r3u := u3;
                   pr_verdict := VOk; pr_round := 4; pr_ctx := Some c |}
            end
          end
        end
      end
    end.

End Hashes.
