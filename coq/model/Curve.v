(* Curve.v — the affine, big-integer model of the curve groups (C14; imported by C13).
   Everything is an executable function over an arbitrary field record [fops F]
   (coq/base/Fld.v); the instances used by the drivers are [Zp p] on raw Z and the
   quadratic extension [Fp2 p] = F_p[u]/(u^2+1) on Z*Z.   No proofs here.

   Short Weierstrass   y^2 = x^3 + a x + b        points  option (F*F), None = infinity
   twisted Edwards     a x^2 + y^2 = 1 + d x^2y^2 points  F*F, identity (0,1)
   Montgomery          v^2 = u^3 + A u^2 + u      points  option (F*F), None = infinity *)
From Coq Require Import ZArith List Bool.
Import ListNotations.
Require Import V.base.Fld V.model.CurveParams.

(* ---- F_p[u]/(u^2+1) on pairs (c0, c1) = c0 + c1 u ------------------------------- *)

Definition fp2_mul (p : Z) (x y : Z * Z) : Z * Z :=
  let '(a0, a1) := x in let '(b0, b1) := y in
  ((a0 * b0 - a1 * b1) mod p, (a0 * b1 + a1 * b0) mod p)%Z.

Definition fp2_inv (p : Z) (x : Z * Z) : Z * Z :=
  let '(a0, a1) := x in
  let ninv := zp_inv p ((a0 * a0 + a1 * a1) mod p)%Z in
  ((a0 * ninv) mod p, ((- a1) * ninv) mod p)%Z.

Definition Fp2 (p : Z) : fops (Z * Z) := {|
  f0 := (0, 0)%Z; f1 := ((1 mod p)%Z, 0%Z);
  fadd := fun x y => (((fst x + fst y) mod p)%Z, ((snd x + snd y) mod p)%Z);
  fmul := fp2_mul p;
  fsub := fun x y => (((fst x - fst y) mod p)%Z, ((snd x - snd y) mod p)%Z);
  fopp := fun x => (((- fst x) mod p)%Z, ((- snd x) mod p)%Z);
  finv := fp2_inv p;
  fdiv := fun x y => fp2_mul p x (fp2_inv p y);
  feqb := fun x y => (Z.eqb (fst x) (fst y) && Z.eqb (snd x) (snd y))%bool
|}.

(* ---- short Weierstrass, chord-tangent law with the case split written out ---------- *)

Section Weierstrass.
  Context {F : Type} (K : fops F) (a b : F).
  Local Notation "x + y" := (fadd K x y).
  Local Notation "x * y" := (fmul K x y).
  Local Notation "x - y" := (fsub K x y).
  Local Notation "x / y" := (fdiv K x y).
  Local Notation "- x" := (fopp K x).

  Definition wpoint := option (F * F).

  Definition on_curve (P : wpoint) : bool :=
    match P with
    | None => true
    | Some (x, y) => feqb K (y * y) (x * x * x + a * x + b)
    end.

  Definition waff_neg (P : wpoint) : wpoint :=
    match P with None => None | Some (x, y) => Some (x, - y) end.

  Definition waff_eqb (P Q : wpoint) : bool :=
    match P, Q with
    | None, None => true
    | Some (x1, y1), Some (x2, y2) => feqb K x1 x2 && feqb K y1 y2
    | _, _ => false
    end.

  Definition waff_double (P : wpoint) : wpoint :=
    match P with
    | None => None
    | Some (x, y) =>
        if fis0 K y then None                      (* 2-torsion: vertical tangent *)
        else
          let xx := x * x in
          let l := (xx + xx + xx + a) / (y + y) in
          let x3 := l * l - x - x in
          Some (x3, l * (x - x3) - y)
    end.

  Definition waff_add (P Q : wpoint) : wpoint :=
    match P, Q with
    | None, _ => Q
    | _, None => P
    | Some (x1, y1), Some (x2, y2) =>
        if feqb K x1 x2 then
          if feqb K y1 y2 then waff_double P       (* P = Q *)
          else None                                 (* Q = -P (for points of the curve) *)
        else
          let l := (y2 - y1) / (x2 - x1) in
          let x3 := l * l - x1 - x2 in
          Some (x3, l * (x1 - x3) - y1)
    end.

  Definition waff_sub (P Q : wpoint) : wpoint := waff_add P (waff_neg Q).

  (* naive double-and-add on the binary expansion (Pos.iter_op), negative scalars negate *)
  Definition waff_mul (k : Z) (P : wpoint) : wpoint :=
    match k with
    | Z0 => None
    | Zpos q => Pos.iter_op waff_add q P
    | Zneg q => waff_neg (Pos.iter_op waff_add q P)
    end.

  (* sum_i k_i * P_i, left to right; shorter list wins *)
  Fixpoint waff_msm (ks : list Z) (Ps : list wpoint) : wpoint :=
    match ks, Ps with
    | k :: ks', P :: Ps' => waff_add (waff_mul k P) (waff_msm ks' Ps')
    | _, _ => None
    end.
End Weierstrass.

(* ---- twisted Edwards, the (complete for non-square d) affine law ------------------- *)

Section Edwards.
  Context {F : Type} (K : fops F) (a d : F).
  Local Notation "x + y" := (fadd K x y).
  Local Notation "x * y" := (fmul K x y).
  Local Notation "x - y" := (fsub K x y).
  Local Notation "x / y" := (fdiv K x y).
  Local Notation "- x" := (fopp K x).

  Definition epoint := (F * F)%type.
  Definition eaff_zero : epoint := (f0 K, f1 K).

  Definition eaff_on_curve (P : epoint) : bool :=
    let '(x, y) := P in
    feqb K (a * (x * x) + y * y) (f1 K + d * ((x * x) * (y * y))).

  Definition eaff_neg (P : epoint) : epoint := let '(x, y) := P in (- x, y).

  Definition eaff_eqb (P Q : epoint) : bool :=
    feqb K (fst P) (fst Q) && feqb K (snd P) (snd Q).

  Definition eaff_add (P Q : epoint) : epoint :=
    let '(x1, y1) := P in let '(x2, y2) := Q in
    let t := d * ((x1 * x2) * (y1 * y2)) in
    ((x1 * y2 + x2 * y1) / (f1 K + t), (y1 * y2 - a * (x1 * x2)) / (f1 K - t)).

  Definition eaff_double (P : epoint) : epoint := eaff_add P P.
  Definition eaff_sub (P Q : epoint) : epoint := eaff_add P (eaff_neg Q).

  Definition eaff_mul (k : Z) (P : epoint) : epoint :=
    match k with
    | Z0 => eaff_zero
    | Zpos q => Pos.iter_op eaff_add q P
    | Zneg q => eaff_neg (Pos.iter_op eaff_add q P)
    end.

  Fixpoint eaff_msm (ks : list Z) (Ps : list epoint) : epoint :=
    match ks, Ps with
    | k :: ks', P :: Ps' => eaff_add (eaff_mul k P) (eaff_msm ks' Ps')
    | _, _ => eaff_zero
    end.
End Edwards.

(* ---- Montgomery (B = 1) and the birational map the library uses for curve25519 ------ *)

Section Montgomery.
  Context {F : Type} (K : fops F) (A : F).
  Local Notation "x + y" := (fadd K x y).
  Local Notation "x * y" := (fmul K x y).
  Local Notation "x - y" := (fsub K x y).
  Local Notation "x / y" := (fdiv K x y).
  Local Notation "- x" := (fopp K x).

  Definition mpoint := option (F * F).

  Definition maff_on_curve (P : mpoint) : bool :=
    match P with
    | None => true
    | Some (u, v) => feqb K (v * v) (u * u * u + A * (u * u) + u)
    end.

  Definition maff_neg (P : mpoint) : mpoint :=
    match P with None => None | Some (u, v) => Some (u, - v) end.

  Definition maff_double (P : mpoint) : mpoint :=
    match P with
    | None => None
    | Some (u, v) =>
        if fis0 K v then None
        else
          let uu := u * u in
          let l := (uu + uu + uu + (A * u + A * u) + f1 K) / (v + v) in
          let u3 := l * l - A - u - u in
          Some (u3, l * (u - u3) - v)
    end.

  Definition maff_add (P Q : mpoint) : mpoint :=
    match P, Q with
    | None, _ => Q
    | _, None => P
    | Some (u1, v1), Some (u2, v2) =>
        if feqb K u1 u2 then
          if feqb K v1 v2 then maff_double P else None
        else
          let l := (v2 - v1) / (u2 - u1) in
          let u3 := l * l - A - u1 - u2 in
          Some (u3, l * (u1 - u3) - v1)
    end.

  Definition maff_mul (k : Z) (P : mpoint) : mpoint :=
    match k with
    | Z0 => None
    | Zpos q => Pos.iter_op maff_add q P
    | Zneg q => maff_neg (Pos.iter_op maff_add q P)
    end.

  (* Edwards (x,y) -> Montgomery (u,v) = ((1+y)/(1-y), c*u/x); (0,1) -> infinity, (0,-1) -> (0,0) *)
  Definition mont_of_ed (c : F) (P : F * F) : mpoint :=
    let '(x, y) := P in
    if feqb K y (f1 K) then None
    else
      let u := (f1 K + y) / (f1 K - y) in
      if fis0 K x then Some (u, f0 K) else Some (u, (c * u) / x).

  (* Montgomery -> Edwards: x = c*u/v, y = (u-1)/(u+1); infinity -> (0,1), (0,0) -> (0,-1) *)
  Definition ed_of_mont (c : F) (P : mpoint) : F * F :=
    match P with
    | None => (f0 K, f1 K)
    | Some (u, v) =>
        if fis0 K v then (f0 K, (u - f1 K) / (u + f1 K))
        else ((c * u) / v, (u - f1 K) / (u + f1 K))
    end.
End Montgomery.

(* ---- instances on raw Z ----------------------------------------------------------------- *)

Definition wpt (c : wparams) := @wpoint Z.
Definition w_add (c : wparams) := waff_add (Zp (wp_p c)) (wp_a c).
Definition w_double (c : wparams) := waff_double (Zp (wp_p c)) (wp_a c).
Definition w_neg (c : wparams) := waff_neg (Zp (wp_p c)).
Definition w_sub (c : wparams) := waff_sub (Zp (wp_p c)) (wp_a c).
Definition w_mul (c : wparams) := waff_mul (Zp (wp_p c)) (wp_a c).
Definition w_msm (c : wparams) := waff_msm (Zp (wp_p c)) (wp_a c).
Definition w_eqb (c : wparams) := waff_eqb (Zp (wp_p c)).
Definition w_on_curve (c : wparams) := on_curve (Zp (wp_p c)) (wp_a c) (wp_b c).
Definition w_gen (c : wparams) : wpt c := Some (wp_gx c, wp_gy c).

Definition w2_add (c : w2params) := waff_add (Fp2 (w2_p c)) (w2_a c).
Definition w2_double (c : w2params) := waff_double (Fp2 (w2_p c)) (w2_a c).
Definition w2_neg (c : w2params) := waff_neg (Fp2 (w2_p c)).
Definition w2_sub (c : w2params) := waff_sub (Fp2 (w2_p c)) (w2_a c).
Definition w2_mul (c : w2params) := waff_mul (Fp2 (w2_p c)) (w2_a c).
Definition w2_msm (c : w2params) := waff_msm (Fp2 (w2_p c)) (w2_a c).
Definition w2_eqb (c : w2params) := waff_eqb (Fp2 (w2_p c)).
Definition w2_on_curve (c : w2params) := on_curve (Fp2 (w2_p c)) (w2_a c) (w2_b c).
Definition w2_gen (c : w2params) : @wpoint (Z * Z) := Some (w2_gx c, w2_gy c).

Definition e_add (c : eparams) := eaff_add (Zp (ep_p c)) (ep_a c) (ep_d c).
Definition e_double (c : eparams) := eaff_double (Zp (ep_p c)) (ep_a c) (ep_d c).
Definition e_neg (c : eparams) := eaff_neg (Zp (ep_p c)).
Definition e_sub (c : eparams) := eaff_sub (Zp (ep_p c)) (ep_a c) (ep_d c).
Definition e_mul (c : eparams) := eaff_mul (Zp (ep_p c)) (ep_a c) (ep_d c).
Definition e_msm (c : eparams) := eaff_msm (Zp (ep_p c)) (ep_a c) (ep_d c).
Definition e_eqb (c : eparams) := eaff_eqb (Zp (ep_p c)).
Definition e_on_curve (c : eparams) := eaff_on_curve (Zp (ep_p c)) (ep_a c) (ep_d c).
Definition e_gen (c : eparams) : Z * Z := (ep_gx c, ep_gy c).

Definition m_add (c : mparams) := maff_add (Zp (mp_p c)) (mp_A c).
Definition m_double (c : mparams) := maff_double (Zp (mp_p c)) (mp_A c).
Definition m_neg (c : mparams) := maff_neg (Zp (mp_p c)).
Definition m_mul (c : mparams) := maff_mul (Zp (mp_p c)) (mp_A c).
Definition m_on_curve (c : mparams) := maff_on_curve (Zp (mp_p c)) (mp_A c).
Definition m_of_ed (c : mparams) := mont_of_ed (Zp (mp_p c)) (mp_c c).
Definition m_to_ed (c : mparams) := ed_of_mont (Zp (mp_p c)) (mp_c c).
Definition m_gen (c : mparams) : @mpoint Z := Some (mp_gu c, mp_gv c).

(* ---- field operations of the model (base and scalar fields are both Zp) ---------------- *)

Local Open Scope Z_scope.

(* square root for p = 3 (mod 4) by exponentiation, otherwise Tonelli-Shanks; None = non-residue.
   The model only has to *recognise* a root (the relation is r*r = x), so the search for a
   non-residue and the loop are written in the simplest form with explicit fuel. *)
Definition zp_is_square (p x : Z) : bool :=
  let x := (x mod p)%Z in
  (x =? 0)%Z || (zp_pow p x ((p - 1) / 2) =? 1 mod p)%Z.

Fixpoint find_nonresidue (fuel : nat) (p z : Z) : Z :=
  match fuel with
  | O => z
  | S k => if zp_is_square p z then find_nonresidue k p (z + 1)%Z else z
  end.

Fixpoint two_adicity (fuel : nat) (q : Z) (s : Z) : Z * Z :=   (* p-1 = q * 2^s, q odd *)
  match fuel with
  | O => (q, s)
  | S k => if Z.even q then two_adicity k (q / 2)%Z (s + 1)%Z else (q, s)
  end.

(* least i in (0, m) with t^(2^i) = 1 *)
Fixpoint ts_order (fuel : nat) (p t : Z) (i : Z) : Z :=
  match fuel with
  | O => i
  | S k => if (t =? 1 mod p)%Z then i else ts_order k p ((t * t) mod p)%Z (i + 1)%Z
  end.

Fixpoint ts_loop (fuel : nat) (p m c t r : Z) : option Z :=
  match fuel with
  | O => None
  | S k =>
      if (t =? 1 mod p)%Z then Some r
      else
        let i := ts_order (Z.to_nat m) p t 0 in
        if (m <=? i)%Z then None
        else
          let bb := zp_pow p c (2 ^ (m - i - 1)) in
          let c' := (bb * bb) mod p in
          ts_loop k p i c' ((t * c') mod p)%Z ((r * bb) mod p)%Z
  end.

Definition zp_sqrt (p x : Z) : option Z :=
  let x := (x mod p)%Z in
  if (x =? 0)%Z then Some 0%Z
  else if negb (zp_is_square p x) then None
  else if (p mod 4 =? 3)%Z then Some (zp_pow p x ((p + 1) / 4))
  else
    let '(q, s) := two_adicity (Z.to_nat (Z.log2_up p)) (p - 1) 0 in
    let z := find_nonresidue 1000 p 2 in
    ts_loop (S (Z.to_nat s)) p s (zp_pow p z q) (zp_pow p x q) (zp_pow p x ((q + 1) / 2)).

(* little-endian byte string -> integer (the libraries' SetBytes/SetBytesWide read little endian;
   the public wrappers reverse a big-endian input first) *)
Fixpoint z_of_le_bytes (l : list Z) : Z :=
  match l with
  | [] => 0%Z
  | x :: r => (x + 256 * z_of_le_bytes r)%Z
  end.
Definition z_of_be_bytes (l : list Z) : Z := z_of_le_bytes (rev l).
Definition zp_from_wide_be (p : Z) (l : list Z) : Z := (z_of_be_bytes l mod p)%Z.
