(* Transcript.v — executable model of pkg/transcripts/hagrid on top of the
   byte framings regenerated from the source (gen/Hagrid.v).  No proofs here. *)
From Coq Require Import List NArith Bool.
Import ListNotations.
Require Import V.base.Bytes V.gen.Hagrid.
Local Open Scope N_scope.

(* One labelled operation of the Transcript interface. *)
Inductive op :=
| Dom (s : bytes)
| App (label : bytes) (msgs : list bytes)
| Ext (label : bytes) (n : N).

(* ---------- the concrete machine: state = bytes absorbed by the sponge ---------- *)

Record sponge := { sp_custom : bytes;   (* cSHAKE customisation string S *)
                   sp_absorbed : bytes }.

Definition new_transcript (name : bytes) : sponge :=
  {| sp_custom := NewTranscript_S name; sp_absorbed := [] |}.

(* The hash input of an extraction and the number of bytes squeezed from it. *)
Record xof_call := { xc_custom : bytes; xc_input : bytes; xc_len : N }.

Definition absorb (t : sponge) (b : bytes) : sponge :=
  {| sp_custom := sp_custom t; sp_absorbed := sp_absorbed t ++ b |}.

Definition step (t : sponge) (o : op) : sponge * option xof_call :=
  match o with
  | Dom s => (absorb t (AppendDomainSeparator s), None)
  | App l ms => (absorb t (AppendBytes l ms), None)
  | Ext l n =>
      if ExtractBytes_refuses l n then (t, None)            (* error, state untouched *)
      else
        let t1 := absorb t (ExtractBytes_pre l n) in
        (absorb t1 ExtractBytes_live,
         Some {| xc_custom := sp_custom t1;
                 xc_input := sp_absorbed t1 ++ ExtractBytes_clone;
                 xc_len := n |})
  end.

Fixpoint run (t : sponge) (h : list op) : sponge * list (option xof_call) :=
  match h with
  | [] => (t, [])
  | o :: h' =>
      let '(t1, out) := step t o in
      let '(t2, outs) := run t1 h' in
      (t2, out :: outs)
  end.

(* ---------- several transcripts with Clone ---------- *)

Inductive cmd :=
| Do (i : nat) (o : op)       (* operate on transcript number i *)
| CloneOf (i : nat).          (* new transcript = copy of number i, appended *)

Definition store := list sponge.

Fixpoint set_nth {A} (i : nat) (x : A) (l : list A) : list A :=
  match l, i with
  | [], _ => []
  | _ :: r, O => x :: r
  | y :: r, S i' => y :: set_nth i' x r
  end.

Definition cstep (st : store) (c : cmd) : store * option xof_call :=
  match c with
  | Do i o =>
      match nth_error st i with
      | Some t => let '(t', out) := step t o in (set_nth i t' st, out)
      | None => (st, None)
      end
  | CloneOf i =>
      match nth_error st i with
      | Some t => (st ++ [t], None)
      | None => (st, None)
      end
  end.

Fixpoint crun (st : store) (cs : list cmd) : store * list (option xof_call) :=
  match cs with
  | [] => (st, [])
  | c :: cs' =>
      let '(st1, out) := cstep st c in
      let '(st2, outs) := crun st1 cs' in
      (st2, out :: outs)
  end.

(* ---------- the abstract view: the history of performed operations ---------- *)

Definition performed (o : op) : bool :=
  match o with Ext l n => negb (ExtractBytes_refuses l n) | _ => true end.

Definition enc_op (o : op) : bytes :=
  match o with
  | Dom s => AppendDomainSeparator s
  | App l ms => AppendBytes l ms
  | Ext l n => ExtractBytes_pre l n ++ ExtractBytes_live
  end.

Definition live (h : list op) : bytes := flat_map enc_op h.

Definition ext_input (h : list op) (l : bytes) (n : N) : bytes :=
  live h ++ ExtractBytes_pre l n ++ ExtractBytes_clone.

(* lengths are what Go's uint64(len(x)) can represent without wrapping *)
Definition valid_op (o : op) : Prop :=
  match o with
  | Dom s => len s < 2^64
  | App l ms => len l < 2^64 /\ len ms < 2^64 /\ Forall (fun m => len m < 2^64) ms
  | Ext l n => len l < 2^64 /\ 0 < n < 2^64
  end.
