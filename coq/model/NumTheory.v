(* NumTheory.v — executable model for property C17 (big-number and modular
   arithmetic of pkg/base/nt/{numct,num,modular,crt,znstar}, nt.Jacobi, prime
   generation).  No proofs here (proofs/NumTheory_proofs.v).

   For plain arithmetic the model IS Coq's Z arithmetic; what is modelled is
   (a) the numct capacity semantics (every numct.Nat carries an announced bit
   length; results are truncated mod 2^cap where the code does so), the
   sign/rounding conventions of the division routines, and
   (b) the algorithms whose algorithm matters, as coded: the binary
   Jacobi/Kronecker loop of jacobi_purego.go, CRT Precompute/Recombine of
   crt.go and the Garner loop of crt_multi.go, modular inverse with its final
   check, modular square root (x^((p+1)/4) for p = 3 mod 4, Tonelli-Shanks as in
   saferith otherwise, integer square root for composite moduli), and a
   deterministic Miller-Rabin used to test generated primes.

   Conventions: an operand of numct.Nat type is a pair (v, a): the raw value and
   the announced length; the value the implementation sees is v mod 2^a
   (NewNatFromBig truncates).  A capacity argument < 0 means "default", as in
   saferith.  Every entry of [table] maps the argument list of one harness
   operation to a result [res]. *)
From Coq Require Import List ZArith NArith Lia Bool Zeuclid.
From Coq.Strings Require Import Byte.
Require Import V.base.Bytes.
Import ListNotations.
Local Open Scope Z_scope.

Inductive res : Type :=
| Ok (l : list Z)      (* returned values *)
| Refuse               (* ok = false / error return; outputs unspecified *)
| Panic.               (* the implementation panics / malformed case *)

Definition b2z (b : bool) : Z := if b then 1 else 0.

(* ------------------------------------------------------------------ capacity *)

Definition pow2 (k : Z) : Z := 2 ^ (Z.max 0 k).
(* value of a number stored with [cap] announced bits *)
Definition trunc (cap v : Z) : Z := v mod pow2 cap.
Definition dflt (cap d : Z) : Z := if cap <? 0 then d else cap.

Definition add_cap (x ax y ay cap : Z) : Z := trunc (dflt cap (Z.max ax ay + 1)) (x + y).
Definition sub_cap (x ax y ay cap : Z) : Z := trunc (dflt cap (Z.max ax ay)) (x - y).
Definition mul_cap (x ax y ay cap : Z) : Z := trunc (dflt cap (ax + ay)) (x * y).
Definition lsh_cap (x ax s cap : Z) : Z := trunc (dflt cap (ax + s)) (x * 2 ^ s).
Definition rsh_cap (x ax s cap : Z) : Z := trunc (dflt cap (Z.max 0 (ax - s))) (x / 2 ^ s).
Definition and_cap (x ax y ay cap : Z) : Z := trunc (dflt cap (Z.max ax ay)) (Z.land x y).
Definition or_cap (x ax y ay cap : Z) : Z := trunc (dflt cap (Z.max ax ay)) (Z.lor x y).
Definition xor_cap (x ax y ay cap : Z) : Z := trunc (dflt cap (Z.max ax ay)) (Z.lxor x y).
Definition not_cap (x ax cap : Z) : Z := trunc (dflt cap ax) (Z.lnot x).

Definition bitlen (x : Z) : Z := if x =? 0 then 0 else Z.log2 (Z.abs x) + 1.

(* saferith.Int.Add: two's complement addition on limbCount(cap+1) 64-bit
   limbs, sign from the top bit, magnitude truncated to cap bits. *)
Definition limb_bits (cap : Z) : Z := 64 * ((cap + 1 + 63) / 64).
Definition sgn_trunc (l x : Z) : Z := Z.sgn x * (Z.abs x mod pow2 l).
Definition wrap_signed (l s : Z) : Z :=
  let m := s mod pow2 l in if m <? pow2 (l - 1) then m else m - pow2 l.
Definition int_add_cap (x ax y ay cap : Z) : Z :=
  let c := dflt cap (Z.max ax ay + 1) in
  let l := limb_bits c in
  let s := wrap_signed l (sgn_trunc l x + sgn_trunc l y) in
  Z.sgn s * trunc c (Z.abs s).
Definition int_mul_cap (x ax y ay cap : Z) : Z :=
  Z.sgn x * Z.sgn y * trunc (dflt cap (ax + ay)) (Z.abs x * Z.abs y).
(* an Int operand (v, a): sign kept, magnitude truncated *)
Definition int_in (a v : Z) : Z := Z.sgn v * trunc a (Z.abs v).

(* symmetric residue in [-m/2, m/2) as saferith.Int.SetModSymmetric *)
Definition mod_symmetric (x m : Z) : Z :=
  let r := x mod m in if 2 * r <? m then r else r - m.

(* ------------------------------------------------------------------ bytes *)

Definition be_bytesZ (k : Z) (n : Z) : list Z :=
  map Z.of_N (be_bytes (Z.to_nat k) (Z.to_N n)).
Definition be_valueZ (l : list Z) : Z := Z.of_N (be_value (map Z.to_N l)).
Definition le_bytesZ (k : Z) (n : Z) : list Z :=
  map Z.of_N (le_bytes (Z.to_nat k) (Z.to_N n)).
Definition le_valueZ (l : list Z) : Z := Z.of_N (le_value (map Z.to_N l)).
(* numct.Nat.Bytes: big endian, (announced+7)/8 bytes *)
Definition nat_bytes (x ax : Z) : list Z := be_bytesZ ((ax + 7) / 8) x.
(* two's complement, (announced+1+7)/8 bytes (numct.Int.TwosComplementBytesBE) *)
Definition twos_bytes (x ax : Z) : list Z :=
  let k := (ax + 1 + 7) / 8 in be_bytesZ k (x mod pow2 (8 * k)).
Definition twos_value (l : list Z) : Z :=
  let k := Z.of_nat (List.length l) in
  let v := be_valueZ l in
  if v <? pow2 (8 * k - 1) then v else v - pow2 (8 * k).

(* ------------------------------------------------------------------ modular exponentiation *)

Fixpoint modpow_pos (b : Z) (e : positive) (m : Z) : Z :=
  match e with
  | xH => b mod m
  | xO e' => let t := modpow_pos b e' m in (t * t) mod m
  | xI e' => let t := modpow_pos b e' m in (((t * t) mod m) * b) mod m
  end.

Definition modpow (b e m : Z) : Z :=
  match e with
  | Zpos p => modpow_pos b p m
  | _ => 1 mod m
  end.

(* ------------------------------------------------------------------ extended Euclid, modular inverse *)

(* invariant: r0 = s0 * x, r1 = s1 * x (mod m) *)
Fixpoint egcd (fuel : nat) (r0 r1 s0 s1 : Z) : option (Z * Z) :=
  match fuel with
  | O => None
  | S f => if r1 =? 0 then Some (r0, s0)
           else let q := r0 / r1 in egcd f r1 (r0 - q * r1) s1 (s0 - q * s1)
  end.

Definition egcd_fuel (m : Z) : nat := S (S (Z.to_nat (2 * Z.log2_up (Z.max m 1) + 2))).

(* ModInv as coded: compute a candidate, then check candidate * x = 1 (mod m)
   (modInvOdd multiplies back; modInvEven tests coprimality first).  [None] is
   the ok = false return.  m >= 1. *)
Definition modinv (x m : Z) : option Z :=
  match egcd (egcd_fuel m) m (x mod m) 0 1 with
  | None => None
  | Some (_, s) => let r := s mod m in
                   if (r * x) mod m =? 1 then Some r else None
  end.

(* ModDiv as coded: odd modulus: x * y^-1 (refuses unless y is a unit, also
   refuses y = 0); even modulus: solves y*u = x (mod m) whenever gcd(y,m) | x,
   returning the solution modulo m/gcd. *)
Definition moddiv (x y m : Z) : option Z :=
  if Z.odd m then
    if y =? 0 then None else
    match modinv y m with
    | Some yi => Some ((x * yi) mod m)
    | None => None
    end
  else
    let xr := x mod m in let yr := y mod m in
    let d := Z.gcd yr m in
    if xr mod d =? 0 then
      let m' := m / d in
      match modinv (yr / d) m' with
      | Some s => Some (((xr / d) * s) mod m')
      | None => if m' =? 1 then Some 0 else None
      end
    else None.

(* ------------------------------------------------------------------ deterministic Miller-Rabin *)

Definition small_primes : list Z :=
  [2;3;5;7;11;13;17;19;23;29;31;37;41;43;47;53;59;61;67;71;73;79;83;89;97;101;103;107;109;113;
   127;131;137;139;149;151;157;163;167;173].

(* n - 1 = d * 2^s with d odd *)
Fixpoint split2 (fuel : nat) (d s : Z) : Z * Z :=
  match fuel with
  | O => (d, s)
  | S f => if Z.even d && negb (d =? 0) then split2 f (d / 2) (s + 1) else (d, s)
  end.

(* is some x^(2^i), 0 <= i < s, equal to n-1, starting from x = a^d ? *)
Fixpoint mr_squares (s : nat) (x n : Z) : bool :=
  match s with
  | O => false
  | S s' => if x =? n - 1 then true else mr_squares s' ((x * x) mod n) n
  end.

Definition mr_witness_ok (n d s a : Z) : bool :=
  let a' := a mod n in
  if a' =? 0 then true else
  let x := modpow a' d n in
  if (x =? 1) || (x =? n - 1) then true else mr_squares (Z.to_nat s) x n.

Definition is_prime_mr (n : Z) : bool :=
  if n <? 2 then false
  else if existsb (fun p => n =? p) small_primes then true
  else if existsb (fun p => n mod p =? 0) small_primes then false
  else
    let '(d, s) := split2 (Z.to_nat (Z.log2 n + 1)) (n - 1) 0 in
    forallb (mr_witness_ok n d s) small_primes.

(* ------------------------------------------------------------------ modular square root *)

(* least a >= start with a^((p-1)/2) <> 1 (mod p), as saferith's search from 2 *)
Fixpoint find_nonsquare (fuel : nat) (a p : Z) : option Z :=
  match fuel with
  | O => None
  | S f => if modpow a ((p - 1) / 2) p =? 1 then find_nonsquare f (a + 1) p else Some a
  end.

Fixpoint sq_times (k : nat) (b p : Z) : Z :=
  match k with O => b | S k' => sq_times k' ((b * b) mod p) p end.

(* saferith tonelliShanks main loop: for i = S downto 2 *)
Fixpoint ts_loop (i : nat) (z t c p : Z) : Z :=
  match i with
  | O => z
  | S O => z
  | S i' =>
    let b := sq_times (i' - 1) t p in      (* t^(2^(i-2)) *)
    let sel := negb (b =? 1) in
    let z1 := if sel then (z * c) mod p else z in
    let c1 := (c * c) mod p in
    let t1 := if sel then (t * c1) mod p else t in
    ts_loop i' z1 t1 c1 p
  end.

Definition tonelli_shanks (x p : Z) : option Z :=
  if p =? 1 then Some 0 else
  match find_nonsquare 4096 2 p with
  | None => None
  | Some ns =>
    let '(q, s) := split2 (Z.to_nat (Z.log2 p + 1)) (p - 1) 0 in
    let c := modpow ns q p in
    let z0 := modpow x ((q - 1) / 2) p in
    let t := (((z0 * z0) mod p) * x) mod p in
    let z := (z0 * x) mod p in
    Some (ts_loop (Z.to_nat s) z t c p)
  end.

Inductive sqrt_res := SqrtOk (r : Z) | SqrtNone | SqrtPanic.

(* ModSqrt as coded.  The branch is chosen by a primality test of the modulus
   (big.ProbablyPrime in the code, the deterministic Miller-Rabin here). *)
Definition modsqrt (x m : Z) : sqrt_res :=
  let xr := x mod m in
  if is_prime_mr m then
    if Z.even m then SqrtPanic          (* saferith: "Can't take square root mod an even number" *)
    else
      let cand := if m mod 4 =? 3 then Some (modpow xr ((m + 1) / 4) m)
                  else tonelli_shanks xr m in
      match cand with
      | None => SqrtPanic
      | Some r => if (r * r) mod m =? xr then SqrtOk r else SqrtNone
      end
  else
    let r := Z.sqrt xr in
    if r * r =? xr then SqrtOk r else SqrtNone.

(* ------------------------------------------------------------------ Jacobi symbol, loop of jacobi_purego.go *)

Definition jacobi_tab (b : Z) : Z :=
  let r := b mod 8 in
  if (r =? 1) || (r =? 7) then 1 else if (r =? 3) || (r =? 5) then -1 else 0.

(* the inner loop "for a.Bit(i) == 0 { i++ }; a = a >> i" *)
Fixpoint strip2 (fuel : nat) (a i : Z) : Z * Z :=
  match fuel with
  | O => (a, i)
  | S f => if Z.even a then strip2 f (a / 2) (i + 1) else (a, i)
  end.

Fixpoint jacobi_loop (fuel : nat) (a b ret : Z) : option Z :=
  match fuel with
  | O => None
  | S f =>
    if a =? 0 then Some (if b =? 1 then ret else 0)
    else
      let '(a1, i) := strip2 (Z.to_nat (Z.log2 a + 1)) a 0 in
      let ret1 := if Z.odd i then ret * jacobi_tab b else ret in
      let ret2 := if Z.land (Z.land a1 b) 2 =? 0 then ret1 else - ret1 in
      jacobi_loop f (b mod a1) a1 ret2
  end.

Definition jacobi_fuel (a b : Z) : nat := Z.to_nat (2 * Z.log2_up (Z.max (Z.max a b) 1) + 4).

(* nt.Jacobi(x, y).  NOTE (finding F1): the unrepaired purego code reduces a
   negative numerator as |x| mod y; this model follows the REPAIRED behaviour,
   the non-negative residue x mod y (a non-negative x is not reduced before
   the loop, as in the code). *)
Definition jacobi (x y : Z) : option Z :=
  if (y <=? 0) || Z.even y then None
  else
    let a := if x <? 0 then x mod y else x in
    jacobi_loop (jacobi_fuel a y) a y 1.

(* Specification used by the correspondence: Jacobi symbol from the prime
   factorisation of y, Legendre symbols by Euler's criterion. *)
Definition legendre_euler (x p : Z) : Z :=
  let r := modpow (x mod p) ((p - 1) / 2) p in
  if r =? 0 then 0 else if r =? 1 then 1 else -1.

Fixpoint zpow_nat (b : Z) (e : nat) : Z := match e with O => 1 | S e' => b * zpow_nat b e' end.

(* factors: p1, e1, p2, e2, ... *)
Fixpoint jac_spec (x : Z) (fs : list Z) : Z :=
  match fs with
  | p :: e :: rest => zpow_nat (legendre_euler x p) (Z.to_nat e) * jac_spec x rest
  | _ => 1
  end.

(* ------------------------------------------------------------------ CRT *)

(* crt.Precompute: q^-1 mod p, capacity bitlen(p) + announced(q) *)
Definition crt_precompute (p q : Z) : option Z := modinv (q mod p) p.

(* Params.Recombine as coded: Garner, h = (mp - mq) * qinv mod p,
   result h*q + mq truncated to cap bits *)
Definition crt_recombine (p q qinv cap mp mq : Z) : Z :=
  let h := (((mp - mq) mod p) * qinv) mod p in
  trunc cap (h * q + mq).

(* crt_multi.go: RecombineSerial (Garner, mixed radix), coefficients
   inv_i = (p_0 ... p_{i-1})^-1 mod p_i *)
Fixpoint garner (ps rs : list Z) (x prod : Z) : option Z :=
  match ps, rs with
  | [], [] => Some x
  | p :: ps', r :: rs' =>
    match modinv (prod mod p) p with
    | None => None
    | Some inv =>
      let c := (((r - x) mod p) * inv) mod p in
      garner ps' rs' (x + c * prod) (prod * p)
    end
  | _, _ => None
  end.

Definition crt_multi_serial (ps rs : list Z) : option Z :=
  match ps, rs with
  | p0 :: ps', r0 :: rs' => garner ps' rs' r0 p0
  | _, _ => None
  end.

(* RecombineParallel: sum r_i * (M_i * (M_i^-1 mod p_i) mod N) mod N *)
Definition prodl (l : list Z) : Z := fold_right Z.mul 1 l.
Fixpoint crt_lift_sum (n : Z) (ps rs : list Z) : option Z :=
  match ps, rs with
  | [], [] => Some 0
  | p :: ps', r :: rs' =>
    let mi := n / p in
    match modinv (mi mod p) p, crt_lift_sum n ps' rs' with
    | Some inv, Some acc => Some ((((r mod n) * ((mi * inv) mod n)) mod n + acc) mod n)
    | _, _ => None
    end
  | _, _ => None
  end.
Definition crt_multi_parallel (ps rs : list Z) : option Z := crt_lift_sum (prodl ps) ps rs.

(* ------------------------------------------------------------------ rationals (num.Rat) *)

(* canonical form: gcd 1, positive denominator *)
Definition rat_canon (a b : Z) : Z * Z :=
  let g := Z.gcd a b in
  if g =? 0 then (a, b) else
  let s := if b <? 0 then -1 else 1 in (s * (a / g), s * (b / g)).

(* ------------------------------------------------------------------ object histories (num wrappers) *)

(* value of the NatPlus derived from n by one value-changing method (parameters a, s);
   None = the method refuses (result would not be positive / inexact division).
   Codes 7, 8, 12..16 are value-preserving conversions (Clone, Abs, via Nat / Int /
   Cardinal / ModulusCT / Bytes). *)
Definition np_derive (op n a s : Z) : option Z :=
  let ok (v : Z) := if 0 <? v then Some v else None in
  if op =? 0 then ok (n + 1) else if op =? 1 then ok (n - 1)
  else if op =? 2 then ok (n + a) else if op =? 3 then ok (n - a)
  else if op =? 4 then ok (n * a) else if op =? 5 then ok (n * 2 ^ s)
  else if op =? 6 then ok (n / 2 ^ s) else if op =? 9 then ok (2 * n)
  else if op =? 10 then ok (n * n)
  else if op =? 11 then (if a <=? 0 then None else if n mod a =? 0 then ok (n / a) else None)
  else if op =? 17 then ok (n / Z.gcd a n)      (* denominator of the canonical form of a/n *)
  else ok n.

Definition np_derive2 (op1 op2 n a s : Z) : option Z :=
  match np_derive op1 n a s with
  | None => None
  | Some d1 => if op2 <? 0 then Some d1 else np_derive op2 d1 a s
  end.

(* a residue u modulo n after one Uint method *)
Definition uint_step (op n u y e s : Z) : option Z :=
  if op =? 0 then Some ((u + y) mod n) else if op =? 1 then Some ((u - y) mod n)
  else if op =? 2 then Some ((u * y) mod n) else if op =? 3 then Some ((- u) mod n)
  else if op =? 4 then Some (modpow (u mod n) e n) else if op =? 5 then Some ((u * 2 ^ s) mod n)
  else if op =? 6 then Some ((u / 2 ^ s) mod n) else if op =? 8 then Some ((u + 1) mod n)
  else if op =? 9 then Some ((u - 1) mod n) else if op =? 10 then Some ((2 * u) mod n)
  else if op =? 11 then Some ((u * u) mod n)
  else if op =? 12 then (if n =? 1 then Some 0 else modinv u n)
  else Some (u mod n).

(* ------------------------------------------------------------------ operation table *)

(* operation names: string literals parsed into a private inductive (so that the
   extracted code contains no string type); the code of a name is its bytes read
   as a big-endian integer *)
Inductive opname : Set := OpName (cs : list N).
Definition opname_of_bytes (l : list Byte.byte) : opname := OpName (map Byte.to_N l).
Definition opname_to_bytes (o : opname) : list Byte.byte :=
  match o with OpName cs => flat_map (fun c => match Byte.of_N c with Some b => [b] | None => [] end) cs end.
Declare Scope opname_scope.
Delimit Scope opname_scope with opname.
String Notation opname opname_of_bytes opname_to_bytes : opname_scope.

Definition opcode (s : opname) : Z :=
  match s with OpName cs => fold_left (fun acc c => acc * 256 + Z.of_N c) cs 0 end.

Definition opt1 (o : option Z) : res := match o with Some v => Ok [v] | None => Refuse end.
Definition okb (b : bool) : res := Ok [b2z b].

Definition split_half (l : list Z) : list Z * list Z :=
  let n := Nat.div2 (List.length l) in (firstn n l, skipn n l).

Definition cmp3 (x y : Z) : list Z := [b2z (x <? y); b2z (x =? y); b2z (y <? x)].

Definition table : list (Z * (list Z -> res)) :=
  let e (s : opname) (f : list Z -> res) := (opcode s, f) in
  [ (* ---- numct.Nat: operands (v, a) *)
    e "nat.set"%opname (fun a => match a with [x; ax] => Ok [trunc ax x] | _ => Panic end);
    e "nat.add"%opname (fun a => match a with [x; ax; y; ay; c] => Ok [add_cap (trunc ax x) ax (trunc ay y) ay c] | _ => Panic end);
    e "nat.sub"%opname (fun a => match a with [x; ax; y; ay; c] => Ok [sub_cap (trunc ax x) ax (trunc ay y) ay c] | _ => Panic end);
    e "nat.mul"%opname (fun a => match a with [x; ax; y; ay; c] => Ok [mul_cap (trunc ax x) ax (trunc ay y) ay c] | _ => Panic end);
    e "nat.lsh"%opname (fun a => match a with [x; ax; s; c] => Ok [lsh_cap (trunc ax x) ax s c] | _ => Panic end);
    e "nat.rsh"%opname (fun a => match a with [x; ax; s; c] => Ok [rsh_cap (trunc ax x) ax s c] | _ => Panic end);
    e "nat.and"%opname (fun a => match a with [x; ax; y; ay; c] => Ok [and_cap (trunc ax x) ax (trunc ay y) ay c] | _ => Panic end);
    e "nat.or"%opname (fun a => match a with [x; ax; y; ay; c] => Ok [or_cap (trunc ax x) ax (trunc ay y) ay c] | _ => Panic end);
    e "nat.xor"%opname (fun a => match a with [x; ax; y; ay; c] => Ok [xor_cap (trunc ax x) ax (trunc ay y) ay c] | _ => Panic end);
    e "nat.not"%opname (fun a => match a with [x; ax; c] => Ok [not_cap (trunc ax x) ax c] | _ => Panic end);
    e "nat.resize"%opname (fun a => match a with [x; ax; c] => Ok [trunc (dflt c ax) (trunc ax x)] | _ => Panic end);
    e "nat.div"%opname (fun a => match a with [x; ax; y; ay] =>
        let x := trunc ax x in let y := trunc ay y in
        if y =? 0 then Refuse else Ok [x / y; x mod y] | _ => Panic end);
    e "nat.sqrt"%opname (fun a => match a with [x; ax] =>
        let x := trunc ax x in let r := Z.sqrt x in if r * r =? x then Ok [r] else Refuse | _ => Panic end);
    e "nat.gcd"%opname (fun a => match a with [x; ax; y; ay] => Ok [Z.gcd (trunc ax x) (trunc ay y)] | _ => Panic end);
    e "nat.lcm"%opname (fun a => match a with [x; ax; y; ay] => Ok [Z.lcm (trunc ax x) (trunc ay y)] | _ => Panic end);
    e "nat.coprime"%opname (fun a => match a with [x; ax; y; ay] => okb (Z.gcd (trunc ax x) (trunc ay y) =? 1) | _ => Panic end);
    e "nat.cmp"%opname (fun a => match a with [x; ax; y; ay] => Ok (cmp3 (trunc ax x) (trunc ay y)) | _ => Panic end);
    e "nat.bits"%opname (fun a => match a with [x; ax; i] =>
        let x := trunc ax x in
        Ok [bitlen x; b2z (Z.testbit x i); (x / 2 ^ (8 * i)) mod 256; b2z (Z.odd x); b2z (x =? 0); b2z (x =? 1); x mod 2 ^ 64]
        | _ => Panic end);
    e "nat.setbit"%opname (fun a => match a with [x; ax; i; b] =>
        let x := trunc ax x in
        Ok [if b =? 1 then Z.setbit x i else Z.clearbit x i] | _ => Panic end);
    e "nat.bytes"%opname (fun a => match a with [x; ax] => Ok (nat_bytes (trunc ax x) ax) | _ => Panic end);
    e "nat.fillbytes"%opname (fun a => match a with [x; ax; k] => Ok (be_bytesZ k (trunc ax x mod pow2 (8 * k))) | _ => Panic end);
    e "nat.setbytes"%opname (fun a => Ok [be_valueZ a; 8 * Z.of_nat (List.length a)]);
    e "nat.incdec"%opname (fun a => match a with [x; ax] =>
        let x := trunc ax x in
        Ok [add_cap x ax 1 1 (-1); sub_cap x ax 1 1 (-1)] | _ => Panic end);
    e "nat.select"%opname (fun a => match a with [c; x; ax; y; ay] => Ok [if c =? 1 then trunc ay y else trunc ax x] | _ => Panic end);
    e "nat.isprime"%opname (fun a => match a with [x; ax] => okb (is_prime_mr (trunc ax x)) | _ => Panic end);
    (* ---- numct.Int: operands (v, a), sign kept, magnitude truncated *)
    e "int.set"%opname (fun a => match a with [x; ax] => Ok [int_in ax x] | _ => Panic end);
    e "int.add"%opname (fun a => match a with [x; ax; y; ay; c] => Ok [int_add_cap (int_in ax x) ax (int_in ay y) ay c] | _ => Panic end);
    e "int.sub"%opname (fun a => match a with [x; ax; y; ay; c] => Ok [int_add_cap (int_in ax x) ax (- int_in ay y) ay c] | _ => Panic end);
    e "int.mul"%opname (fun a => match a with [x; ax; y; ay; c] => Ok [int_mul_cap (int_in ax x) ax (int_in ay y) ay c] | _ => Panic end);
    e "int.mulsign"%opname (fun a => match a with [x; ax; y; ay] =>
        let p := int_in ax x * int_in ay y in Ok (b2z (p <? 0) :: cmp3 p 0) | _ => Panic end);
    e "int.neg"%opname (fun a => match a with [x; ax] => Ok [- int_in ax x; Z.abs (int_in ax x)] | _ => Panic end);
    e "int.eucdiv"%opname (fun a => match a with [x; ax; y; ay] =>
        let x := int_in ax x in let y := int_in ay y in
        if y =? 0 then Refuse else Ok [ZEuclid.div x y; ZEuclid.modulo x y] | _ => Panic end);
    e "int.truncdiv"%opname (fun a => match a with [x; ax; y; ay] =>
        let x := int_in ax x in let y := int_in ay y in
        if y =? 0 then Refuse else Ok [Z.quot x y; Z.rem x y] | _ => Panic end);
    e "int.gcd"%opname (fun a => match a with [x; ax; y; ay] => Ok [Z.gcd (int_in ax x) (int_in ay y)] | _ => Panic end);
    e "int.coprime"%opname (fun a => match a with [x; ax; y; ay] => okb (Z.gcd (int_in ax x) (int_in ay y) =? 1) | _ => Panic end);
    e "int.cmp"%opname (fun a => match a with [x; ax; y; ay] => Ok (cmp3 (int_in ax x) (int_in ay y)) | _ => Panic end);
    e "int.sqrt"%opname (fun a => match a with [x; ax] =>
        let x := int_in ax x in
        if x <? 0 then Refuse else let r := Z.sqrt x in if r * r =? x then Ok [r] else Refuse | _ => Panic end);
    e "int.inv"%opname (fun a => match a with [x; ax] => let x := int_in ax x in if Z.abs x =? 1 then Ok [x] else Refuse | _ => Panic end);
    e "int.lsh"%opname (fun a => match a with [x; ax; s; c] =>
        let x := int_in ax x in Ok [Z.sgn x * lsh_cap (Z.abs x) ax s c] | _ => Panic end);
    e "int.rsh"%opname (fun a => match a with [x; ax; s; c] =>
        let x := int_in ax x in Ok [Z.sgn x * rsh_cap (Z.abs x) ax s c] | _ => Panic end);
    e "int.resize"%opname (fun a => match a with [x; ax; c] => Ok [int_in (dflt c ax) (int_in ax x)] | _ => Panic end);
    e "int.bits"%opname (fun a => match a with [x; ax] =>
        let x := int_in ax x in
        Ok [bitlen x; b2z (x <? 0); b2z (Z.odd x); b2z (x =? 0); b2z (x =? 1); b2z (Z.abs x =? 1)] | _ => Panic end);
    (* Select / CondNeg / Increment / Decrement / Double / Square of Int operands *)
    e "int.misc"%opname (fun a => match a with [c; x; ax; y; ay] =>
        let x := int_in ax x in let y := int_in ay y in
        Ok [if c =? 1 then y else x; x + 1; x - 1; 2 * x; x * x; if c =? 1 then - x else x] | _ => Panic end);
    (* 64-bit conversions: v given as a signed 64-bit value; outputs value, |v| mod 2^64 *)
    e "int.conv64"%opname (fun a => match a with [v] => Ok [v; Z.abs v mod 2 ^ 64; v] | _ => Panic end);
    e "int.twos"%opname (fun a => match a with [x; ax] => Ok (twos_bytes (int_in ax x) ax) | _ => Panic end);
    e "int.settwos"%opname (fun a => match a with [] => Refuse | _ => Ok [twos_value a] end);
    e "int.bytes"%opname (fun a => match a with [x; ax] =>
        let x := int_in ax x in Ok (b2z (x <? 0) :: nat_bytes (Z.abs x) ax) | _ => Panic end);
    e "int.setbytes"%opname (fun a => match a with [] => Refuse | s :: r => Ok [(if Z.odd s then -1 else 1) * be_valueZ r] end);
    e "int.bitwise"%opname (fun a => match a with [x; ax; y; ay; c] =>
        (* And/Or/Xor/Not on the two's complement of the operands resized to c *)
        let c := dflt c (Z.max ax ay) in
        let x := int_in c (int_in ax x) in let y := int_in c (int_in ay y) in
        let k := (c + 1 + 7) / 8 in
        let w := fun v => let m := v mod pow2 (8 * k) in if m <? pow2 (8 * k - 1) then m else m - pow2 (8 * k) in
        Ok [w (Z.land x y); w (Z.lor x y); w (Z.lxor x y); w (Z.lnot x)] | _ => Panic end);
    (* ---- numct.Modulus *)
    e "mod.new"%opname (fun a => match a with [m; am] => let m := trunc am m in if m =? 0 then Refuse else Ok [m; bitlen m] | _ => Panic end);
    e "mod.mod"%opname (fun a => match a with [m; x; ax] => Ok [trunc ax x mod m] | _ => Panic end);
    e "mod.modi"%opname (fun a => match a with [m; x; ax] => Ok [int_in ax x mod m] | _ => Panic end);
    e "mod.modsym"%opname (fun a => match a with [m; x; ax] => Ok [mod_symmetric (trunc ax x) m] | _ => Panic end);
    e "mod.quo"%opname (fun a => match a with [m; x; ax] => Ok [trunc (bitlen m) (trunc ax x / m)] | _ => Panic end);
    e "mod.add"%opname (fun a => match a with [m; x; ax; y; ay] => Ok [(trunc ax x + trunc ay y) mod m] | _ => Panic end);
    e "mod.sub"%opname (fun a => match a with [m; x; ax; y; ay] => Ok [(trunc ax x - trunc ay y) mod m] | _ => Panic end);
    e "mod.mul"%opname (fun a => match a with [m; x; ax; y; ay] => Ok [(trunc ax x * trunc ay y) mod m] | _ => Panic end);
    e "mod.neg"%opname (fun a => match a with [m; x; ax] => Ok [(- trunc ax x) mod m] | _ => Panic end);
    e "mod.inv"%opname (fun a => match a with [m; x; ax] => opt1 (modinv (trunc ax x) m) | _ => Panic end);
    e "mod.div"%opname (fun a => match a with [m; x; ax; y; ay] => opt1 (moddiv (trunc ax x) (trunc ay y) m) | _ => Panic end);
    e "mod.exp"%opname (fun a => match a with [m; x; ax; y; ay] => Ok [modpow (trunc ax x mod m) (trunc ay y) m] | _ => Panic end);
    e "mod.expi"%opname (fun a => match a with [m; x; ax; y; ay] =>
        let y := int_in ay y in
        let r := modpow (trunc ax x mod m) (Z.abs y) m in
        if y <? 0 then opt1 (modinv r m) else Ok [r] | _ => Panic end);
    e "mod.sqrt"%opname (fun a => match a with [m; x; ax] =>
        match modsqrt (trunc ax x) m with SqrtOk r => Ok [r] | SqrtNone => Refuse | SqrtPanic => Panic end | _ => Panic end);
    e "mod.inrange"%opname (fun a => match a with [m; x; ax] =>
        let x := int_in ax x in
        Ok [b2z ((0 <=? x) && (x <? m)); b2z ((- m <=? 2 * x) && (2 * x <? m))] | _ => Panic end);
    e "mod.isunit"%opname (fun a => match a with [m; x; ax] => okb (Z.gcd (trunc ax x) m =? 1) | _ => Panic end);
    (* ---- nt.Jacobi: x, y, then the factorisation of y *)
    e "jacobi"%opname (fun a => match a with x :: y :: fs =>
        match jacobi x y with
        | Some j => Ok [j; jac_spec x fs]
        | None => Refuse
        end | _ => Panic end);
    (* ---- crt *)
    e "crt.recombine"%opname (fun a => match a with [p; ap; q; aq; mp; amp; mq; amq] =>
        let p := trunc ap p in let q := trunc aq q in
        if p =? 0 then Panic else
        match crt_precompute p q with
        | Some qinv => if Z.gcd p q =? 1 then
            Ok [crt_recombine p q qinv (bitlen p + aq) (trunc amp mp) (trunc amq mq)] else Refuse
        | None => Refuse
        end | _ => Panic end);
    e "crt.multi.serial"%opname (fun a => let '(ps, rs) := split_half a in opt1 (crt_multi_serial ps rs));
    e "crt.multi.parallel"%opname (fun a => let '(ps, rs) := split_half a in opt1 (crt_multi_parallel ps rs));
    (* ---- results of arithmetic modulo n (modular.*, num.Uint, znstar): n, x, y *)
    e "zn.mul"%opname (fun a => match a with [n; x; y] => Ok [(x * y) mod n] | _ => Panic end);
    e "zn.add"%opname (fun a => match a with [n; x; y] => Ok [(x + y) mod n] | _ => Panic end);
    e "zn.sub"%opname (fun a => match a with [n; x; y] => Ok [(x - y) mod n] | _ => Panic end);
    e "zn.neg"%opname (fun a => match a with [n; x] => Ok [(- x) mod n] | _ => Panic end);
    e "zn.exp"%opname (fun a => match a with [n; x; y] => Ok [modpow (x mod n) y n] | _ => Panic end);
    e "zn.expi"%opname (fun a => match a with [n; x; y] =>
        let r := modpow (x mod n) (Z.abs y) n in
        if y <? 0 then opt1 (modinv r n) else Ok [r] | _ => Panic end);
    e "zn.inv"%opname (fun a => match a with [n; x] => opt1 (modinv x n) | _ => Panic end);
    e "zn.div"%opname (fun a => match a with [n; x; y] =>
        match modinv y n with Some yi => Ok [(x * yi) mod n] | None => Refuse end | _ => Panic end);
    e "zn.shift"%opname (fun a => match a with [n; x; s] => Ok [(x * 2 ^ s) mod n; (x / 2 ^ s) mod n] | _ => Panic end);
    e "zn.expbounded"%opname (fun a => match a with [n; x; y; bits] =>
        let y := int_in bits y in
        let r := modpow (x mod n) (Z.abs y) n in
        if y <? 0 then opt1 (modinv r n) else Ok [r] | _ => Panic end);
    e "zn.sqrt"%opname (fun a => match a with [n; x] =>
        match modsqrt x n with SqrtOk r => Ok [r] | SqrtNone => Refuse | SqrtPanic => Panic end | _ => Panic end);
    (* ---- plain integers (num.Nat / num.Int / num.NatPlus) *)
    e "z.arith"%opname (fun a => match a with [x; y] => Ok [x + y; x - y; x * y] | _ => Panic end);
    e "z.eucdiv"%opname (fun a => match a with [x; y] => if y =? 0 then Refuse else Ok [ZEuclid.div x y; ZEuclid.modulo x y] | _ => Panic end);
    e "z.exactdiv"%opname (fun a => match a with [x; y] =>
        if y =? 0 then Refuse else if ZEuclid.modulo x y =? 0 then Ok [ZEuclid.div x y] else Refuse | _ => Panic end);
    e "z.cmp"%opname (fun a => match a with [x; y] => Ok (cmp3 x y) | _ => Panic end);
    e "z.gcd"%opname (fun a => match a with [x; y] => Ok [Z.gcd x y] | _ => Panic end);
    e "z.sqrt"%opname (fun a => match a with [x] =>
        if x <? 0 then Refuse else let r := Z.sqrt x in if r * r =? x then Ok [r] else Refuse | _ => Panic end);
    e "z.shift"%opname (fun a => match a with [x; s] => Ok [x * 2 ^ s; Z.sgn x * (Z.abs x / 2 ^ s)] | _ => Panic end);
    e "z.mod"%opname (fun a => match a with [x; m] => if m <=? 0 then Refuse else Ok [x mod m] | _ => Panic end);
    (* conversions between the number structures: x (signed), modulus m *)
    e "num.convert"%opname (fun a => match a with [x; m] =>
        Ok [b2z (0 <=? x); Z.abs x; x mod m; Z.abs x mod m; mod_symmetric x m] | _ => Panic end);
    (* object histories: the derived modulus d is computed from the VALUES only; then d in every role *)
    e "num.history"%opname (fun a => match a with [n; p; x; y; ex; op1; op2; s] =>
        match np_derive2 op1 op2 n p s with
        | None => Refuse
        | Some d =>
          Ok ([d; x mod d; (x + y) mod d; (x * y) mod d; modpow (x mod d) ex d;
               b2z ((0 <=? x) && (x <? d))] ++ cmp3 d n ++ [modpow (x mod n) d n])
        end | _ => Panic end);
    e "uint.history"%opname (fun a => match a with [n; x; y; ex; op1; op2; s] =>
        match uint_step op1 n (x mod n) (y mod n) ex s with
        | None => Refuse
        | Some u1 =>
          match (if op2 <? 0 then Some u1 else uint_step op2 n u1 (y mod n) ex s) with
          | None => Refuse
          | Some u2 => Ok [u2; n; (u2 + x) mod n; mod_symmetric u2 n]
          end
        end | _ => Panic end);
    (* saferith caches "reduced modulo m" on a Nat: reduce, mutate in place, reduce again *)
    e "nat.reduced"%opname (fun a => match a with [m; x; ax; y; ay; mut; s] =>
        let r := trunc ax x mod m in let y := trunc ay y in
        let lm := bitlen m in
        let v := if mut =? 0 then add_cap r lm y ay (-1)
                 else if mut =? 1 then add_cap r lm 1 1 (-1)
                 else if mut =? 2 then lsh_cap r lm s (-1)
                 else if mut =? 3 then mul_cap r lm y ay (-1)
                 else if mut =? 4 then y
                 else if mut =? 5 then (if Z.testbit r s then r else Z.setbit r s)
                 else if mut =? 6 then or_cap r lm y ay (-1)
                 else if mut =? 7 then add_cap r lm r lm (-1)
                 else r in
        Ok [v; v mod m; (v + y) mod m; (v * y) mod m] | _ => Panic end);
    (* ---- rationals a/b, c/d (b, d > 0) *)
    e "q.arith"%opname (fun a => match a with [a1; b1; c1; d1] =>
        let '(sn, sd) := rat_canon (a1 * d1 + c1 * b1) (b1 * d1) in
        let '(dn, dd) := rat_canon (a1 * d1 - c1 * b1) (b1 * d1) in
        let '(mn, md) := rat_canon (a1 * c1) (b1 * d1) in
        Ok [sn; sd; dn; dd; mn; md; b2z (a1 * d1 =? c1 * b1); b2z (a1 * d1 <=? c1 * b1)] | _ => Panic end);
    e "q.div"%opname (fun a => match a with [a1; b1; c1; d1] =>
        if c1 =? 0 then Refuse else
        let '(n, d) := rat_canon (a1 * d1) (b1 * c1) in Ok [n; d] | _ => Panic end);
    e "q.round"%opname (fun a => match a with [a1; b1] =>
        let '(n, d) := rat_canon a1 b1 in
        Ok [n; d; a1 / b1; - ((- a1) / b1); b2z (d =? 1)] | _ => Panic end);
    (* ---- random sampling in a range: lo, hi, sampled value *)
    e "range.check"%opname (fun a => match a with [lo; hi; r] =>
        if hi <=? lo then Refuse else okb ((lo <=? r) && (r <? hi)) | _ => Panic end);
    (* ---- cardinals (saturating subtraction) *)
    e "card.arith"%opname (fun a => match a with [x; y] =>
        Ok [x + y; x * y; Z.max 0 (x - y); b2z (x <=? y); b2z (x =? y); bitlen x] | _ => Panic end);
    (* ---- generated primes: p, requested bits *)
    e "prime.check"%opname (fun a => match a with [p; bits] =>
        Ok [b2z (is_prime_mr p); b2z (bitlen p =? bits); p mod 4; b2z (is_prime_mr ((p - 1) / 2))] | _ => Panic end)
  ].

Definition eval (op : Z) (args : list Z) : res :=
  match find (fun e => fst e =? op) table with
  | Some (_, f) => f args
  | None => Panic
  end.
