(* Draws.v — C07: protocol secrets come from, and depend on, each party's own randomness.

   (a) The tape-functional protocol skeleton.  A party's randomness is the byte string
       (tape) its io.Reader serves.  A *draw* names a site, how many bytes it consumes and
       how the bytes become a value; the k-th randomised value of a party is
       sample q (k-th draw) (slice of the tape at the offset the preceding draws reach).
       Scalars are sampled as the code does (SetRandom -> SetBytesWide): (bits+128+7)/8
       bytes, little endian, reduced mod q; witnesses, contributions, commitment keys are
       the raw bytes.  A party's first randomised message is the list of encoded values
       (scalar k |-> k.g, i.e. k in the exponent; raw |-> the bytes; a commitment is a free
       hash term over key, message and witness).  Joint values: sum of the parties' nonce
       (resp. constant-coefficient) samples, the session-id term over the contributions
       sorted by party id, zero shares as +/- sums of pairwise terms.
   (b) The draw specifications `draws : protocol -> cfg -> round -> list draw`, as data,
       for every protocol the harness drives (observed with recording tapes; the
       correspondence check compares them read for read on every run).

   Executable definitions only; the lemmas are in proofs/Draws_proofs.v. *)
From Coq Require Import List NArith ZArith Bool.
Import ListNotations.
Require Import V.base.Bytes.
Local Open Scope N_scope.

(* ---- samplers, as coded -------------------------------------------------------- *)

(* number of bytes SetRandom reads for a field of `bits` bits *)
Definition wide_len (bits : N) : N := (bits + 128 + 7) / 8.

Definition sample_scalar (q : N) (bs : bytes) : N := le_value bs mod q.
Definition sample_raw (bs : bytes) : bytes := bs.

Inductive kind := KScalar | KRaw.

Inductive value :=
| VScalar (k : N)
| VRaw (b : bytes).

Definition sample (q : N) (k : kind) (bs : bytes) : value :=
  match k with
  | KScalar => VScalar (sample_scalar q bs)
  | KRaw => VRaw (sample_raw bs)
  end.

(* ---- draws and tapes ------------------------------------------------------------ *)

Inductive site :=
| SNonce          (* signing nonce share k_i / r_i *)
| SWitness        (* hash-commitment witness *)
| SPhi            (* DKLs23 multiplicative mask phi *)
| SSecret         (* dealer secret / DKG contribution a_{i,0} *)
| SCoeff          (* dealer column (entry 0 is overwritten by the secret) *)
| SBlindSecret    (* Pedersen blinding secret *)
| SBlindCoeff     (* Pedersen blinding column *)
| SProofNonce     (* sigma-protocol prover nonce *)
| SRho            (* Canetti rho *)
| SCommitKey      (* session commitment key *)
| SContribution   (* session common contribution *)
| SPairContribution (* session pairwise contribution *)
| SZeroCoeff      (* HJKY zero-dealing column (entry 0 overwritten by 0) *)
| SNextCoeff      (* redistribution: dealing of the additive contribution under the next structure *)
| SOtSenderKey    (* base OT sender key a *)
| SOtChoices      (* base OT receiver choice bits *)
| SOtReceiver     (* base OT receiver: b_i and the two POPF group samples *)
| SVoleAHat       (* VOLE check values a-hat *)
| SExtSeed        (* SoftSpoken extension randomness *)
| SMask           (* Lindell17 secondary: Paillier masking value *)
| SPaillierNonce. (* Paillier encryption nonces *)

(* sites drawn by rejection sampling (a Paillier nonce must be a unit below N): the
   specification gives the minimum number of reads, a rejected sample is drawn again *)
Definition retry_site (s : site) : bool :=
  match s with SPaillierNonce => true | _ => false end.

(* draws whose value the protocol discards by design: entry 0 of a dealt column is sampled with
   the column and then overwritten by the secret (resp. by 0) — kw DealAndRevealDealerFunc *)
Definition discarded_site (s : site) (i : N) : bool :=
  match s with
  | SCoeff | SBlindCoeff | SZeroCoeff | SNextCoeff => N.eqb i 0
  | _ => false
  end.

Record draw := mkDraw { d_site : site; d_idx : N; d_kind : kind; d_len : N }.

Definition slice (off len : nat) (t : bytes) : bytes := firstn len (skipn off t).

(* offsets: every draw starts where the preceding one ended *)
Fixpoint layout_from (off : nat) (ds : list draw) : list (draw * nat) :=
  match ds with
  | [] => []
  | d :: r => (d, off) :: layout_from (off + N.to_nat (d_len d)) r
  end.
Definition layout (ds : list draw) : list (draw * nat) := layout_from 0 ds.

Definition total_len (ds : list draw) : N := fold_right (fun d a => d_len d + a) 0 ds.

Definition value_at (q : N) (t : bytes) (p : draw * nat) : value :=
  sample q (d_kind (fst p)) (slice (snd p) (N.to_nat (d_len (fst p))) t).

Definition party_values (q : N) (ds : list draw) (t : bytes) : list value :=
  map (value_at q t) (layout ds).

(* ---- messages as terms (hashes / commitments are free constructors) ---------------- *)

Inductive term :=
| TExp (k : N)                       (* the group element k.g *)
| TBytes (b : bytes)
| THash (tag : N) (args : list term).

Definition enc_value (v : value) : term :=
  match v with
  | VScalar k => TExp k
  | VRaw b => TBytes b
  end.

Definition first_msg (q : N) (ds : list draw) (t : bytes) : list term :=
  map enc_value (party_values q ds t).

(* commitment to a message under key ck with witness w *)
Definition commit_term (ck : bytes) (m : term) (w : bytes) : term :=
  THash 1 [TBytes ck; m; TBytes w].

(* nonce commitment of a party whose nonce sample is k and witness sample is w *)
Definition nonce_commitment (ck : bytes) (k : N) (w : bytes) : term :=
  commit_term ck (TExp k) w.

(* the whole first round: party i uses specification i on tape i *)
Definition run (q : N) (specs : list (list draw)) (tapes : list bytes) : list (list term) :=
  map (fun p => first_msg q (fst p) (snd p)) (combine specs tapes).

Fixpoint upd {A} (l : list A) (j : nat) (x : A) : list A :=
  match l, j with
  | [], _ => []
  | _ :: r, O => x :: r
  | a :: r, S j' => a :: upd r j' x
  end.

(* ---- joint values ------------------------------------------------------------------ *)

(* sum of the parties' samples: signature nonce (R = (sum k_i).g), DKG key (sum a_{i,0}) *)
Definition joint_sum (q : N) (ks : list N) : N := fold_right (fun k a => (k + a) mod q) 0 ks.

(* product (Lindell17: R = (k1*k2).g) *)
Definition joint_prod (q : N) (ks : list N) : N := fold_right (fun k a => (k * a) mod q) (1 mod q) ks.

(* session id: an injective function of the contributions sorted by party id *)
Fixpoint insert_by_id (x : N * bytes) (l : list (N * bytes)) : list (N * bytes) :=
  match l with
  | [] => [x]
  | y :: r => if fst x <=? fst y then x :: y :: r else y :: insert_by_id x r
  end.
Definition sort_by_id (l : list (N * bytes)) : list (N * bytes) := fold_right insert_by_id [] l.

Definition contribution_term (c : N * bytes) : term := THash 2 [TExp (fst c); TBytes (snd c)].
Definition sid_term (cs : list (N * bytes)) : term := THash 3 (map contribution_term (sort_by_id cs)).

(* sub-context pairwise seed (session.Context.SubContext): an injective function of the first
   64 bytes of the PARENT pairwise seed and the sorted sub-quorum data; the pairwise terms of
   the zero shares of a signing sub-quorum are samples of it *)
Definition sub_seed_term (parent : bytes) (qdata : bytes) : term := THash 4 [TBytes parent; TBytes qdata].

(* zero shares: party i adds the pairwise term with every larger id and subtracts the one
   with every smaller id (przs.SampleZeroShare); s a b is the term of the pair a < b *)
Local Open Scope Z_scope.
Definition pterm (s : N -> N -> Z) (i j : N) : Z :=
  if (i <? j)%N then s i j else if (j <? i)%N then - s j i else 0.
Definition zero_share (q : Z) (s : N -> N -> Z) (ids : list N) (i : N) : Z :=
  (fold_right (fun j a => pterm s i j + a) 0 ids) mod q.
Local Close Scope Z_scope.

(* ---- draw specifications ------------------------------------------------------------ *)

Inductive protocol :=
| PSession | PGennaro | PCanetti | PHjky | PRedistribute
| PDkls23Bbot | PDkls23Softspoken | PLindell22 | PBoldyreva
| PLindell17Primary | PLindell17Secondary
| POtSender | POtReceiver       (* pkg/ot/base/ecbbot on its own: the choice bits are an input *)
| PVoleAlice | PVoleBob
| POtExtReceiver | POtExtSender.  (* pkg/ot/extension/softspoken on its own: the receiver draws the sigma mask bits *)        (* pkg/mpc/rvole/bbot on its own: Bob draws his choice bits beta *)

(* what the specification depends on *)
Record cfg := mkCfg {
  c_n    : N;   (* number of acting parties *)
  c_d    : N;   (* columns of the MSP of the access structure (threshold t: t) *)
  c_w    : N;   (* wide_len of the scalar field *)
  c_xi   : N;   (* base-OT batch size xi *)
  c_l    : N;   (* base-OT block length L *)
  c_rho  : N;   (* VOLE rho / Fischlin repetitions *)
  c_pail : N    (* byte length of the Paillier modulus *)
}.

Definition rep {A} (n : N) (x : A) : list A := repeat x (N.to_nat n).
Definition idxs (n : N) : list N := map N.of_nat (seq 0 (N.to_nat n)).

Definition sc (c : cfg) (s : site) (i : N) : draw := mkDraw s i KScalar (c_w c).
Definition raw (s : site) (i len : N) : draw := mkDraw s i KRaw len.
Definition scs (c : cfg) (s : site) (n : N) : list draw := map (sc c s) (idxs n).

Definition per_peer {A} (c : cfg) (f : N -> list A) : list A := flat_map f (idxs (c_n c - 1)).

(* base OT receiver (ecbbot Round2): choice bits, then for every (i, l): b_i, two POPF samples *)
Definition ot_receiver (c : cfg) (peer : N) : list draw :=
  raw SOtChoices peer ((c_xi c + 7) / 8) :: rep (c_xi c * c_l c * 3) (sc c SOtReceiver peer).

Definition draws (p : protocol) (c : cfg) (round : N) : list draw :=
  match p, round with
  | PSession, 1 => [raw SCommitKey 0 32; raw SContribution 0 32; raw SWitness 0 32]
  | PSession, 2 => per_peer c (fun k => [raw SPairContribution k 32; raw SWitness (k + 1) 32])
  | PGennaro, 1 => sc c SSecret 0 :: scs c SCoeff (c_d c) ++ sc c SBlindSecret 0 :: scs c SBlindCoeff (c_d c)
                   ++ scs c SProofNonce (2 * c_d c)
  | PGennaro, 2 => [sc c SProofNonce (2 * c_d c)]
  | PCanetti, 1 => sc c SSecret 0 :: scs c SCoeff (c_d c)
                   ++ [raw SRho 0 (c_rho c); sc c SProofNonce 0; raw SWitness 0 32]
  | PHjky, 1 => scs c SZeroCoeff (c_d c)
  | PRedistribute, 1 => scs c SZeroCoeff (c_n c)
  | PRedistribute, 2 => scs c SNextCoeff (c_d c)
  | PDkls23Bbot, 1 => [sc c SNonce 0; raw SWitness 0 32; sc c SPhi 0] ++ scs c SOtSenderKey (c_n c - 1)
  | PDkls23Bbot, 2 => per_peer c (ot_receiver c)
  | PDkls23Bbot, 3 => per_peer c (fun k => rep (c_rho c) (sc c SVoleAHat k))
  | PDkls23Softspoken, 1 => scs c SOtSenderKey (c_n c - 1)
  | PDkls23Softspoken, 2 => per_peer c (ot_receiver c)
  | PDkls23Softspoken, 3 => [sc c SNonce 0; raw SWitness 0 32; sc c SPhi 0]
                            ++ per_peer c (fun k => [raw SExtSeed k 64; raw SExtSeed k 16])
  | PDkls23Softspoken, 4 => per_peer c (fun k => rep (c_rho c) (sc c SVoleAHat k))
  | PLindell22, 1 => sc c SNonce 0 :: scs c SZeroCoeff (c_n c) ++ [raw SWitness 0 32]
  | PLindell22, 2 => [sc c SProofNonce 0]
  | PLindell17Primary, 1 => sc c SNonce 0 :: scs c SProofNonce (c_rho c) ++ [raw SWitness 0 32]
  | PLindell17Secondary, 2 => sc c SNonce 0 :: scs c SProofNonce (c_rho c)
  | PLindell17Secondary, 4 => raw SMask 0 64 :: map (fun i => raw SPaillierNonce i (c_pail c)) (idxs 3)
  | POtSender, 1 => [sc c SOtSenderKey 0]
  | POtReceiver, 2 => rep (c_xi c * c_l c * 3) (sc c SOtReceiver 0)
  | PVoleAlice, 1 => [sc c SOtSenderKey 0]
  | PVoleAlice, 3 => rep (c_rho c) (sc c SVoleAHat 0)
  | PVoleBob, 2 => ot_receiver c 0
  | POtExtReceiver, 1 => [raw SExtSeed 0 16]
  | _, _ => []
  end.

(* what the extracted driver prints: (site, index, scalar?, length) *)
Definition draw_row (d : draw) : site * N * bool * N :=
  (d_site d, d_idx d, match d_kind d with KScalar => true | KRaw => false end, d_len d).
Definition draws_rows (p : protocol) (c : cfg) (round : N) : list (site * N * bool * N) :=
  map draw_row (draws p c round).
