(* Runner.v — the abstract skeleton of a protocol runner (property C11, last sentence).

   A protocol is a family of round functions  rf k p st inbox = (st', outbox)  (party p, round k;
   inbox: sender |-> payload, outbox: recipient |-> payload).
     [rounds n]  drives it round by round: the inbox of round k+1 of party p is, for every other
                 party q, what q's round-k outbox holds for p.
     [runner n]  is what pkg/network runners do: the inbox of round k+1 is whatever the party's
                 ReceiveFrom on the round's correlation id returned ([rin k p], an oracle here;
                 proofs/Runner_proofs.v constrains it to be the result of a completed RecvCheck
                 of the router model).
   Executable definitions only. *)
From Coq Require Import List NArith.
Import ListNotations.
Require Import V.base.Bytes V.model.Router V.model.Echo.

Section Skeleton.
  Context {St : Type}.
  Variable parties : list N.
  Variable rf : nat -> N -> St -> list (N * bytes) -> St * list (N * bytes).
  Variable init : N -> St.

  (* what q sends to p in round k, given everybody's state and inbox *)
  Definition sent (k : nat) (st : N -> St) (inb : N -> list (N * bytes)) (q p : N) : option bytes :=
    alookup N.eqb p (snd (rf k q (st q) (inb q))).

  (* the inbox assembled from the senders fs *)
  Fixpoint pick (fs : list N) (g : N -> option bytes) : list (N * bytes) :=
    match fs with
    | [] => []
    | f :: r => match g f with Some m => (f, m) :: pick r g | None => pick r g end
    end.

  Fixpoint rounds (n : nat) : (N -> St) * (N -> list (N * bytes)) :=
    match n with
    | O => (init, fun _ => [])
    | S k =>
      let st := fst (rounds k) in
      let inb := snd (rounds k) in
      (fun p => fst (rf k p (st p) (inb p)),
       fun p => pick (others p parties) (fun q => sent k st inb q p))
    end.

  Variable rin : nat -> N -> list (N * bytes).

  Fixpoint runner (n : nat) : (N -> St) * (N -> list (N * bytes)) :=
    match n with
    | O => (init, fun _ => [])
    | S k =>
      let st := fst (runner k) in
      let inb := snd (runner k) in
      (fun p => fst (rf k p (st p) (inb p)), fun p => rin k p)
    end.
End Skeleton.
