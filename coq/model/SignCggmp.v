(* SignCggmp.v — executable model, in the exponent, of the ALGEBRA of CGGMP21 online signing
   (pkg/mpc/signatures/ecdsa/cggmp21/signing/rounds.go Round3/Round4 and aggregate).
   Partial by design: the Paillier encryptions, the enc-elg / aff-g / elog / dec proofs and
   the red-alert path are not modelled (C08/C16 cover the primitives); the multiplicative-to-
   additive conversion is represented by its outputs with the correlation as a hypothesis.

   Parties are the indices 0..n-1; names follow the code:
     k i, gamma i        the scalars of Round1
     x i                 the unanimous additive signing share (after the zero-sharing step)
     beta i j, betah i j party i's masks towards j   (s.state.betaJ[j], betaHatJ[j])
     alpha j i, alphah j i   what party i decrypts from j's D_ji, Dhat_ji
   MtA correlation (Paillier affine operation D_ji = K_i^{gamma_j}·Enc(-beta_ji)):
     alpha j i + beta j i = gamma j * k i      alphah j i + betah j i = x j * k i
   The nonce point is Gamma = (sum gamma)·g, r = xc(gamma).  No proofs here. *)
From Coq Require Import List Bool Arith.
Import ListNotations.
Require Import V.base.Fld.

Section Cggmp.
  Context {F : Type} (K : fops F).
  Variable xc : F -> F.
  Variable yodd : F -> bool.
  Variable xover : F -> bool.

  Local Notation "x + y" := (fadd K x y).
  Local Notation "x * y" := (fmul K x y).
  Local Notation "x / y" := (fdiv K x y).

  Definition sum_over (l : list nat) (f : nat -> F) : F :=
    fold_right (fun i acc => f i + acc) (f0 K) l.
  Definition parties (n : nat) : list nat := seq 0 n.
  Definition others (n i : nat) : list nat := filter (fun j => negb (Nat.eqb j i)) (seq 0 n).

  Record inputs := mk_inputs {
    in_n : nat;
    in_k : nat -> F; in_gamma : nat -> F; in_x : nat -> F;
    in_alpha : nat -> nat -> F; in_beta : nat -> nat -> F;
    in_alphah : nat -> nat -> F; in_betah : nat -> nat -> F
  }.

  Definition big_gamma (inp : inputs) : F := sum_over (parties (in_n inp)) (in_gamma inp).
  Definition big_k (inp : inputs) : F := sum_over (parties (in_n inp)) (in_k inp).
  Definition big_x (inp : inputs) : F := sum_over (parties (in_n inp)) (in_x inp).

  (* Round3: delta_i = gamma_i k_i + sum_{j<>i} (alpha_ji + beta_ij),  chi_i likewise *)
  Definition delta_of (inp : inputs) (i : nat) : F :=
    in_gamma inp i * in_k inp i
    + sum_over (others (in_n inp) i) (fun j => in_alpha inp j i + in_beta inp i j).
  Definition chi_of (inp : inputs) (i : nat) : F :=
    in_k inp i * in_x inp i
    + sum_over (others (in_n inp) i) (fun j => in_alphah inp j i + in_betah inp i j).

  Definition delta (inp : inputs) : F := sum_over (parties (in_n inp)) (delta_of inp).

  (* Round4 at party i.  None = error or red alert. y = exponent of the public key *)
  Definition round4 (inp : inputs) (m y : F) (i : nat) : option F :=
    let g := big_gamma inp in
    if fis0 K g then None                                           (* Round3: aggregate Gamma is the identity *)
    else
      let d := delta inp in
      (* g^delta == sum Delta_j  with Delta_j = k_j·Gamma *)
      if negb (feqb K d (sum_over (parties (in_n inp)) (fun j => in_k inp j * g))) then None
      (* Y^delta == sum S_j  with S_j = chi_j·Gamma *)
      else if negb (feqb K (y * d) (sum_over (parties (in_n inp)) (fun j => chi_of inp j * g))) then None
      else if fis0 K d then None                                    (* delta.TryInv *)
      else
        let r := xc g in
        Some ((in_k inp i / d) * m + r * (chi_of inp i / d)).

  Definition sig := (F * F * (bool * bool))%type.

  Fixpoint all_some {A} (l : list (option A)) : option (list A) :=
    match l with
    | [] => Some []
    | None :: _ => None
    | Some a :: t => match all_some t with Some t' => Some (a :: t') | None => None end
    end.

  (* aggregate: per-sender check  sigma_j·Gamma == m·DeltaTilde_j + r·STilde_j, sigma_j <> 0 *)
  Definition aggregate (inp : inputs) (m : F) (sigmas : list F) : option sig :=
    let g := big_gamma inp in
    let d := delta inp in
    let r := xc g in
    let ok := forallb (fun js =>
                 negb (fis0 K (snd js)) &&
                 feqb K (snd js * g) (m * ((in_k inp (fst js) * g) / d) + r * ((chi_of inp (fst js) * g) / d)))
               (combine (parties (in_n inp)) sigmas) in
    if negb ok then None
    else
      let s := fold_right (fun a acc => a + acc) (f0 K) sigmas in
      if fis0 K r || fis0 K s then None                             (* NewSignature *)
      else Some (r, s, (yodd g, xover g)).

  Definition sign (inp : inputs) (m y : F) : option sig :=
    match all_some (map (round4 inp m y) (parties (in_n inp))) with
    | None => None
    | Some sigmas => aggregate inp m sigmas
    end.

  (* the library verifier on a signature with recovery id (as in SignDkls.verify) *)
  Definition verify (m y : F) (sg : sig) : bool :=
    let '(rx, s, v) := sg in
    negb (fis0 K rx) && negb (fis0 K s) &&
    (let k' := (m + rx * y) / s in
     feqb K (xc k') rx && Bool.eqb (yodd k') (fst v) && Bool.eqb (xover k') (snd v)).

  Definition expected_sig (inp : inputs) (m y : F) : sig :=
    let g := big_gamma inp in
    (xc g, (m + xc g * y) / g, (yodd g, xover g)).

  (* C16: the Paillier affine operation yields additive shares of the products *)
  Definition mta_product (inp : inputs) : Prop :=
    forall i j, (i < in_n inp)%nat -> (j < in_n inp)%nat -> i <> j ->
      in_alpha inp j i + in_beta inp j i = in_gamma inp j * in_k inp i /\
      in_alphah inp j i + in_betah inp j i = in_x inp j * in_k inp i.

  Definition guard (inp : inputs) (m y : F) : Prop :=
    big_gamma inp <> f0 K /\ big_k inp <> f0 K /\
    xc (big_gamma inp) <> f0 K /\ m + xc (big_gamma inp) * y <> f0 K /\
    (forall i, (i < in_n inp)%nat ->
       (in_k inp i / delta inp) * m + xc (big_gamma inp) * (chi_of inp i / delta inp) <> f0 K).

End Cggmp.

(* ---- concrete instance used by the correspondence check ----------------------------- *)
From Coq Require Import ZArith.
(* alpha determined by the correlation: alpha j i = gamma j * k i - beta j i *)
Definition cggmp_inputs_Z (q : Z) (n : nat) (k gamma x : list Z) (beta betah : list (list Z)) : inputs (F:=Z) :=
  let g1 (l : list Z) (i : nat) := nth i l 0%Z in
  let g2 (l : list (list Z)) (i j : nat) := nth j (nth i l []) 0%Z in
  mk_inputs n (g1 k) (g1 gamma) (g1 x)
    (fun j i => fsub (Zp q) (fmul (Zp q) (g1 gamma j) (g1 k i)) (g2 beta j i)) (g2 beta)
    (fun j i => fsub (Zp q) (fmul (Zp q) (g1 x j) (g1 k i)) (g2 betah j i)) (g2 betah).

Definition cggmp_run_Z (q : Z) (inp : inputs (F:=Z)) (m y rx : Z) (odd over : bool)
  : option (Z * Z * (bool * bool)) * Z :=
  let K := Zp q in
  let g := big_gamma K inp in
  let xcf := fun e : Z => if ((e =? g) || (e =? fopp K g))%Z then rx else fadd K rx 1%Z in
  let yoddf := fun e : Z => if (e =? g)%Z then odd else negb odd in
  let xoverf := fun _ : Z => over in
  (sign K xcf yoddf xoverf inp m y, g).
