(* H2cPoly.v — polynomials as little-endian coefficient lists over a field record, and the
   coefficient-wise check of the isogeny identity

       (x^3 + A' x + B') * YNum^2 * XDen^3  =  YDen^2 * (XNum^3 + a XNum XDen^2 + b XDen^3)

   that makes (XNum/XDen, y * YNum/YDen) map E' : y^2 = x^3 + A'x + B' to E : y^2 = x^3 + ax + b.
   Executable (run by the C19 driver on the regenerated isogeny constants); no proofs. *)
From Coq Require Import List Bool.
Import ListNotations.
Require Import V.base.Fld.

Section Poly.
  Context {F : Type} (K : fops F).
  Local Notation "0" := (f0 K).
  Local Notation "1" := (f1 K).
  Local Infix "+" := (fadd K).
  Local Infix "*" := (fmul K).
  Local Notation "- x" := (fopp K x).

  Fixpoint peval (p : list F) (x : F) : F :=
    match p with [] => 0 | c :: r => c + x * peval r x end.

  Fixpoint padd (p q : list F) : list F :=
    match p, q with
    | [], _ => q
    | _, [] => p
    | a :: p', b :: q' => (a + b) :: padd p' q'
    end.

  Definition pscale (c : F) (p : list F) : list F := map (fun a => c * a) p.

  Fixpoint pmul (p q : list F) : list F :=
    match p with
    | [] => []
    | a :: p' => padd (pscale a q) (0 :: pmul p' q)
    end.

  Section Iso.
    Variables (A' B' a b : F) (xnum xden ynum yden : list F).
    Definition iso_lhs : list F :=
      pmul (pmul [B'; A'; 0; 1] (pmul ynum ynum)) (pmul xden (pmul xden xden)).
    Definition iso_rhs : list F :=
      pmul (pmul yden yden)
           (padd (pmul xnum (pmul xnum xnum))
                 (padd (pscale a (pmul xnum (pmul xden xden))) (pscale b (pmul xden (pmul xden xden))))).
    (* all coefficients of lhs - rhs vanish *)
    Definition iso_identity_b : bool := forallb (fis0 K) (padd iso_lhs (pscale (- (1)) iso_rhs)).
  End Iso.
End Poly.
