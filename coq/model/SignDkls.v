(* SignDkls.v — executable model, in the exponent, of DKLs23 threshold ECDSA signing
   (pkg/mpc/signatures/ecdsa/dkls23/{dkls23.go, signing_bbot/rounds.go,
   signing_softspoken/rounds.go}; both multipliers run the same algebra).

   The group <g> of prime order q is the field F (record [fops]) "in the exponent":
   the point k·g is the scalar k.  What a point is asked for beyond its exponent is
   abstract:
     xc k     the affine x-coordinate of k·g read as a scalar (FromWideBytes(x.Bytes()))
     yodd k   parity of the affine y-coordinate of k·g
     xover k  the affine x-coordinate of k·g, as an integer, exceeds the group order
     high s   s > -s as integers (the signature is not in low-S form)
   Parties are the indices 0..n-1 of the signing quorum.  Variable names follow the code:
     r i, phi i      the scalars party i samples in Round1 (bbot) / Round3 (softspoken)
     sk i            c.state.sk = ConvertShareToAdditive(share, quorum) + zeta_i
     chi j i         c.state.chi[i] at party j: Bob j's random value towards Alice i
     cu i j, cv i j  c.state.c[j][0], c.state.c[j][1] at party i (Alice i's VOLE outputs with Bob j)
     du j i, dv j i  d[0], d[1] at party j (Bob j's VOLE outputs from Alice i)
   No proofs here. *)
From Coq Require Import List Bool Arith ZArith NArith.
Import ListNotations.
Require Import V.base.Fld V.base.Bytes.

Section Dkls.
  Context {F : Type} (K : fops F).
  Variable xc : F -> F.
  Variable yodd : F -> bool.
  Variable xover : F -> bool.
  Variable high : F -> bool.

  Local Notation "x + y" := (fadd K x y).
  Local Notation "x - y" := (fsub K x y).
  Local Notation "x * y" := (fmul K x y).
  Local Notation "x / y" := (fdiv K x y).

  (* x = zero; for i in l { x = x.Add(f i) } *)
  Definition sum_over (l : list nat) (f : nat -> F) : F :=
    fold_right (fun i acc => f i + acc) (f0 K) l.
  Definition parties (n : nat) : list nat := seq 0 n.
  (* c.ctx.OtherPartiesOrdered() *)
  Definition others (n i : nat) : list nat := filter (fun j => negb (Nat.eqb j i)) (seq 0 n).

  Record inputs := mk_inputs {
    in_n : nat;
    in_r : nat -> F; in_phi : nat -> F; in_sk : nat -> F;
    in_chi : nat -> nat -> F;
    in_cu : nat -> nat -> F; in_cv : nat -> nat -> F;
    in_du : nat -> nat -> F; in_dv : nat -> nat -> F
  }.

  (* exponent of bigR = sum of all bigR[id] (own one included) *)
  Definition big_r (inp : inputs) : F := sum_over (parties (in_n inp)) (in_r inp).
  (* exponent of pk = sum of all c.state.pk[id] *)
  Definition big_pk (inp : inputs) : F := sum_over (parties (in_n inp)) (in_sk inp).

  (* Round3 (bbot) / Round4 (softspoken) at party i towards id = j:  uOut.Psi = phi - chi[id] *)
  Definition psi_msg (inp : inputs) (i j : nat) : F := in_phi inp i - in_chi inp i j.

  (* Round4/Round5 at party j: the two consistency checks against party i
       bigR[i]·chi[i] - GammaU == d[0]·G   and   Pk_i·chi[i] - GammaV == d[1]·G *)
  Definition consistency (inp : inputs) (j i : nat) : bool :=
    feqb K (in_r inp i * in_chi inp j i - in_cu inp i j) (in_du inp j i) &&
    feqb K (in_sk inp i * in_chi inp j i - in_cv inp i j) (in_dv inp j i).

  Definition psi_in (inp : inputs) (j : nat) : F :=
    sum_over (others (in_n inp) j) (fun i => psi_msg inp i j).
  Definition cudu (inp : inputs) (j : nat) : F :=
    sum_over (others (in_n inp) j) (fun i => in_cu inp j i + in_du inp j i).
  Definition cvdv (inp : inputs) (j : nat) : F :=
    sum_over (others (in_n inp) j) (fun i => in_cv inp j i + in_dv inp j i).

  Definition u_of (inp : inputs) (j : nat) : F :=
    in_r inp j * (in_phi inp j + psi_in inp j) + cudu inp j.
  Definition v_of (inp : inputs) (j : nat) : F :=
    in_sk inp j * (in_phi inp j + psi_in inp j) + cvdv inp j.
  Definition w_of (inp : inputs) (m : F) (j : nat) : F :=
    m * in_phi inp j + xc (big_r inp) * v_of inp j.

  (* partial signature (r, u, w) *)
  Definition partial := (F * F * F)%type.

  (* Round4 (bbot) / Round5 (softspoken) at party j; [x] is the exponent of the shard's
     public key.  None = the round returns an error. *)
  Definition round_last (inp : inputs) (m x : F) (j : nat) : option partial :=
    if negb (forallb (consistency inp j) (others (in_n inp) j)) then None
    else if negb (feqb K (big_pk inp) x) then None           (* "consistency check failed" on pk *)
    else if fis0 K (big_r inp) then None                     (* AffineX of the identity / NewPartialSignature *)
    else
      let u := u_of inp j in
      let w := w_of inp m j in
      if fis0 K u || fis0 K w then None                      (* NewPartialSignature: invalid arguments *)
      else Some (big_r inp, u, w).

  (* ---- signatures (r, s, v): v = (parity bit, overflow bit) ---------------------- *)
  Definition sig := (F * F * (bool * bool))%type.

  Definition recid (k : F) : bool * bool := (yodd k, xover k).

  (* Signature.Normalise *)
  Definition normalise (sg : sig) : sig :=
    let '(rx, s, (b0, b1)) := sg in
    if high s then (rx, fopp K s, (negb b0, b1)) else sg.

  (* the library's ecdsa Verifier on a signature that carries a recovery id, for the key
     with exponent x and message scalar m: RecoverPublicKey(sig, m) == pk and the ECDSA
     verification equation.  R' = ((m + r x)/s)·g *)
  Definition verify (m x : F) (sg : sig) : bool :=
    let '(rx, s, v) := sg in
    negb (fis0 K rx) && negb (fis0 K s) &&
    (let k' := (m + rx * x) / s in
     feqb K (xc k') rx && Bool.eqb (fst (recid k')) (fst v) && Bool.eqb (snd (recid k')) (snd v)).

  (* the plain ECDSA verification equation (what an independent verifier checks) *)
  Definition verify_plain (m x rx s : F) : bool :=
    negb (fis0 K rx) && negb (fis0 K s) && feqb K (xc ((m + rx * x) / s)) rx.

  (* dkls23.Aggregate *)
  Definition aggregate (m x : F) (ps : list partial) : option sig :=
    match ps with
    | [] => None
    | (r0, _, _) :: _ =>
        if negb (forallb (fun p => feqb K (fst (fst p)) r0) ps) then None
        else
          let w := fold_right (fun p acc => snd p + acc) (f0 K) ps in
          let u := fold_right (fun p acc => snd (fst p) + acc) (f0 K) ps in
          if fis0 K u then None                                (* TryInv *)
          else
            let s := w / u in
            if fis0 K r0 then None                             (* AffineX of identity *)
            else
              let rx := xc r0 in
              if fis0 K rx || fis0 K s then None               (* NewSignature *)
              else
                let sg := normalise (rx, s, recid r0) in
                if verify m x sg then Some sg else None
    end.

  Fixpoint all_some {A} (l : list (option A)) : option (list A) :=
    match l with
    | [] => Some []
    | None :: _ => None
    | Some a :: t => match all_some t with Some t' => Some (a :: t') | None => None end
    end.

  (* the honest run: every party's last round, then Aggregate over all partial signatures *)
  Definition sign (inp : inputs) (m x : F) : option sig :=
    match all_some (map (round_last inp m x) (parties (in_n inp))) with
    | None => None
    | Some ps => aggregate m x ps
    end.

  (* closed form the theorem relates [sign] to *)
  Definition expected_sig (inp : inputs) (m x : F) : sig :=
    let k := big_r inp in
    normalise (xc k, (m + xc k * x) / k, recid k).

  (* the condition under which no step of the honest run returns an error *)
  Definition guard (inp : inputs) (m x : F) : Prop :=
    big_r inp <> f0 K /\
    sum_over (parties (in_n inp)) (in_phi inp) <> f0 K /\
    (forall j, (j < in_n inp)%nat -> u_of inp j <> f0 K /\ w_of inp m j <> f0 K) /\
    xc (big_r inp) <> f0 K /\
    m + xc (big_r inp) * x <> f0 K.

  (* C09 vole_product for the pair Alice i / Bob j, both multiplications *)
  Definition vole_product (inp : inputs) : Prop :=
    forall i j, (i < in_n inp)%nat -> (j < in_n inp)%nat -> i <> j ->
      in_cu inp i j + in_du inp j i = in_r inp i * in_chi inp j i /\
      in_cv inp i j + in_dv inp j i = in_sk inp i * in_chi inp j i.

End Dkls.

(* ---- concrete instance used by the correspondence check ----------------------------- *)
(* a scalar is sampled by reading (bits+128+7)/8 bytes and reducing the little-endian
   integer mod q (SetRandom -> SetUniformBytes) *)
Definition scalar_of_tape (q : Z) (b : bytes) : Z := (Z.of_N (le_value b) mod q)%Z.

(* Bob's outputs determined by the correlation: d = a·chi - c *)
Definition dkls_inputs_Z (q : Z) (n : nat) (r phi sk : list Z) (chi cu cv : list (list Z)) : inputs (F:=Z) :=
  let g1 (l : list Z) (i : nat) := nth i l 0%Z in
  let g2 (l : list (list Z)) (i j : nat) := nth j (nth i l []) 0%Z in
  mk_inputs n (g1 r) (g1 phi) (g1 sk) (g2 chi) (g2 cu) (g2 cv)
    (fun j i => fsub (Zp q) (fmul (Zp q) (g1 r i) (g2 chi j i)) (g2 cu i j))
    (fun j i => fsub (Zp q) (fmul (Zp q) (g1 sk i) (g2 chi j i)) (g2 cv i j)).

(* the run over Z_q with the curve-dependent observations given as the values they take on
   the two points that occur: k·g and (-k)·g share rx; yodd/xover are only consulted at k
   and -k.  [rx] = x-coordinate scalar of k·g, [odd]/[over] its parity / overflow bits. *)
Definition dkls_run_Z (q : Z) (inp : inputs (F:=Z)) (m x rx : Z) (odd over : bool)
  : option (Z * Z * (bool * bool)) * Z * Z * Z :=
  let K := Zp q in
  let k := big_r K inp in
  let xcf := fun e : Z => if ((e =? k) || (e =? fopp K k))%Z then rx else fadd K rx 1%Z in
  let yoddf := fun e : Z => if (e =? k)%Z then odd else negb odd in
  let xoverf := fun _ : Z => over in
  let highf := fun s : Z => (fopp K s <? s)%Z in
  let us := sum_over K (parties (in_n inp)) (u_of K inp) in
  let ws := sum_over K (parties (in_n inp)) (w_of K xcf inp m) in
  (sign K xcf yoddf xoverf highf inp m x, k, us, ws).
