(* Vole.v — executable model of the random-VOLE multiplication of
   pkg/mpc/rvole/bbot/rounds.go (and, formula for formula, rvole/softspoken) over an
   arbitrary field (record [fops]).  Names follow the code: Alice's input a (length l),
   gadget vector g (length xi), Bob's choice bits beta, the OT sender messages
   alpha[j][0|1][i] (xi rows, l+rho columns), Bob's gamma[j][i] = alpha[j][beta_j][i],
   Alice's c, aHat, aTilde, theta, eta, muBold; Bob's dDot, dHat, muPrimeBold, d.
   The two random oracles are idealised: roTheta is an arbitrary function of the
   aTilde matrix (a parameter), roMu is injective, so the mu message is represented by
   its argument (the muBold matrix).  Loops are modelled in the code's order
   (acc_upto = "x = init; for i < n { x = x + f i }").  No proofs here. *)
From Coq Require Import List Bool Arith.
Import ListNotations.
Require Import V.base.Fld.

Section Vole.
  Context {F : Type} (K : fops F).
  Local Notation "x + y" := (fadd K x y).
  Local Notation "x - y" := (fsub K x y).
  Local Notation "x * y" := (fmul K x y).

  Definition vec := list F.
  Definition mat := list (list F).
  Definition vget (v : vec) (i : nat) : F := nth i v (f0 K).
  Definition mget (m : mat) (j i : nat) : F := vget (nth j m []) i.
  Definition bget (beta : list bool) (j : nat) : bool := nth j beta false.

  (* x = init; for i in range n { x = x.Add(f i) } *)
  Fixpoint acc_upto (n : nat) (init : F) (f : nat -> F) : F :=
    match n with O => init | S n' => acc_upto n' init f + f n' end.
  (* x = zero; for i in range n { x = x.Sub(f i) } *)
  Fixpoint sub_upto (n : nat) (f : nat -> F) : F :=
    match n with O => f0 K | S n' => sub_upto n' f - f n' end.

  Definition tab (n : nat) (f : nat -> F) : vec := map f (seq 0 n).
  Definition tab2 (n m : nat) (f : nat -> nat -> F) : mat := map (fun j => tab m (f j)) (seq 0 n).

  (* betaJ := zero; if ci != 0 { betaJ = one } *)
  Definition betaF (beta : list bool) (j : nat) : F := if bget beta j then f1 K else f0 K.

  (* ---- the OT correlation the multiplication runs on (C09 base/extension OT) *)
  Definition ot_gamma (xi w : nat) (beta : list bool) (alpha0 alpha1 : mat) : mat :=
    tab2 xi w (fun j i => if bget beta j then mget alpha1 j i else mget alpha0 j i).

  (* ---- Bob.Round2: b = sum_j beta_j . g_j *)
  Definition bob_b (xi : nat) (beta : list bool) (g : vec) : F :=
    acc_upto xi (f0 K) (fun j => betaF beta j * vget g j).

  (* ---- Alice.Round3 *)
  Definition alice_c (l xi : nat) (g : vec) (alpha0 : mat) : vec :=
    tab l (fun i => sub_upto xi (fun j => vget g j * mget alpha0 j i)).

  Definition alice_atilde (l rho xi : nat) (a ahat : vec) (alpha0 alpha1 : mat) : mat :=
    tab2 xi (l + rho) (fun j i =>
      if i <? l then mget alpha0 j i - mget alpha1 j i + vget a i
      else mget alpha0 j i - mget alpha1 j i + vget ahat (i - l)).

  Definition alice_eta (l rho : nat) (a ahat : vec) (theta : nat -> nat -> F) : vec :=
    tab rho (fun k => acc_upto l (vget ahat k) (fun i => theta i k * vget a i)).

  Definition alice_mubold (l rho xi : nat) (alpha0 : mat) (theta : nat -> nat -> F) : mat :=
    tab2 xi rho (fun j k => acc_upto l (mget alpha0 j (l + k)) (fun i => theta i k * mget alpha0 j i)).

  Record r3msg := mk_r3msg { m_atilde : mat; m_eta : vec; m_mu : mat }.

  Variable ro_theta : mat -> nat -> nat -> F.     (* roTheta(aTilde)[i][k] *)

  Definition alice_round3 (l rho xi : nat) (g a ahat : vec) (alpha0 alpha1 : mat) : r3msg * vec :=
    let at_ := alice_atilde l rho xi a ahat alpha0 alpha1 in
    let theta := ro_theta at_ in
    (mk_r3msg at_ (alice_eta l rho a ahat theta) (alice_mubold l rho xi alpha0 theta),
     alice_c l xi g alpha0).

  (* ---- Bob.Round4 *)
  Definition bob_ddot (beta : list bool) (gamma atilde : mat) (j i : nat) : F :=
    mget gamma j i + betaF beta j * mget atilde j i.
  Definition bob_dhat (l : nat) (beta : list bool) (gamma atilde : mat) (j k : nat) : F :=
    mget gamma j (l + k) + betaF beta j * mget atilde j (l + k).

  Definition bob_muprime (l rho xi : nat) (beta : list bool) (gamma : mat) (msg : r3msg)
             (theta : nat -> nat -> F) : mat :=
    tab2 xi rho (fun j k =>
      acc_upto l (bob_dhat l beta gamma (m_atilde msg) j k - betaF beta j * vget (m_eta msg) k)
               (fun i => theta i k * bob_ddot beta gamma (m_atilde msg) j i)).

  Definition bob_d (l xi : nat) (g : vec) (beta : list bool) (gamma atilde : mat) : vec :=
    tab l (fun i => acc_upto xi (f0 K) (fun j => vget g j * bob_ddot beta gamma atilde j i)).

  Fixpoint veqb (a b : vec) : bool :=
    match a, b with
    | [], [] => true
    | x :: a', y :: b' => feqb K x y && veqb a' b'
    | _, _ => false
    end.
  Fixpoint mateqb (a b : mat) : bool :=
    match a, b with
    | [], [] => true
    | x :: a', y :: b' => veqb x y && mateqb a' b'
    | _, _ => false
    end.

  (* None = ErrAbort "consistency check failed" *)
  Definition bob_round4 (l rho xi : nat) (g : vec) (beta : list bool) (gamma : mat) (msg : r3msg) : option vec :=
    let theta := ro_theta (m_atilde msg) in
    if mateqb (bob_muprime l rho xi beta gamma msg theta) (m_mu msg)
    then Some (bob_d l xi g beta gamma (m_atilde msg))
    else None.

  (* entry-wise sum of two matrices of the given shape (used to state alterations) *)
  Definition madd (n m : nat) (x y : mat) : mat := tab2 n m (fun j i => mget x j i + mget y j i).
  Definition vadd (n : nat) (x y : vec) : vec := tab n (fun i => vget x i + vget y i).
End Vole.
