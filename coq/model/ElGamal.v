(* ElGamal — executable model of pkg/encryption/elgamal (elgamal.go, public.go,
   secret.go) in the exponent (DESIGN §3 L3): the prime-order group <g> of order q is
   Z_q, the element g^x is x, the group operation is addition, ScalarOp is
   multiplication.  A ciphertext is the pair (gamma, delta) of the direct power module.
   No proofs here (proofs/ElGamal_proofs.v). *)
From Coq Require Import ZArith Bool.
Local Open Scope Z_scope.

Definition ect : Set := (Z * Z)%type.

(* NewSecretKey(g, a): a = 0 and a = 1 are refused; the public key is h = g^a
   (NewPublicKey refuses the identity, i.e. exponent 0) *)
Definition eg_new_secret_key (q a : Z) : option Z :=
  let a' := a mod q in
  if (a' =? 0) || (a' =? 1) then None else Some a'.

Definition eg_public (q a : Z) : Z := a mod q.

(* NewPublicKey(h): identity refused *)
Definition eg_new_public_key (q h : Z) : option Z :=
  if h mod q =? 0 then None else Some (h mod q).

(* Representative: (identity, m) *)
Definition eg_representative (q mu : Z) : ect := (0, mu mod q).

(* PublicKey.IdentityNoise: (g^r, h^r) *)
Definition eg_noise (q h r : Z) : ect := (r mod q, (h * r) mod q).

(* SecretKey.IdentityNoise: (g^r, g^(r*a)) *)
Definition eg_sk_noise (q a r : Z) : ect := (r mod q, ((r * a) mod q) mod q).

(* CiphertextOp: component-wise group operation *)
Definition eg_op (q : Z) (x y : ect) : ect :=
  ((fst x + fst y) mod q, (snd x + snd y) mod q).

(* gift.Encrypt *)
Definition eg_enc (q h mu r : Z) : ect := eg_op q (eg_representative q mu) (eg_noise q h r).
Definition eg_sk_enc (q a mu r : Z) : ect := eg_op q (eg_representative q mu) (eg_sk_noise q a r).

(* SecretKey.Decrypt: delta . (gamma^a)^-1 *)
Definition eg_decrypt (q a : Z) (c : ect) : Z :=
  (snd c + (- ((fst c * a) mod q)) mod q) mod q.

Definition eg_inv (q : Z) (c : ect) : ect := ((- fst c) mod q, (- snd c) mod q).
Definition eg_scale (q : Z) (c : ect) (s : Z) : ect := ((fst c * s) mod q, (snd c * s) mod q).
Definition eg_shift (q : Z) (c : ect) (d : Z) : ect := eg_op q c (eg_representative q d).
Definition eg_rerandomise (q h : Z) (c : ect) (r : Z) : ect := eg_op q c (eg_noise q h r).
Definition eg_sk_rerandomise (q a : Z) (c : ect) (r : Z) : ect := eg_op q c (eg_sk_noise q a r).

(* plaintext / nonce algebra *)
Definition eg_pt_op (q a b : Z) : Z := (a + b) mod q.
Definition eg_pt_inv (q a : Z) : Z := (- a) mod q.
Definition eg_pt_scale (q a s : Z) : Z := (a * s) mod q.
Definition eg_nonce_op (q a b : Z) : Z := (a + b) mod q.
Definition eg_nonce_inv (q a : Z) : Z := (- a) mod q.
Definition eg_nonce_scale (q a s : Z) : Z := (a * s) mod q.
