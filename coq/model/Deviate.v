(* Deviate.v — C04: an abstract check-then-output protocol skeleton and its instances.

   LEVEL (be honest about it).  This is not a byte-level model of the round functions.  It is
   the *verification structure* of the protocols: what a party checks about the messages of ONE
   sender before it outputs anything, in the exponent (L3: a group element is its discrete
   logarithm, an element of a commutative ring [R] without zero divisors; Pedersen commitments
   are linear forms a + b*X in a formal unknown X = log_g h, i.e. pairs) and with hashes,
   commitments and NIZK proofs as free terms (L4: [TH tag arg] is injective by construction).

   - A *dossier* is everything one sender sent to one recipient during a run (its broadcasts and
     its unicasts to that recipient, all rounds), as a record of typed leaves.
   - A *check* is a boolean predicate over (recipient state, sender id, dossier) tagged with the
     round in which the code evaluates it; the kinds are the code's: structural validation that
     compares values (share ID = recipient, V0 = identity), commitment opening (c = Commit-term),
     NIZK verification (proof = proof-term of (session, prover id, statement)), VSS share
     verification (share = M_i . V), Gamma / public-key consistency checks (linear equations),
     partial-signature verification, final self-verification of the aggregate.
   - A party step evaluates the checks round by round, sender by sender; the first failing check
     makes the party reject and blame THAT sender; only when every check passed is the output
     function evaluated, and the output function itself ends with the final check.
   - Leaves are classified [Bound] (changing the leaf alone, to any other value, makes a check of
     the recipient false), [Late] (no check of the recipient mentions it; only the final
     self-verification of the aggregate can notice), [Unbound] (free choice of the sender: every
     check is insensitive to it).  [classify] is the table compared with the implementation.

   No proofs in this file. *)
From Coq Require Import List NArith ZArith Bool String Ring.
Import ListNotations.

(* ------------------------------------------------------------------------------------ *)
(* The classification table (independent of the algebra; extracted)                      *)
(* ------------------------------------------------------------------------------------ *)

Inductive cls := Bound | Late | Unbound | Unknown.

Inductive proto := PSession | PGennaro | PHjky | PRedistribute | PDkls23 | PLindell22 | PBoldyreva
                 | PCanetti | PAor | PSoftspoken.

(* fields of the dossiers, one inductive per protocol; vector entries carry their index *)
Inductive sfld := SCk | SCc | SContrib | SWit | SPcom | SPcontrib | SPwit.
Inductive gfld := GPvv (k : nat) | GPrf1 | GShId | GShS | GShT | GFvv (k : nat) | GPrf2.
Inductive hfld := HVv (k : nat) | HShId | HSh.
Inductive rfld := RZVv (k : nat) | RZShId | RZSh | RPrevMsp | RPrevVv (k : nat) | RZeroVv (k : nat)
                | RNextVv (k : nat) | RNShId | RNSh.
Inductive dfld := DRcom | DMs | DBigR | DRwit | DPhi | DPk | DGammaU | DGammaV | DPsi
                | DATilde | DEta | DMu | DPartR | DPartU | DPartW.
Inductive lfld := LRcom | LZVv (k : nat) | LZShId | LZSh | LBigR | LOpen | LPrf | LPartE | LPartR | LPartS.
Inductive bfld := BSigma | BPop.
Inductive cfld := CV | CSid | CShId | CRho | CX (k : nat) | CA | CU | CShareId | CShare | CPsiA | CPsiE | CPsiZ.
Inductive afld := ACom | AMsg | AWit.
(* softspoken DKLs23: the signing-level leaves of dfld plus the OT-extension message *)
Inductive ofld := OSign (f : dfld) | OOtU | OOtX | OOtT.

Definition session_class (f : sfld) : cls :=
  match f with SCk => Unbound | _ => Bound end.
Definition gennaro_class (f : gfld) : cls := Bound.
Definition hjky_class (f : hfld) : cls := Bound.
Definition redistribute_class (f : rfld) : cls := Bound.
Definition dkls_class (f : dfld) : cls :=
  match f with
  | DPhi => Late       (* receiver's OT message: the recipient (OT sender) checks nothing *)
  | DPsi => Late       (* mask share: no check of the recipient mentions it *)
  | _ => Bound
  end.
Definition lindell22_class (f : lfld) : cls := Bound.
Definition boldyreva_class (f : bfld) : cls := Bound.
Definition canetti_class (f : cfld) : cls := Bound.
Definition aor_class (f : afld) : cls := Bound.
Definition softspoken_class (f : ofld) : cls :=
  match f with
  | OSign DPsi => Late     (* as in the bbot variant: no check of the recipient reads psi *)
  | _ => Bound             (* phi IS bound here: the OT-extension consistency check covers the base-OT view *)
  end.

(* wire names: (round that produced the message, broadcast?, field path with indices removed);
   vector entries: the indices are removed, so entry 0 stands for all; the rows / cols integers of
   a vector describe its shape and belong to the vector.  Names are the 32-bit FNV-1a hashes of their ASCII bytes (computed from
   the string literals when this file is compiled, so that the extracted table is plain data). *)
(* FNV-1a (32 bit) of the ASCII bytes *)
Definition fnv (bytes : list N) : N :=
  fold_left (fun h c => ((N.lxor h c) * 16777619) mod 4294967296)%N bytes 2166136261%N.
Definition B (s : string) : N := fnv (map (fun c => N.of_nat (Ascii.nat_of_ascii c)) (list_ascii_of_string s)).
Definition lookup {F} (tbl : list (nat * bool * N * F)) (r : nat) (b : bool) (s : N) : option F :=
  match find (fun e => match e with (r', b', s', _) => Nat.eqb r r' && Bool.eqb b b' && N.eqb s s' end) tbl with
  | Some (_, _, _, f) => Some f
  | None => None
  end.
Local Open Scope string_scope.
Definition session_table : list (nat * bool * N * sfld) := Eval vm_compute in
  [ (1, true, B "Ck", SCk);
    (1, true, B "CommonCommitment", SCc);
    (2, true, B "CommonContribution", SContrib);
    (2, true, B "CommonContributionWitness", SWit);
    (2, false, B "PairwiseContributionCommitment", SPcom);
    (3, false, B "PairwiseContribution", SPcontrib);
    (3, false, B "PairwiseContributionWitness", SPwit) ].
Definition gennaro_table : list (nat * bool * N * gfld) := Eval vm_compute in
  [ (1, true, B "verificationVector.verification_vector.data.compressedBytes", GPvv 0);
    (1, true, B "verificationVector.verification_vector.rows", GPvv 0);
    (1, true, B "verificationVector.verification_vector.cols", GPvv 0);
    (1, true, B "proof", GPrf1);
    (1, false, B "share.sharingID", GShId);
    (1, false, B "share.secret.m.fieldBytes", GShS);
    (1, false, B "share.blinding.r.fieldBytes", GShT);
    (2, true, B "verificationVector.verification_vector.data.compressedBytes", GFvv 0);
    (2, true, B "verificationVector.verification_vector.rows", GFvv 0);
    (2, true, B "verificationVector.verification_vector.cols", GFvv 0);
    (2, true, B "proof", GPrf2) ].
Definition hjky_table : list (nat * bool * N * hfld) := Eval vm_compute in
  [ (1, true, B "verificationVector.verification_vector.data.compressedBytes", HVv 0);
    (1, true, B "verificationVector.verification_vector.rows", HVv 0);
    (1, true, B "verificationVector.verification_vector.cols", HVv 0);
    (1, false, B "zeroShare.id", HShId);
    (1, false, B "zeroShare.value.fieldBytes", HSh) ].
Definition redistribute_table : list (nat * bool * N * rfld) := Eval vm_compute in
  [ (1, true, B "ZeroR1.verificationVector.verification_vector.data.compressedBytes", RZVv 0);
    (1, true, B "ZeroR1.verificationVector.verification_vector.rows", RZVv 0);
    (1, true, B "ZeroR1.verificationVector.verification_vector.cols", RZVv 0);
    (1, false, B "ZeroR1.zeroShare.id", RZShId);
    (1, false, B "ZeroR1.zeroShare.value.fieldBytes", RZSh);
    (2, true, B "PrevVerificationVector.verification_vector.data.compressedBytes", RPrevVv 0);
    (2, true, B "PrevVerificationVector.verification_vector.rows", RPrevVv 0);
    (2, true, B "PrevVerificationVector.verification_vector.cols", RPrevVv 0);
    (2, true, B "ZeroVerificationVector.verification_vector.data.compressedBytes", RZeroVv 0);
    (2, true, B "ZeroVerificationVector.verification_vector.rows", RZeroVv 0);
    (2, true, B "ZeroVerificationVector.verification_vector.cols", RZeroVv 0);
    (2, true, B "NextVerificationVectorContribution.verification_vector.data.compressedBytes", RNextVv 0);
    (2, true, B "NextVerificationVectorContribution.verification_vector.rows", RNextVv 0);
    (2, true, B "NextVerificationVectorContribution.verification_vector.cols", RNextVv 0);
    (2, true, B "PrevMSP.Matrix.data.fieldBytes", RPrevMsp);
    (2, true, B "PrevMSP.Matrix.rows", RPrevMsp);
    (2, true, B "PrevMSP.Matrix.cols", RPrevMsp);
    (2, true, B "PrevMSP.RowsToHolders", RPrevMsp);
    (2, false, B "NextShareContribution.id", RNShId);
    (2, false, B "NextShareContribution.value.fieldBytes", RNSh) ].
Definition dkls_table : list (nat * bool * N * dfld) := Eval vm_compute in
  [ (1, true, B "bigRCommitment", DRcom);
    (1, false, B "mulR1.OtR1.ms.compressedBytes", DMs);
    (2, true, B "bigR.compressedBytes", DBigR);
    (2, true, B "bigRWitness", DRwit);
    (2, false, B "mulR2.OtR2.phi.compressedBytes", DPhi);
    (3, true, B "pk.compressedBytes", DPk);
    (3, false, B "gammaU.compressedBytes", DGammaU);
    (3, false, B "gammaV.compressedBytes", DGammaV);
    (3, false, B "psi.fieldBytes", DPsi);
    (3, false, B "mulR3.aTilde.fieldBytes", DATilde);
    (3, false, B "mulR3.eta.fieldBytes", DEta);
    (3, false, B "mulR3.mu", DMu);
    (4, true, B "r.compressedBytes", DPartR);
    (4, true, B "u.fieldBytes", DPartU);
    (4, true, B "w.fieldBytes", DPartW) ].
Definition lindell22_table : list (nat * bool * N * lfld) := Eval vm_compute in
  [ (1, true, B "bigRCommitment", LRcom);
    (1, true, B "zeroR1.verificationVector.verification_vector.data.compressedBytes", LZVv 0);
    (1, true, B "zeroR1.verificationVector.verification_vector.rows", LZVv 0);
    (1, true, B "zeroR1.verificationVector.verification_vector.cols", LZVv 0);
    (1, false, B "zeroR1.zeroShare.id", LZShId);
    (1, false, B "zeroR1.zeroShare.value.fieldBytes", LZSh);
    (2, true, B "bigR.x.compressedBytes", LBigR);
    (2, true, B "bigROpening", LOpen);
    (2, true, B "bigRProof", LPrf);
    (3, true, B "signature.e.fieldBytes", LPartE);
    (3, true, B "signature.r.compressedBytes", LPartR);
    (3, true, B "signature.s.fieldBytes", LPartS) ].
Definition boldyreva_table : list (nat * bool * N * bfld) := Eval vm_compute in
  [ (1, true, B "sigma_i.v.compressedBytes", BSigma);
    (1, true, B "sigma_i.pop.v.compressedBytes", BPop);
    (1, true, B "sigma_pop_i.v.compressedBytes", BPop); (1, true, B "sigma_pop_i.pop.v.compressedBytes", BPop) ].
Definition canetti_table : list (nat * bool * N * cfld) := Eval vm_compute in
  [ (1, true, B "V", CV);
    (2, true, B "Message.SessionID", CSid); (2, true, B "Message.SharingID", CShId); (2, true, B "Message.Rho", CRho);
    (2, true, B "Message.X.verification_vector.data.compressedBytes", CX 0);
    (2, true, B "Message.X.verification_vector.rows", CX 0); (2, true, B "Message.X.verification_vector.cols", CX 0);
    (2, true, B "Message.A.a.compressedBytes", CA); (2, true, B "U", CU);
    (2, false, B "Share.id", CShareId); (2, false, B "Share.value.fieldBytes", CShare);
    (3, true, B "Psi.A.a.compressedBytes", CPsiA); (3, true, B "Psi.E", CPsiE); (3, true, B "Psi.Z.z.fieldBytes", CPsiZ) ].
Definition aor_table : list (nat * bool * N * afld) := Eval vm_compute in
  [ (1, true, B "commitment", ACom); (2, true, B "message", AMsg); (2, true, B "witness", AWit) ].
Definition softspoken_table : list (nat * bool * N * ofld) := Eval vm_compute in
  [ (1, false, B "otR1.ms.compressedBytes", OSign DMs); (2, false, B "otR2.phi.compressedBytes", OSign DPhi);
    (3, true, B "bigRCommitment", OSign DRcom);
    (3, false, B "mulR1.OtR1.u", OOtU); (3, false, B "mulR1.OtR1.challengeResponse.x", OOtX);
    (3, false, B "mulR1.OtR1.challengeResponse.t", OOtT);
    (4, true, B "bigR.compressedBytes", OSign DBigR); (4, true, B "bigRWitness", OSign DRwit);
    (4, true, B "pk.compressedBytes", OSign DPk);
    (4, false, B "gammaU.compressedBytes", OSign DGammaU); (4, false, B "gammaV.compressedBytes", OSign DGammaV);
    (4, false, B "psi.fieldBytes", OSign DPsi); (4, false, B "mulR2.ATilde.fieldBytes", OSign DATilde);
    (4, false, B "mulR2.Eta.fieldBytes", OSign DEta); (4, false, B "mulR2.Mu", OSign DMu);
    (5, true, B "r.compressedBytes", OSign DPartR); (5, true, B "u.fieldBytes", OSign DPartU);
    (5, true, B "w.fieldBytes", OSign DPartW) ].
Local Close Scope string_scope.

Definition opt_cls {A} (c : A -> cls) (o : option A) : cls :=
  match o with Some f => c f | None => Unknown end.

(* classify : protocol -> round -> broadcast? -> wire path (FNV-1a of its bytes, see [fnv]) -> class *)
Definition classify (p : proto) (r : nat) (b : bool) (s : N) : cls :=
  match p with
  | PSession => opt_cls session_class (lookup session_table r b s)
  | PGennaro => opt_cls gennaro_class (lookup gennaro_table r b s)
  | PHjky => opt_cls hjky_class (lookup hjky_table r b s)
  | PRedistribute => opt_cls redistribute_class (lookup redistribute_table r b s)
  | PDkls23 => opt_cls dkls_class (lookup dkls_table r b s)
  | PLindell22 => opt_cls lindell22_class (lookup lindell22_table r b s)
  | PBoldyreva => opt_cls boldyreva_class (lookup boldyreva_table r b s)
  | PCanetti => opt_cls canetti_class (lookup canetti_table r b s)
  | PAor => opt_cls aor_class (lookup aor_table r b s)
  | PSoftspoken => opt_cls softspoken_class (lookup softspoken_table r b s)
  end.


(* ------------------------------------------------------------------------------------ *)
(* The skeleton                                                                          *)
(* ------------------------------------------------------------------------------------ *)

Section Skeleton.
  Variables St Dos Out : Type.

  Record check := mkCheck { c_round : nat; c_pred : St -> N -> Dos -> bool }.

  Inductive verdict := Accept | Reject (round : nat) (blamed : N).

  Definition fails (st : St) (id : N) (m : Dos) (c : check) : bool := negb (c_pred c st id m).

  (* senders in inbox order; the first sender with a failing check of this round is blamed *)
  Fixpoint scan_senders (cs : list check) (st : St) (inbox : list (N * Dos)) : option N :=
    match inbox with
    | [] => None
    | (id, m) :: t => if existsb (fails st id m) cs then Some id else scan_senders cs st t
    end.

  Definition of_round (r : nat) (cs : list check) : list check :=
    filter (fun c => Nat.eqb (c_round c) r) cs.

  Fixpoint run_rounds (rs : list nat) (cs : list check) (st : St) (inbox : list (N * Dos)) : verdict :=
    match rs with
    | [] => Accept
    | r :: t => match scan_senders (of_round r cs) st inbox with
                | Some id => Reject r id
                | None => run_rounds t cs st inbox
                end
    end.

  Inductive result := Output (o : Out) | Blame (round : nat) (id : N) | RejectNoBlame.

  (* check, then output; the output function may itself refuse (final self-check) *)
  Definition party (rs : list nat) (cs : list check) (fin : St -> list (N * Dos) -> option Out)
             (st : St) (inbox : list (N * Dos)) : result :=
    match run_rounds rs cs st inbox with
    | Reject r id => Blame r id
    | Accept => match fin st inbox with Some o => Output o | None => RejectNoBlame end
    end.

  Definition all_pass (cs : list check) (st : St) (id : N) (m : Dos) : Prop :=
    forall c, In c cs -> c_pred c st id m = true.
End Skeleton.

Arguments mkCheck {St Dos}.
Arguments c_round {St Dos}.
Arguments c_pred {St Dos}.
Arguments fails {St Dos}.
Arguments scan_senders {St Dos}.
Arguments of_round {St Dos}.
Arguments run_rounds {St Dos}.
Arguments party {St Dos Out}.
Arguments all_pass {St Dos}.
Arguments Output {Out}.
Arguments Blame {Out}.
Arguments RejectNoBlame {Out}.

(* ------------------------------------------------------------------------------------ *)
(* Algebra and terms                                                                     *)
(* ------------------------------------------------------------------------------------ *)

(* the algebra as one record: scalars = exponents of group elements (L3) *)
Record alg := mkAlg { car : Type; a0 : car; a1 : car; aadd : car -> car -> car; amul : car -> car -> car;
                      asub : car -> car -> car; aopp : car -> car; aeqb : car -> car -> bool }.

Section Algebra.
  Variable A : alg.
  Notation R := (car A).
  Notation r0 := (a0 A).
  Notation r1 := (a1 A).
  Notation reqb := (aeqb A).
  Notation "a + b" := (aadd A a b).
  Notation "a * b" := (amul A a b).
  Notation "a - b" := (asub A a b).

  (* free terms: byte strings, scalars / group elements in the exponent, tuples, hashes *)
  Inductive term :=
  | TB (n : N)
  | TS (x : R)
  | TNil
  | TCons (a b : term)
  | TH (tag : N) (arg : term).

  Fixpoint term_eqb (a b : term) : bool :=
    match a, b with
    | TB n, TB m => N.eqb n m
    | TS x, TS y => reqb x y
    | TNil, TNil => true
    | TCons a1 a2, TCons b1 b2 => term_eqb a1 b1 && term_eqb a2 b2
    | TH t a1, TH u b1 => N.eqb t u && term_eqb a1 b1
    | _, _ => false
    end.

  Definition tlist (l : list term) : term := fold_right TCons TNil l.
  Definition tscalars (l : list R) : term := tlist (map TS l).

  (* hashcom: Commit(ck, m, w) *)
  Definition com (ck m w : term) : term := TH 1 (tlist [ck; m; w]).
  Definition open (ck c m w : term) : bool := term_eqb c (com ck m w).
  (* NIZK (C08 fs_accept_iff): the accepted proof is the proof term of (kind, session, prover, statement) *)
  Definition prf (kind : N) (sess : term) (prover : N) (stmt : term) : term :=
    TH 2 (tlist [TB kind; sess; TB prover; stmt]).
  Definition nizk_verify (kind : N) (sess : term) (prover : N) (stmt pi : term) : bool :=
    term_eqb pi (prf kind sess prover stmt).

  (* vectors *)
  Fixpoint dot (m v : list R) : R :=
    match m, v with
    | a :: m', x :: v' => a * x + dot m' v'
    | _, _ => r0
    end.
  Fixpoint vadd (v w : list R) : list R :=
    match v, w with
    | x :: v', y :: w' => (x + y) :: vadd v' w'
    | _, _ => []
    end.
  Fixpoint set_nth {A} (k : nat) (x : A) (l : list A) : list A :=
    match k, l with
    | O, _ :: t => x :: t
    | S k', h :: t => h :: set_nth k' x t
    | _, [] => []
    end.

  (* ---------------------------------------------------------------------------------- *)
  (* Session setup (pkg/mpc/session Round3 / Round4)                                      *)
  (* ---------------------------------------------------------------------------------- *)
  Record sdos := mkS { s_ck : term; s_cc : term; s_contrib : term; s_wit : term;
                       s_pcom : term; s_pcontrib : term; s_pwit : term }.
  Record sst := mkSst { s_commonck : term; s_myck : term }.

  Definition sget (f : sfld) (m : sdos) : term :=
    match f with
    | SCk => s_ck m | SCc => s_cc m | SContrib => s_contrib m | SWit => s_wit m
    | SPcom => s_pcom m | SPcontrib => s_pcontrib m | SPwit => s_pwit m
    end.
  Definition sset (f : sfld) (v : term) (m : sdos) : sdos :=
    match f with
    | SCk => mkS v (s_cc m) (s_contrib m) (s_wit m) (s_pcom m) (s_pcontrib m) (s_pwit m)
    | SCc => mkS (s_ck m) v (s_contrib m) (s_wit m) (s_pcom m) (s_pcontrib m) (s_pwit m)
    | SContrib => mkS (s_ck m) (s_cc m) v (s_wit m) (s_pcom m) (s_pcontrib m) (s_pwit m)
    | SWit => mkS (s_ck m) (s_cc m) (s_contrib m) v (s_pcom m) (s_pcontrib m) (s_pwit m)
    | SPcom => mkS (s_ck m) (s_cc m) (s_contrib m) (s_wit m) v (s_pcontrib m) (s_pwit m)
    | SPcontrib => mkS (s_ck m) (s_cc m) (s_contrib m) (s_wit m) (s_pcom m) v (s_pwit m)
    | SPwit => mkS (s_ck m) (s_cc m) (s_contrib m) (s_wit m) (s_pcom m) (s_pcontrib m) v
    end.
  (* Round3: commonCommitmentKey.Open(commitment[id], contribution, witness);
     Round4: ck.Open(pairwiseCommitment[id], contribution, witness) with the RECIPIENT's key *)
  Definition session_checks : list (check sst sdos) :=
    [ mkCheck 3 (fun st _ m => open (s_commonck st) (s_cc m) (s_contrib m) (s_wit m));
      mkCheck 4 (fun st _ m => open (s_myck st) (s_pcom m) (s_pcontrib m) (s_pwit m)) ].

  (* ---------------------------------------------------------------------------------- *)
  (* Gennaro DKG (pkg/mpc/dkg/gennaro Round2 / Round3), one MSP row per recipient         *)
  (* ---------------------------------------------------------------------------------- *)
  (* Pedersen commitments g^a h^b are the pairs (a, b); the share is (s, t). *)
  Record gdos := mkG { g_pvv : list (R * R); g_prf1 : term; g_shid : N; g_s : R; g_t : R;
                       g_fvv : list R; g_prf2 : term }.
  Record gst := mkGst { g_me : N; g_row : list R; g_sess : term; g_d : nat }.

  Definition tpairs (l : list (R * R)) : term := tlist (map (fun p => TCons (TS (fst p)) (TS (snd p))) l).

  Definition gennaro_checks : list (check gst gdos) :=
    [ (* Validate: vector lengths = D, share ID = recipient *)
      mkCheck 2 (fun st _ m => Nat.eqb (List.length (g_pvv m)) (g_d st));
      mkCheck 2 (fun st _ m => N.eqb (g_shid m) (g_me st));
      (* batch Okamoto proof bound to session, prover id and the whole vector *)
      mkCheck 2 (fun st id m => nizk_verify 1 (g_sess st) id (tpairs (g_pvv m)) (g_prf1 m));
      (* pedersenVSS.Verify: g^s h^t = prod V_k^{M_ik}, coefficient-wise *)
      mkCheck 2 (fun st _ m => reqb (g_s m) (dot (g_row st) (map fst (g_pvv m)))
                               && reqb (g_t m) (dot (g_row st) (map snd (g_pvv m))));
      mkCheck 3 (fun st _ m => Nat.eqb (List.length (g_fvv m)) (g_d st));
      (* batch Schnorr proof for the Feldman vector *)
      mkCheck 3 (fun st id m => nizk_verify 2 (g_sess st) id (tscalars (g_fvv m)) (g_prf2 m));
      (* feldmanVSS.Verify of the SAME share value against the Feldman vector *)
      mkCheck 3 (fun st _ m => reqb (g_s m) (dot (g_row st) (g_fvv m))) ].

  (* output of Round3: summed share, summed Feldman vector (own dealing first) *)
  Definition gennaro_out (own_s : R) (own_v : list R) (inbox : list (N * gdos)) : R * list R :=
    fold_left (fun acc im => (fst acc + g_s (snd im), vadd (snd acc) (g_fvv (snd im)))) inbox (own_s, own_v).

  (* ---------------------------------------------------------------------------------- *)
  (* HJKY zero sharing (pkg/mpc/zero/hjky Round2)                                        *)
  (* ---------------------------------------------------------------------------------- *)
  Record hdos := mkH { h_vv : list R; h_shid : N; h_sh : R }.
  Record hst := mkHst { h_me : N; h_row : list R; h_d : nat }.
  Definition hjky_checks : list (check hst hdos) :=
    [ mkCheck 2 (fun st _ m => Nat.eqb (List.length (h_vv m)) (h_d st));
      mkCheck 2 (fun st _ m => N.eqb (h_shid m) (h_me st));
      mkCheck 2 (fun st _ m => reqb (h_sh m) (dot (h_row st) (h_vv m)));       (* scheme.Verify *)
      mkCheck 2 (fun st _ m => reqb (nth 0 (h_vv m) r0) r0) ].                  (* V0 = identity *)
  Definition hjky_out (own_s : R) (own_v : list R) (inbox : list (N * hdos)) : R * list R :=
    fold_left (fun acc im => (fst acc + h_sh (snd im), vadd (snd acc) (h_vv (snd im)))) inbox (own_s, own_v).

  (* ---------------------------------------------------------------------------------- *)
  (* Redistribution (pkg/mpc/redistribute Round3), recipient = a previous holder          *)
  (* ---------------------------------------------------------------------------------- *)
  (* r_expect: the partial public key the recipient derives for the sender from its trusted
     previous verification vector and zero vector (a function of the recipient's own state). *)
  Record rdos := mkRd { r_prevmsp : term; r_prevvv : list R; r_zerovv : list R;
                        r_nextvv : list R; r_nshid : N; r_nsh : R }.
  Record rst := mkRst { r_me : N; r_row : list R; r_dn : nat; r_tmsp : term; r_tprev : list R;
                        r_tzero : list R; r_expect : N -> R }.
  Fixpoint veqb (v w : list R) : bool :=
    match v, w with
    | [], [] => true
    | x :: v', y :: w' => reqb x y && veqb v' w'
    | _, _ => false
    end.
  Definition redistribute_checks : list (check rst rdos) :=
    [ mkCheck 3 (fun st _ m => Nat.eqb (List.length (r_nextvv m)) (r_dn st));
      mkCheck 3 (fun st _ m => N.eqb (r_nshid m) (r_me st));
      mkCheck 3 (fun st _ m => reqb (r_nsh m) (dot (r_row st) (r_nextvv m)));   (* nextScheme.Verify *)
      mkCheck 3 (fun st _ m => term_eqb (r_prevmsp m) (r_tmsp st) && veqb (r_prevvv m) (r_tprev st)
                               && veqb (r_zerovv m) (r_tzero st));             (* consistency with the trusted vectors *)
      mkCheck 3 (fun st id m => reqb (nth 0 (r_nextvv m) r0) (r_expect st id)) ]. (* partial public key *)
  (* the final guard of Round3: oldPk = newPk and the aggregated share verifies *)
  Definition redistribute_fin (st : rst) (own_s : R) (own_v : list R) (inbox : list (N * rdos)) : option (R * list R) :=
    let acc := fold_left (fun acc im => (fst acc + r_nsh (snd im), vadd (snd acc) (r_nextvv (snd im)))) inbox (own_s, own_v) in
    if forallb (fun im => reqb (nth 0 (r_prevvv (snd im)) r0) (nth 0 (snd acc) r0)) inbox
       && reqb (fst acc) (dot (r_row st) (snd acc))
    then Some acc else None.

  (* ---------------------------------------------------------------------------------- *)
  (* Schnorr-type signing with an aggregator (Lindell22)                                  *)
  (* ---------------------------------------------------------------------------------- *)
  (* challenge oracle e = H(R, pk, msg) as a function of the nonce commitment (pk, msg fixed) *)
  Variable chal : R -> R.
  (* verification in the exponent: s.G = R + e.P  <=>  s = r + e*x *)
  Definition schnorr_verify (x : R) (r s : R) : bool := reqb s (r + chal r * x).

  Record ldos := mkL { l_rcom : term; l_bigr : R; l_open : term; l_prf : term;
                       l_zvv : list R; l_zshid : N; l_zsh : R }.
  Record lst := mkLst { l_me : N; l_sess : term; l_ck : N -> term; l_zrow : list R; l_zd : nat }.
  Definition lindell22_checks : list (check lst ldos) :=
    [ mkCheck 2 (fun st _ m => Nat.eqb (List.length (l_zvv m)) (l_zd st));
      mkCheck 2 (fun st _ m => N.eqb (l_zshid m) (l_me st));
      mkCheck 2 (fun st _ m => reqb (l_zsh m) (dot (l_zrow st) (l_zvv m)));
      mkCheck 2 (fun st _ m => reqb (nth 0 (l_zvv m) r0) r0);
      mkCheck 3 (fun st id m => open (l_ck st id) (l_rcom m) (TS (l_bigr m)) (l_open m));
      mkCheck 3 (fun st id m => nizk_verify 3 (l_sess st) id (TS (l_bigr m)) (l_prf m)) ].

  (* partial signature (e, R_i, s_i) at the aggregator; pkx id = additive public key share of id *)
  Record psig := mkP { p_e : R; p_r : R; p_s : R }.
  Definition sum (l : list R) : R := fold_right (aadd A) r0 l.
  (* cosigning aggregator: per-sender checks (R_i as recorded in round 3, partial verification
     with the sender's effective public key share and the agreed challenge e) *)
  Record ast := mkAst { a_e : R; a_x : N -> R; a_bigr : N -> R; a_pk : R }.
  Definition agg_checks : list (check ast psig) :=
    [ mkCheck 4 (fun st id p => reqb (p_r p) (a_bigr st id));
      mkCheck 4 (fun st id p => reqb (p_s p) (p_r p + a_e st * a_x st id)) ].
  (* Aggregate (both aggregators end like this): R = sum R_i, s = sum s_i, e = H(R), every
     partial carries that e, and the aggregate verifies under the public key *)
  Definition aggregate (x : R) (ps : list (N * psig)) : option (R * R) :=
    let r := sum (map (fun ip => p_r (snd ip)) ps) in
    let s := sum (map (fun ip => p_s (snd ip)) ps) in
    if forallb (fun ip => reqb (p_e (snd ip)) (chal r)) ps && schnorr_verify x r s
    then Some (r, s) else None.

  (* ---------------------------------------------------------------------------------- *)
  (* Boldyreva threshold BLS aggregator                                                  *)
  (* ---------------------------------------------------------------------------------- *)
  (* in the exponent of the signature group: H(m) = h, sigma_i = x_i*h, e(pk_i,H(m)) = e(g,sigma_i) *)
  Record bst := mkBst { b_h : R; b_x : N -> R; b_lam : N -> R; b_pk : R }.
  Definition bls_checks : list (check bst R) :=
    [ mkCheck 2 (fun st id sg => reqb sg (b_x st id * b_h st)) ].
  (* Aggregate has NO final self-verification: it verifies every partial signature against the
     sender's public key share and then interpolates in the exponent with the reconstruction
     coefficients lambda of the quorum. *)
  Definition bls_aggregate (st : bst) (ps : list (N * R)) : option R :=
    if forallb (fun ip => reqb (snd ip) (b_x st (fst ip) * b_h st)) ps
    then Some (sum (map (fun ip => b_lam st (fst ip) * snd ip) ps)) else None.

  (* ---------------------------------------------------------------------------------- *)
  (* DKLs23 with the bbot multiplier (signing_bbot Round3 / Round4, dkls23.Aggregate)      *)
  (* ---------------------------------------------------------------------------------- *)
  (* The multiplier is the C09 correlation: Bob (the recipient) holds chi and obtains d with
     c + d = a*chi for Alice's inputs a = (r_j, sk_j).  What Bob can check about Alice's
     round-3 message is the mu equation; mu is a hash (free term) of the received vectors and
     of Bob's OT view, which contains the key-agreement message ms as RECEIVED. *)
  Record ddos := mkD { d_rcom : term; d_ms : term; d_bigr : R; d_rwit : term; d_pk : R;
                       d_gu : R; d_gv : R; d_psi : R; d_atilde : term; d_eta : term; d_mu : term;
                       d_phi : term (* sent BY the recipient's peer as OT receiver; nothing checks it *) }.
  Record dst := mkDst { d_ck : term; d_chi : N -> R; d_du : N -> R; d_dv : N -> R;
                        d_view : N -> term (* Bob's OT secrets for this peer *) }.
  Definition mu_term (view ms atilde eta : term) : term := TH 3 (tlist [view; ms; atilde; eta]).
  Definition dkls_checks : list (check dst ddos) :=
    [ mkCheck 3 (fun st _ m => open (d_ck st) (d_rcom m) (TS (d_bigr m)) (d_rwit m));
      mkCheck 4 (fun st id m => term_eqb (d_mu m) (mu_term (d_view st id) (d_ms m) (d_atilde m) (d_eta m)));
      mkCheck 4 (fun st id m => reqb (d_chi st id * d_bigr m - d_gu m) (d_du st id));
      mkCheck 4 (fun st id m => reqb (d_chi st id * d_pk m - d_gv m) (d_dv st id)) ].
  (* the pk-sum check of Round4 (over all senders) and the aggregator *)
  Definition dkls_pksum (own_pk pk : R) (inbox : list (N * ddos)) : bool :=
    reqb (own_pk + sum (map (fun im => d_pk (snd im)) inbox)) pk.
  (* ECDSA verification as an opaque predicate of the library verifier *)
  Variable ecdsa_ok : R -> R -> R -> bool.   (* public key, r (nonce point), s *)
  Variable rdiv : R -> R -> R.
  Record dpart := mkDp { dp_r : R; dp_u : R; dp_w : R }.
  Definition dkls_aggregate (pk : R) (ps : list dpart) : option (R * R) :=
    match ps with
    | [] => None
    | p0 :: _ =>
      if forallb (fun p => reqb (dp_r p) (dp_r p0)) ps then
        let s := rdiv (sum (map dp_w ps)) (sum (map dp_u ps)) in
        if ecdsa_ok pk (dp_r p0) s then Some (dp_r p0, s) else None
      else None
    end.

  (* ---------------------------------------------------------------------------------- *)
  (* Agree-on-random (pkg/mpc/aor Round3)                                                *)
  (* ---------------------------------------------------------------------------------- *)
  Record ados := mkAd { ad_com : term; ad_msg : term; ad_wit : term }.
  Definition aor_checks : list (check term ados) :=
    [ mkCheck 3 (fun ck _ m => open ck (ad_com m) (ad_msg m) (ad_wit m)) ].

  (* ---------------------------------------------------------------------------------- *)
  (* Canetti DKG (pkg/mpc/dkg/canetti Round3 / Round4)                                   *)
  (* ---------------------------------------------------------------------------------- *)
  (* round 1 commits to the whole CommitmentMessage (session, sender id, rho, vector X, Schnorr
     commitment A); round 2 opens it and sends the share; round 3 sends the proof (A, E, Z). *)
  Record cdos := mkC { c_v : term; c_sid : term; c_shid : N; c_rho : term; c_x : list R; c_a : R; c_u : term;
                       c_shareid : N; c_share : R; c_pa : R; c_pe : term; c_pz : R }.
  Record cst := mkCst { c_me : N; c_row : list R; c_d : nat; c_ck : term; c_sess : term;
                        c_rhoall : term (* the XOR of all rho, bound into the proof context *);
                        c_e : N -> R (* the scalar of the recomputed challenge for that prover *) }.
  Definition cmsg (m : cdos) : term := tlist [c_sid m; TB (c_shid m); c_rho m; tscalars (c_x m); TS (c_a m)].
  Fixpoint peval (e : R) (cs : list R) : R :=
    match cs with [] => r0 | c :: t => c + e * peval e t end.
  Definition canetti_checks : list (check cst cdos) :=
    [ (* Validate *)
      mkCheck 3 (fun st _ m => term_eqb (c_sid m) (c_sess st));
      mkCheck 3 (fun st id m => N.eqb (c_shid m) id);
      mkCheck 3 (fun st _ m => Nat.eqb (List.length (c_x m)) (c_d st));
      mkCheck 3 (fun st _ m => N.eqb (c_shareid m) (c_me st));
      (* commitmentKey.Open(V, Message.Bytes(), U) and sharingScheme.Verify(share, X) *)
      mkCheck 3 (fun st _ m => open (c_ck st) (c_v m) (cmsg m) (c_u m));
      mkCheck 3 (fun st _ m => reqb (c_share m) (dot (c_row st) (c_x m)));
      (* Round4: Psi.A = Message.A, the challenge carried by the proof is the recomputed one, and
         the batch Schnorr equation z.G = A + e.X_1 + e^2.X_2 + ... *)
      mkCheck 4 (fun st _ m => reqb (c_pa m) (c_a m));
      mkCheck 4 (fun st id m => term_eqb (c_pe m)
                   (TH 4 (tlist [c_sess st; TB id; c_rhoall st; tscalars (c_x m); TS (c_pa m)])));
      mkCheck 4 (fun st id m => reqb (c_pz m) (peval (c_e st id) (c_pa m :: c_x m))) ].
  (* the last step of Round4 is mpc.NewBaseShard, which re-checks share.G = M_i.V *)
  Definition canetti_fin (st : cst) (own_s : R) (own_v : list R) (inbox : list (N * cdos)) : option (R * list R) :=
    let acc := fold_left (fun acc im => (fst acc + c_share (snd im), vadd (snd acc) (c_x (snd im)))) inbox (own_s, own_v) in
    if reqb (fst acc) (dot (c_row st) (snd acc)) then Some acc else None.

  (* ---------------------------------------------------------------------------------- *)
  (* DKLs23 with the softspoken multiplier: the signing level is that of the bbot variant  *)
  (* (dkls_checks one round later); the OT extension adds a consistency check whose        *)
  (* response t is, for the verifier, a function (free term) of its base-OT view - which   *)
  (* contains ms AND phi as received - of u and of the challenge x.                        *)
  (* ---------------------------------------------------------------------------------- *)
  Record odos := mkO { o_d : ddos; o_otu : term; o_otx : term; o_ott : term }.
  Definition ot_term (view ms phi u x : term) : term := TH 5 (tlist [view; ms; phi; u; x]).
  Definition softspoken_checks : list (check dst odos) :=
    [ mkCheck 4 (fun st _ m => open (d_ck st) (d_rcom (o_d m)) (TS (d_bigr (o_d m))) (d_rwit (o_d m)));
      mkCheck 4 (fun st id m => term_eqb (o_ott m) (ot_term (d_view st id) (d_ms (o_d m)) (d_phi (o_d m)) (o_otu m) (o_otx m)));
      mkCheck 5 (fun st id m => term_eqb (d_mu (o_d m)) (mu_term (d_view st id) (o_ott m) (d_atilde (o_d m)) (d_eta (o_d m))));
      mkCheck 5 (fun st id m => reqb (d_chi st id * d_bigr (o_d m) - d_gu (o_d m)) (d_du st id));
      mkCheck 5 (fun st id m => reqb (d_chi st id * d_pk (o_d m) - d_gv (o_d m)) (d_dv st id)) ].
End Algebra.
