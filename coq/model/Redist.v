(* Redist.v — the redistribution protocol of pkg/mpc/redistribute/rounds.go as coded, over
   the abstract linear sharing of Zero.v, and the history machine of epochs.

   One step: the members j of the driving previous quorum Q run HJKY under a sharing zs of
   zero in which Q reconstructs (the unanimity structure of Q), convert their previous
   share to additive form over Q (coefficients from the MSP solver, here an ORACLE [solve]
   whose every answer is checked against  Σ lam·rows = e₀  before it is used), shift it by
   the additive form of their zero share, deal the result under the NEXT sharing
   (random column, first entry overwritten) and send one piece to every next holder.  A
   next holder sums the pieces and the verification-vector contributions and runs the
   Round-3 checks: every piece verifies against its sender's contribution; if trusted
   previous data is available (own shard, or the trusted anchor's broadcast) every sender's
   broadcast equals it and every contribution's first entry equals the additive form of
   the sender's public share plus the additive form of its public zero share; every
   broadcast previous vector's first entry equals the new first entry (old pk = new pk);
   the aggregated share verifies against the aggregated vector (also NewBaseShard).

   Group elements are represented by their exponents (L3), so a verification vector is a
   column over the field.  Executable, no proofs. *)
From Coq Require Import List NArith ZArith Bool Arith.
Import ListNotations.
Require Import V.base.Fld V.model.Zero.

Section Redist.
Context {F : Type} (K : fops F).
Local Notation SH := (@sharing F).
Local Notation VEC := (@vec F).
Local Notation COEFS := (@coefs F).

(* the MSP solver (msp.ReconstructionCoefficients for a set of holders) as an oracle *)
Variable solve : SH -> list N -> option (COEFS).

Definition coefs_checked (sh : SH) (S : list N) : option COEFS :=
  match solve sh S with
  | Some lam => if reconstructs_b K sh S lam then Some lam else None
  | None => None
  end.

(* Round2Broadcast *)
Record r2bcast := mk_r2bcast { b_prev : SH; b_prevvv : VEC; b_zerovv : VEC; b_nextvv : VEC }.
(* what a next holder receives from one previous holder: broadcast + its piece *)
Record r2msg := mk_r2msg { m_from : N; m_b : r2bcast; m_piece : list F }.

(* ---- Round2 of previous holder j -------------------------------------------------- *)

(* additive contribution  ⟨lam_j, share_j⟩ + ⟨lamz_j, zeroshare_j⟩  and the column dealt under ns *)
Definition round2 (ps zs ns : SH) (Q : list N) (j : N) (share_j zshare_j : list F) (rnd2 : VEC)
  : option (F * VEC) :=
  match coefs_checked ps Q, coefs_checked zs Q with
  | Some lam, Some lamz =>
      if Nat.eqb (length share_j) (length (coef_of lam j)) && Nat.eqb (length zshare_j) (length (coef_of lamz j)) then
        let a := fadd K (additive K lam j share_j) (additive K lamz j zshare_j) in
        match deal_col (sh_dim ns) a rnd2 with
        | Some c => Some (a, c)
        | None => None
        end
      else None
  | _, _ => None
  end.

(* ---- Round3 of next holder i ------------------------------------------------------- *)

Fixpoint r3_accumulate (acc : option (list F * VEC)) (inbox : list r2msg) : res (option (list F * VEC)) :=
  match inbox with
  | [] => Ok acc
  | m :: rest =>
      match acc with
      | None => r3_accumulate (Some (m_piece m, b_nextvv (m_b m))) rest
      | Some (s, v) =>
          if Nat.eqb (length v) (length (b_nextvv (m_b m)))
          then r3_accumulate (Some (vadd K s (m_piece m), vadd K v (b_nextvv (m_b m)))) rest
          else Abort
      end
  end.

Fixpoint r3_pieces (ns : SH) (i : N) (inbox : list r2msg) : res unit :=
  match inbox with
  | [] => Ok tt
  | m :: rest => if verify K ns i (m_piece m) (b_nextvv (m_b m)) then r3_pieces ns i rest else Blame (m_from m)
  end.

Definition trusted := (SH * VEC * VEC)%type.   (* previous SH, previous vector, zero vector *)

Fixpoint find_bcast (a : N) (inbox : list r2msg) : option r2bcast :=
  match inbox with
  | [] => None
  | m :: rest => if N.eqb (m_from m) a then Some (m_b m) else find_bcast a rest
  end.

Fixpoint r3_consistency (t : trusted) (zs : SH) (lam lamz : COEFS) (inbox : list r2msg) : res unit :=
  match inbox with
  | [] => Ok tt
  | m :: rest =>
      let '(tps, tvv, tzvv) := t in
      let b := m_b m in
      if negb (sharing_eqb K (b_prev b) tps && veqb K (b_prevvv b) tvv && veqb K (b_zerovv b) tzvv) then Blame (m_from m)
      else
        let expected := fadd K (additive K lam (m_from m) (share_of K tps tvv (m_from m)))
                               (additive K lamz (m_from m) (share_of K zs tzvv (m_from m))) in
        if feqb K (hd0 K (b_nextvv b)) expected then r3_consistency t zs lam lamz rest else Blame (m_from m)
  end.

Fixpoint r3_oldpk (newpk : F) (inbox : list r2msg) : bool :=
  match inbox with
  | [] => true
  | m :: rest => feqb K (hd0 K (b_prevvv (m_b m))) newpk && r3_oldpk newpk rest
  end.

(* own_trusted / own: present iff i is itself a previous holder (its shard's MSP and vector,
   the zero vector it computed; its own piece and contribution kept from Round2) *)
Definition round3 (own_trusted : option trusted) (own : option (list F * VEC)) (anchor : N)
    (zs ns : SH) (Q : list N) (i : N) (inbox : list r2msg) : res (list F * VEC) :=
  match r3_accumulate own inbox with
  | Ok (Some (share, vv)) =>
      let newpk := hd0 K vv in
      match r3_pieces ns i inbox with
      | Ok _ =>
          let tr := match own_trusted with
                    | Some t => Ok (Some t)
                    | None => if N.eqb anchor 0 then Ok None
                              else match find_bcast anchor inbox with
                                   | Some b => Ok (Some (b_prev b, b_prevvv b, b_zerovv b))
                                   | None => Abort
                                   end
                    end in
          match tr with
          | Ok topt =>
              let cons :=
                match topt with
                | None => Ok tt
                | Some t =>
                    let '(tps, tvv, tzvv) := t in
                    if negb (Nat.eqb (length tvv) (sh_dim tps) && Nat.eqb (length tzvv) (sh_dim zs)) then Abort
                    else match coefs_checked tps Q, coefs_checked zs Q with
                         | Some lam, Some lamz => r3_consistency t zs lam lamz inbox
                         | _, _ => Abort
                         end
                end in
              match cons with
              | Ok _ =>
                  if negb (r3_oldpk newpk inbox) then Abort
                  else if negb (verify K ns i share vv) then Abort
                  else Ok (share, vv)
              | Blame j => Blame j
              | Abort => Abort
              end
          | Blame j => Blame j
          | Abort => Abort
          end
      | Blame j => Blame j
      | Abort => Abort
      end
  | Ok None => Abort
  | Blame j => Blame j
  | Abort => Abort
  end.

(* ---- the world and one honest epoch step -------------------------------------------- *)

(* current SH; every holder's share as computed by the code; the verification vector
   as computed by the code (exponents: this is the secret column); the public key *)
Record world := mk_world { w_sh : SH; w_shares : list (N * list F); w_vv : VEC; w_pk : F }.

Definition share_in (w : world) (i : N) : list F := match lookup i (w_shares w) with Some s => s | None => [] end.

(* first epoch: trusted dealer = one dealing of a random secret *)
Definition genesis (sh : SH) (secret : F) (rnd : VEC) : option world :=
  if wf_sharing_b sh then
    match deal_col (sh_dim sh) secret rnd with
    | Some c => Some (mk_world sh (map (fun i => (i, share_of K sh c i)) (holders sh)) c (hd0 K c))
    | None => None
    end
  else None.

(* what the environment supplies for one step: the driving quorum, the anchor (0 = none),
   the zero SH of the quorum, and the scalars every quorum member reads from its
   tape in Round1 (zero dealing) and Round2 (dealing under the next SH) *)
Record step_args := mk_step_args {
  sa_Q : list N; sa_anchor : N; sa_zs : SH;
  sa_rnd1 : list (N * VEC); sa_rnd2 : list (N * VEC) }.

Fixpoint nodup_b (l : list N) : bool :=
  match l with [] => true | x :: t => negb (mem x t) && nodup_b t end.

Fixpoint list_N_eqb (a b : list N) : bool :=
  match a, b with
  | [], [] => true
  | x :: a', y :: b' => N.eqb x y && list_N_eqb a' b'
  | _, _ => false
  end.

(* all results Ok -> list of values *)
Fixpoint all_ok {A B : Type} (f : A -> res B) (l : list A) : option (list (A * B)) :=
  match l with
  | [] => Some []
  | x :: t => match f x, all_ok f t with
              | Ok b, Some r => Some ((x, b) :: r)
              | _, _ => None
              end
  end.

Fixpoint all_some {A B : Type} (f : A -> option B) (l : list A) : option (list (A * B)) :=
  match l with
  | [] => Some []
  | x :: t => match f x, all_some f t with
              | Some b, Some r => Some ((x, b) :: r)
              | _, _ => None
              end
  end.

Definition rnd_of (r : list (N * VEC)) (j : N) : VEC := match lookup j r with Some v => v | None => [] end.

(* the messages next holder i receives: from every member of Q except itself, in order *)
Definition r3_inbox (w : world) (ns : SH) (zres : list (N * (list F * VEC))) (cols : list (N * (F * VEC)))
    (i : N) : list r2msg :=
  map (fun jc => let j := fst jc in
                 let c := snd (snd jc) in
                 let zvv := match lookup j zres with Some z => snd z | None => [] end in
                 mk_r2msg j (mk_r2bcast (w_sh w) (w_vv w) zvv c) (share_of K ns c i))
      (filter (fun jc => negb (N.eqb (fst jc) i)) cols).

(* what NewParticipant / the session layer require before the rounds start, and the shape of
   the environment data: the next and the zero sharing are well formed, the driving quorum is
   a duplicate-free set of at least two current holders, the anchor (if any) is one of them,
   the tapes are those of the quorum members, the next holders are a non-empty set *)
Definition precheck (w : world) (ns : SH) (a : step_args) : bool :=
  let Q := sa_Q a in
  wf_sharing_b ns && wf_sharing_b (sa_zs a) && nodup_b Q && Nat.leb 2 (length Q)
  && forallb (fun j => mem j (holders (w_sh w))) Q
  && (N.eqb (sa_anchor a) 0 || mem (sa_anchor a) Q)
  && list_N_eqb (map fst (sa_rnd1 a)) Q && list_N_eqb (map fst (sa_rnd2 a)) Q
  && nodup_b (holders ns) && Nat.leb 1 (length (holders ns)).

Definition redist_run (w : world) (ns : SH) (a : step_args) : option world :=
  let Q := sa_Q a in
  let zs := sa_zs a in
  if negb (precheck w ns a)
  then None else
  match coefs_checked (w_sh w) Q with          (* NewParticipant: prevShard.MSP().Accepts(prevShareholders) *)
  | None => None
  | Some _ =>
  match hjky_cols K zs (sa_rnd1 a) with
  | None => None
  | Some zc =>
  match all_ok (hjky_party K zs zc) Q with
  | None => None
  | Some zres =>
  match all_some (fun j => round2 (w_sh w) zs ns Q j (share_in w j)
                             (match lookup j zres with Some z => fst z | None => [] end) (rnd_of (sa_rnd2 a) j)) Q with
  | None => None
  | Some cols =>
  match all_ok (fun i =>
                  let isprev := mem i Q in
                  let own := match lookup i cols with
                             | Some ac => if isprev then Some (share_of K ns (snd ac) i, snd ac) else None
                             | None => None end in
                  let own_t := match lookup i zres with
                               | Some z => if isprev then Some (w_sh w, w_vv w, snd z) else None
                               | None => None end in
                  round3 own_t own (sa_anchor a) zs ns Q i (r3_inbox w ns zres cols i))
               (holders ns) with
  | None => None
  | Some outs =>
      match outs with
      | [] => None
      | (_, (_, vv)) :: _ =>
          Some (mk_world ns (map (fun o => (fst o, fst (snd o))) outs) vv (hd0 K vv))
      end
  end end end end end.

(* ---- history machine ---------------------------------------------------------------- *)

Inductive op :=
| Refresh (a : step_args)                       (* same structure, same holders *)
| Recover (i : N) (a : step_args)               (* same structure; i's share is lost: i ∉ Q *)
| Redistribute (ns : SH) (a : step_args)   (* any next structure / holders, with or without anchor *)
| Sign (S : list N) (m : N).                    (* an observation: leaves the world unchanged *)

(* a step that is refused or aborts leaves the previous epoch in place *)
Definition epoch_step (w : world) (o : op) : world :=
  match o with
  | Refresh a => match redist_run w (w_sh w) a with Some w' => w' | None => w end
  | Recover i a =>
      if negb (mem i (sa_Q a)) && mem i (holders (w_sh w))
      then match redist_run w (w_sh w) a with Some w' => w' | None => w end
      else w
  | Redistribute ns a => match redist_run w ns a with Some w' => w' | None => w end
  | Sign _ _ => w
  end.

Definition run_history (w : world) (ops : list op) : world := fold_left epoch_step ops w.

(* like run_history, but records whether each step was performed and the world after it *)
Fixpoint trace_history (w : world) (ops : list op) : list (bool * world) :=
  match ops with
  | [] => []
  | o :: t =>
      let performed := match o with
                       | Refresh a => match redist_run w (w_sh w) a with Some _ => true | None => false end
                       | Recover i a => negb (mem i (sa_Q a)) && mem i (holders (w_sh w)) &&
                                        match redist_run w (w_sh w) a with Some _ => true | None => false end
                       | Redistribute ns a => match redist_run w ns a with Some _ => true | None => false end
                       | Sign _ _ => true
                       end in
      let w' := epoch_step w o in
      (performed, w') :: trace_history w' t
  end.

(* what a set S holding the current shares reconstructs through the oracle's coefficients *)
Definition reconstruct (w : world) (S : list N) : option F :=
  match coefs_checked (w_sh w) S with
  | Some lam => Some (recon K S lam (share_in w))
  | None => None
  end.

(* a set that takes the shares of A from world wa and those of B from world wb (same SH) *)
Definition mixed_recon (wa wb : world) (A B : list N) (lam : COEFS) : F :=
  fadd K (recon K A lam (share_in wa)) (recon K B lam (share_in wb)).

End Redist.

(* ---- tapes: a scalar is a little-endian read reduced mod q (SetRandom -> SetBytesWide) ---- *)

Definition le_Z (bs : list Z) : Z := fold_right (fun b acc => (b + 256 * acc)%Z) 0%Z bs.
Definition scalar_of_read (q : Z) (bs : list Z) : Z := (le_Z bs mod q)%Z.
Definition scalars_of_reads (q : Z) (reads : list (list Z)) : list Z := map (scalar_of_read q) reads.

(* genesis from the dealer's tape: first read = the random secret, then D reads = the column *)
Definition genesis_of_tape (q : Z) (sh : sharing (F:=Z)) (reads : list (list Z)) : option (world (F:=Z)) :=
  match reads with
  | [] => None
  | r0 :: rest => genesis (Zp q) sh (scalar_of_read q r0) (scalars_of_reads q rest)
  end.
