(* Schema.v — typed decoding on top of Cbor.v: a small schema language for the DTO structs the
   library serialises (structs are CBOR maps with text-string keys — the `cbor:"name"` tags —
   never arrays; registered types are wrapped in their tag by serde.MarshalCBORTagged), the
   unknown-field rule (ExtraDecErrorUnknownField), and validity predicates that restate,
   rule by rule, what the validating constructors called from the UnmarshalCBOR methods
   enforce.  Rule numbers < 100 are rules whose violation makes the constructor REFUSE;
   numbers >= 100 are invariants of constructed objects that the decoder establishes by
   normalising rather than refusing (CNF antichain, derived shareholder set, ...).

   typed decode  =  generic strict decode ; canonical form ; schema conformance with
   unknown-field rejection ; validity rules.  No proofs here. *)
From Coq Require Import List NArith ZArith Bool String Ascii.
Require Import V.base.Bytes V.gen.SerdeConsts V.gen.SerdeDtos V.model.Cbor.
Import ListNotations.
Local Open Scope N_scope.

Definition str (s : string) : bytes := map N_of_ascii (list_ascii_of_string s).

(* field names of the DTO structs (the `cbor:"..."` tags; Go field names where a DTO has no
   tag), as UTF-8 byte strings computed at compile time so that no Coq [string] is extracted *)
Definition k_Matrix : bytes := Eval vm_compute in str "Matrix".
Definition k_RowsToHolders : bytes := Eval vm_compute in str "RowsToHolders".
Definition k_attr : bytes := Eval vm_compute in str "attr".
Definition k_children : bytes := Eval vm_compute in str "children".
Definition k_cols : bytes := Eval vm_compute in str "cols".
Definition k_compressedBytes : bytes := Eval vm_compute in str "compressedBytes".
Definition k_data : bytes := Eval vm_compute in str "data".
Definition k_fieldBytes : bytes := Eval vm_compute in str "fieldBytes".
Definition k_id : bytes := Eval vm_compute in str "id".
Definition k_int : bytes := Eval vm_compute in str "int".
Definition k_intBytes : bytes := Eval vm_compute in str "intBytes".
Definition k_kind : bytes := Eval vm_compute in str "kind".
Definition k_levels : bytes := Eval vm_compute in str "levels".
Definition k_maximal_unqualified_sets : bytes := Eval vm_compute in str "maximal_unqualified_sets".
Definition k_msp : bytes := Eval vm_compute in str "msp".
Definition k_nat : bytes := Eval vm_compute in str "nat".
Definition k_natBytes : bytes := Eval vm_compute in str "natBytes".
Definition k_natPlus : bytes := Eval vm_compute in str "natPlus".
Definition k_parties : bytes := Eval vm_compute in str "parties".
Definition k_publicMaterial : bytes := Eval vm_compute in str "publicMaterial".
Definition k_r : bytes := Eval vm_compute in str "r".
Definition k_root : bytes := Eval vm_compute in str "root".
Definition k_rows : bytes := Eval vm_compute in str "rows".
Definition k_s : bytes := Eval vm_compute in str "s".
Definition k_share : bytes := Eval vm_compute in str "share".
Definition k_shareholders : bytes := Eval vm_compute in str "shareholders".
Definition k_size : bytes := Eval vm_compute in str "size".
Definition k_threshold : bytes := Eval vm_compute in str "threshold".
Definition k_v : bytes := Eval vm_compute in str "v".
Definition k_value : bytes := Eval vm_compute in str "value".
Definition k_verificationVector : bytes := Eval vm_compute in str "verificationVector".
Definition k_verification_vector : bytes := Eval vm_compute in str "verification_vector".
Definition k_modulus : bytes := Eval vm_compute in str "modulus".
Definition k_u : bytes := Eval vm_compute in str "u".
Definition k_m : bytes := Eval vm_compute in str "m".
Definition k_sharingID : bytes := Eval vm_compute in str "sharingID".
Definition k_secret : bytes := Eval vm_compute in str "secret".
Definition k_blinding : bytes := Eval vm_compute in str "blinding".
Definition k_w : bytes := Eval vm_compute in str "w".

(* ---------------------------------------------------------------- schemas *)

Inductive schema : Type :=
| SUInt (max : N)                 (* Go uint8/uint/uint64/ID: UInt n, n <= max *)
| SInt                            (* Go int: -2^63 .. 2^63-1 *)
| SBool
| SBytes
| SText
| SNullOr (s : schema)            (* pointer field: null or s *)
| SList (s : schema)
| SMapOf (k v : schema)
| SStruct (fs : list (bytes * (bool * schema)))   (* field name, omitempty?, field schema *)
| STagged (t : N) (s : schema)    (* registered type tag *)
| SNode                           (* boolexpr.Node: recursive, see node_schema *)
| SOneOf (ss : list schema)       (* conforms to one of several struct layouts (a package's message structs) *)
| SAny.

Definition u64max : N := 18446744073709551615.
Definition SId : schema := SUInt u64max.

(* boolexpr nodeDTO: kind uint8; attr, threshold, children omitempty *)
Definition node_schema : schema :=
  SStruct [ (k_kind, (false, SUInt 255));
            (k_attr, (true, SId));
            (k_threshold, (true, SInt));
            (k_children, (true, SList SNode)) ].

Inductive cres : Type := COk | CUnknown | CShape.

Definition cand (a b : cres) : cres := match a with COk => b | _ => a end.

Fixpoint call {A} (f : A -> cres) (l : list A) : cres :=
  match l with
  | [] => COk
  | x :: l' => cand (f x) (call f l')
  end.

Fixpoint lookup_field (fs : list (bytes * (bool * schema))) (k : bytes) : option (bool * schema) :=
  match fs with
  | [] => None
  | (nm, d) :: fs' => if bytes_eqb nm k then Some d else lookup_field fs' k
  end.

Definition has_key (ps : list (item * item)) (nm : bytes) : bool :=
  existsb (fun kv : item * item => match fst kv with TStr k => bytes_eqb k nm | _ => false end) ps.

(* conformance of a (canonical) item to a schema.  CUnknown: a struct position holds a key
   that names no field of the DTO — the library refuses such input whatever else it holds.
   CShape: any other mismatch (no claim is made about those).  Fuel bounds the recursion
   through SNode; 4 * (nesting limit + 8) is always enough for decoded items. *)
Fixpoint conf (fuel : nat) (s : schema) (x : item) : cres :=
  match fuel with
  | O => CShape
  | S f =>
      match s with
      | SUInt m => match x with UInt n => if n <=? m then COk else CShape | _ => CShape end
      | SInt => match x with
                | UInt n | NInt n => if n <? 9223372036854775808 then COk else CShape
                | _ => CShape
                end
      | SBool => match x with Simple 20 | Simple 21 => COk | _ => CShape end
      | SBytes => match x with BStr _ => COk | _ => CShape end
      | SText => match x with TStr _ => COk | _ => CShape end
      | SNullOr s' => match x with Simple 22 => COk | _ => conf f s' x end
      | SList s' => match x with Arr l => call (conf f s') l | _ => CShape end
      | SMapOf sk sv =>
          match x with
          | Map ps => call (fun kv : item * item => cand (conf f sk (fst kv)) (conf f sv (snd kv))) ps
          | _ => CShape
          end
      | SStruct fs =>
          match x with
          | Map ps =>
              cand (call (fun kv : item * item =>
                            match fst kv with
                            | TStr k => match lookup_field fs k with
                                        | Some (_, s') => conf f s' (snd kv)
                                        | None => CUnknown
                                        end
                            | _ => CUnknown
                            end) ps)
                   (if forallb (fun fd : bytes * (bool * schema) => fst (snd fd) || has_key ps (fst fd)) fs
                    then COk else CShape)
          | _ => CShape
          end
      | STagged t s' => match x with Tag t' y => if t' =? t then conf f s' y else CShape | _ => CShape end
      | SNode => conf f node_schema x
      | SOneOf ss =>
          let rs := map (fun s' => conf f s' x) ss in
          if existsb (fun r => match r with COk => true | _ => false end) rs then COk
          else if forallb (fun r => match r with CUnknown => true | _ => false end) rs then CUnknown
          else CShape
      | SAny => COk
      end
  end.

Definition conf_fuel : nat := 200.

(* ---------------------------------------------------------------- accessors (total) *)

Definition untag (x : item) : item := match x with Tag _ y => y | _ => x end.

Fixpoint assoc (ps : list (item * item)) (nm : bytes) : option item :=
  match ps with
  | [] => None
  | (k, v) :: ps' => match k with
                     | TStr k' => if bytes_eqb k' nm then Some v else assoc ps' nm
                     | _ => assoc ps' nm
                     end
  end.

Definition fld (nm : bytes) (x : item) : item :=
  match x with
  | Map ps => match assoc ps nm with Some v => v | None => Simple 22 end
  | _ => Simple 22
  end.

Definition has_fld (nm : bytes) (x : item) : bool :=
  match x with Map ps => has_key ps nm | _ => false end.

Definition nat_of (x : item) : N := match x with UInt n => n | _ => 0 end.
Definition int_of (x : item) : Z :=
  match x with UInt n => Z.of_N n | NInt n => (- 1 - Z.of_N n)%Z | _ => 0%Z end.
Definition arr_of (x : item) : list item := match x with Arr l => l | _ => [] end.
Definition pairs_of (x : item) : list (item * item) := match x with Map ps => ps | _ => [] end.
Definition bytes_of (x : item) : bytes := match x with BStr b => b | _ => [] end.
Definition is_null (x : item) : bool := match x with Simple 22 => true | _ => false end.
(* keys of a map[ID]bool / map[int]... as naturals *)
Definition keys_of (x : item) : list N := map (fun kv : item * item => nat_of (fst kv)) (pairs_of x).
Definition ids_of (x : item) : list N := map nat_of (arr_of x).

Definition memN (a : N) (l : list N) : bool := existsb (N.eqb a) l.
Definition subsetN (a b : list N) : bool := forallb (fun x => memN x b) a.
Definition seteqN (a b : list N) : bool := subsetN a b && subsetN b a.
Fixpoint nodupN (l : list N) : bool :=
  match l with [] => true | a :: l' => negb (memN a l') && nodupN l' end.
Fixpoint dedupN (l : list N) : list N :=
  match l with [] => [] | a :: l' => if memN a l' then dedupN l' else a :: dedupN l' end.
Definition lenZ {A} (l : list A) : Z := Z.of_N (len l).

(* ---------------------------------------------------------------- rules *)

Definition rule := (N * bool)%type.    (* (rule number, holds?) *)

Definition first_bad (rs : list rule) : N :=
  match find (fun r : rule => negb (snd r)) rs with Some r => fst r | None => 0 end.

Record curve := { c_slen : N; c_plen : N; c_q : N }.

(* scalar DTO {fieldBytes: bstr}: fixed length big-endian, canonical (< q) *)
Definition scalar_bytes (x : item) : bytes := bytes_of (fld k_fieldBytes x).
Definition scalar_rules (c : curve) (x : item) : list rule :=
  [ (30, len (scalar_bytes x) =? c_slen c);
    (105, be_value (scalar_bytes x) <? c_q c) ].
Definition scalar_is_zero (x : item) : bool := forallb (fun b => b =? 0) (scalar_bytes x).

(* point DTO {compressedBytes: bstr}: fixed length (curve membership is C13's subject) *)
Definition point_rules (c : curve) (x : item) : list rule :=
  [ (31, len (bytes_of (fld k_compressedBytes x)) =? c_plen c) ].

(* threshold.NewThresholdAccessStructure *)
Definition threshold_rules (x : item) : list rule :=
  let d := untag x in
  let t := nat_of (fld k_threshold d) in
  let ids := keys_of (fld k_shareholders d) in
  [ (3, negb (memN 0 ids)); (1, 2 <=? t); (2, t <=? len ids) ].

(* unanimity.NewUnanimityAccessStructure *)
Definition unanimity_rules (x : item) : list rule :=
  let ids := keys_of (fld k_shareholders (untag x)) in
  [ (4, 2 <=? len ids); (3, negb (memN 0 ids)) ].

(* cnf.NewCNFAccessStructure / normaliseCNF *)
Fixpoint antichain_from (pre : list (list N)) (l : list (list N)) : bool :=
  match l with
  | [] => true
  | s :: l' => forallb (fun o => negb (subsetN s o)) (pre ++ l') && antichain_from (pre ++ [s]) l'
  end.
Definition cnf_rules (x : item) : list rule :=
  let d := untag x in
  let sets := map keys_of (arr_of (fld k_maximal_unqualified_sets d)) in
  let univ := dedupN (List.concat sets) in
  [ (5, negb (len sets =? 0));
    (6, forallb (fun s => negb (len s =? 0)) sets);
    (3, forallb (fun s => negb (memN 0 s)) sets);
    (7, 2 <=? len univ);
    (101, antichain_from [] sets);
    (102, seteqN (keys_of (fld k_shareholders d)) univ) ].

(* hierarchical: ThresholdLevel.UnmarshalCBOR + NewHierarchicalConjunctiveThresholdAccessStructure *)
Fixpoint hier_levels (cur : Z) (seen : list N) (ls : list item) : list rule :=
  match ls with
  | [] => []
  | l :: ls' =>
      let t := int_of (fld k_threshold l) in
      let ps := ids_of (fld k_parties l) in
      let seen' := dedupN (seen ++ ps) in
      [ (9, (0 <? t)%Z && (cur <? t)%Z);
        (10, negb (len ps =? 0));
        (3, negb (memN 0 ps));
        (11, forallb (fun p => negb (memN p seen)) ps);
        (12, (t <=? lenZ seen')%Z);
        (103, nodupN ps) ] ++ hier_levels t seen' ls'
  end.
Definition hierarchical_rules (x : item) : list rule :=
  let ls := arr_of (fld k_levels (untag x)) in
  (8, negb (len ls =? 0)) :: hier_levels 0 [] ls.

(* boolexpr: Node.UnmarshalCBOR + checkTree + the shareholder/leaf cross-check *)
Definition node_kind (n : item) : N := nat_of (fld k_kind n).
Definition attr_children (n : item) : list N :=
  map (fun c => nat_of (fld k_attr c)) (filter (fun c => node_kind c =? 2) (arr_of (fld k_children n))).
Fixpoint node_rules (fuel : nat) (n : item) : list rule :=
  match fuel with
  | O => [ (13, false) ]
  | S f =>
      let k := node_kind n in
      if k =? 2 then [ (15, negb (nat_of (fld k_attr n) =? 0)) ]
      else if k =? 1 then
        let t := int_of (fld k_threshold n) in
        let cs := arr_of (fld k_children n) in
        [ (14, (1 <=? t)%Z && (t <=? lenZ cs)%Z && negb (len cs =? 0));
          (16, nodupN (attr_children n)) ] ++ flat_map (node_rules f) cs
      else [ (13, false) ]
  end.
Fixpoint node_leaves (fuel : nat) (n : item) : list N :=
  match fuel with
  | O => []
  | S f =>
      let k := node_kind n in
      if k =? 2 then [ nat_of (fld k_attr n) ]
      else if k =? 1 then flat_map (node_leaves f) (arr_of (fld k_children n))
      else []
  end.
Definition boolexpr_rules (x : item) : list rule :=
  let d := untag x in
  let root := fld k_root d in
  let sh := fld k_shareholders d in
  node_rules 64 root ++
  [ (17, seteqN (keys_of sh) (node_leaves 64 root)
         && forallb (fun kv : item * item => match snd kv with Simple 21 => true | _ => false end) (pairs_of sh)) ].

(* mat.Matrix / ModuleValuedMatrix {rows, cols, data}; SquareMatrix {size, data} *)
Definition matrix_rules (elem : item -> list rule) (x : item) : list rule :=
  let r := int_of (fld k_rows x) in
  let c := int_of (fld k_cols x) in
  let d := arr_of (fld k_data x) in
  [ (18, (0 <? r)%Z && (0 <? c)%Z); (19, (lenZ d =? r * c)%Z) ] ++ flat_map elem d.
Definition sqmatrix_rules (elem : item -> list rule) (x : item) : list rule :=
  let n := int_of (fld k_size x) in
  let d := arr_of (fld k_data x) in
  [ (18, (0 <? n)%Z); (19, (lenZ d =? n * n)%Z) ] ++ flat_map elem d.

(* msp.NewMSP: labels total on 0..rows-1, nothing else, no holder 0 *)
Definition label_keys_ok (rows : Z) (ps : list (item * item)) : bool :=
  forallb (fun kv : item * item => match fst kv with UInt n => (Z.of_N n <? rows)%Z | _ => false end) ps
  && (lenZ ps =? rows)%Z.
Definition msp_rules (c : curve) (x : item) : list rule :=
  let m := fld k_Matrix x in
  let lab := pairs_of (fld k_RowsToHolders x) in
  matrix_rules (scalar_rules c) m ++
  [ (20, label_keys_ok (int_of (fld k_rows m)) lab);
    (21, forallb (fun kv : item * item => negb (nat_of (snd kv) =? 0)) lab) ].
Definition msp_holders (x : item) : list N :=
  map (fun kv : item * item => nat_of (snd kv)) (pairs_of (fld k_RowsToHolders x)).

(* kw.NewShare / feldman.NewLiftedShare {id, value} *)
Definition share_rules (elem : item -> list rule) (x : item) : list rule :=
  let v := arr_of (fld k_value x) in
  [ (22, negb (nat_of (fld k_id x) =? 0)); (23, negb (len v =? 0)) ] ++ flat_map elem v.

(* feldman.NewVerificationVector: a column vector of points *)
Definition vv_rules (c : curve) (x : item) : list rule :=
  let m := fld k_verification_vector x in
  matrix_rules (point_rules c) m ++ [ (24, (int_of (fld k_cols m) =? 1)%Z) ].

(* mpc.NewBasePublicMaterial / mpc.NewBaseShard *)
Definition basepublic_rules (c : curve) (x : item) : list rule :=
  let m := fld k_msp x in
  let v := fld k_verificationVector x in
  msp_rules c m ++ vv_rules c v ++
  [ (25, (int_of (fld k_rows (fld k_verification_vector v)) =? int_of (fld k_cols (fld k_Matrix m)))%Z) ].
Definition baseshard_rules (c : curve) (sharematch : bool) (x : item) : list rule :=
  let sh := fld k_share x in
  let pm := fld k_publicMaterial x in
  basepublic_rules c pm ++ share_rules (scalar_rules c) sh ++
  [ (26, memN (nat_of (fld k_id sh)) (msp_holders (fld k_msp pm)));
    (27, sharematch) ].

(* ecdsa.NewSignature: r, s non-zero; v absent (null) or 0..3 *)
Definition ecdsa_rules (c : curve) (x : item) : list rule :=
  let v := fld k_v x in
  scalar_rules c (fld k_r x) ++ scalar_rules c (fld k_s x) ++
  [ (28, negb (scalar_is_zero (fld k_r x)) && negb (scalar_is_zero (fld k_s x)));
    (29, is_null v || ((0 <=? int_of v)%Z && (int_of v <=? 3)%Z)) ].

(* dkls23.NewPartialSignature {r: point, u, w: scalars}: u, w non-zero (r not the identity is
   an element property left to C13) *)
Definition dklspartial_rules (c : curve) (x : item) : list rule :=
  point_rules c (fld k_r x) ++ scalar_rules c (fld k_u x) ++ scalar_rules c (fld k_w x) ++
  [ (34, negb (scalar_is_zero (fld k_u x)) && negb (scalar_is_zero (fld k_w x))) ].

(* pedersen.Share.UnmarshalCBOR {sharingID, secret: [{m: scalar}], blinding: [{r: scalar}]} and
   pedersen.NewLiftedShare {sharingID, value: [{v: point}]} *)
Definition pedshare_rules (c : curve) (x : item) : list rule :=
  let s := arr_of (fld k_secret x) in
  let b := arr_of (fld k_blinding x) in
  [ (22, negb (nat_of (fld k_sharingID x) =? 0));
    (35, negb (len s =? 0) && negb (len b =? 0));
    (36, len s =? len b) ] ++
  flat_map (fun e => scalar_rules c (fld k_m e)) s ++ flat_map (fun e => scalar_rules c (fld k_r e)) b.
Definition pedlifted_rules (c : curve) (x : item) : list rule :=
  let v := arr_of (fld k_value x) in
  [ (22, negb (nat_of (fld k_sharingID x) =? 0)); (23, negb (len v =? 0)) ] ++
  flat_map (fun e => point_rules c (fld k_v e)) v.

(* num.NatPlus: non-zero *)
Definition natplus_rules (x : item) : list rule :=
  [ (32, existsb (fun b => negb (b =? 0)) (bytes_of (fld k_natBytes (fld k_natPlus x)))) ].

(* Integer-like leaves related to another leaf, wherever they occur in an item.
   num.Uint is {value: {natBytes: v}, modulus: {modulus: {natBytes: m}}} (big-endian) and
   Uint.UnmarshalCBOR enforces 0 <= v < m (rule 41) — no constructor builds a Uint with v >= m;
   Paillier plaintexts, znstar group elements (v against n resp. n^2), ring-Pedersen trapdoors,
   lpdl / prm message fields embed it.  num.NatPlus is {natPlus: {natBytes: n}} with n <> 0
   (rule 42).  Both are checked on every sub-item of that exact shape. *)
Definition nat_leaf (x : item) : option bytes :=
  match x with
  | Map [ (TStr k, BStr b) ] => if bytes_eqb k k_natBytes then Some b else None
  | _ => None
  end.
Definition uint_leaf (x : item) : option (bytes * bytes) :=
  match x with
  | Map ps =>
      if (len ps =? 2) && has_key ps k_value && has_key ps k_modulus then
        match nat_leaf (fld k_value x), fld k_modulus x with
        | Some v, Map [ (TStr k, mm) ] =>
            if bytes_eqb k k_modulus then
              match nat_leaf mm with Some m => Some (v, m) | None => None end
            else None
        | _, _ => None
        end
      else None
  | _ => None
  end.
Definition natplus_leaf (x : item) : option bytes :=
  match x with
  | Map [ (TStr k, nn) ] => if bytes_eqb k k_natPlus then nat_leaf nn else None
  | _ => None
  end.
Definition nonzero_bytes (b : bytes) : bool := existsb (fun y => negb (y =? 0)) b.

Fixpoint leaves_ok (fuel : nat) (x : item) : bool * bool :=   (* (rule 41 holds, rule 42 holds) below x *)
  match fuel with
  | O => (true, true)
  | S f =>
      let here41 := match uint_leaf x with Some (v, m) => be_value v <? be_value m | None => true end in
      let here42 := match natplus_leaf x with Some n => nonzero_bytes n | None => true end in
      let sub := match x with
                 | Arr l => map (leaves_ok f) l
                 | Map ps => map (fun kv : item * item => leaves_ok f (snd kv)) ps
                 | Tag _ y => [ leaves_ok f y ]
                 | _ => []
                 end in
      (here41 && forallb fst sub, here42 && forallb snd sub)
  end.
Definition leaf_rules (x : item) : list rule :=
  let r := leaves_ok 40 x in [ (41, fst r); (42, snd r) ].

(* ---------------------------------------------------------------- the typed layer *)

Inductive ty : Type :=
| TThreshold | TUnanimity | TCnf | THierarchical | TBoolexpr
| TMsp (c : curve) | TKwShare (c : curve) | TLifted (c : curve) | TFeldmanVV (c : curve)
| TBasePublic (c : curve) | TBaseShard (c : curve) (sharematch : bool)
| TEcdsaSig (c : curve) | TDklsPartial (c : curve) | TPedShare (c : curve) | TPedLifted (c : curve)
| TMatrix (c : curve) | TSqMatrix (c : curve) | TMvMatrix (c : curve)
| TNat | TInt | TNatPlus | TUint | TScalar (c : curve) | TPoint (c : curve)
| TShallow (strict : bool) (cands : list (list (bytes * bool)))   (* field names only, gen/SerdeDtos.dto_groups *)
| TGeneric.

Definition s_idset : schema := SMapOf SId SBool.
Definition s_scalar : schema := SStruct [ (k_fieldBytes, (false, SBytes)) ].
Definition s_point : schema := SStruct [ (k_compressedBytes, (false, SBytes)) ].
Definition s_matrix (e : schema) : schema :=
  SStruct [ (k_rows, (false, SInt)); (k_cols, (false, SInt)); (k_data, (false, SList e)) ].
Definition s_sqmatrix (e : schema) : schema :=
  SStruct [ (k_size, (false, SInt)); (k_data, (false, SList e)) ].
Definition s_msp : schema :=
  SStruct [ (k_Matrix, (false, s_matrix s_scalar)); (k_RowsToHolders, (false, SMapOf SInt SId)) ].
Definition s_share (e : schema) : schema :=
  SStruct [ (k_id, (false, SId)); (k_value, (false, SList e)) ].
Definition s_vv : schema := SStruct [ (k_verification_vector, (false, s_matrix s_point)) ].
Definition s_basepublic : schema :=
  SStruct [ (k_msp, (false, s_msp)); (k_verificationVector, (false, s_vv)) ].
Definition s_natbytes (nm : bytes) : schema := SStruct [ (nm, (false, SBytes)) ].

(* shallow types: every field optional for conformance and of any shape; the one rule is that no
   declared (non-omitempty) component of the matching layout is missing, null or undefined —
   rule 40 where the type's UnmarshalCBOR itself refuses that, rule 140 for plain message structs,
   whose missing components are refused by Validate in the round function, not by the decoder *)
Definition shallow_schema (fs : list (bytes * bool)) : schema :=
  SStruct (map (fun f : bytes * bool => (fst f, (true, SAny))) fs).
Definition nullish (x : item) : bool := match x with Simple 22 | Simple 23 => true | _ => false end.
Definition shallow_complete (fs : list (bytes * bool)) (x : item) : bool :=
  forallb (fun f : bytes * bool => snd f || (match x with Map ps => has_key ps (fst f) | _ => false end && negb (nullish (fld (fst f) x)))) fs.
Definition shallow_rules (strict : bool) (cands : list (list (bytes * bool))) (x : item) : list rule :=
  (* among the layouts the item's keys fit, one must be complete (a package's message structs may be
     sub-layouts of one another: Round1P2P {zeroR1} of Round1Broadcast {bigRCommitment, zeroR1}) *)
  let fits := filter (fun fs => match conf 3 (shallow_schema fs) x with COk => true | _ => false end) cands in
  match fits with
  | [] => []
  | _ => [ (if strict then 40 else 140, existsb (fun fs => shallow_complete fs x) fits) ]
  end.

(* the group of gen/SerdeDtos.dto_groups whose name is the longest prefix of the type name *)
Fixpoint is_prefix (p l : bytes) : bool :=
  match p, l with
  | [], _ => true
  | a :: p', b :: l' => (a =? b) && is_prefix p' l'
  | _ :: _, [] => false
  end.
Definition shallow_group (name : bytes) : option (bool * list (list (bytes * bool))) :=
  match fold_left (fun (best : option (nat * (bool * list (list (bytes * bool))))) g =>
               if is_prefix (fst g) name
               then match best with
                    | Some (n, _) => if Nat.ltb n (List.length (fst g)) then Some (List.length (fst g), snd g) else best
                    | None => Some (List.length (fst g), snd g)
                    end
               else best) dto_groups None with
  | Some (_, g) => Some g
  | None => None
  end.

Definition ty_shallow (name : bytes) : ty :=
  match shallow_group name with
  | Some (strict, cands) => TShallow strict cands
  | None => TGeneric
  end.

Definition schema_of (t : ty) : schema :=
  match t with
  | TThreshold => STagged tag_ThresholdAccessStructureTag (SStruct [ (k_threshold, (false, SId)); (k_shareholders, (false, s_idset)) ])
  | TUnanimity => STagged tag_UnanimityAccessStructureTag (SStruct [ (k_shareholders, (false, s_idset)) ])
  | TCnf => STagged tag_CNFAccessStructureTag (SStruct [ (k_shareholders, (false, s_idset));
                                     (k_maximal_unqualified_sets, (false, SList s_idset)) ])
  | THierarchical =>
      STagged tag_HierarchicalConjunctiveThresholdAccessStructureTag (SStruct [ (k_levels,
        (false, SList (SStruct [ (k_threshold, (false, SInt)); (k_parties, (false, SList SId)) ]))) ])
  | TBoolexpr => STagged tag_ThresholdGateAccessStructureTag (SStruct [ (k_root, (false, SNode)); (k_shareholders, (false, s_idset)) ])
  | TMsp _ => s_msp
  | TKwShare _ => s_share s_scalar
  | TLifted _ => s_share s_point
  | TFeldmanVV _ => s_vv
  | TBasePublic _ => s_basepublic
  | TBaseShard _ _ => SStruct [ (k_share, (false, s_share s_scalar)); (k_publicMaterial, (false, s_basepublic)) ]
  | TEcdsaSig _ => SStruct [ (k_r, (false, s_scalar)); (k_s, (false, s_scalar)); (k_v, (false, SNullOr SInt)) ]
  | TDklsPartial _ => SStruct [ (k_r, (false, s_point)); (k_u, (false, s_scalar)); (k_w, (false, s_scalar)) ]
  | TPedShare _ => SStruct [ (k_sharingID, (false, SId));
                             (k_secret, (false, SList (SStruct [ (k_m, (false, s_scalar)) ])));
                             (k_blinding, (false, SList (SStruct [ (k_r, (false, s_scalar)) ]))) ]
  | TPedLifted _ => SStruct [ (k_sharingID, (false, SId));
                              (k_value, (false, SList (SStruct [ (k_v, (false, s_point)) ]))) ]
  | TMatrix _ => s_matrix s_scalar
  | TSqMatrix _ => s_sqmatrix s_scalar
  | TMvMatrix _ => s_matrix s_point
  | TNat => SStruct [ (k_nat, (false, s_natbytes k_natBytes)) ]
  | TInt => SStruct [ (k_int, (false, s_natbytes k_intBytes)) ]
  | TNatPlus => SStruct [ (k_natPlus, (false, s_natbytes k_natBytes)) ]
  | TUint => SStruct [ (k_value, (false, s_natbytes k_natBytes));
                       (k_modulus, (false, SStruct [ (k_modulus, (false, s_natbytes k_natBytes)) ])) ]
  | TScalar _ => s_scalar
  | TPoint _ => s_point
  | TShallow _ cands => SOneOf (map shallow_schema cands)
  | TGeneric => SAny
  end.

Definition rules_of (t : ty) (x : item) : list rule :=
  match t with
  | TThreshold => threshold_rules x
  | TUnanimity => unanimity_rules x
  | TCnf => cnf_rules x
  | THierarchical => hierarchical_rules x
  | TBoolexpr => boolexpr_rules x
  | TMsp c => msp_rules c x
  | TKwShare c => share_rules (scalar_rules c) x
  | TLifted c => share_rules (point_rules c) x
  | TFeldmanVV c => vv_rules c x
  | TBasePublic c => basepublic_rules c x
  | TBaseShard c m => baseshard_rules c m x
  | TEcdsaSig c => ecdsa_rules c x
  | TDklsPartial c => dklspartial_rules c x
  | TPedShare c => pedshare_rules c x
  | TPedLifted c => pedlifted_rules c x
  | TMatrix c => matrix_rules (scalar_rules c) x
  | TSqMatrix c => sqmatrix_rules (scalar_rules c) x
  | TMvMatrix c => matrix_rules (point_rules c) x
  | TNatPlus => natplus_rules x
  | TScalar c => scalar_rules c x
  | TPoint c => point_rules c x
  | TShallow strict cands => shallow_rules strict cands x ++ leaf_rules x
  | TUint | TGeneric => leaf_rules x
  | TNat | TInt => []
  end.

(* the validity predicate: every rule of the type holds *)
Definition valid (t : ty) (x : item) : bool := forallb (fun r : rule => snd r) (rules_of t x).

(* conformance + validity of a canonical item *)
Definition check (t : ty) (x : item) : bool :=
  match conf conf_fuel (schema_of t) x with COk => valid t x | _ => false end.

Inductive verdict : Type :=
| VMalformed (e : err)      (* container refused by the strict decoder *)
| VUnsupported (e : err)    (* outside the model (floats, exotic keys) *)
| VUnknownField
| VShape
| VInvalid (r : N)          (* first violated rule *)
| VValid (x : item).        (* the canonical decoded value *)

Definition classify (L : limits) (t : ty) (bs : bytes) : verdict :=
  match decode L bs with
  | Err e => if malformed_reason e then VMalformed e else VUnsupported e
  | Ok it =>
      let x := canon it in
      match conf conf_fuel (schema_of t) x with
      | CUnknown => VUnknownField
      | CShape => VShape
      | COk => match first_bad (rules_of t x) with
               | 0 => VValid x
               | r => VInvalid r
               end
      end
  end.

Definition decode_typed (L : limits) (t : ty) (bs : bytes) : option item :=
  match decode L bs with
  | Err _ => None
  | Ok it => let x := canon it in if check t x then Some x else None
  end.

Definition encode_typed (x : item) : bytes := encode x.
