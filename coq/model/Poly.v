(* Poly.v — executable model of /repo/pkg/base/polynomials (polynomial.go,
   polynomial_module.go): coefficient lists in ascending degree order.  No proofs.
     Polynomial.Eval            -> [peval]   (Horner from the top coefficient, as coded)
     Polynomial.Degree          -> [pdegree] (index of highest non-zero coefficient, None = -1)
     Polynomial.Derivative      -> [pderiv]  (uses Degree; i·c_i by ScalarMulNative = repeated addition)
     ModuleValuedPolynomial.Eval/Derivative -> [gpeval]/[gpderiv],  LiftPolynomial -> [lift_poly] *)
From Coq Require Import List Arith Bool.
Import ListNotations.
Require Import V.base.Fld V.model.LinAlg.

Section Poly.
Context {F : Type} (K : fops F).

Definition poly := list F.

(* out := coeffs[last]; for i := len-2 .. 0 { out = out.Mul(at).Add(coeffs[i]) }; empty -> Zero *)
Definition peval (p : poly) (x : F) : F :=
  match rev p with
  | [] => f0 K
  | c :: rest => fold_left (fun out ci => fadd K (fmul K out x) ci) rest c
  end.

(* the textbook right-fold Horner form (proved equal to [peval] under [flaws]) *)
Fixpoint peval_r (p : poly) (x : F) : F :=
  match p with
  | [] => f0 K
  | c :: t => fadd K c (fmul K x (peval_r t x))
  end.

(* number of leading (lowest-index) coefficients up to and including the highest non-zero one *)
Fixpoint ptrim_len (p : poly) : nat :=
  match p with
  | [] => O
  | c :: t => match ptrim_len t with
              | O => if fis0 K c then O else 1
              | S n => S (S n)
              end
  end.
Definition pdegree (p : poly) : option nat :=
  match ptrim_len p with O => None | S d => Some d end.

(* n·c by repeated addition (ScalarMulNative on a ring element; n is a small loop index) *)
Fixpoint fmul_nat (c : F) (n : nat) : F :=
  match n with O => f0 K | S m => fadd K (fmul_nat c m) c end.

(* if Degree() <= 0 -> [0]; else derivCoeffs[i-1] = i·coeffs[i] for i = 1..Degree() *)
Definition pderiv (p : poly) : poly :=
  match pdegree p with
  | None | Some O => [f0 K]
  | Some (S d) => mapi (fun i c => fmul_nat c (S i)) (firstn (S d) (tl p))
  end.

Fixpoint pderiv_iter (j : nat) (p : poly) : poly :=
  match j with O => p | S j' => pderiv_iter j' (pderiv p) end.

Section ModulePoly.
Context {G : Type} (Mo : mops G F).

Definition lift_poly (p : poly) (g : G) : list G := map (fun c => gsmul Mo g c) p.

(* out := coeffs[last]; out = out.ScalarOp(at).Op(coeffs[i]); (the code panics on empty: None) *)
Definition gpeval (p : list G) (x : F) : option G :=
  match rev p with
  | [] => None
  | c :: rest => Some (fold_left (fun out ci => gadd Mo (gsmul Mo out x) ci) rest c)
  end.

Fixpoint gmul_nat (c : G) (n : nat) : G :=
  match n with O => g0 Mo | S m => gadd Mo (gmul_nat c m) c end.

Definition gpderiv (p : list G) : list G :=
  match p with
  | [] | [_] => [g0 Mo]
  | _ :: t => mapi (fun i c => gmul_nat c (S i)) t
  end.
End ModulePoly.

End Poly.
