(* Dkg.v — executable model of the key-generation protocols of /repo/pkg/mpc/dkg
   (gennaro, canetti, trusteddealer) and of mpc.NewBaseShard, over an ABSTRACT linear
   sharing: a field record K, a number of columns D and a row map
        rows : N -> list (list F)        (rows of the MSP matrix owned by a holder,
                                          ascending row index — kw.DealerFunc.ShareOf)
   share of holder i from a random column r (length D, r_0 = secret):  rows i · r.
   Group elements are represented by their exponent (DESIGN §3 L3): the base point has
   exponent g (g = 1 in the executable instance), Lift(r) = r·g, the left action of a
   scalar matrix on a vector of group elements is the same linear map applied to the
   exponents.  Pedersen's second base H has unknown discrete logarithm X (L3'): a Pedersen
   commitment is the linear form c0 + c1·X, kept as the pair of coefficient vectors.
   Proofs of knowledge (Okamoto, batch Schnorr) are idealised as accept predicates: the
   proof is its witness and the verifier accepts iff the relation holds.  Canetti's hash
   commitment is a free (injective) constructor: opening compares the committed value.

   The protocol models are functions of the parties' random tapes (list of sampled
   scalars; [sample] below is the code's SetRandom: (bits+128+7)/8 bytes little endian
   reduced mod q).  No proofs here (proofs/Dkg_proofs.v). *)
From Coq Require Import List NArith ZArith Bool.
Require Import V.base.Fld.
Import ListNotations.

Inductive verdict (A : Type) : Type :=
| Ok (a : A)          (* the step returned a value *)
| Blame (j : N)       (* error tagged with the identifiable-abort party j *)
| Fail.               (* error without blame *)
Arguments Ok {A} _. Arguments Blame {A} _. Arguments Fail {A}.

Section Dkg.
Context {F : Type} (K : fops F).

Local Notation "0" := (f0 K).
Local Notation "1" := (f1 K).
Local Infix "+" := (fadd K).
Local Infix "*" := (fmul K).

(* ---- vectors ---------------------------------------------------------------------- *)
Definition vadd (a b : list F) : list F := map (fun p => fst p + snd p) (combine a b).
Definition vscale (c : F) (a : list F) : list F := map (fun x => c * x) a.
Definition zeros (n : nat) : list F := repeat 0 n.
Definition dot (a b : list F) : F := fold_right (fun p acc => fst p * snd p + acc) 0 (combine a b).
Definition mv (M : list (list F)) (x : list F) : list F := map (fun r => dot r x) M.     (* M·x *)
Definition vecm (d : nat) (l : list F) (M : list (list F)) : list F :=                   (* l·M *)
  fold_right (fun p acc => vadd (vscale (fst p) (snd p)) acc) (zeros d) (combine l M).
Definition veqb (a b : list F) : bool :=
  Nat.eqb (length a) (length b) && forallb (fun p => feqb K (fst p) (snd p)) (combine a b).
Definition e0 (d : nat) : list F := match d with O => [] | S k => 1 :: zeros k end.      (* MSP target vector *)
Definition vsum (d : nat) (l : list (list F)) : list F := fold_left vadd l (zeros d).

(* ---- the sharing and the group ----------------------------------------------------- *)
Variable rows : N -> list (list F).
Variable D : nat.
Variable g : F.

Definition lift (v : list F) : list F := map (fun x => x * g) v.        (* mat.Lift(v, G) *)

(* ---- sampling a column from the tape ------------------------------------------------
   kw.Scheme.DealRandomAndRevealDealerFunc: one scalar (the secret), then D scalars for
   the column (mat Random), entry 0 overwritten by the secret; kw.NewDealerFunc refuses a
   column with fewer than 2 rows.  Returns the column and the rest of the tape. *)
Definition take_column (t : list F) : option (list F * list F) :=
  match t with
  | [] => None
  | s :: rest =>
      if Nat.ltb (length rest) D || Nat.ltb D 2 then None
      else Some (s :: tl (firstn D rest), skipn D rest)
  end.

(* ---- mpc.NewBaseShard --------------------------------------------------------------- *)
Record shard := mk_shard {
  sh_share : list F;            (* private share (scalars) *)
  sh_vv : list F;               (* verification vector (exponents) *)
  sh_pk : F;                    (* public key = target · V *)
  sh_pks : list (N * list F)    (* public key shares of every holder: M_h · V *)
}.

Definition new_base_shard (holders : list N) (i : N) (share vv : list F) : option shard :=
  if negb (Nat.eqb (length vv) D) then None                                  (* NewBasePublicMaterial *)
  else if negb (existsb (N.eqb i) holders) then None                         (* share ID not in the MSP *)
  else if veqb (lift share) (mv (rows i) vv)                                 (* LiftShare(share) == pkShares[i] *)
       then Some (mk_shard share vv (dot (e0 D) vv) (map (fun h => (h, mv (rows h) vv)) holders))
       else None.

(* ---- the accumulate-after-check loop shared by the protocols ------------------------ *)
Fixpoint acc_loop {M S : Type} (check : S -> N -> M -> bool) (step : S -> M -> S)
         (acc : S) (inbox : list (N * M)) : verdict S :=
  match inbox with
  | [] => Ok acc
  | (j, m) :: rest => if check acc j m then acc_loop check step (step acc m) rest else Blame j
  end.

Definition others {A : Type} (i : N) (l : list (N * A)) : list (N * A) :=
  filter (fun p => negb (N.eqb (fst p) i)) l.

Fixpoint all_some {A B : Type} (l : list (A * option B)) : option (list (A * B)) :=
  match l with
  | [] => Some []
  | (a, None) :: _ => None
  | (a, Some b) :: t => match all_some t with Some r => Some ((a, b) :: r) | None => None end
  end.

(* ==== Gennaro ======================================================================== *)
Record g_deal := mk_g_deal { gd_r : list F; gd_b : list F }.     (* secret and blinding column *)

(* pedersen.Scheme.DealRandomAndRevealDealerFunc: secret column, then blinding column *)
Definition gennaro_deal (t : list F) : option g_deal :=
  match take_column t with
  | None => None
  | Some (r, t') => match take_column t' with
                    | None => None
                    | Some (b, _) => Some (mk_g_deal r b)
                    end
  end.

Record g_r1b := mk_g_r1b {
  pv_g : list F; pv_h : list F;        (* Pedersen verification vector: entry k = pv_g[k] + pv_h[k]·X *)
  ok_r : list F; ok_b : list F }.      (* Okamoto proof of knowledge of the openings (idealised) *)
Record g_r1u := mk_g_r1u { us : list F; ub : list F }.          (* Pedersen share: value and blinding *)
Record g_r2b := mk_g_r2b { feld : list F; sch_w : list F }.     (* Feldman vector, batch Schnorr PoK *)

Definition g_round1_bcast (d : g_deal) : g_r1b := mk_g_r1b (lift (gd_r d)) (gd_b d) (gd_r d) (gd_b d).
Definition g_round1_ucast (d : g_deal) (to : N) : g_r1u := mk_g_r1u (mv (rows to) (gd_r d)) (mv (rows to) (gd_b d)).
Definition g_round2_bcast (d : g_deal) : g_r2b := mk_g_r2b (lift (gd_r d)) (gd_r d).

(* Round2, per sender: message validation (dimension), Okamoto verification, Pedersen share
   verification  M_i · V = Com(share, blinding)  coefficient-wise in {G, H}, length check *)
Definition g_check_r1 (i : N) (acc : list F) (j : N) (m : g_r1b * g_r1u) : bool :=
  let b := fst m in let u := snd m in
  Nat.eqb (length (pv_g b)) D && Nat.eqb (length (pv_h b)) D
  && veqb (pv_g b) (lift (ok_r b)) && veqb (pv_h b) (ok_b b)
  && veqb (mv (rows i) (pv_g b)) (lift (us u)) && veqb (mv (rows i) (pv_h b)) (ub u)
  && Nat.eqb (length acc) (length (us u)).

(* Round3, per sender: validation, batch Schnorr verification, Feldman verification of the
   share received in round 1 against the sender's Feldman vector *)
Definition g_check_r2 (i : N) (acc : list F) (j : N) (m : g_r2b * list F) : bool :=
  let b := fst m in
  Nat.eqb (length (feld b)) D
  && veqb (feld b) (lift (sch_w b))
  && veqb (mv (rows i) (feld b)) (lift (snd m))
  && Nat.eqb (length acc) (length (feld b)).                               (* VerificationVector.Op dimensions *)

Definition gennaro_party (holders : list N) (deals : list (N * g_deal)) (i : N) (di : g_deal) : verdict shard :=
  let inbox1 := map (fun p => (fst p, (g_round1_bcast (snd p), g_round1_ucast (snd p) i))) (others i deals) in
  match acc_loop (g_check_r1 i) (fun acc m => vadd acc (us (snd m))) (mv (rows i) (gd_r di)) inbox1 with
  | Ok sum =>
      let inbox2 := map (fun p => (fst p, (g_round2_bcast (snd p), us (g_round1_ucast (snd p) i)))) (others i deals) in
      match acc_loop (g_check_r2 i) (fun acc m => vadd acc (feld (fst m))) (lift (gd_r di)) inbox2 with
      | Ok vv => match new_base_shard holders i sum vv with Some s => Ok s | None => Fail end
      | Blame j => Blame j
      | Fail => Fail
      end
  | Blame j => Blame j
  | Fail => Fail
  end.

(* an honest run: parties = (id, tape) ascending; a party whose prng fails aborts the run *)
Definition gennaro_run (holders : list N) (parties : list (N * list F)) : list (N * verdict shard) :=
  match all_some (map (fun p => (fst p, gennaro_deal (snd p))) parties) with
  | None => map (fun p => (fst p, Fail)) parties
  | Some deals => map (fun p => (fst p, gennaro_party holders deals (fst p) (snd p))) deals
  end.

(* ==== Canetti ======================================================================== *)
(* Round1: Feldman dealing, then rho, the batch-Schnorr nonce, the commitment witness (kept
   as opaque tape entries); the commitment V is a free constructor of the opened message. *)
Record c_deal := mk_c_deal { cd_r : list F; cd_rest : list F }.
Definition canetti_deal (t : list F) : option c_deal :=
  match take_column t with None => None | Some (r, t') => Some (mk_c_deal r t') end.

Record c_open := mk_c_open { co_from : N; co_x : list F; co_aux : list F }.   (* CommitmentMessage (+ witness U) *)
Definition c_round1_commit (j : N) (d : c_deal) : c_open := mk_c_open j (lift (cd_r d)) (firstn 3 (cd_rest d)).
Definition c_round2_open (j : N) (d : c_deal) : c_open := mk_c_open j (lift (cd_r d)) (firstn 3 (cd_rest d)).
Definition c_round2_share (d : c_deal) (to : N) : list F := mv (rows to) (cd_r d).

Definition c_open_eqb (a b : c_open) : bool :=
  N.eqb (co_from a) (co_from b) && veqb (co_x a) (co_x b) && veqb (co_aux a) (co_aux b).

(* Round3, per sender: validation (sender id, dimension), commitment opening, Feldman share
   verification; the verification vector and the share are accumulated in the same loop
   (state = (summed vector, summed share)). *)
Definition c_check_r2 (i : N) (acc : list F * list F) (j : N) (m : (c_open * c_open) * list F) : bool :=
  let com := fst (fst m) in let op := snd (fst m) in let sh := snd m in
  N.eqb (co_from op) j && Nat.eqb (length (co_x op)) D
  && c_open_eqb com op
  && veqb (mv (rows i) (co_x op)) (lift sh)
  && Nat.eqb (length (fst acc)) (length (co_x op)) && Nat.eqb (length (snd acc)) (length sh).

(* Round4, per sender: the batch Schnorr proof for X_j (idealised PoK) *)
Definition c_check_r3 (x_w : list F * list F) : bool := veqb (fst x_w) (lift (snd x_w)).

Definition canetti_party (holders : list N) (deals : list (N * c_deal)) (i : N) (di : c_deal) : verdict shard :=
  let inbox := map (fun p => (fst p, ((c_round1_commit (fst p) (snd p), c_round2_open (fst p) (snd p)),
                                      c_round2_share (snd p) i))) (others i deals) in
  match acc_loop (c_check_r2 i)
                 (fun acc m => (vadd (fst acc) (co_x (snd (fst m))), vadd (snd acc) (snd m)))
                 (lift (cd_r di), mv (rows i) (cd_r di)) inbox with
  | Ok acc =>
      match find (fun p => negb (c_check_r3 (lift (cd_r (snd p)), cd_r (snd p)))) (others i deals) with
      | Some p => Blame (fst p)
      | None => match new_base_shard holders i (snd acc) (fst acc) with
                | Some s => Ok s | None => Fail end
      end
  | Blame j => Blame j
  | Fail => Fail
  end.

Definition canetti_run (holders : list N) (parties : list (N * list F)) : list (N * verdict shard) :=
  match all_some (map (fun p => (fst p, canetti_deal (snd p))) parties) with
  | None => map (fun p => (fst p, Fail)) parties
  | Some deals => map (fun p => (fst p, canetti_party holders deals (fst p) (snd p))) deals
  end.

(* ==== trusted dealer: one Feldman dealing, a shard per holder ========================= *)
Definition dealer_run (holders : list N) (t : list F) : option (list (N * option shard)) :=
  match take_column t with
  | None => None
  | Some (r, _) => Some (map (fun h => (h, new_base_shard holders h (mv (rows h) r) (lift r))) holders)
  end.

(* a share with coordinate k shifted by delta (what the harness feeds NewBaseShard) *)
Fixpoint add_at (k : nat) (delta : F) (v : list F) : list F :=
  match v, k with
  | [], _ => []
  | x :: t, O => (x + delta) :: t
  | x :: t, S k' => x :: add_at k' delta t
  end.

(* ==== reconstruction with given coefficients (kw.Scheme.Reconstruct: recon vector · share column) *)
Definition recon_combo (S : list N) (lam : N -> list F) : list F :=
  vsum D (map (fun i => vecm D (lam i) (rows i)) S).                       (* λ · M_S *)
Definition recon_ok (S : list N) (lam : N -> list F) : bool :=
  veqb (recon_combo S lam) (e0 D)
  && forallb (fun i => Nat.eqb (length (lam i)) (length (rows i))) S.
Definition recon_value (S : list N) (lam : N -> list F) (share : N -> list F) : F :=
  fold_left (fun acc i => acc + dot (lam i) (share i)) S 0.

End Dkg.

(* ==== stored auxiliary information of a Lindell17 shard (lindell17.auxiliaryInfoDTO) ============
   The two peer maps (Paillier public keys and encrypted shares of the holders with whom the owner
   forms a qualified two-party set) are ALWAYS written, also when empty (a holder without such a
   peer: every holder of an n-of-n with n > 2); a map is present (Some l, possibly Some []) or absent
   (None).  AuxiliaryInfo.UnmarshalCBOR refuses an absent map and NewAuxiliaryInfo refuses maps with
   different key sets. *)
Record aux_dto (A B : Type) : Type := mk_aux_dto { ad_pks : option (list (N * A)); ad_cts : option (list (N * B)) }.
Arguments mk_aux_dto {A B} _ _. Arguments ad_pks {A B} _. Arguments ad_cts {A B} _.

Fixpoint keys_eqb (a b : list N) : bool :=
  match a, b with
  | [], [] => true
  | x :: a', y :: b' => N.eqb x y && keys_eqb a' b'
  | _, _ => false
  end.

Definition aux_encode {A B : Type} (pks : list (N * A)) (cts : list (N * B)) : aux_dto A B :=
  mk_aux_dto (Some pks) (Some cts).

Definition aux_decode {A B : Type} (d : aux_dto A B) : option (list (N * A) * list (N * B)) :=
  match ad_pks d, ad_cts d with
  | Some p, Some c => if keys_eqb (map fst p) (map fst c) then Some (p, c) else None
  | _, _ => None
  end.

(* ==== executable instance: Z_q, g = 1, rows read off a labelled matrix ================= *)
Definition le_bytes (bs : list Z) : Z := fold_right (fun b acc => (b + 256 * acc)%Z) 0%Z bs.
(* SetRandom/SetBytesWide: the bytes of one read, little endian, reduced mod q *)
Definition sample (q : Z) (bs : list Z) : Z := (le_bytes bs mod q)%Z.

(* the row map of a labelled matrix (an MSP as the library represents it: matrix + rows-to-holders
   labelling): the rows labelled h, ascending row index *)
Definition lrows {F : Type} (M : list (list F)) (labels : list N) (h : N) : list (list F) :=
  map snd (filter (fun p => N.eqb (fst p) h) (combine labels M)).

Definition rows_of (M : list (list Z)) (labels : list N) (h : N) : list (list Z) := lrows M labels h.

Definition tapes_of (q : Z) (parties : list (N * list (list Z))) : list (N * list Z) :=
  map (fun p => (fst p, map (sample q) (snd p))) parties.

Definition zq_gennaro_run (q : Z) (M : list (list Z)) (labels : list N) (d : nat) (holders : list N)
           (parties : list (N * list (list Z))) : list (N * verdict (@shard Z)) :=
  gennaro_run (Zp q) (rows_of M labels) d 1%Z holders (tapes_of q parties).

(* the messages a dealer sends (Pedersen vector as linear forms, its Feldman vector, the
   Pedersen share for every holder) *)
Definition zq_gennaro_msgs (q : Z) (M : list (list Z)) (labels : list N) (d : nat) (holders : list N)
           (tape : list (list Z)) : option (@g_r1b Z * @g_r2b Z * list (N * @g_r1u Z)) :=
  match gennaro_deal d (map (sample q) tape) with
  | None => None
  | Some dl => Some (g_round1_bcast (Zp q) 1%Z dl, g_round2_bcast (Zp q) 1%Z dl,
                     map (fun h => (h, g_round1_ucast (Zp q) (rows_of M labels) dl h)) holders)
  end.

Definition zq_canetti_run (q : Z) (M : list (list Z)) (labels : list N) (d : nat) (holders : list N)
           (parties : list (N * list (list Z))) : list (N * verdict (@shard Z)) :=
  canetti_run (Zp q) (rows_of M labels) d 1%Z holders (tapes_of q parties).

Definition zq_dealer_run (q : Z) (M : list (list Z)) (labels : list N) (d : nat) (holders : list N)
           (tape : list (list Z)) : option (list (N * option (@shard Z))) :=
  dealer_run (Zp q) (rows_of M labels) d 1%Z holders (map (sample q) tape).

(* does NewBaseShard accept party i's share of [s] with coordinate k shifted by delta ? *)
Definition zq_tamper (q : Z) (M : list (list Z)) (labels : list N) (d : nat) (holders : list N)
           (i : N) (k : nat) (delta : Z) (s : @shard Z) : bool :=
  match new_base_shard (Zp q) (rows_of M labels) d 1%Z holders i
                       (add_at (Zp q) k (delta mod q)%Z (sh_share s)) (sh_vv s) with
  | Some _ => true
  | None => false
  end.

(* sum of the dealers' secrets (first sampled scalar of every tape) *)
Definition zq_secret_sum (q : Z) (parties : list (N * list (list Z))) : Z :=
  fold_left (fun acc p => ((acc + hd 0%Z (map (sample q) (snd p))) mod q)%Z) parties 0%Z.

Definition zq_recon (q : Z) (M : list (list Z)) (labels : list N) (d : nat)
           (S : list N) (lam : list (N * list Z)) (shares : list (N * list Z)) : bool * Z :=
  let look (l : list (N * list Z)) (i : N) :=
      match find (fun p => N.eqb (fst p) i) l with Some p => snd p | None => [] end in
  (recon_ok (Zp q) (rows_of M labels) d S (look lam), recon_value (Zp q) S (look lam) (look shares)).
