(* Router.v — executable model of pkg/network/router.go (property C11).

   The router is a transition system whose ATOMIC STEPS ARE THE LOCK-PROTECTED
   REGIONS of router.go (plus the channel operations on the per-receive notify
   channel, which are atomic in Go's memory model):

     Deposit from cid p   routerCore.deposit, called by the single reader goroutine
                          (readLoop) after the quorum filter
     BadMessage from      readLoop: bytes that do not decode as a routerMessage
     ReaderError          readLoop: Delivery.Receive returned an error
     RecvEnter cid froms  receiveFrom: first locked region (fatal check, reader start,
                          boxFor, concurrent-receiver check, notify := make(chan, K))
     RecvCheck cid        receiveFrom: the locked scan at the top of the for loop
                          (poison > complete set > latched failure > cancellation > park)
     WakeToken cid        the select takes a token from notify
     WakeAlt cid          the select leaves through ctx.Done() or c.failed
     Cancel cid           the caller cancels the context of the pending receive
     Shutdown             Router.Close (routerCore.shutdown)
     RecvExit cid         the deferred clean-up of receiveFrom

   Constants and the correlation-ID concatenations (buffer bound, separator,
   channel capacity, Namespaced/SendTo/ReceiveFrom prefixing) come from
   gen/RouterConsts.v, regenerated from router.go on every run.

   Mailboxes are association lists keyed by the FULL correlation id (bytes of the
   string); payloads are association lists keyed by sender id.  No proofs here. *)
From Coq Require Import List NArith ZArith Bool.
Import ListNotations.
Require Import V.base.Bytes V.gen.RouterConsts.

(* ---- association lists ------------------------------------------------------ *)

Fixpoint beqb (a b : bytes) : bool :=
  match a, b with
  | [], [] => true
  | x :: a', y :: b' => N.eqb x y && beqb a' b'
  | _, _ => false
  end.

Section Assoc.
  Context {K V : Type} (eqb : K -> K -> bool).

  Fixpoint alookup (k : K) (l : list (K * V)) : option V :=
    match l with
    | [] => None
    | (k', v) :: r => if eqb k k' then Some v else alookup k r
    end.

  (* replace in place, append when absent *)
  Fixpoint aset (k : K) (v : V) (l : list (K * V)) : list (K * V) :=
    match l with
    | [] => [(k, v)]
    | (k', v') :: r => if eqb k k' then (k, v) :: r else (k', v') :: aset k v r
    end.

  Fixpoint adel (k : K) (l : list (K * V)) : list (K * V) :=
    match l with
    | [] => []
    | (k', v') :: r => if eqb k k' then adel k r else (k', v') :: adel k r
    end.
End Assoc.

Definition mem (x : N) (l : list N) : bool := existsb (N.eqb x) l.

(* set semantics of hashset.NewComparable(froms...): duplicates collapse *)
Fixpoint dedup (l : list N) : list N :=
  match l with
  | [] => []
  | x :: r => if mem x r then dedup r else x :: dedup r
  end.

(* ---- state ---------------------------------------------------------------------- *)

Definition cid := bytes.

Inductive phase := Checking | Parked | Finished.

(* the receiver attached to a mailbox: its expected senders, the tokens in its notify
   channel, whether its context is cancelled, and where its goroutine is *)
Record waiter := mkWaiter {
  w_froms : list N;
  w_tokens : N;
  w_cancel : bool;
  w_phase : phase }.

Record mailbox := mkBox {
  mb_payloads : list (N * bytes);
  mb_poison : option N;            (* the sender tagged in the ErrDuplicateMessage *)
  mb_waiter : option waiter }.     (* box.notify != nil *)

Inductive fatal_kind := FClosed | FBufferFull | FReader.
Inductive reader_state := RNotStarted | RRunning | RStopped.

Record state := mkState {
  boxes : list (cid * mailbox);
  buffered : Z;
  fatal : option fatal_kind;
  reader : reader_state;
  quorum : list N }.

Definition init (q : list N) : state :=
  {| boxes := []; buffered := 0%Z; fatal := None; reader := RNotStarted; quorum := q |}.

Definition empty_box : mailbox := {| mb_payloads := []; mb_poison := None; mb_waiter := None |}.

(* c.boxes[cid], before boxFor's insertion *)
Definition find_box (s : state) (c : cid) : option mailbox := alookup beqb c (boxes s).
(* boxFor: the existing box or a fresh empty one (the caller writes it back) *)
Definition box_for (s : state) (c : cid) : mailbox :=
  match find_box s c with Some b => b | None => empty_box end.
Definition set_box (s : state) (c : cid) (b : mailbox) : state :=
  {| boxes := aset beqb c b (boxes s); buffered := buffered s; fatal := fatal s;
     reader := reader s; quorum := quorum s |}.
Definition del_box (s : state) (c : cid) : state :=
  {| boxes := adel beqb c (boxes s); buffered := buffered s; fatal := fatal s;
     reader := reader s; quorum := quorum s |}.
Definition set_buffered (s : state) (z : Z) : state :=
  {| boxes := boxes s; buffered := z; fatal := fatal s; reader := reader s; quorum := quorum s |}.
(* failLocked: the first failure is latched *)
Definition fail_locked (s : state) (k : fatal_kind) : state :=
  {| boxes := boxes s; buffered := buffered s;
     fatal := match fatal s with Some k0 => Some k0 | None => Some k end;
     reader := reader s; quorum := quorum s |}.
Definition set_reader (s : state) (r : reader_state) : state :=
  {| boxes := boxes s; buffered := buffered s; fatal := fatal s; reader := r; quorum := quorum s |}.

(* mailbox.signal: non-blocking send on the notify channel of capacity K.
   K >= 1: a token is added unless the channel is full.  K = 0 (unbuffered): the send
   succeeds only if the receiver is blocked in its select right now. *)
Definition signal_waiter (w : waiter) : waiter :=
  if (w_tokens w <? notifyCapacity)%N then
    {| w_froms := w_froms w; w_tokens := (w_tokens w + 1)%N; w_cancel := w_cancel w; w_phase := w_phase w |}
  else if (notifyCapacity =? 0)%N then
    match w_phase w with
    | Parked => {| w_froms := w_froms w; w_tokens := w_tokens w; w_cancel := w_cancel w; w_phase := Checking |}
    | _ => w
    end
  else w.

Definition signal (b : mailbox) : mailbox :=
  {| mb_payloads := mb_payloads b; mb_poison := mb_poison b;
     mb_waiter := option_map signal_waiter (mb_waiter b) |}.

Definition set_waiter (b : mailbox) (w : option waiter) : mailbox :=
  {| mb_payloads := mb_payloads b; mb_poison := mb_poison b; mb_waiter := w |}.
Definition set_phase (w : waiter) (p : phase) : waiter :=
  {| w_froms := w_froms w; w_tokens := w_tokens w; w_cancel := w_cancel w; w_phase := p |}.

(* ---- events and outputs ------------------------------------------------------------ *)

Inductive event :=
| Deposit (from : N) (c : cid) (p : bytes)
| BadMessage (from : N)
| ReaderError
| RecvEnter (c : cid) (froms : list N)
| RecvCheck (c : cid)
| WakeToken (c : cid)
| WakeAlt (c : cid)
| Cancel (c : cid)
| Shutdown
| RecvExit (c : cid).

Inductive dep_out := DNoReader | DDropped | DAbsorbed | DPoisoned | DOverflow | DStored | DUndecodable.
Inductive rerr := EFatal (k : fatal_kind) | EConcurrent | EConflict (s : N) | ECancelled.
Inductive output :=
| ODep (d : dep_out)
| OEntered
| ORecvOk (res : list (N * bytes))
| ORecvErr (e : rerr)
| OParked
| OWoken
| ONone
| ODisabled.

(* ---- the steps ---------------------------------------------------------------------- *)

(* routerCore.deposit (with readLoop's quorum filter in front) *)
Definition deposit (s : state) (from : N) (c : cid) (p : bytes) : state * output :=
  match reader s with
  | RRunning =>
    if negb (mem from (quorum s)) then (s, ODep DDropped)
    else
      let box := box_for s c in
      match alookup N.eqb from (mb_payloads box) with
      | Some existing =>
        if beqb existing p then (s, ODep DAbsorbed)
        else
          let box' := signal {| mb_payloads := mb_payloads box; mb_poison := Some from; mb_waiter := mb_waiter box |} in
          (set_box s c box', ODep DPoisoned)
      | None =>
        if buffer_full (buffered s) then
          (set_reader (fail_locked (set_box s c box) FBufferFull) RStopped, ODep DOverflow)
        else
          let box' := signal {| mb_payloads := aset N.eqb from p (mb_payloads box);
                                mb_poison := mb_poison box; mb_waiter := mb_waiter box |} in
          (set_buffered (set_box s c box') (buffered s + 1)%Z, ODep DStored)
      end
  | _ => (s, ODep DNoReader)
  end.

Definition bad_message (s : state) (from : N) : state * output :=
  match reader s with
  | RRunning =>
    if negb (mem from (quorum s)) then (s, ODep DDropped)
    else (set_reader (fail_locked s FReader) RStopped, ODep DUndecodable)
  | _ => (s, ODep DNoReader)
  end.

Definition reader_error (s : state) : state * output :=
  match reader s with
  | RRunning => (set_reader (fail_locked s FReader) RStopped, ONone)
  | _ => (s, ODisabled)
  end.

Definition recv_enter (s : state) (c : cid) (froms : list N) : state * output :=
  match fatal s with
  | Some k => (s, ORecvErr (EFatal k))
  | None =>
    let s1 := match reader s with RNotStarted => set_reader s RRunning | _ => s end in
    let box := box_for s1 c in
    match mb_waiter box with
    | Some _ => (set_box s1 c box, ORecvErr EConcurrent)
    | None =>
      let w := {| w_froms := dedup froms; w_tokens := 0%N; w_cancel := false; w_phase := Checking |} in
      (set_box s1 c (set_waiter box (Some w)), OEntered)
    end
  end.

(* the payloads of all expected senders, or None if one is missing *)
Fixpoint collect (froms : list N) (pl : list (N * bytes)) : option (list (N * bytes)) :=
  match froms with
  | [] => Some []
  | f :: r =>
    match alookup N.eqb f pl with
    | None => None
    | Some p => match collect r pl with None => None | Some res => Some ((f, p) :: res) end
    end
  end.

Fixpoint remove_all (froms : list N) (pl : list (N * bytes)) : list (N * bytes) :=
  match froms with
  | [] => pl
  | f :: r => remove_all r (adel N.eqb f pl)
  end.

Definition recv_check (s : state) (c : cid) : state * output :=
  match find_box s c with
  | None => (s, ODisabled)
  | Some box =>
    match mb_waiter box with
    | None => (s, ODisabled)
    | Some w =>
      match w_phase w with
      | Checking =>
        let fin := set_phase w Finished in
        match mb_poison box with
        | Some g => (set_box s c (set_waiter box (Some fin)), ORecvErr (EConflict g))
        | None =>
          match collect (w_froms w) (mb_payloads box) with
          | Some res =>
            let box' := {| mb_payloads := remove_all (w_froms w) (mb_payloads box);
                           mb_poison := mb_poison box; mb_waiter := Some fin |} in
            (set_buffered (set_box s c box') (buffered s - Z.of_nat (length (w_froms w)))%Z, ORecvOk res)
          | None =>
            match fatal s with
            | Some k => (set_box s c (set_waiter box (Some fin)), ORecvErr (EFatal k))
            | None =>
              if w_cancel w then (set_box s c (set_waiter box (Some fin)), ORecvErr ECancelled)
              else (set_box s c (set_waiter box (Some (set_phase w Parked))), OParked)
            end
          end
        end
      | _ => (s, ODisabled)
      end
    end
  end.

Definition wake_token (s : state) (c : cid) : state * output :=
  match find_box s c with
  | None => (s, ODisabled)
  | Some box =>
    match mb_waiter box with
    | None => (s, ODisabled)
    | Some w =>
      match w_phase w with
      | Parked =>
        if (0 <? w_tokens w)%N then
          (set_box s c (set_waiter box (Some {| w_froms := w_froms w; w_tokens := (w_tokens w - 1)%N;
                                                w_cancel := w_cancel w; w_phase := Checking |})), OWoken)
        else (s, ODisabled)
      | _ => (s, ODisabled)
      end
    end
  end.

Definition is_some {A} (o : option A) : bool := match o with Some _ => true | None => false end.

Definition wake_alt (s : state) (c : cid) : state * output :=
  match find_box s c with
  | None => (s, ODisabled)
  | Some box =>
    match mb_waiter box with
    | None => (s, ODisabled)
    | Some w =>
      match w_phase w with
      | Parked =>
        if w_cancel w || is_some (fatal s) then
          (set_box s c (set_waiter box (Some (set_phase w Checking))), OWoken)
        else (s, ODisabled)
      | _ => (s, ODisabled)
      end
    end
  end.

Definition cancel (s : state) (c : cid) : state * output :=
  match find_box s c with
  | None => (s, ODisabled)
  | Some box =>
    match mb_waiter box with
    | None => (s, ODisabled)
    | Some w =>
      (set_box s c (set_waiter box (Some {| w_froms := w_froms w; w_tokens := w_tokens w;
                                            w_cancel := true; w_phase := w_phase w |})), ONone)
    end
  end.

Definition recv_exit (s : state) (c : cid) : state * output :=
  match find_box s c with
  | None => (s, ODisabled)
  | Some box =>
    match mb_waiter box with
    | None => (s, ODisabled)
    | Some w =>
      match w_phase w with
      | Finished =>
        match mb_payloads box, mb_poison box with
        | [], None => (del_box s c, ONone)
        | _, _ => (set_box s c (set_waiter box None), ONone)
        end
      | _ => (s, ODisabled)
      end
    end
  end.

Definition step (s : state) (e : event) : state * output :=
  match e with
  | Deposit from c p => deposit s from c p
  | BadMessage from => bad_message s from
  | ReaderError => reader_error s
  | RecvEnter c froms => recv_enter s c froms
  | RecvCheck c => recv_check s c
  | WakeToken c => wake_token s c
  | WakeAlt c => wake_alt s c
  | Cancel c => cancel s c
  | Shutdown => (fail_locked s FClosed, ONone)
  | RecvExit c => recv_exit s c
  end.

Fixpoint run (s : state) (evs : list event) : state * list output :=
  match evs with
  | [] => (s, [])
  | e :: r =>
    let '(s1, o) := step s e in
    let '(s2, os) := run s1 r in
    (s2, o :: os)
  end.

(* ---- namespaces ---------------------------------------------------------------------- *)

(* the prefix of rt.Namespaced(n1).Namespaced(n2)... *)
Definition ns_prefix (nss : list bytes) : bytes := fold_left ns_extend nss root_prefix.
(* full correlation id used by ReceiveFrom / put on the wire by SendTo of such a view *)
Definition recv_full (nss : list bytes) (c : bytes) : cid := recv_cid (ns_prefix nss) c.
Definition send_full (nss : list bytes) (c : bytes) : cid := send_cid (ns_prefix nss) c.
