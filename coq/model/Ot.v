(* Ot.v — executable model of the oblivious transfers of pkg/ot (property C09).

   * SoftSpoken/KOS-style OT extension as coded in
     pkg/ot/extension/softspoken/rounds.go: bit vectors are [list bool], the kappa
     rows of PRG output are inputs (t0, t1; the sender holds t^Delta), the receiver
     sends u_i = t0_i xor t1_i xor x', the sender computes q_i = t^Delta_i xor Delta_i.u_i,
     both transpose and hash the columns (hash = free injective term [Hash]).
   * the consistency check (computeResponse / verifyChallenge) over an abstract
     commutative ring of characteristic 2 given as a record of operations, and
   * an executable carry-less model of pkg/base/binaryfields/bf128 (shift-and-xor
     product, reduction by X^128 + X^7 + X^2 + X + 1 limb by limb as coded).
   * the DH-style key derivations of the two base OTs (vsot, ecbbot) in the
     exponent (group = Z_q, hash-to-curve = arbitrary function, hashes = terms).
   No proofs here. *)
From Coq Require Import List Bool NArith Arith.
Import ListNotations.
Require Import V.base.Bytes V.base.Fld.

(* ---------------------------------------------------------------- bit vectors *)

Definition bits := list bool.

Fixpoint xorv (a b : bits) : bits :=
  match a, b with
  | x :: a', y :: b' => xorb x y :: xorv a' b'
  | _, _ => []
  end.

Definition scalev (c : bool) (v : bits) : bits := map (andb c) v.
Definition bit (v : bits) (j : nat) : bool := nth j v false.

(* ot.PackedBits.Repeat: every bit repeated L times, in place *)
Fixpoint repeat_bits (L : nat) (x : bits) : bits :=
  match x with
  | [] => []
  | b :: r => repeat b L ++ repeat_bits L r
  end.

(* step 1.1/1.2: x' = Repeat(x, L) || sigma random bits *)
Definition x_prime (L : nat) (x sigma_bits : bits) : bits := repeat_bits L x ++ sigma_bits.

(* ---------------------------------------------------------------- extension *)

(* step 1.4: u_i = t0_i xor t1_i xor x' *)
Fixpoint recv_u (t0 t1 : list bits) (x' : bits) : list bits :=
  match t0, t1 with
  | a :: t0', b :: t1' => xorv (xorv a b) x' :: recv_u t0' t1' x'
  | _, _ => []
  end.

(* what the base OTs give the sender: the row selected by its choice bit Delta_i *)
Fixpoint t_delta (Delta : bits) (t0 t1 : list bits) : list bits :=
  match Delta, t0, t1 with
  | d :: D', a :: t0', b :: t1' => (if d then b else a) :: t_delta D' t0' t1'
  | _, _, _ => []
  end.

(* step 2.2: q_i = tb_i, overwritten by u_i xor tb_i when Delta_i = 1 (ConstantTimeCopy) *)
Fixpoint send_q (Delta : bits) (tb u : list bits) : list bits :=
  match Delta, tb, u with
  | d :: D', t :: tb', ui :: u' => (if d then xorv ui t else t) :: send_q D' tb' u'
  | _, _, _ => []
  end.

(* ot.TransposePackedBits: out[j][i] = in[i][j] *)
Definition column (m : list bits) (j : nat) : bits := map (fun r => bit r j) m.
Fixpoint transpose (ncols : nat) (m : list bits) : list bits :=
  match ncols with
  | O => []
  | S n => map (fun r => hd false r) m :: transpose n (map (@tl bool) m)
  end.

(* the output hash: H(sid, j, l, column) as a free term *)
Inductive digest := Hash (j l : nat) (col : bits).

Definition digest_eqb (a b : digest) : bool :=
  match a, b with
  | Hash j l c, Hash j' l' c' =>
      Nat.eqb j j' && Nat.eqb l l' && Nat.eqb (length c) (length c') && forallb (fun p => Bool.eqb (fst p) (snd p)) (combine c c')
  end.

(* step 1.7/1.9: receiver output message (j, l) = H(j, l, tj[j*L + l]) *)
Definition recv_out (L xi ncols : nat) (t0 : list bits) : list (list digest) :=
  let tj := transpose ncols t0 in
  map (fun j => map (fun l => Hash j l (nth (j * L + l) tj [])) (seq 0 L)) (seq 0 xi).

(* step 2.5/2.6: sender output (j, l) = (H(j,l,q^j), H(j,l,q^j xor Delta)) *)
Definition send_out (L xi ncols : nat) (Delta : bits) (q : list bits) : list (list (digest * digest)) :=
  let qj := transpose ncols q in
  map (fun j => map (fun l =>
         let c := nth (j * L + l) qj [] in
         (Hash j l c, Hash j l (xorv c Delta))) (seq 0 L)) (seq 0 xi).

(* ---------------------------------------------------------------- consistency check *)

Record c2ops (R : Type) := mk_c2ops {
  r0 : R; r1 : R;
  radd : R -> R -> R; rmul : R -> R -> R;
  reqb : R -> R -> bool
}.
Arguments r0 {R} _. Arguments r1 {R} _. Arguments radd {R} _. Arguments rmul {R} _. Arguments reqb {R} _.

(* commutative ring of characteristic 2 *)
Record c2laws {R} (K : c2ops R) : Prop := mk_c2laws {
  c2_add_comm : forall x y, radd K x y = radd K y x;
  c2_add_assoc : forall x y z, radd K x (radd K y z) = radd K (radd K x y) z;
  c2_add_0_l : forall x, radd K (r0 K) x = x;
  c2_add_self : forall x, radd K x x = r0 K;
  c2_mul_comm : forall x y, rmul K x y = rmul K y x;
  c2_mul_assoc : forall x y z, rmul K x (rmul K y z) = rmul K (rmul K x y) z;
  c2_mul_1_l : forall x, rmul K (r1 K) x = x;
  c2_distr_r : forall x y z, rmul K (radd K x y) z = radd K (rmul K x z) (rmul K y z);
  c2_eqb : forall x y, reqb K x y = true <-> x = y
}.

Section Check.
  Context {R : Type} (K : c2ops R).
  Variable emb : bits -> R.        (* bf128.FromBytes of a sigma-bit block *)
  Variable sigma : nat.            (* block size in bits (Sigma = 128) *)

  Definition block (v : bits) (k : nat) : bits := firstn sigma (skipn (k * sigma) v).

  (* x <- x + block_k * chi_k for k = 0 .. m-1 (the loops of computeResponse/verifyChallenge) *)
  Fixpoint acc_resp (chi : list R) (v : bits) (k : nat) (acc : R) : R :=
    match chi with
    | [] => acc
    | c :: chi' => acc_resp chi' v (S k) (radd K acc (rmul K (emb (block v k)) c))
    end.

  (* v_m + sum_{k<m} chi_k . v_k *)
  Definition response (chi : list R) (v : bits) : R :=
    acc_resp chi v 0 (emb (block v (length chi))).

  (* computeResponse: (x-dot, t-dot_i) *)
  Definition compute_response (chi : list R) (x' : bits) (t0 : list bits) : R * list R :=
    (response chi x', map (response chi) t0).

  (* verifyChallenge, given q-dot_i: q-dot_i == Select(Delta_i, T_i, T_i + X) for all i *)
  Fixpoint verify_dots (qdots : list R) (X : R) (T : list R) (Delta : bits) : bool :=
    match qdots, T, Delta with
    | [], [], [] => true
    | qd :: qdots', t :: T', d :: D' =>
        reqb K (if d then radd K t X else t) qd && verify_dots qdots' X T' D'
    | _, _, _ => false
    end.

  Definition verify (chi : list R) (resp : R * list R) (Delta : bits) (q : list bits) : bool :=
    verify_dots (map (response chi) q) (fst resp) (snd resp) Delta.
End Check.

(* replace element i of a list *)
Fixpoint upd {A} (l : list A) (i : nat) (y : A) : list A :=
  match l, i with
  | [], _ => []
  | _ :: r, O => y :: r
  | x :: r, S i' => x :: upd r i' y
  end.

(* ---------------------------------------------------------------- bf128 *)

(* A field element is its coefficient vector, bit i = coefficient of X^i (the two uint64
   limbs el[0], el[1] of the code, low bits first).  Vectors are zero-extended on demand. *)

Fixpoint xorp (a b : bits) : bits :=            (* xor with zero extension *)
  match a, b with
  | [], _ => b
  | _, [] => a
  | x :: a', y :: b' => xorb x y :: xorp a' b'
  end.

Fixpoint fit (n : nat) (v : bits) : bits :=      (* exactly n bits: truncate or zero-extend *)
  match n with
  | O => []
  | S n' => match v with [] => false :: fit n' [] | x :: v' => x :: fit n' v' end
  end.

(* shift-and-xor product (FieldElement.Mul, first loop): for each bit of a, low to high,
   conditionally add b, then shift b left by one *)
Fixpoint clmul (a b : bits) : bits :=
  match a with
  | [] => []
  | x :: a' => xorp (if x then b else []) (false :: clmul a' b)
  end.

(* 64-bit limb operations: x << k and x >> k on uint64 *)
Definition shl64 (x : bits) (k : nat) : bits := fit 64 (repeat false k ++ x).
Definition shr64 (x : bits) (k : nat) : bits := fit 64 (skipn k x).
Definition xor64 (x y : bits) : bits := fit 64 (xorp x y).

(* one iteration of the reduction loop: fold limb hi = z[i] into (z[i-2], z[i-1]) *)
Definition reduce_limb (hi zlo zmid : bits) : bits * bits :=
  let zlo := xor64 zlo (shl64 hi 7) in
  let zmid := xor64 zmid (shr64 hi 57) in
  let zlo := xor64 zlo (shl64 hi 2) in
  let zmid := xor64 zmid (shr64 hi 62) in
  let zlo := xor64 zlo (shl64 hi 1) in
  let zmid := xor64 zmid (shr64 hi 63) in
  let zlo := xor64 zlo hi in
  (zlo, zmid).

Definition bf_mul (a b : bits) : bits :=
  let z := fit 256 (clmul (fit 128 a) (fit 128 b)) in
  let z0 := firstn 64 z in
  let z1 := firstn 64 (skipn 64 z) in
  let z2 := firstn 64 (skipn 128 z) in
  let z3 := firstn 64 (skipn 192 z) in
  let '(z1, z2) := reduce_limb z3 z1 z2 in
  let '(z0, z1) := reduce_limb z2 z0 z1 in
  z0 ++ z1.

Fixpoint bits_eqb (a b : bits) : bool :=
  match a, b with
  | [], [] => true
  | x :: a', y :: b' => Bool.eqb x y && bits_eqb a' b'
  | _, _ => false
  end.

Definition bf_add (a b : bits) : bits := fit 128 (xorp a b).

Definition bf128 : c2ops bits := {|
  r0 := repeat false 128; r1 := true :: repeat false 127;
  radd := bf_add; rmul := bf_mul; reqb := bits_eqb
|}.

Local Open Scope N_scope.

(* packed bits (little-endian within a byte) <-> bytes *)
Fixpoint byte_of_bits (k : nat) (v : bits) : N :=
  match k, v with
  | S k', b :: v' => (if b then 1 else 0) + 2 * byte_of_bits k' v'
  | _, _ => 0
  end.

Fixpoint bytes_of_bits_fuel (n : nat) (v : bits) : bytes :=
  match n with
  | O => []
  | S n' => match v with
            | [] => []
            | _ => byte_of_bits 8 v :: bytes_of_bits_fuel n' (skipn 8 v)
            end
  end.
Definition bytes_of_bits (v : bits) : bytes := bytes_of_bits_fuel (length v) v.

Fixpoint bits_of_N (k : nat) (n : N) : bits :=
  match k with
  | O => []
  | S k' => N.odd n :: bits_of_N k' (N.div2 n)
  end.
Definition bits_of_byte (b : N) : bits := bits_of_N 8 b.
Definition bits_of_bytes (l : bytes) : bits := flat_map bits_of_byte l.

Local Close Scope N_scope.

(* groups of 8 bits, in reverse group order *)
Fixpoint rev_bytes_fuel (n : nat) (v acc : bits) : bits :=
  match n with
  | O => acc
  | S n' => match v with
            | [] => acc
            | _ => rev_bytes_fuel n' (skipn 8 v) (firstn 8 v ++ acc)
            end
  end.

(* bf128.FromBytes of a packed 128-bit block: the 16 bytes are big-endian, i.e. byte 15 holds
   coefficients 0..7; FieldElement.Bytes is the same permutation *)
Definition emb128 (v : bits) : bits := rev_bytes_fuel 16 (fit 128 v) [].

(* the whole exchange on given PRG rows; returns what the harness can observe *)
Record ext_run := mk_ext_run {
  er_u : list bits;
  er_x : bits; er_t : list bits;
  er_q : list bits;
  er_qdots : list bits;
  er_ok : bool;
  er_recv : list (list digest);
  er_send : list (list (digest * digest))
}.

Definition run_extension (L xi : nat) (Delta x sigma_bits : bits) (chi : list bits) (t0 t1 : list bits) : ext_run :=
  let x' := x_prime L x sigma_bits in
  let u := recv_u t0 t1 x' in
  let resp := compute_response bf128 emb128 128 chi x' t0 in
  let q := send_q Delta (t_delta Delta t0 t1) u in
  let qd := map (response bf128 emb128 128 chi) q in
  let eta := (L * xi)%nat in
  mk_ext_run u (fst resp) (snd resp) q qd
    (verify_dots bf128 qd (fst resp) (snd resp) Delta)
    (recv_out L xi eta t0) (send_out L xi eta Delta q).

(* selection pattern of one instance: 0/1 = which sender message equals the receiver's,
   2 = both (messages equal), 3 = none *)
Definition sel_code (r : digest) (s : digest * digest) : nat :=
  match digest_eqb r (fst s), digest_eqb r (snd s) with
  | true, false => 0 | false, true => 1 | true, true => 2 | false, false => 3
  end.

Definition sel_pattern (rs : list (list digest)) (ss : list (list (digest * digest))) : list nat :=
  flat_map (fun p => map (fun q => sel_code (fst q) (snd q)) (combine (fst p) (snd p))) (combine rs ss).

(* ---------------------------------------------------------------- base OTs in the exponent *)

Section BaseOT.
  Context {F : Type} (K : fops F).
  Local Notation "x + y" := (fadd K x y).
  Local Notation "x - y" := (fsub K x y).
  Local Notation "x * y" := (fmul K x y).

  (* vsot: H(idx, B, A, point) as a term over exponents *)
  Inductive vsot_key := VKey (idx : nat) (B A P : F).

  Definition vsot_bigB (b : F) : F := b.                                   (* B = b.G *)
  Definition vsot_bigA (a b : F) (w : bool) : F :=                          (* A = a.G + w.B *)
    a + (if w then f1 K else f0 K) * vsot_bigB b.
  Definition vsot_recv_key (idx : nat) (a : F) (w : bool) (B : F) : vsot_key :=
    VKey idx B (a + (if w then f1 K else f0 K) * B) (a * B).                (* H(.., a.B) *)
  Definition vsot_send_keys (idx : nat) (b : F) (A : F) : vsot_key * vsot_key :=
    let B := vsot_bigB b in
    (VKey idx B A (b * A), VKey idx B A (b * (A - B))).                     (* H(.., b.A), H(.., b.(A-B)) *)

  (* ecbbot: tagged key agreement + programmable-once public function *)
  Variables h0 h1 : F -> F.          (* hash to curve with tag0 / tag1, in the exponent *)
  Inductive ec_key := EKey (idx : nat) (j : bool) (P : F).    (* Hash(tag(idx, j) || point) *)

  Definition popf_program (x : bool) (y s : F) : F * F :=
    if x then (s, y - h1 s) else (y - h0 s, s).
  Definition popf_eval (phi : F * F) (x : bool) : F :=
    if x then snd phi + h1 (fst phi) else fst phi + h0 (snd phi).

  Definition ec_ms (a : F) : F := a.                                       (* Ms = a.G *)
  Definition ec_recv (idx : nat) (c : bool) (bi s Ms : F) : (F * F) * ec_key :=
    (popf_program c bi s, EKey idx c (bi * Ms)).                            (* phi, Key2(bi, Ms, tag) *)
  Definition ec_send (idx : nat) (a : F) (phi : F * F) : ec_key * ec_key :=
    (EKey idx false (a * popf_eval phi false), EKey idx true (a * popf_eval phi true)).
End BaseOT.
