(* H2c.v — RFC 9380 message expanders (pkg/base/curves/impl/rfc9380/expanders)
   and hash_to_field reduction, with the hash function a section variable.
   Executable; no proofs. *)
From Coq Require Import List NArith Bool.
Import ListNotations.
Require Import V.base.Bytes.
Local Open Scope N_scope.

Definition i2osp (n : N) (k : nat) : bytes := be_bytes k n.

Definition oversize_prefix : bytes :=   (* "H2C-OVERSIZE-DST-" *)
  [72;50;67;45;79;86;69;82;83;73;90;69;45;68;83;84;45].

Fixpoint xor_bytes (a b : bytes) : bytes :=
  match a, b with
  | x :: a', y :: b' => N.lxor x y :: xor_bytes a' b'
  | _, _ => []
  end.

Fixpoint repeat_zero (k : nat) : bytes :=
  match k with O => [] | S k' => 0 :: repeat_zero k' end.

Section XMD.
  Variable H : bytes -> bytes.       (* fixed-output hash *)
  Variable b_in_bytes : N.           (* output size of H *)
  Variable s_in_bytes : N.           (* block size of H *)

  Definition xmd_dst (dst : bytes) : bytes :=
    if 255 <? len dst then H (oversize_prefix ++ dst) else dst.

  Definition dst_prime_of (d : bytes) : bytes := d ++ i2osp (len d) 1.

  Definition xmd_msg_prime (d msg : bytes) (len_in_bytes : N) : bytes :=
    repeat_zero (N.to_nat s_in_bytes) ++ msg ++ i2osp len_in_bytes 2 ++ i2osp 0 1 ++ dst_prime_of d.

  Definition xmd_b1_input (b0 d : bytes) : bytes := b0 ++ i2osp 1 1 ++ dst_prime_of d.
  Definition xmd_bi_input (b0 bprev : bytes) (i : N) (d : bytes) : bytes :=
    xor_bytes b0 bprev ++ i2osp i 1 ++ dst_prime_of d.

  (* blocks b_2 .. b_ell given b_0 and the previous block; [k] more to produce, next index [i] *)
  Fixpoint xmd_blocks (k : nat) (i : N) (b0 bprev d : bytes) : bytes :=
    match k with
    | O => []
    | S k' => let bi := H (xmd_bi_input b0 bprev i d) in bi ++ xmd_blocks k' (i + 1) b0 bi d
    end.

  Definition xmd_ell (len_in_bytes : N) : N := (len_in_bytes + b_in_bytes - 1) / b_in_bytes.

  (* None = the code panics ("invalid length") *)
  Definition expand_message_xmd (dst msg : bytes) (len_in_bytes : N) : option bytes :=
    let d := xmd_dst dst in
    let ell := xmd_ell len_in_bytes in
    if (255 <? ell) || (65535 <? len_in_bytes) then None
    else if ell =? 0 then None   (* the code indexes b[1] of a 1-element slice: panic *)
    else
      let b0 := H (xmd_msg_prime d msg len_in_bytes) in
      let b1 := H (xmd_b1_input b0 d) in
      let rest := xmd_blocks (N.to_nat ell - 1) 2 b0 b1 d in
      Some (firstn (N.to_nat len_in_bytes) (b1 ++ rest)).
End XMD.

Section XOF.
  Variable X : bytes -> N -> bytes.  (* extendable-output function: input, length *)
  Variable k_sec : N.

  Definition xof_dst (dst : bytes) : bytes :=
    if 255 <? len dst then X (oversize_prefix ++ dst) ((2 * k_sec + 7) / 8) else dst.

  Definition xof_msg_prime (d msg : bytes) (len_in_bytes : N) : bytes :=
    msg ++ i2osp len_in_bytes 2 ++ dst_prime_of d.

  Definition expand_message_xof (dst msg : bytes) (len_in_bytes : N) : option bytes :=
    let d := xof_dst dst in
    if 65535 <? len_in_bytes then None
    else Some (X (xof_msg_prime d msg len_in_bytes) len_in_bytes).
End XOF.

(* hash_to_field, step 3–8: chunks of L bytes read big-endian and reduced mod p.
   (The code reverses each chunk and calls SetUniformBytes, which reads little-
   endian and reduces.)  Result: count elements of m coordinates each. *)
Fixpoint chunks (k : nat) (L : nat) (u : bytes) : list bytes :=
  match k with
  | O => []
  | S k' => firstn L u :: chunks k' L (skipn L u)
  end.

Fixpoint group (count m : nat) (l : list N) : list (list N) :=
  match count with
  | O => []
  | S c => firstn m l :: group c m (skipn m l)
  end.

Definition hash_to_field_from_uniform (p : N) (count m L : nat) (u : bytes) : list (list N) :=
  group count m (map (fun tv => be_value tv mod p) (chunks (count * m) L u)).
