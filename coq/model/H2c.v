(* H2c.v — RFC 9380 message expanders (pkg/base/curves/impl/rfc9380/expanders) and
   hash_to_field (pkg/base/curves/impl/rfc9380/h2f.go), with the hash function a section
   variable.  Executable; no proofs.

   The byte strings that are hashed, the oversize-DST rule, the abort guards, the loop
   bounds and the output truncation are NOT written here: they are the definitions of
   gen/Expanders.v, regenerated from xmd.go / xof.go on every run.  What is hand-written
   is (a) the chaining skeleton (which digest feeds which input) of [expand_message_xmd/xof],
   tied by the C19 correspondence, and (b) the [rfc_*] definitions: RFC 9380 §5.3 transcribed
   from the RFC text, to which proofs/H2c_proofs.v proves the generated pieces equal. *)
From Coq Require Import List NArith Bool.
Import ListNotations.
Require Import V.base.Bytes V.gen.Expanders.
Local Open Scope N_scope.

Fixpoint repeat_zero (k : nat) : bytes :=
  match k with O => [] | S k' => 0 :: repeat_zero k' end.

(* ---- RFC 9380 §5.3.1 / §5.3.2 / §5.3.3 as written in the RFC (specification side) ---- *)
Definition rfc_oversize_prefix : bytes :=   (* "H2C-OVERSIZE-DST-" *)
  [72;50;67;45;79;86;69;82;83;73;90;69;45;68;83;84;45].
Definition rfc_oversize (dst : bytes) : bool := 255 <? len dst.                 (* len(DST) > 255 *)
Definition rfc_dst_prime (d : bytes) : bytes := d ++ be_bytes 1 (len d).        (* DST || I2OSP(len(DST),1) *)
Definition rfc_xmd_ell (len_in_bytes b_in_bytes : N) : N := (len_in_bytes + b_in_bytes - 1) / b_in_bytes.
Definition rfc_xmd_abort (len_in_bytes b_in_bytes : N) : bool :=
  (255 <? rfc_xmd_ell len_in_bytes b_in_bytes) || (65535 <? len_in_bytes).
Definition rfc_xmd_msg_prime (s_in_bytes : N) (d msg : bytes) (len_in_bytes : N) : bytes :=
  repeat_zero (N.to_nat s_in_bytes) ++ msg ++ be_bytes 2 len_in_bytes ++ be_bytes 1 0 ++ rfc_dst_prime d.
Definition rfc_xmd_b1_input (b0 d : bytes) : bytes := b0 ++ be_bytes 1 1 ++ rfc_dst_prime d.
Definition rfc_xmd_bi_input (b0 bprev : bytes) (i : N) (d : bytes) : bytes :=
  xor_bytes b0 bprev ++ be_bytes 1 i ++ rfc_dst_prime d.
Definition rfc_xof_abort (len_in_bytes : N) : bool := 65535 <? len_in_bytes.
Definition rfc_xof_msg_prime (d msg : bytes) (len_in_bytes : N) : bytes :=
  msg ++ be_bytes 2 len_in_bytes ++ rfc_dst_prime d.
Definition rfc_xof_oversize_len (k : N) : N := (2 * k + 7) / 8.                 (* ceil(2k/8) *)

(* ---- expand_message_xmd: skeleton over the generated pieces ------------------------- *)
Section XMD.
  Variable H : bytes -> bytes.       (* fixed-output hash *)
  Variable b_in_bytes : N.           (* output size of H  (h.Size())      *)
  Variable s_in_bytes : N.           (* block size of H   (h.BlockSize()) *)

  (* step 0 of the code: the DST that is used from then on *)
  Definition xmd_dst (dst msg : bytes) (l : N) : bytes :=
    if Xmd_oversize s_in_bytes b_in_bytes dst msg l
    then H (Xmd_oversize_input s_in_bytes b_in_bytes dst msg l) else dst.

  (* the first hash input, as a function of the effective DST *)
  Definition xmd_msg_prime (d msg : bytes) (l : N) : bytes := Xmd_b0_input s_in_bytes b_in_bytes d msg l.

  (* the loop `for i := from; cond i; i++ { b[i] = H(bi_input) }`; fuel = size of the block table *)
  Fixpoint xmd_loop (fuel : nat) (i : N) (d msg : bytes) (l : N) (b0 bprev : bytes) : list bytes :=
    match fuel with
    | O => []
    | S k =>
        if Xmd_loop_cond s_in_bytes b_in_bytes d msg l i then
          let bi := H (Xmd_bi_input s_in_bytes b_in_bytes d msg l b0 bprev i) in
          bi :: xmd_loop k (i + 1) d msg l b0 bi
        else []
    end.

  (* None = the code panics ("invalid length", index out of range, slice bounds) *)
  Definition expand_message_xmd (dst msg : bytes) (l : N) : option bytes :=
    let d := xmd_dst dst msg l in
    if Xmd_abort s_in_bytes b_in_bytes d msg l then None
    else
      let nblocks := Xmd_blocks s_in_bytes b_in_bytes d msg l in     (* make([][]byte, ell+1) *)
      if nblocks <? 2 then None                                       (* b[1] out of range *)
      else
        let b0 := H (Xmd_b0_input s_in_bytes b_in_bytes d msg l) in
        let b1 := H (Xmd_b1_input s_in_bytes b_in_bytes d msg l b0) in
        let rest := xmd_loop (N.to_nat nblocks) (Xmd_loop_from s_in_bytes b_in_bytes d msg l) d msg l b0 b1 in
        let u := concat (skipn (N.to_nat (Xmd_out_from_block s_in_bytes b_in_bytes d msg l)) (b0 :: b1 :: rest)) in
        let n := Xmd_out_truncate s_in_bytes b_in_bytes d msg l in
        if len u <? n then None else Some (firstn (N.to_nat n) u).
End XMD.

(* ---- expand_message_xof ------------------------------------------------------------- *)
Section XOF.
  Variable X : bytes -> N -> bytes.  (* extendable-output function: input, length *)
  Variable k_sec : N.

  Definition xof_dst (dst msg : bytes) (l : N) : bytes :=
    if Xof_oversize k_sec dst msg l
    then X (Xof_oversize_input k_sec dst msg l) (Xof_oversize_len k_sec dst msg l) else dst.

  Definition xof_msg_prime (d msg : bytes) (l : N) : bytes := Xof_input k_sec d msg l.

  Definition expand_message_xof (dst msg : bytes) (l : N) : option bytes :=
    let d := xof_dst dst msg l in
    if Xof_abort k_sec d msg l then None
    else
      let u := X (Xof_input k_sec d msg l) (Xof_out_len k_sec d msg l) in
      Some (firstn (N.to_nat (Xof_out_truncate k_sec d msg l)) u).
End XOF.

(* ---- hash_to_field (h2f.go), loop for loop ------------------------------------------ *)
(* elm_offset = L * (j + i * m);  tv = uniform_bytes[elm_offset : elm_offset+L];
   slices.Reverse(tv);  SetUniformBytes(e_0..e_{m-1}): every component is SetBytesWide of its
   chunk = little-endian value reduced mod p. *)
Definition elm_offset (L m i j : N) : N := L * (j + i * m).
Definition substr (u : bytes) (off n : N) : bytes := firstn (N.to_nat n) (skipn (N.to_nat off) u).
Definition set_bytes_wide (p : N) (le : bytes) : N := le_value le mod p.

Fixpoint nseq (k : nat) (from : N) : list N :=
  match k with O => [] | S k' => from :: nseq k' (from + 1) end.

Definition h2f_coordinate (p L m : N) (u : bytes) (i j : N) : N :=
  set_bytes_wide p (rev (substr u (elm_offset L m i j) L)).

Definition h2f_element (p L m : N) (u : bytes) (i : N) : list N :=
  map (h2f_coordinate p L m u i) (nseq (N.to_nat m) 0).

Definition hash_to_field_from_uniform (p L m count : N) (u : bytes) : list (list N) :=
  map (h2f_element p L m u) (nseq (N.to_nat count) 0).

(* the whole function: len_in_bytes = count*m*L, expand, split.  None = expander panics. *)
Definition hash_to_field (expand : bytes -> bytes -> N -> option bytes)
    (p L m count : N) (dst msg : bytes) : option (list (list N)) :=
  match expand dst msg (count * m * L) with
  | None => None
  | Some u => Some (hash_to_field_from_uniform p L m count u)
  end.
