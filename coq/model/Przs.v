(* Przs.v — executable model of pkg/mpc/zero/przs/sampler.go (SampleZeroShare) over an
   abstract group given by its operations.  No proofs here.

   The code: value := identity; for id in ctx.OtherPartiesOrdered():
               v := g.Random(ctx.Seeds()[id]); if id < holder { v = v.OpInv() }; value = value.Op(v)
   Both ends of a pair read the same seed stream (keyed by (min,max), theorem
   pair_symmetry), so the sampled element is a function R of (min id, max id). *)
From Coq Require Import List NArith ZArith Bool.
Import ListNotations.
Require Import V.base.Bytes V.gen.SessionConsts V.model.Session.
Local Open Scope N_scope.

Section Przs.
  Variable G : Type.
  Variable zero : G.
  Variable add : G -> G -> G.
  Variable neg : G -> G.

  (* the signed contribution of peer j to the share of party i *)
  Definition signed (i j : N) (v : G) : G := if j <? i then neg v else v.

  Section Keyed.
    Variable R : N -> N -> G.      (* element sampled from the seed of the pair (min,max) *)

    Definition term (i j : N) : G := signed i j (R (N.min i j) (N.max i j)).

    Definition zero_share (ids : list N) (i : N) : G :=
      fold_left (fun acc j => add acc (term i j)) (filter (fun j => negb (j =? i)) ids) zero.

    Definition sum_shares (ids : list N) : G :=
      fold_left add (map (zero_share ids) ids) zero.
  End Keyed.

  (* SampleZeroShare on a session context: sample draws the group element from a seed reader *)
  Fixpoint ctx_share_loop (sample : seed -> G) (holder : N) (ids : list N) (seeds : amap seed) (acc : G)
    : option G :=
    match ids with
    | [] => Some acc
    | id :: r =>
        if id =? holder then ctx_share_loop sample holder r seeds acc
        else
          match get id seeds with
          | None => None                 (* nil reader: g.Random fails / panics *)
          | Some s => ctx_share_loop sample holder r seeds (add acc (signed holder id (sample s)))
          end
    end.

  Definition ctx_zero_share (sample : seed -> G) (c : context) : option G :=
    ctx_share_loop sample (cx_holder c) (cx_quorum c) (cx_seeds c) zero.
End Przs.

(* the instance used by the correspondence check: the additive group of Z_q *)
Definition zq_zero_share (q : Z) (R : N -> N -> Z) (ids : list N) (i : N) : Z :=
  zero_share Z 0%Z (fun a b => ((a + b) mod q)%Z) (fun a => ((- a) mod q)%Z) R ids i.

Definition zq_sum_shares (q : Z) (R : N -> N -> Z) (ids : list N) : Z :=
  sum_shares Z 0%Z (fun a b => ((a + b) mod q)%Z) (fun a => ((- a) mod q)%Z) R ids.
