(* Schemes.v — executable models of the dedicated sharing schemes:
     shamir   (scheme/shamir/{scheme,shamir,share}.go, interpolation/lagrange)
     additive (scheme/additive/additive.go)
     isn      (scheme/isn/{scheme,isn,share}.go)
     tassa    (scheme/tassa/scheme.go, interpolation/birkhoff)
   No proofs here.  Dealer randomness is an explicit argument (the coefficients / summands the
   dealer sampled), as revealed by the code's DealAndRevealDealerFunc. *)
From Coq Require Import List NArith ZArith Bool Arith.
Import ListNotations.
Require Import V.base.Fld V.model.LinAlg V.model.Poly V.model.Interp V.model.Access V.model.Msp.

Section Schemes.
Context {F : Type} (K : fops F) (fromN : N -> F).

Definition fsum (l : list F) : F := fold_left (fadd K) l (f0 K).

(* Polynomial.Eval: Horner from the leading coefficient — model/Poly.v (C20) *)
Definition poly_eval (cs : list F) (x : F) : F := peval K cs x.

(* lagrange.BasisAt(xs, at): Π_{j≠i} (at - x_j) / (x_i - x_j); a zero denominator is an error — model/Interp.v (C20) *)
Definition lagrange_basis_at (xs : list F) (at_ : F) : option (list F) := basis_at K xs at_.

(* ---- Shamir -------------------------------------------------------------------------------------- *)

Definition fshare := (N * F)%type.

(* Deal: polynomial cs (cs_0 = secret, degree t-1), share_i = cs(fromN id_i) *)
Definition shamir_deal (ps : list N) (cs : list F) : list fshare :=
  map (fun id => (id, poly_eval cs (fromN id))) (sortN (nodupN ps)).

(* hashset.NewHashable(shares...): equal shares collapse *)
Fixpoint dedup_shares (l : list fshare) : list fshare :=
  match l with
  | [] => []
  | s :: t => if existsb (fun s' => N.eqb (fst s) (fst s') && feqb K (snd s) (snd s')) t
              then dedup_shares t else s :: dedup_shares t
  end.

Definition shamir_reconstruct (t : nat) (ps : list N) (shares : list fshare) : option F :=
  let sh := dedup_shares shares in
  if negb (is_qualified (Thr t ps) (map fst sh)) then None else
  match lagrange_basis_at (map (fun s => fromN (fst s)) sh) (f0 K) with
  | None => None
  | Some basis => Some (fold_left (fun out bv => fadd K out (fmul K (fst bv) (snd bv)))
                                  (combine basis (map snd sh)) (f0 K))
  end.

(* Share.ToAdditive(quorum): lambda_i(quorum) · value; quorum IDs distinct (it is a set) *)
Definition shamir_to_additive (s : fshare) (quorum : list N) : option F :=
  let q := nodupN quorum in
  match lagrange_basis_at (map fromN q) (f0 K) with
  | None => None
  | Some basis =>
    match find_index (N.eqb (fst s)) q with
    | None => None
    | Some i => Some (fmul K (nth i basis (f0 K)) (snd s))
    end
  end.

(* ---- additive -------------------------------------------------------------------------------------- *)

(* SumToSecret(secret, l): rs_0..rs_{l-2} sampled, rs_{l-1} = secret - Σ *)
Definition sum_to_secret (secret : F) (rs : list F) : list F :=
  rs ++ [fsub K secret (fsum rs)].

(* Reconstruct: no repeated IDs, the ID set must be the whole shareholder set, then the sum *)
Definition additive_reconstruct (ps : list N) (shares : list fshare) : option F :=
  let ids := map fst shares in
  if negb (Nat.eqb (length (nodupN ids)) (length ids)) then None
  else if negb (is_qualified (Una ps) ids) then None
  else Some (fsum (map snd (dedup_shares shares))).

(* ---- ISN (replicated additive over the maximal unqualified sets) ---------------------------------- *)

(* a share: for every maximal unqualified set NOT containing the holder, that set's summand.
   sets are identified by their position in [mus] *)
Definition isn_share := (N * list (nat * F))%type.

Definition isn_deal (mus : list (list N)) (summands : list F) (holders : list N) : list isn_share :=
  map (fun id => (id, filter (fun kv => negb (memN id (nth (fst kv) mus [])))
                             (combine (seq 0 (length mus)) summands))) holders.

Fixpoint assoc_nat (k : nat) (l : list (nat * F)) : option F :=
  match l with
  | [] => None
  | (k', v) :: t => if Nat.eqb k k' then Some v else assoc_nat k t
  end.

(* Reconstruct: IsQualified on the listed IDs; every share must hold the chunk of every set that
   does not contain its holder; chunks must agree; the secret is the sum of the chunks seen *)
Definition isn_reconstruct (p : policy) (mus : list (list N)) (shares : list isn_share) : option F :=
  if negb (is_qualified p (map fst shares)) then None else
  let step := fun (acc : option (list (nat * F))) (sh : isn_share) =>
    fold_left (fun acc k =>
      match acc with
      | None => None
      | Some chunks =>
        if memN (fst sh) (nth k mus []) then Some chunks else
        match assoc_nat k (snd sh) with
        | None => None
        | Some c => match assoc_nat k chunks with
                    | Some c0 => if feqb K c0 c then Some chunks else None
                    | None => Some (chunks ++ [(k, c)])
                    end
        end
      end) (seq 0 (length mus)) acc in
  match fold_left step shares (Some []) with
  | None => None
  | Some chunks => Some (fsum (map snd chunks))
  end.

(* Share.ToAdditive(quorum): the chunks whose pivot (smallest quorum member outside the set) is the holder.
   A share with an empty chunk map makes the code index an empty slice (run-time panic): None here *)
Definition isn_to_additive (mus : list (list N)) (sh : isn_share) (quorum : list N) : option F :=
  if negb (memN (fst sh) quorum) then None else
  match snd sh with [] => None | _ =>
  let sq := sortN (nodupN quorum) in
  fold_left (fun acc kv =>
    match acc with
    | None => None
    | Some v =>
      match find (fun id => negb (memN id (nth (fst kv) mus []))) sq with
      | None => None
      | Some p => if N.eqb p (fst sh) then Some (fadd K v (snd kv)) else Some v
      end
    end) (snd sh) (Some (f0 K))
  end.

(* ---- Tassa (hierarchical, Birkhoff interpolation) --------------------------------------------------- *)

(* Deal: a level whose previous threshold is d gets the d-th derivative (coded Derivative iterated
   d times on a clone of the dealer polynomial: Poly.[pderiv_iter]) evaluated at the ID *)
Definition tassa_deal (levels : list (nat * list N)) (cs : list F) : list fshare :=
  let fix go (d : nat) (ls : list (nat * list N)) : list fshare :=
    match ls with
    | [] => []
    | (t, ps) :: rest => map (fun id => (id, peval K (pderiv_iter K d cs) (fromN id))) ps ++ go t rest
    end in
  go O levels.

(* Reconstruct: >= 2 shares, no repeated ID, quorum ⊆ shareholders and qualified; birkhoff.Interpolate
   (Interp.[birkhoff_interpolate]: nodes sorted by the key [fkey] = the node as an integer, Cramer's rule,
   zero determinant refused) on (node, rank, value); the result must have degree = last threshold - 1;
   secret = constant term *)
Definition tassa_reconstruct (fkey : F -> Z) (levels : list (nat * list N)) (shares : list fshare) : option F :=
  let ids := map fst shares in
  if Nat.ltb (length shares) 2 then None
  else if negb (Nat.eqb (length (nodupN ids)) (length ids)) then None
  else if negb (subsetb ids (flat_map snd levels) && is_qualified (Hier levels) ids) then None
  else
    match fold_right (fun id acc => match acc, hier_rank levels id with
                                    | Some l, Some j => Some (N.of_nat j :: l)
                                    | _, _ => None
                                    end) (Some []) ids with
    | None => None
    | Some js =>
      match birkhoff_interpolate K fkey (map fromN ids) js (map snd shares) with
      | Err _ => None
      | Ok cs =>
        match pdegree K cs with
        | Some d => if Nat.eqb (S d) (fst (last levels (O, []))) then Some (nth 0 cs (f0 K)) else None
        | None => None
        end
      end
    end.

End Schemes.
