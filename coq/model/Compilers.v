(* Compilers.v — executable model of the non-interactive compilers of
   pkg/proofs/sigma/compiler: fiatshamir (+ zkmodule), fischlin, randfischlin, as the exact
   sequence of transcript operations (model/Transcript.v, C19) they perform on the session
   transcript, with the challenge / hash keys being XOF calls of an extraction and the
   Fischlin hash targets tests on the output of a hash oracle.  The XOF and the hash are
   parameters (the real cSHAKE256 / SHA3-256 in the correspondence check; injective
   functions in the theorems).  No proofs here (proofs/Compilers_proofs.v). *)
From Coq Require Import Ascii String.
From Coq Require Import List ZArith NArith Bool.
Import ListNotations.
Require Import V.base.Bytes V.gen.Hagrid V.gen.SigmaConsts V.model.Transcript V.model.Sigma.
Local Open Scope N_scope.

(* ---------- strings as bytes ---------- *)

Definition str (s : string) : bytes := map N_of_ascii (list_ascii_of_string s).

Definition hex_digit (d : N) : N := if d <? 10 then 48 + d else 87 + d.   (* '0'.. / 'a'.. *)
(* hex.EncodeToString *)
Definition hex_bytes (b : bytes) : bytes := flat_map (fun x => [hex_digit (x / 16); hex_digit (x mod 16)]) b.

(* binary.LittleEndian.AppendUint64(nil, v) *)
Definition le64 (v : N) : bytes := le_bytes 8 v.

Definition dash : bytes := Eval vm_compute in str "-".

(* ---------- the context a proof is made / verified in ---------- *)

(* name of the session transcript, the operations performed on it so far (session
   initialisation, whatever the calling protocol appended, the caller's binding of the
   prover identity), and the session id the context reports *)
Record context := { c_name : bytes; c_hist : list op; c_sid : bytes }.

(* the callers' identity binding: ctx.Clone(); Transcript().AppendBytes(proverIDLabel, id) *)
Definition bind_prover (c : context) (label id : bytes) : context :=
  {| c_name := c_name c; c_hist := c_hist c ++ [App label [id]]; c_sid := c_sid c |}.

(* the XOF call an ExtractBytes(label, n) makes after history h (None: refused) *)
Definition ext_call (c : context) (ops : list op) (label : bytes) (n : N) : option xof_call :=
  snd (step (fst (run (new_transcript (c_name c)) (c_hist c ++ ops))) (Ext label n)).

Definition bytes_eq (a b : bytes) : bool :=
  Nat.eqb (length a) (length b) && forallb (fun p => N.eqb (fst p) (snd p)) (combine a b).

(* ---------- Fiat–Shamir (fiatshamir.NewProver/NewVerifier + zkmodule.Prove/Verify) ---------- *)
(* the labels fs_transcriptLabel, zk_*Label, fi_*Label, rf_*Label are regenerated from the
   const blocks of the compilers on every run: gen/SigmaConsts.v *)


(* fmt.Sprintf("%s-%s-%s", hex(sid), transcriptLabel, name) *)
Definition fs_dst (sid pname : bytes) : bytes :=
  hex_bytes sid ++ dash ++ fs_transcriptLabel ++ dash ++ pname.

(* operations before the challenge extraction *)
Definition fs_ops (sid pname stmt a : bytes) : list op :=
  [Dom (fs_dst sid pname); App zk_statementLabel [stmt]; App zk_commitmentLabel [a]].

Definition fs_challenge_call (c : context) (pname stmt a : bytes) (len : N) : option xof_call :=
  ext_call c (fs_ops (c_sid c) pname stmt a) zk_challengeLabel len.

(* zkmodule.Verify: e' = ExtractBytes(...); e' must equal the proof's e; then the sigma
   verifier on (x, a, e', z) *)
Definition fs_accept (xof : xof_call -> bytes) (c : context) (pname stmt a : bytes) (len : N)
           (e : bytes) (sv : bytes -> bool) : bool :=
  match fs_challenge_call c pname stmt a len with
  | None => false
  | Some call => let e' := xof call in bytes_eq e' e && sv e'
  end.

Section FS.
  Variable P : sproto.
  Variable encX : sp_X P -> bytes.      (* statement.Bytes() *)
  Variable encA : sp_A P -> bytes.      (* commitment.Bytes() *)
  Variable xof : xof_call -> bytes.

  Definition fs_verify (c : context) (pname : bytes) (x : sp_X P)
             (a : sp_A P) (e : bytes) (z : sp_Z P) : bool :=
    fs_accept xof c pname (encX x) (encA a) (N.of_nat (sp_len P)) e (fun e' => sp_verify P x a e' z).

  (* zkmodule.Commit + Prove *)
  Definition fs_prove (c : context) (pname : bytes) (x : sp_X P) (w : sp_W P) (r : sp_R P)
    : option (sp_A P * bytes * sp_Z P) :=
    let '(a, s) := sp_commit P x w r in
    match fs_challenge_call c pname (encX x) (encA a) (N.of_nat (sp_len P)) with
    | None => None
    | Some call => let e := xof call in Some (a, e, sp_respond P x w a s e)
    end.
End FS.

(* ---------- Fischlin ---------- *)


(* mathutils.CeilLog2 *)
Definition ceil_log2 (x : N) : N := N.size (x - 1).

(* NewCompiler: b and t from rho and the special-soundness parameter; None = refused *)
Definition fischlin_params (rho ss : N) : option (N * N) :=
  let b1 := (128 + rho - 1) / rho in
  let b2 := ceil_log2 (ss - 1) in
  let b := b1 + b2 in
  let t := if 64 <? rho then b + 6 else b + 5 in
  if (rho <? 2) || (b <? 2) || (64 <=? t) then None else Some (b, t).

(* fmt.Sprintf("%s-%s-%s", transcriptLabel, name, hex(sid)) *)
Definition fi_dst (sid pname : bytes) : bytes :=
  fi_transcriptLabel ++ dash ++ pname ++ dash ++ hex_bytes sid.

Definition fi_ops (sid pname stmt : bytes) (rho : N) : list op :=
  [Dom (fi_dst sid pname); App fi_rhoLabel [le64 rho]; App fi_statementLabel [stmt]].

Definition fi_key_call (c : context) (pname stmt : bytes) (rho : N) : option xof_call :=
  ext_call c (fi_ops (c_sid c) pname stmt rho) fi_commonHLabel 32.

(* utils.go hash(): the first b/8+1 bytes of the digest, the last of them masked to b mod 8
   bits, must all be zero *)
Definition fi_target (b : N) (digest : bytes) : bool :=
  let nb := N.to_nat (b / 8 + 1) in
  let m := 2 ^ (b mod 8) - 1 in
  let hd := firstn nb digest in
  Nat.eqb (length hd) nb &&
  forallb (fun x => N.eqb x 0) (firstn (nb - 1) hd) &&
  N.eqb (N.land (nth (nb - 1) hd 0) m) 0.

(* hash input of repetition i: commonH ‖ 8 zero bytes ‖ LE64(i) ‖ e_i ‖ z_i
   (binary.LittleEndian.AppendUint64(make([]byte, 8), i)) *)
Definition fi_rep_input (commonH : bytes) (i : N) (e z : bytes) : bytes :=
  commonH ++ repeat 0 8 ++ le64 i ++ e ++ z.

(* left-pad the transmitted challenge to the protocol's challenge length *)
Definition pad_left (len : nat) (e : bytes) : bytes := repeat 0 (len - length e) ++ e.

Fixpoint fi_reps (H : bytes -> bytes) (b : N) (elen len : nat) (commonH : bytes) (i : N)
         (reps : list (bytes * bytes * bytes)) (sv : N -> bytes -> bool) : bool :=
  match reps with
  | [] => true
  | (a, e, z) :: rest =>
      Nat.eqb (length e) elen &&
      fi_target b (H (fi_rep_input commonH i e z)) &&
      Nat.leb (length e) len &&
      sv i (pad_left len e) &&
      fi_reps H b elen len commonH (i + 1) rest sv
  end.

(* Verifier.Verify; reps = the decoded (a_i, e_i, z_i) as bytes (a_i, z_i by Bytes()),
   sv i e = verdict of the sigma verifier on repetition i with challenge e *)
Definition fischlin_accept (xof : xof_call -> bytes) (H : bytes -> bytes) (c : context)
           (pname stmt : bytes) (rho b t : N) (len : nat)
           (reps : list (bytes * bytes * bytes)) (sv : N -> bytes -> bool) : bool :=
  N.eqb (N.of_nat (length reps)) rho &&
  match fi_key_call c pname stmt rho with
  | None => false
  | Some call =>
      let key := xof call in
      let commonH := H (key ++ stmt ++ flat_map (fun r => fst (fst r)) reps ++ c_sid c) in
      fi_reps H b (N.to_nat ((t + 7) / 8)) len commonH 0 reps sv
  end.

(* ---------- randomised Fischlin ---------- *)

Definition rf_R : N := 16.         (* Lambda / L = 128 / 8 *)
Definition rf_LBytes : nat := 1.   (* L / 8 *)

(* NewVerifier: "%s-%s-%s" label, name, hex(sid);  Verify: "%s-%s" label, hex(sid) *)
Definition rf_ops (sid pname : bytes) : list op :=
  [Dom (rf_transcriptLabel ++ dash ++ pname ++ dash ++ hex_bytes sid);
   Dom (rf_transcriptLabel ++ dash ++ hex_bytes sid)].

Definition rf_crs_call (c : context) (pname : bytes) : option xof_call :=
  ext_call c (rf_ops (c_sid c) pname) rf_crsLabel 32.

(* ioutils.WriteIndexLengthPrefixed *)
Fixpoint index_length_prefixed (i : N) (xs : list bytes) : bytes :=
  match xs with
  | [] => []
  | x :: r => le64 i ++ le64 (len x) ++ x ++ index_length_prefixed (i + 1) r
  end.

Definition rf_rep_input (crs aall : bytes) (i : N) (e z : bytes) : bytes :=
  index_length_prefixed 0 [crs; aall; le64 i; e; z].

Fixpoint rf_reps (H : bytes -> bytes) (len : nat) (crs aall : bytes) (i : N)
         (reps : list (bytes * bytes * bytes)) (sv : N -> bytes -> bool) : bool :=
  match reps with
  | [] => true
  | (a, e, z) :: rest =>
      Nat.eqb (length e) len &&
      forallb (fun x => N.eqb x 0) (firstn rf_LBytes (H (rf_rep_input crs aall i e z))) &&
      sv i e &&
      rf_reps H len crs aall (i + 1) rest sv
  end.

(* Verifier.Verify: R repetitions, every challenge of exactly the sigma protocol's challenge
   length (the guard added by the fix for finding randfischlin-challenge-leading-zeros),
   hash target, sigma verdict *)
Definition randfischlin_accept (xof : xof_call -> bytes) (H : bytes -> bytes) (c : context)
           (pname : bytes) (len : nat) (reps : list (bytes * bytes * bytes)) (sv : N -> bytes -> bool) : bool :=
  N.eqb (N.of_nat (length reps)) rf_R &&
  match rf_crs_call c pname with
  | None => false
  | Some call =>
      let crs := xof call in
      rf_reps H len crs (flat_map (fun r => fst (fst r)) reps) 0 reps sv
  end.
