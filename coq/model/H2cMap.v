(* H2cMap.v — executable model of hash_to_curve for the short-Weierstrass suites
   (k256 = secp256k1_XMD:SHA-256_SSWU_RO_, p256 = P256_XMD:SHA-256_SSWU_RO_,
    bls12381g1 = BLS12381G1_XMD:SHA-256_SSWU_RO_).  No proofs.

   Everything that is code is taken from the regenerated files:
     gen/Expanders.v  (hashed byte strings, guards)       via model/H2c.v expand_message_xmd
     gen/Mappers.v    sswu, SqrtRatio3Mod4, mapIso, *PointMapper_Map, W_Hash (the Hash wiring of
                      weierstrass.go), the per-curve constants / parameter methods / L / expander
     gen/Formulas.v   W_setFractions, W_Add, W_ToAffine (C14's unit, read only)
   Hand-written here: the record that bundles a suite, hash_to_field's use of the base-field
   modulus (model/CurveParams.v, tied by C14), the hash's (b, s) sizes passed in by the harness,
   and cofactor clearing for BLS12-381 G1 (multiplication by the regenerated scalar X+1 with the
   affine chord-tangent law of model/Curve.v); for edwards25519 three applications of the
   regenerated E_Double. *)
From Coq Require Import List NArith ZArith Bool.
Import ListNotations.
Require Import V.base.Bytes V.base.Fld V.gen.Expanders V.gen.Mappers V.gen.Formulas.
Require Import V.model.H2c V.model.CurveParams V.model.Curve.

Record wsuite := mk_wsuite {
  ws_curve : wparams;
  ws_L : N;
  ws_expander : expander_kind;
  ws_kind : mapper_kind;
  ws_mulA : fops Z -> Z -> Z;
  ws_mulB : fops Z -> Z -> Z;
  ws_Z : Z;
  ws_sqrt : fops Z -> Z -> Z -> bool * Z;
  ws_sgn0 : Z -> bool;
  ws_xnum : list Z; ws_xden : list Z; ws_ynum : list Z; ws_yden : list Z;
  ws_cof : cofactor_kind;
  ws_heff : Z                 (* only read when ws_cof = Cofactor_scalar *)
}.

Definition k256_suite : wsuite := {|
  ws_curve := k256_params; ws_L := k256_L; ws_expander := k256_expander; ws_kind := k256_mapper_kind;
  ws_mulA := k256_MulByA; ws_mulB := k256_MulByB; ws_Z := k256_SetZ; ws_sqrt := k256_SqrtRatio;
  ws_sgn0 := k256_Sgn0;
  ws_xnum := k256_XNum; ws_xden := k256_XDen; ws_ynum := k256_YNum; ws_yden := k256_YDen;
  ws_cof := k256_clear_cofactor; ws_heff := 1 |}.

Definition p256_suite : wsuite := {|
  ws_curve := p256_params; ws_L := p256_L; ws_expander := p256_expander; ws_kind := p256_mapper_kind;
  ws_mulA := p256_MulByA; ws_mulB := p256_MulByB; ws_Z := p256_SetZ; ws_sqrt := p256_SqrtRatio;
  ws_sgn0 := p256_Sgn0;
  ws_xnum := []; ws_xden := []; ws_ynum := []; ws_yden := [];
  ws_cof := p256_clear_cofactor; ws_heff := 1 |}.

(* ClearCofactor of g1_params.go multiplies by X + 1 (= h_eff of RFC 9380 §8.8.1 = 1 - z, z = -X);
   the scalar is regenerated (gen/Mappers.v bls12381g1_cofactor_scalar) *)
Definition bls12381g1_suite : wsuite := {|
  ws_curve := bls12381g1_params; ws_L := bls12381g1_L; ws_expander := bls12381g1_expander;
  ws_kind := bls12381g1_mapper_kind;
  ws_mulA := bls12381g1_MulByA; ws_mulB := bls12381g1_MulByB; ws_Z := bls12381g1_SetZ;
  ws_sqrt := bls12381g1_SqrtRatio; ws_sgn0 := bls12381g1_Sgn0;
  ws_xnum := bls12381g1_XNum; ws_xden := bls12381g1_XDen; ws_ynum := bls12381g1_YNum; ws_yden := bls12381g1_YDen;
  ws_cof := bls12381g1_clear_cofactor; ws_heff := bls12381g1_cofactor_scalar |}.

Section Suite.
  Variable H : bytes -> bytes.          (* the suite's hash (a recorded table in the driver) *)
  Variables b_in_bytes s_in_bytes : N.  (* its digest and block sizes *)
  Variable s : wsuite.

  Let p := wp_p (ws_curve s).
  Let K := Zp p.

  (* hash_to_field into F_q for q = the base-field modulus (fld = false) or the group order
     (fld = true: ScalarField.Hash uses the same L and expander) *)
  Definition ws_h2f (scalar : bool) (count : N) (dst msg : bytes) : option (list Z) :=
    let q := if scalar then wp_n (ws_curve s) else p in
    option_map (map (fun e => Z.of_N (nth 0 e 0%N)))
      (hash_to_field (expand_message_xmd H b_in_bytes s_in_bytes) (Z.to_N q) (ws_L s) 1 count dst msg).

  (* mapper.Map followed by setFractions: a projective point *)
  Definition ws_map (u : Z) : Z * Z * Z :=
    let '(xn, xd, yn, yd) :=
      match ws_kind s with
      | sswu_ZeroPointMapper =>
          ZeroPointMapper_Map K (ws_mulA s K) (ws_mulB s K) (ws_Z s) (ws_sqrt s K) (ws_sgn0 s)
            (ws_xnum s) (ws_xden s) (ws_ynum s) (ws_yden s) u
      | sswu_NonZeroPointMapper =>
          NonZeroPointMapper_Map K (ws_mulA s K) (ws_mulB s K) (ws_Z s) (ws_sqrt s K) (ws_sgn0 s) u
      | elligator2_Edwards25519PointMapper => (0, 1, 1, 0)%Z
      end in
    W_setFractions K xn xd yn yd.

  Definition ws_add (P Q : Z * Z * Z) : Z * Z * Z :=
    let '(x1, y1, z1) := P in let '(x2, y2, z2) := Q in
    W_Add K (wp_a (ws_curve s)) (wp_b (ws_curve s)) x1 y1 z1 x2 y2 z2.

  Definition ws_to_affine (P : Z * Z * Z) : @wpoint Z :=
    let '(X, Y, Zc) := P in
    let '(ok, x, y) := W_ToAffine K 0%Z 0%Z X Y Zc in
    if ok then Some (x, y) else None.

  (* ClearCofactor; for Cofactor_other the result is re-embedded with Z = 1 *)
  Definition ws_clear (P : Z * Z * Z) : Z * Z * Z :=
    match ws_cof s with
    | Cofactor_identity => P
    | Cofactor_scalar =>
        match waff_mul K (wp_a (ws_curve s)) (ws_heff s) (ws_to_affine P) with
        | Some (x, y) => (x, y, 1 mod p)%Z
        | None => (0, 1 mod p, 0)%Z
        end
    | _ => (0, 0, 0)%Z      (* a shape the translator did not recognise: no valid point, every comparison fails *)
    end.

  (* the Hash method of weierstrass.go through the generated wiring W_Hash.
     None = the expander panics. *)
  Definition ws_hash_to_curve (dst msg : bytes) : option (@wpoint Z) :=
    match ws_h2f false 2 dst msg with
    | None => None
    | Some _ =>
        Some (ws_to_affine
          (W_Hash (fun c d m => match ws_h2f false c d m with Some l => l | None => [] end)
                  ws_map ws_add ws_clear 0%Z dst msg))
    end.

  (* Encode (one field element, no addition) *)
  Definition ws_encode_to_curve (dst msg : bytes) : option (@wpoint Z) :=
    match ws_h2f false 1 dst msg with
    | None => None
    | Some us => Some (ws_to_affine (ws_clear (ws_map (nth 0 us 0%Z))))
    end.

  (* membership predicates evaluated by the model on a point *)
  Definition ws_on_curve (P : @wpoint Z) : bool := w_on_curve (ws_curve s) P.
  Definition ws_in_subgroup (P : @wpoint Z) : bool :=
    match w_mul (ws_curve s) (wp_n (ws_curve s)) P with None => true | Some _ => false end.
End Suite.

(* ---- edwards25519_XMD:SHA-512_ELL2_RO_ ------------------------------------------------------- *)
Section EdSuite.
  Variable H : bytes -> bytes.
  Variables b_in_bytes s_in_bytes : N.

  Let c := ed25519_params.
  Let p := ep_p c.
  Let K := Zp p.

  Definition ed_h2f (scalar : bool) (count : N) (dst msg : bytes) : option (list Z) :=
    let q := if scalar then ep_n c else p in
    option_map (map (fun e => Z.of_N (nth 0 e 0%N)))
      (hash_to_field (expand_message_xmd H b_in_bytes s_in_bytes) (Z.to_N q) edwards25519_L 1 count dst msg).

  (* Edwards25519PointMapper.Map followed by setFractions: extended coordinates (X, Y, T, Z) *)
  Definition ed_map (u : Z) : Z * Z * Z * Z :=
    let '(xn, xd, yn, yd) :=
      match edwards25519_mapper_kind with
      | elligator2_Edwards25519PointMapper =>
          mapToCurveElligator2Edwards25519 K curve25519Elligator2C2Limbs_value curve25519Elligator2C3Limbs_value
            curve25519Elligator2JLimbs_value edwards25519Elligator2C1Limbs_value Z.odd u
      | _ => (0, 0, 0, 0)%Z
      end in
    E_setFractions K xn xd yn yd.

  Definition ed_add (P Q : Z * Z * Z * Z) : Z * Z * Z * Z :=
    let '(x1, y1, t1, z1) := P in let '(x2, y2, t2, z2) := Q in
    E_Add K (ep_a c) (ep_d c) x1 y1 t1 z1 x2 y2 t2 z2.

  Definition ed_double (P : Z * Z * Z * Z) : Z * Z * Z * Z :=
    let '(x1, y1, t1, z1) := P in E_Double K (ep_a c) x1 y1 t1 z1.

  Definition ed_clear (P : Z * Z * Z * Z) : Z * Z * Z * Z :=
    match edwards25519_clear_cofactor with
    | Cofactor_double3 => ed_double (ed_double (ed_double P))
    | Cofactor_identity => P
    | _ => (0, 0, 0, 0)%Z
    end.

  Definition ed_to_affine (P : Z * Z * Z * Z) : option (Z * Z) :=
    let '(X, Y, _, Zc) := P in
    let '(ok, x, y) := E_ToAffine K 0%Z 0%Z X Y Zc in
    if ok then Some (x, y) else None.

  Definition ed_hash_to_curve (dst msg : bytes) : option (option (Z * Z)) :=
    match ed_h2f false 2 dst msg with
    | None => None
    | Some _ =>
        Some (ed_to_affine
          (E_Hash (fun cn d m => match ed_h2f false cn d m with Some l => l | None => [] end)
                  ed_map ed_add ed_clear 0%Z dst msg))
    end.

  Definition ed_on_curve (P : option (Z * Z)) : bool :=
    match P with Some Q => e_on_curve c Q | None => false end.
  Definition ed_in_subgroup (P : option (Z * Z)) : bool :=
    match P with Some Q => e_eqb c (e_mul c (ep_n c) Q) (eaff_zero (Zp p)) | None => false end.
End EdSuite.
