(* H2cMap.v — executable model of hash_to_curve for the short-Weierstrass suites
   (k256 = secp256k1_XMD:SHA-256_SSWU_RO_, p256 = P256_XMD:SHA-256_SSWU_RO_,
    bls12381g1 = BLS12381G1_XMD:SHA-256_SSWU_RO_).  No proofs.

   Everything that is code is taken from the regenerated files:
     gen/Expanders.v  (hashed byte strings, guards)       via model/H2c.v expand_message_xmd
     gen/Mappers.v    sswu, SqrtRatio3Mod4, mapIso, *PointMapper_Map, W_Hash (the Hash wiring of
                      weierstrass.go), the per-curve constants / parameter methods / L / expander
     gen/Formulas.v   W_setFractions, W_Add, W_ToAffine (C14's unit, read only)
   Hand-written here: the record that bundles a suite, hash_to_field's use of the base-field
   modulus (model/CurveParams.v, tied by C14), the hash's (b, s) sizes passed in by the harness,
   and cofactor clearing for BLS12-381 G1 (multiplication by the regenerated scalar X+1 with the
   affine chord-tangent law of model/Curve.v); for edwards25519 three applications of the
   regenerated E_Double. *)
From Coq Require Import List NArith ZArith Bool.
Import ListNotations.
Require Import V.base.Bytes V.base.Fld V.gen.Expanders V.gen.Mappers V.gen.Formulas.
Require Import V.model.H2c V.model.CurveParams V.model.Curve V.model.H2cPoly.

Record wsuite := mk_wsuite {
  ws_curve : wparams;
  ws_L : N;
  ws_expander : expander_kind;
  ws_kind : mapper_kind;
  ws_mulA : fops Z -> Z -> Z;
  ws_mulB : fops Z -> Z -> Z;
  ws_Z : Z;
  ws_sqrt : fops Z -> Z -> Z -> bool * Z;
  ws_sgn0 : Z -> bool;
  ws_xnum : list Z; ws_xden : list Z; ws_ynum : list Z; ws_yden : list Z;
  ws_cof : cofactor_kind;
  ws_heff : Z                 (* only read when ws_cof = Cofactor_scalar *)
}.

Definition k256_suite : wsuite := {|
  ws_curve := k256_params; ws_L := k256_L; ws_expander := k256_expander; ws_kind := k256_mapper_kind;
  ws_mulA := k256_MulByA; ws_mulB := k256_MulByB; ws_Z := k256_SetZ; ws_sqrt := k256_SqrtRatio;
  ws_sgn0 := k256_Sgn0;
  ws_xnum := k256_XNum; ws_xden := k256_XDen; ws_ynum := k256_YNum; ws_yden := k256_YDen;
  ws_cof := k256_clear_cofactor; ws_heff := 1 |}.

Definition p256_suite : wsuite := {|
  ws_curve := p256_params; ws_L := p256_L; ws_expander := p256_expander; ws_kind := p256_mapper_kind;
  ws_mulA := p256_MulByA; ws_mulB := p256_MulByB; ws_Z := p256_SetZ; ws_sqrt := p256_SqrtRatio;
  ws_sgn0 := p256_Sgn0;
  ws_xnum := []; ws_xden := []; ws_ynum := []; ws_yden := [];
  ws_cof := p256_clear_cofactor; ws_heff := 1 |}.

(* ClearCofactor of g1_params.go multiplies by X + 1 (= h_eff of RFC 9380 §8.8.1 = 1 - z, z = -X);
   the scalar is regenerated (gen/Mappers.v bls12381g1_cofactor_scalar) *)
Definition bls12381g1_suite : wsuite := {|
  ws_curve := bls12381g1_params; ws_L := bls12381g1_L; ws_expander := bls12381g1_expander;
  ws_kind := bls12381g1_mapper_kind;
  ws_mulA := bls12381g1_MulByA; ws_mulB := bls12381g1_MulByB; ws_Z := bls12381g1_SetZ;
  ws_sqrt := bls12381g1_SqrtRatio; ws_sgn0 := bls12381g1_Sgn0;
  ws_xnum := bls12381g1_XNum; ws_xden := bls12381g1_XDen; ws_ynum := bls12381g1_YNum; ws_yden := bls12381g1_YDen;
  ws_cof := bls12381g1_clear_cofactor; ws_heff := bls12381g1_cofactor_scalar |}.

(* pasta (not RFC 9380 suites; same construction with BLAKE2b-512, the generic sqrt_ratio and a 3-isogeny) *)
Definition pallas_suite : wsuite := {|
  ws_curve := pallas_params; ws_L := pallas_L; ws_expander := pallas_expander; ws_kind := pallas_mapper_kind;
  ws_mulA := pallas_MulByA; ws_mulB := pallas_MulByB; ws_Z := pallas_SetZ; ws_sqrt := pallas_SqrtRatio;
  ws_sgn0 := pallas_Sgn0;
  ws_xnum := pallas_XNum; ws_xden := pallas_XDen; ws_ynum := pallas_YNum; ws_yden := pallas_YDen;
  ws_cof := pallas_clear_cofactor; ws_heff := 1 |}.

Definition vesta_suite : wsuite := {|
  ws_curve := vesta_params; ws_L := vesta_L; ws_expander := vesta_expander; ws_kind := vesta_mapper_kind;
  ws_mulA := vesta_MulByA; ws_mulB := vesta_MulByB; ws_Z := vesta_SetZ; ws_sqrt := vesta_SqrtRatio;
  ws_sgn0 := vesta_Sgn0;
  ws_xnum := vesta_XNum; ws_xden := vesta_XDen; ws_ynum := vesta_YNum; ws_yden := vesta_YDen;
  ws_cof := vesta_clear_cofactor; ws_heff := 1 |}.

Section Suite.
  Variable H : bytes -> bytes.          (* the suite's hash (a recorded table in the driver) *)
  Variables b_in_bytes s_in_bytes : N.  (* its digest and block sizes *)
  Variable s : wsuite.

  Let p := wp_p (ws_curve s).
  Let K := Zp p.

  (* hash_to_field into F_q for q = the base-field modulus (fld = false) or the group order
     (fld = true: ScalarField.Hash uses the same L and expander) *)
  Definition ws_h2f (scalar : bool) (count : N) (dst msg : bytes) : option (list Z) :=
    let q := if scalar then wp_n (ws_curve s) else p in
    option_map (map (fun e => Z.of_N (nth 0 e 0%N)))
      (hash_to_field (expand_message_xmd H b_in_bytes s_in_bytes) (Z.to_N q) (ws_L s) 1 count dst msg).

  (* mapper.Map followed by setFractions: a projective point *)
  Definition ws_map (u : Z) : Z * Z * Z :=
    let '(xn, xd, yn, yd) :=
      match ws_kind s with
      | sswu_ZeroPointMapper =>
          ZeroPointMapper_Map K (ws_mulA s K) (ws_mulB s K) (ws_Z s) (ws_sqrt s K) (ws_sgn0 s)
            (ws_xnum s) (ws_xden s) (ws_ynum s) (ws_yden s) u
      | sswu_NonZeroPointMapper =>
          NonZeroPointMapper_Map K (ws_mulA s K) (ws_mulB s K) (ws_Z s) (ws_sqrt s K) (ws_sgn0 s) u
      | elligator2_Edwards25519PointMapper => (0, 1, 1, 0)%Z
      end in
    W_setFractions K xn xd yn yd.

  Definition ws_add (P Q : Z * Z * Z) : Z * Z * Z :=
    let '(x1, y1, z1) := P in let '(x2, y2, z2) := Q in
    W_Add K (wp_a (ws_curve s)) (wp_b (ws_curve s)) x1 y1 z1 x2 y2 z2.

  Definition ws_to_affine (P : Z * Z * Z) : @wpoint Z :=
    let '(X, Y, Zc) := P in
    let '(ok, x, y) := W_ToAffine K 0%Z 0%Z X Y Zc in
    if ok then Some (x, y) else None.

  (* ClearCofactor; for Cofactor_other the result is re-embedded with Z = 1 *)
  Definition ws_clear (P : Z * Z * Z) : Z * Z * Z :=
    match ws_cof s with
    | Cofactor_identity => P
    | Cofactor_scalar =>
        match waff_mul K (wp_a (ws_curve s)) (ws_heff s) (ws_to_affine P) with
        | Some (x, y) => (x, y, 1 mod p)%Z
        | None => (0, 1 mod p, 0)%Z
        end
    | _ => (0, 0, 0)%Z      (* a shape the translator did not recognise: no valid point, every comparison fails *)
    end.

  (* the Hash method of weierstrass.go through the generated wiring W_Hash.
     None = the expander panics. *)
  Definition ws_hash_to_curve (dst msg : bytes) : option (@wpoint Z) :=
    match ws_h2f false 2 dst msg with
    | None => None
    | Some _ =>
        Some (ws_to_affine
          (W_Hash (fun c d m => match ws_h2f false c d m with Some l => l | None => [] end)
                  ws_map ws_add ws_clear 0%Z dst msg))
    end.

  (* Encode (one field element, no addition) *)
  Definition ws_encode_to_curve (dst msg : bytes) : option (@wpoint Z) :=
    match ws_h2f false 1 dst msg with
    | None => None
    | Some us => Some (ws_to_affine (ws_clear (ws_map (nth 0 us 0%Z))))
    end.

  (* the isogeny identity of model/H2cPoly.v on the suite's regenerated constants (hypothesis of
     zero_map_on_curve); A' = MulByA(1), B' = MulByB(1) *)
  Definition ws_iso_identity : bool :=
    match ws_kind s with
    | sswu_ZeroPointMapper =>
        iso_identity_b K (ws_mulA s K (f1 K)) (ws_mulB s K (f1 K)) (wp_a (ws_curve s)) (wp_b (ws_curve s))
          (ws_xnum s) (ws_xden s) (ws_ynum s) (ws_yden s)
    | _ => true
    end.

  (* membership predicates evaluated by the model on a point *)
  Definition ws_on_curve (P : @wpoint Z) : bool := w_on_curve (ws_curve s) P.
  Definition ws_in_subgroup (P : @wpoint Z) : bool :=
    match w_mul (ws_curve s) (wp_n (ws_curve s)) P with None => true | Some _ => false end.
End Suite.

(* ---- edwards25519_XMD:SHA-512_ELL2_RO_ ------------------------------------------------------- *)
Section EdSuite.
  Variable H : bytes -> bytes.
  Variables b_in_bytes s_in_bytes : N.

  Let c := ed25519_params.
  Let p := ep_p c.
  Let K := Zp p.

  Definition ed_h2f (scalar : bool) (count : N) (dst msg : bytes) : option (list Z) :=
    let q := if scalar then ep_n c else p in
    option_map (map (fun e => Z.of_N (nth 0 e 0%N)))
      (hash_to_field (expand_message_xmd H b_in_bytes s_in_bytes) (Z.to_N q) edwards25519_L 1 count dst msg).

  (* Edwards25519PointMapper.Map followed by setFractions: extended coordinates (X, Y, T, Z) *)
  Definition ed_map (u : Z) : Z * Z * Z * Z :=
    let '(xn, xd, yn, yd) :=
      match edwards25519_mapper_kind with
      | elligator2_Edwards25519PointMapper =>
          mapToCurveElligator2Edwards25519 K curve25519Elligator2C2Limbs_value curve25519Elligator2C3Limbs_value
            curve25519Elligator2JLimbs_value edwards25519Elligator2C1Limbs_value Z.odd u
      | _ => (0, 0, 0, 0)%Z
      end in
    E_setFractions K xn xd yn yd.

  Definition ed_add (P Q : Z * Z * Z * Z) : Z * Z * Z * Z :=
    let '(x1, y1, t1, z1) := P in let '(x2, y2, t2, z2) := Q in
    E_Add K (ep_a c) (ep_d c) x1 y1 t1 z1 x2 y2 t2 z2.

  Definition ed_double (P : Z * Z * Z * Z) : Z * Z * Z * Z :=
    let '(x1, y1, t1, z1) := P in E_Double K (ep_a c) x1 y1 t1 z1.

  Definition ed_clear (P : Z * Z * Z * Z) : Z * Z * Z * Z :=
    match edwards25519_clear_cofactor with
    | Cofactor_double3 => ed_double (ed_double (ed_double P))
    | Cofactor_identity => P
    | _ => (0, 0, 0, 0)%Z
    end.

  Definition ed_to_affine (P : Z * Z * Z * Z) : option (Z * Z) :=
    let '(X, Y, _, Zc) := P in
    let '(ok, x, y) := E_ToAffine K 0%Z 0%Z X Y Zc in
    if ok then Some (x, y) else None.

  Definition ed_hash_to_curve (dst msg : bytes) : option (option (Z * Z)) :=
    match ed_h2f false 2 dst msg with
    | None => None
    | Some _ =>
        Some (ed_to_affine
          (E_Hash (fun cn d m => match ed_h2f false cn d m with Some l => l | None => [] end)
                  ed_map ed_add ed_clear 0%Z dst msg))
    end.

  Definition ed_on_curve (P : option (Z * Z)) : bool :=
    match P with Some Q => e_on_curve c Q | None => false end.
  Definition ed_in_subgroup (P : option (Z * Z)) : bool :=
    match P with Some Q => e_eqb c (e_mul c (ep_n c) Q) (eaff_zero (Zp p)) | None => false end.
End EdSuite.

(* ---- BLS12381G2_XMD:SHA-256_SSWU_RO_ : the same construction over F_p^2 (m = 2) ---------------- *)
(* h_eff of RFC 9380 section 8.8.2: the code clears the cofactor with the psi-based method of RFC 9380
   appendix G.4 (g2_params.go clearCofactorBls12381G2), which the RFC states to be equal to
   multiplication by h_eff; the model multiplies by h_eff with the affine law of model/Curve.v. *)
Definition bls12381g2_h_eff : Z :=
  0xbc69f08f2ee75b3584c6a0ea91b352888e2a8e9145ad7689986ff031508ffe1329c2f178731db956d82bf015d1212b02ec0ec69d7477c1ae954cbc06689f6a359894c0adebbf6b4e8020005aaa95551.

Section G2Suite.
  Variable H : bytes -> bytes.
  Variables b_in_bytes s_in_bytes : N.

  Let c := bls12381g2_params.
  Let p := w2_p c.
  Let K := Fp2 p.

  Definition g2_h2f (count : N) (dst msg : bytes) : option (list (Z * Z)) :=
    option_map (map (fun e => (Z.of_N (nth 0 e 0%N), Z.of_N (nth 1 e 0%N))))
      (hash_to_field (expand_message_xmd H b_in_bytes s_in_bytes) (Z.to_N p) bls12381g2_L 2 count dst msg).

  Definition g2_map (u : Z * Z) : (Z * Z) * (Z * Z) * (Z * Z) :=
    let '(xn, xd, yn, yd) :=
      match bls12381g2_mapper_kind with
      | sswu_ZeroPointMapper =>
          ZeroPointMapper_Map K (bls12381g2_MulByA K) (bls12381g2_MulByB K) bls12381g2_SetZ (bls12381g2_SqrtRatio K)
            bls12381g2_Sgn0 bls12381g2_XNum bls12381g2_XDen bls12381g2_YNum bls12381g2_YDen u
      | _ => (f0 K, f0 K, f0 K, f0 K)
      end in
    W_setFractions K xn xd yn yd.

  Definition g2_add (P Q : (Z * Z) * (Z * Z) * (Z * Z)) :=
    let '(x1, y1, z1) := P in let '(x2, y2, z2) := Q in
    W_Add K (w2_a c) (w2_b c) x1 y1 z1 x2 y2 z2.

  Definition g2_to_affine (P : (Z * Z) * (Z * Z) * (Z * Z)) : @wpoint (Z * Z) :=
    let '(X, Y, Zc) := P in
    let '(ok, x, y) := W_ToAffine K (f0 K) (f0 K) X Y Zc in
    if ok then Some (x, y) else None.

  Definition g2_clear (P : (Z * Z) * (Z * Z) * (Z * Z)) :=
    match bls12381g2_clear_cofactor with
    | Cofactor_bls12381g2_psi =>
        match w2_mul c bls12381g2_h_eff (g2_to_affine P) with
        | Some (x, y) => (x, y, f1 K)
        | None => (f0 K, f1 K, f0 K)
        end
    | _ => (f0 K, f0 K, f0 K)
    end.

  Definition g2_hash_to_curve (dst msg : bytes) : option (@wpoint (Z * Z)) :=
    match g2_h2f 2 dst msg with
    | None => None
    | Some _ =>
        Some (g2_to_affine
          (W_Hash (fun cn d m => match g2_h2f cn d m with Some l => l | None => [] end)
                  g2_map g2_add g2_clear (0, 0)%Z dst msg))
    end.

  Definition g2_iso_identity : bool :=
    iso_identity_b K (bls12381g2_MulByA K (f1 K)) (bls12381g2_MulByB K (f1 K)) (w2_a c) (w2_b c)
      bls12381g2_XNum bls12381g2_XDen bls12381g2_YNum bls12381g2_YDen.

  Definition g2_on_curve (P : @wpoint (Z * Z)) : bool := w2_on_curve c P.
  Definition g2_in_subgroup (P : @wpoint (Z * Z)) : bool :=
    match w2_mul c (w2_n c) P with None => true | Some _ => false end.
End G2Suite.
