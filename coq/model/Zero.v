(* Zero.v — (1) an abstract LINEAR SHARING over a field: every holder owns a list of
   rows, a dealing is a column c, the share of holder i is rows(i)·c, the verification
   vector is the same column lifted to the group (L3: the group is Z_q in the exponent, so
   the lifted column is the column itself), verification of a share is the same linear map
   applied to the lifted column, a set S reconstructs through coefficients lam when
   Σ_{i∈S} Σ_k lam_i[k]·rows_i[k] = e₀.  Every MSP the library can build is an instance
   (Msp.v); nothing here depends on how the rows were obtained.
   (2) the HJKY zero sharing of pkg/mpc/zero/hjky/rounds.go as coded: Round1 deals the
   secret 0 (random column whose first entry is overwritten), Round2 verifies every
   received share against the sender's verification vector, checks that the vector's
   first entry is the identity, and sums.  Executable, no proofs. *)
From Coq Require Import List NArith ZArith Bool Arith.
Import ListNotations.
Require Import V.base.Fld.

(* result of a party step: a value, an identifiable abort, a plain abort/refusal *)
Inductive res (A : Type) : Type :=
| Ok (a : A)
| Blame (j : N)
| Abort.
Arguments Ok {A} _. Arguments Blame {A} _. Arguments Abort {A}.

Fixpoint lookup {A : Type} (i : N) (l : list (N * A)) : option A :=
  match l with
  | [] => None
  | (j, a) :: t => if N.eqb i j then Some a else lookup i t
  end.

Definition mem (i : N) (l : list N) : bool := existsb (N.eqb i) l.

Section Lin.
Context {F : Type} (K : fops F).

Definition vec := list F.

Fixpoint dot (a b : vec) : F :=
  match a, b with
  | x :: a', y :: b' => fadd K (fmul K x y) (dot a' b')
  | _, _ => f0 K
  end.

Fixpoint vadd (a b : vec) : vec :=
  match a, b with
  | x :: a', y :: b' => fadd K x y :: vadd a' b'
  | _, _ => []
  end.

Definition vzero (n : nat) : vec := repeat (f0 K) n.
Definition vscale (c : F) (a : vec) : vec := map (fmul K c) a.
Definition e0 (n : nat) : vec := match n with O => [] | S m => f1 K :: vzero m end.
Definition hd0 (a : vec) : F := match a with [] => f0 K | x :: _ => x end.

Fixpoint veqb (a b : vec) : bool :=
  match a, b with
  | [], [] => true
  | x :: a', y :: b' => feqb K x y && veqb a' b'
  | _, _ => false
  end.

(* sum of a list of vectors of length n *)
Definition vsum (n : nat) (l : list vec) : vec := fold_right vadd (vzero n) l.

(* ---- linear sharing ------------------------------------------------------------- *)

Record sharing := mk_sharing { sh_dim : nat; sh_tab : list (N * list vec) }.

Definition holders (sh : sharing) : list N := map fst (sh_tab sh).
Definition rows (sh : sharing) (i : N) : list vec :=
  match lookup i (sh_tab sh) with Some r => r | None => [] end.

Definition rows_wf_b (d : nat) (rs : list vec) : bool := forallb (fun r => Nat.eqb (length r) d) rs.
Definition wf_sharing_b (sh : sharing) : bool :=
  Nat.ltb 0 (sh_dim sh) && forallb (fun e => rows_wf_b (sh_dim sh) (snd e)) (sh_tab sh).

Fixpoint rows_eqb (a b : list vec) : bool :=
  match a, b with
  | [], [] => true
  | x :: a', y :: b' => veqb x y && rows_eqb a' b'
  | _, _ => false
  end.
Fixpoint tab_eqb (a b : list (N * list vec)) : bool :=
  match a, b with
  | [], [] => true
  | (i, x) :: a', (j, y) :: b' => N.eqb i j && rows_eqb x y && tab_eqb a' b'
  | _, _ => false
  end.
(* MSP.Equal: same matrix, same labelling *)
Definition sharing_eqb (a b : sharing) : bool := Nat.eqb (sh_dim a) (sh_dim b) && tab_eqb (sh_tab a) (sh_tab b).

(* the share of holder i in the dealing with column c (kw DealerFunc.ShareOf); the same
   function applied to the lifted column is the lifted share (LiftedDealerFunc.ShareOf) *)
Definition share_of (sh : sharing) (c : vec) (i : N) : list F := map (fun r => dot r c) (rows sh i).

(* feldman.Scheme.Verify: the holder must exist, the vector must have D entries (LeftAction's
   dimension check), and the lifted share must equal rows(i)·V entry by entry *)
Definition verify (sh : sharing) (i : N) (share : list F) (V : vec) : bool :=
  mem i (holders sh) && Nat.eqb (length V) (sh_dim sh) && veqb share (share_of sh V i).

(* ---- reconstruction through coefficients ---------------------------------------- *)

Definition coefs := list (N * vec).
Definition coef_of (lam : coefs) (i : N) : vec := match lookup i lam with Some v => v | None => [] end.

Fixpoint lincomb (d : nat) (cs : vec) (rs : list vec) : vec :=
  match cs, rs with
  | c :: cs', r :: rs' => vadd (vscale c r) (lincomb d cs' rs')
  | _, _ => vzero d
  end.

(* Σ_{i∈S} Σ_k lam_i[k]·rows_i[k] *)
Definition comb (sh : sharing) (S : list N) (lam : coefs) : vec :=
  vsum (sh_dim sh) (map (fun i => lincomb (sh_dim sh) (coef_of lam i) (rows sh i)) S).

(* "S reconstructs through lam": one coefficient per row of every member, members are
   holders, and the combination of the rows is the target vector e₀ *)
Definition reconstructs_b (sh : sharing) (S : list N) (lam : coefs) : bool :=
  forallb (fun i => mem i (holders sh) && Nat.eqb (length (coef_of lam i)) (length (rows sh i))) S
  && veqb (comb sh S lam) (e0 (sh_dim sh)).

(* ConvertShareToAdditive: ⟨lam_i, share_i⟩ *)
Definition additive (lam : coefs) (i : N) (share : list F) : F := dot (coef_of lam i) share.

Definition fsum (l : list F) : F := fold_right (fadd K) (f0 K) l.

(* Reconstruct with the given coefficients: Σ_{i∈S} ⟨lam_i, share_i⟩ *)
Definition recon (S : list N) (lam : coefs) (shares : N -> list F) : F :=
  fsum (map (fun i => additive lam i (shares i)) S).

(* ---- dealing as coded (kw.DealAndRevealDealerFunc) -------------------------------- *)

(* the dealer samples a random column of D scalars and overwrites entry 0 with the secret;
   NewDealerFunc refuses a column with fewer than 2 rows (one-column MSPs cannot be dealt) *)
Definition deal_col (d : nat) (secret : F) (rnd : vec) : option vec :=
  if Nat.eqb (length rnd) d && Nat.leb 2 d then Some (secret :: tl rnd) else None.

(* ---- HJKY --------------------------------------------------------------------- *)

(* what a party receives from one sender in Round2: the sender's verification vector
   (broadcast) and the zero share addressed to the recipient (unicast) *)
Definition zmsg := (N * (vec * list F))%type.

(* Round1 of party j under the zero sharing zs with random column rnd: own verification
   vector, and the share for every holder *)
Definition hjky_round1 (zs : sharing) (rnd : vec) : option vec := deal_col (sh_dim zs) (f0 K) rnd.

(* Round2 of party i: loop over the other parties in order; Verify, first entry = identity,
   accumulate share and vector *)
Fixpoint hjky_accumulate (zs : sharing) (i : N) (acc_share : list F) (acc_vv : vec) (inbox : list zmsg)
  : res (list F * vec) :=
  match inbox with
  | [] => Ok (acc_share, acc_vv)
  | (j, (vv, share)) :: rest =>
      if negb (verify zs i share vv) then Blame j
      else if negb (feqb K (hd0 vv) (f0 K)) then Blame j
      else if negb (Nat.eqb (length acc_vv) (length vv)) then Blame j   (* VerificationVector.Op dimension check *)
      else hjky_accumulate zs i (vadd acc_share share) (vadd acc_vv vv) rest
  end.

Definition hjky_round2 (zs : sharing) (i : N) (own_col : vec) (inbox : list zmsg) : res (list F * vec) :=
  hjky_accumulate zs i (share_of zs own_col i) own_col inbox.

(* honest run: party j's column from its random scalars *)
Definition zcols := list (N * vec).   (* j ↦ zero column of j *)

Fixpoint hjky_cols (zs : sharing) (rnds : list (N * vec)) : option zcols :=
  match rnds with
  | [] => Some []
  | (j, rnd) :: t =>
      match hjky_round1 zs rnd, hjky_cols zs t with
      | Some c, Some cs => Some ((j, c) :: cs)
      | _, _ => None
      end
  end.

(* the inbox of i in an honest run: messages of all other parties, in order *)
Definition hjky_inbox (zs : sharing) (i : N) (cols : zcols) : list zmsg :=
  map (fun jc => (fst jc, (snd jc, share_of zs (snd jc) i))) (filter (fun jc => negb (N.eqb (fst jc) i)) cols).

Definition hjky_party (zs : sharing) (cols : zcols) (i : N) : res (list F * vec) :=
  match lookup i cols with
  | Some c => hjky_round2 zs i c (hjky_inbox zs i cols)
  | None => Abort
  end.

End Lin.

Arguments sh_dim {F} _. Arguments sh_tab {F} _. Arguments mk_sharing {F} _ _.
