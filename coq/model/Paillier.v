(* Paillier — executable model of pkg/encryption/paillier (public.go, secret.go,
   paillier.go), pkg/encryption/internal/gift, pkg/base/nt/znstar/{paillier,rsa}.go,
   pkg/base/nt/modular/{unknown,primes,squares}.go and pkg/base/nt/crt/crt.go, on Z.

   Public-key ("pk") path  = modular.SimpleModulus: everything modulo N^2 (resp. N).
   Secret-key ("sk") path  = modular.OddPrimeSquareFactors / OddPrimeFactors:
   exponentiation and inversion per prime power with CRT recombination, the
   precomputed constants of NewOddPrimeSquareFactors and SecretKey.precompute.
   No proofs here (proofs/Paillier_proofs.v). *)
From Coq Require Import ZArith Zpow_facts Bool.
Local Open Scope Z_scope.

(* ---- modular primitives (numct.Modulus over saferith) ----------------------- *)

(* ModExp, exponent >= 0 (square and multiply, Zpow_facts.Zpow_mod) *)
Definition modexp (b e n : Z) : Z := Zpow_mod b e n.

(* extended Euclid with fuel; invariant r0 = s0*a, r1 = s1*a (mod n) *)
Fixpoint egcd_aux (fuel : nat) (r0 r1 s0 s1 : Z) : option (Z * Z) :=
  match fuel with
  | O => None
  | S f => if r1 =? 0 then Some (r0, s0)
           else let q := r0 / r1 in egcd_aux f r1 (r0 - q * r1) s1 (s0 - q * s1)
  end.

Definition egcd_fuel (n : Z) : nat := S (S (Z.to_nat (2 * Z.log2_up n + 2))).

(* ModInv: Some x with 0 <= x < n and a*x = 1 (mod n); None when a is not a unit
   (the code returns ok = false) or, never for in-range inputs, on fuel exhaustion *)
Definition modinv (a n : Z) : option Z :=
  if n <=? 1 then None else
  match egcd_aux (egcd_fuel n) n (a mod n) 0 1 with
  | Some (g, s) => if g =? 1 then Some (s mod n) else None
  | None => None
  end.

Definition bitlen (n : Z) : Z := if n <=? 0 then 0 else Z.log2 n + 1.

(* ---- plaintexts (paillier.go) -------------------------------------------------- *)

(* NewPlaintextFromNat: refuses values outside [0,N) *)
Definition plaintext_from_nat (N x : Z) : option Z :=
  if (0 <=? x) && (x <? N) then Some x else None.

(* NewPlaintextSymmetric: -N <= 2x < N, then reduction modulo N *)
Definition plaintext_symmetric (N x : Z) : option Z :=
  if (- N <=? 2 * x) && (2 * x <? N) then Some (x mod N) else None.

(* Plaintext.Normalise (saferith SetModSymmetric): the smaller of z and -z mod N,
   negative when the negation is <= z *)
Definition normalise (N z : Z) : Z :=
  let a := z mod N in
  let neg := (- a) mod N in
  if neg <=? a then - neg else a.

Definition pt_add (N a b : Z) : Z := (a + b) mod N.
Definition pt_neg (N a : Z) : Z := (- a) mod N.
Definition pt_scale (N a k : Z) : Z := (a * k) mod N.

(* ---- public-key path --------------------------------------------------------------- *)

(* PaillierGroup.Representative: ModMul(m, N) mod N^2, then ModAdd 1 *)
Definition representative (N m : Z) : Z := ((m * N) mod (N * N) + 1) mod (N * N).

(* PaillierGroup.NthResidue, unknown order: u.Exp(N) *)
Definition noise (N r : Z) : Z := modexp r N (N * N).

(* CiphertextOp: UnitTrait.Mul *)
Definition cmul (N c1 c2 : Z) : Z := (c1 * c2) mod (N * N).

(* gift.Encrypt: CiphertextOp(Representative(m), IdentityNoise(r)) *)
Definition enc (N m r : Z) : Z := cmul N (representative N m) (noise N r).

(* A plaintext may be carried in a ring Z_M other than Z_N (NewPlaintextFromNat takes any
   modulus; e.g. a curve scalar in Z_q).  PaillierGroup.Representative, hence the public-key
   Representative / EncryptWithNonce, accepts it when M <= N and encodes its VALUE as
   1 + m*N; the secret-key wrappers, Shift, PlaintextOp and PlaintextScalarOp require M = N
   (group membership checks). *)
Definition pk_representative_ring (N M m : Z) : option Z :=
  if (0 <? M) && (M <=? N) then Some (representative N m) else None.
Definition pk_enc_ring (N M m r : Z) : option Z :=
  if (0 <? M) && (M <=? N) then Some (enc N m r) else None.
Definition pt_add_ring (N M a b : Z) : option Z :=
  if M =? N then Some (pt_add N a b) else None.
Definition pt_scale_ring (N M a k : Z) : option Z :=
  if M =? N then Some (pt_scale N a k) else None.

(* the textbook formula c = (1+N)^m r^N mod N^2, evaluated literally *)
Definition textbook (N m r : Z) : Z :=
  (modexp (1 + N) m (N * N) * modexp r N (N * N)) mod (N * N).

(* CiphertextOpInv *)
Definition cinv (N c : Z) : option Z := modinv c (N * N).

(* generic ModExpI (saferith ExpI): b^|k|, inverted when k < 0 *)
Definition modexpi (b k n : Z) : option Z :=
  let z := modexp b (Z.abs k) n in
  if k <? 0 then modinv z n else Some z.

(* CiphertextScalarOp *)
Definition cscale (N c k : Z) : option Z := modexpi c k (N * N).

(* gift.Shift / gift.ReRandomise *)
Definition shift (N c d : Z) : Z := cmul N c (representative N d).
Definition rerandomise (N c r : Z) : Z := cmul N c (noise N r).
Definition shift_ring (N M c d : Z) : option Z :=
  if M =? N then Some (shift N c d) else None.

(* nonces, Z*_N *)
Definition nonce_mul (N r1 r2 : Z) : Z := (r1 * r2) mod N.
Definition nonce_inv (N r : Z) : option Z := modinv r N.
Definition nonce_scale (N r k : Z) : option Z := modexpi r k N.

(* NewNonce / NewCiphertext: FromNatPlus reduces, then must be a unit *)
Definition unit_from (n v : Z) : option Z :=
  if v <=? 0 then None else
  let u := v mod n in if Z.gcd u n =? 1 then Some u else None.

(* ---- secret key: constants as precomputed by the code ---------------------------- *)

Record skey : Set := mkSK {
  sk_p : Z; sk_q : Z;
  sk_qinv : Z;        (* crt.NewParamsExtended(p, q).QInv     = q^-1 mod p        *)
  sk_q2inv : Z;       (* crt.NewParamsExtended(p^2, q^2).QInv = (q^2)^-1 mod p^2  *)
  sk_negqinv_p : Z;   (* SecretKey.negQInvModP = -(q^-1) mod p                    *)
  sk_negpinv_q : Z;   (* SecretKey.negPInvModQ = -(p^-1) mod q                    *)
  sk_qinv_phip : Z;   (* SecretKey.qInvModPhiP = q^-1 mod (p-1)                   *)
  sk_pinv_phiq : Z;   (* SecretKey.pInvModPhiQ = p^-1 mod (q-1)                   *)
  sk_ep2 : Z;         (* NExpP2 = p * (N mod (p-1))                               *)
  sk_eq2 : Z          (* NExpQ2 = q * (N mod (q-1))                               *)
}.

Definition sk_N (k : skey) : Z := sk_p k * sk_q k.

Definition precompute (p q : Z) : option skey :=
  match modinv q p, modinv ((q * q) mod (p * p)) (p * p), modinv p q,
        modinv q (p - 1), modinv p (q - 1) with
  | Some qi, Some q2i, Some pi, Some qphi, Some pphi =>
      Some (mkSK p q qi q2i ((- qi) mod p) ((- pi) mod q) qphi pphi
                 (p * ((p * q) mod (p - 1))) (q * ((p * q) mod (q - 1))))
  | _, _, _, _, _ => None
  end.

(* NewPaillierGroup + newSecretKey(group, minKeyLen): equal prime lengths, distinct
   odd factors, key-size floor, then precompute.  Primality (Miller-Rabin in the
   code) is not decided by the model: callers supply primes. *)
Definition new_secret_key (minlen p q : Z) : option skey :=
  if (bitlen p =? bitlen q) && negb (p =? q) && Z.odd p && Z.odd q
     && (1 <? p) && (1 <? q) && (minlen <=? bitlen (p * q))
  then precompute p q else None.

(* newPublicKey(group, minKeyLen) *)
Definition new_public_key (minlen N : Z) : option Z :=
  if (0 <? N) && (minlen <=? bitlen N) then Some N else None.

(* crt.Params.Recombine: mq + q * (((mp - mq) mod p) * qinv mod p) *)
Definition recombine (p q qinv mp mq : Z) : Z :=
  mq + ((((mp - mq) mod p) * qinv) mod p) * q.

Definition recombine_N (k : skey) (mp mq : Z) : Z :=
  recombine (sk_p k) (sk_q k) (sk_qinv k) mp mq.
Definition recombine_N2 (k : skey) (mp mq : Z) : Z :=
  recombine (sk_p k * sk_p k) (sk_q k * sk_q k) (sk_q2inv k) mp mq.

(* OddPrimeSquareFactors.FermatQuotient, one prime *)
Definition fermat_quotient (p x : Z) : Z :=
  ((modexp x (p - 1) (p * p) - 1) mod (p * p)) / p.

(* SecretKey.Decrypt *)
Definition decrypt (k : skey) (c : Z) : Z :=
  let p := sk_p k in let q := sk_q k in
  let lp := fermat_quotient p c in
  let lq := fermat_quotient q c in
  let mp := (lp * sk_negqinv_p k) mod p in
  let mq := (lq * sk_negpinv_q k) mod q in
  recombine_N k mp mq.

(* Decrypt's membership check: the ciphertext must be an element of Z*_{N^2} for this
   key's N (UnitGroupTrait.Contains compares the moduli); cN is the ciphertext's N *)
Definition decrypt_checked (k : skey) (cN c : Z) : option Z :=
  if cN =? sk_N k then Some (decrypt k c) else None.

(* SecretKey.Open: (m, r) ; None when the recovered value is not a nonce *)
Definition open_ct (k : skey) (c : Z) : option (Z * Z) :=
  let p := sk_p k in let q := sk_q k in let N := sk_N k in
  let m := decrypt k c in
  let gminv := (1 - (m * N) mod (N * N)) mod (N * N) in
  let y := (c * gminv) mod (N * N) in
  let rp := modexp (y mod p) (sk_qinv_phip k) p in
  let rq := modexp (y mod q) (sk_pinv_phiq k) q in
  match unit_from N (recombine_N k rp rq) with
  | Some r => Some (m, r)
  | None => None
  end.

(* ---- secret-key path of the group operations ----------------------------------------- *)

(* OddPrimeSquareFactors.ExpToN (NthResidue with known order) *)
Definition sk_noise (k : skey) (r : Z) : Z :=
  let p := sk_p k in let q := sk_q k in
  recombine_N2 k (modexp r (sk_ep2 k) (p * p)) (modexp r (sk_eq2 k) (q * q)).

(* OddPrimeSquareFactors.ModMul is N2.ModMul: the same as the public path *)
Definition sk_cmul (k : skey) (c1 c2 : Z) : Z := cmul (sk_N k) c1 c2.

Definition sk_enc (k : skey) (m r : Z) : Z :=
  sk_cmul k (representative (sk_N k) m) (sk_noise k r).

(* SecretKey.EncryptWithNonce refuses a plaintext that is not an element of Z_N *)
Definition sk_enc_ring (k : skey) (M m r : Z) : option Z :=
  if M =? sk_N k then Some (sk_enc k m r) else None.

(* OddPrimeSquareFactors.ModExp: exponent reduced modulo phi(p^2) when the base is
   coprime to p, full exponent otherwise.  (As the code stands, `ep.Select(c, exp, &ep)`
   aliases its destination with its second alternative -- numct.Nat.Select first copies
   x0 = exp into ep -- so the full exponent is what is actually used in both cases; the
   reduced exponent written in the source is modelled here, and sk_modexp2_eq proves both
   give the value of the plain exponentiation, so either behaviour satisfies the theorems.) *)
Definition sk_modexp2 (k : skey) (b e : Z) : Z :=
  let p := sk_p k in let q := sk_q k in
  let ep := if Z.gcd b p =? 1 then e mod (p * (p - 1)) else e in
  let eq := if Z.gcd b q =? 1 then e mod (q * (q - 1)) else e in
  recombine_N2 k (modexp b ep (p * p)) (modexp b eq (q * q)).

(* OddPrimeSquareFactors.ModInv *)
Definition sk_modinv2 (k : skey) (a : Z) : option Z :=
  let p := sk_p k in let q := sk_q k in
  match modinv (a mod (p * p)) (p * p), modinv (a mod (q * q)) (q * q) with
  | Some ip, Some iq => Some (recombine_N2 k ip iq)
  | _, _ => None
  end.

(* OddPrimeSquareFactors.ModExpI *)
Definition sk_cscale (k : skey) (c s : Z) : option Z :=
  let z := sk_modexp2 k c (Z.abs s) in
  if s <? 0 then sk_modinv2 k z else Some z.

Definition sk_cinv (k : skey) (c : Z) : option Z := sk_modinv2 k c.
Definition sk_shift (k : skey) (c d : Z) : Z := sk_cmul k c (representative (sk_N k) d).
Definition sk_rerandomise (k : skey) (c r : Z) : Z := sk_cmul k c (sk_noise k r).

(* nonce group with known order: modular.OddPrimeFactors *)
Definition sk_nonce_mul (k : skey) (a b : Z) : Z :=
  let p := sk_p k in let q := sk_q k in
  recombine_N k (((a mod p) * (b mod p)) mod p) (((a mod q) * (b mod q)) mod q).

Definition sk_modexp1 (k : skey) (b e : Z) : Z :=
  let p := sk_p k in let q := sk_q k in
  let ep := if Z.gcd b p =? 1 then e mod (p - 1) else e in
  let eq := if Z.gcd b q =? 1 then e mod (q - 1) else e in
  recombine_N k (modexp b ep p) (modexp b eq q).

Definition sk_modinv1 (k : skey) (a : Z) : option Z :=
  let p := sk_p k in let q := sk_q k in
  match modinv (a mod p) p, modinv (a mod q) q with
  | Some ip, Some iq => Some (recombine_N k ip iq)
  | _, _ => None
  end.

Definition sk_nonce_inv (k : skey) (r : Z) : option Z := sk_modinv1 k r.
Definition sk_nonce_scale (k : skey) (r s : Z) : option Z :=
  let z := sk_modexp1 k r (Z.abs s) in
  if s <? 0 then sk_modinv1 k z else Some z.
