(* Vss.v — executable model of Feldman and Pedersen verifiable secret sharing over an MSP
   (vss/feldman/{scheme,dealerfunc,verification_vector,share}.go, vss/pedersen/{scheme,dealerfunc,share}.go,
   the share check of mpc.NewBaseShard), IN THE EXPONENT (DESIGN.md §3 L3): a group element x·G is
   its scalar x; a Pedersen commitment m·G + r·H is the linear form (m, r) over {G, H} (L3').
   No proofs here.

     feldman.NewVerificationVector(value, msp)   -> [new_vv]          (length = D)
     VerificationVector.Op                       -> [vv_op]           (equal dimensions, entry-wise Op)
     NewLiftedDealerFunc / LeftAction            -> [lifted_lambda]   (refuses length <> D)
     LiftedDealerFunc.ShareOf                    -> [lifted_share]
     Scheme.Verify (LiftShare + LiftedShare.Equal) -> [feldman_verify]
     Scheme.ReconstructInTheExponent             -> [recon_exp]
     mpc.NewBaseShard's share check              -> [base_shard_ok]   (NewBasePublicMaterial: length = D)
     pedersen.Scheme.Verify                      -> [pedersen_verify] *)
From Coq Require Import List NArith Bool Arith.
Import ListNotations.
Require Import V.base.Fld V.model.LinAlg V.model.Access V.model.Msp V.model.Kw.

Fixpoint list_eqb {A : Type} (eqb : A -> A -> bool) (a b : list A) : bool :=
  match a, b with
  | [], [] => true
  | x :: a', y :: b' => eqb x y && list_eqb eqb a' b'
  | _, _ => false
  end.

Section Vss.
Context {F : Type} (K : fops F).

(* a verification vector: the exponents of its entries *)
Definition vvec := list F.

Definition new_vv (m : msp (F:=F)) (V : vvec) : bool :=
  negb (Nat.eqb (length V) 0) && Nat.eqb (length V) (msp_D m).

Definition vv_op (V1 V2 : vvec) : option vvec :=
  if Nat.eqb (length V1) (length V2)
  then Some (map (fun ab => fadd K (fst ab) (snd ab)) (combine V1 V2)) else None.

(* LeftAction(M, V): dimension check cols(M) = rows(V), then M·V in the exponent *)
Definition lifted_lambda (m : msp (F:=F)) (V : vvec) : option (list F) :=
  if Nat.eqb (msp_D m) (length V) then Some (mvec K (msp_M m) V) else None.

Definition lifted_share (m : msp (F:=F)) (V : vvec) (id : N) : option (list F) :=
  match lifted_lambda m V with
  | None => None
  | Some lam =>
    match rows_of m id with
    | [] => None                                   (* holder not in the MSP *)
    | rows => Some (map (fun i => nth i lam (f0 K)) rows)
    end
  end.

(* Verify(share, V): the lifted share derived from V equals the share lifted by hand (same
   length, equal entries) *)
Definition feldman_verify (m : msp (F:=F)) (sh : share (F:=F)) (V : vvec) : bool :=
  match lifted_share m V (fst sh) with
  | None => false
  | Some ls => list_eqb (feqb K) ls (snd sh)
  end.

(* NewBaseShard: NewBasePublicMaterial insists on length V = D, then the same comparison *)
Definition base_shard_ok (m : msp (F:=F)) (sh : share (F:=F)) (V : vvec) : bool :=
  Nat.eqb (length V) (msp_D m) && feldman_verify m sh V.

(* ReconstructInTheExponent(lifted shares): reconstruction vector of the listed IDs, lifted values
   by ascending row (a later share overwrites), Σ coeff_i · value_i over the rows present *)
Definition recon_exp (m : msp (F:=F)) (shares : list (share (F:=F))) : option F :=
  match shares with
  | [] => None
  | _ =>
    match recon_vector K m (map fst shares) with
    | None => None
    | Some rv =>
      if forallb (fun sh => match rows_of m (fst sh) with
                            | [] => false
                            | rows => Nat.eqb (length rows) (length (snd sh))
                            end) shares
      then
        let byrow := flat_map (fun sh => combine (rows_of m (fst sh)) (snd sh)) (rev shares) in
        let keys := filter (fun r => match lookup_row r byrow with Some _ => true | None => false end)
                           (seq 0 (msp_size m)) in
        let vals := map (fun r => match lookup_row r byrow with Some v => v | None => f0 K end) keys in
        Some (dot K rv vals)
      else None
    end
  end.

(* ---- Pedersen: entries are linear forms a·G + b·H, kept as two exponent vectors ------------------ *)

Definition pedersen_verify (m : msp (F:=F)) (id : N) (secrets blindings : list F) (VA VB : vvec) : bool :=
  Nat.eqb (length VA) (length VB)
  && Nat.eqb (length secrets) (length blindings)
  && feldman_verify m (id, secrets) VA && feldman_verify m (id, blindings) VB.

End Vss.
