(* Bls.v — BLS signatures of pkg/signatures/bls in the exponent (DESIGN §3 L3/L3').

   Both source groups have prime order q.  A key-group element a·G_key is the residue a.
   The signature group contains the hash-to-curve outputs, whose discrete logarithms
   nobody knows: its elements are linear forms  c0·G_sig + Σ c_h·H(h)  over Z_q with one
   fresh basis element per hash input h = (domain separation tag, payload); equality is
   coefficient-wise.  The pairing is multiplication: e(a·G_key, f) = a·f, a product of
   pairings is a sum of forms, the unit of GT is the zero form.
   Subgroup membership (IsTorsionFree) is a flag carried by every element handed to a
   verifier; the algebra of an element whose flag is false is never used.
   [pkenc a] is the byte encoding of the public key a·G_key (section variable).
   Executable; no proofs. *)
From Coq Require Import ZArith List Bool.
Import ListNotations.
Local Open Scope Z_scope.

Definition hin := (Z * list Z)%type.             (* DST id, payload bytes *)

Fixpoint bytes_eqb (a b : list Z) : bool :=
  match a, b with
  | [], [] => true
  | x :: a', y :: b' => (x =? y) && bytes_eqb a' b'
  | _, _ => false
  end.

Definition hin_eqb (a b : hin) : bool := (fst a =? fst b) && bytes_eqb (snd a) (snd b).

Definition form := (Z * list (hin * Z))%type.

Section Bls.
  Variable q : Z.
  Variable pkenc : Z -> list Z.

  (* ---- linear forms -------------------------------------------------------------------- *)
  Fixpoint coef_terms (ts : list (hin * Z)) (h : hin) : Z :=
    match ts with
    | [] => 0
    | (h', c) :: rest => (if hin_eqb h' h then c else 0) + coef_terms rest h
    end.
  Definition coef (f : form) (h : hin) : Z := coef_terms (snd f) h mod q.
  Definition const (f : form) : Z := fst f mod q.

  Definition fzero : form := (0, []).
  Definition fgen (c : Z) : form := (c, []).
  Definition fbasis (h : hin) : form := (0, [(h, 1)]).
  Definition fadd (f g : form) : form := (fst f + fst g, snd f ++ snd g).
  Definition fscale (a : Z) (f : form) : form :=
    (a * fst f, map (fun t => (fst t, a * snd t)) (snd f)).
  Definition fneg (f : form) : form := fscale (-1) f.

  Definition form_is0 (f : form) : bool :=
    (const f =? 0) && forallb (fun t => coef f (fst t) =? 0) (snd f).
  Definition form_eqb (f g : form) : bool := form_is0 (fadd f (fneg g)).

  Fixpoint fsum (fs : list form) : form :=
    match fs with [] => fzero | f :: r => fadd f (fsum r) end.

  (* ---- elements ------------------------------------------------------------------------ *)
  Record kel := mk_kel { k_sub : bool; k_a : Z }.          (* key group *)
  Record sel := mk_sel { s_sub : bool; s_f : form }.       (* signature group *)

  Definition k_is_id (k : kel) : bool := k_sub k && (k_a k mod q =? 0).
  Definition s_is_id (s : sel) : bool := s_sub s && form_is0 (s_f s).

  (* domain separation tags of the cipher suite (per variant they are four distinct strings) *)
  Definition dst_basic : Z := 1.
  Definition dst_aug : Z := 2.
  Definition dst_pop_sig : Z := 3.
  Definition dst_pop_proof : Z := 4.

  Inductive scheme := Basic | Aug | Pop.

  Definition sig_dst (sc : scheme) : Z :=
    match sc with Basic => dst_basic | Aug => dst_aug | Pop => dst_pop_sig end.

  (* ---- core operations (core.go) ------------------------------------------------------- *)
  (* coreSign: sk·H(dst, msg) *)
  Definition core_sign (x : Z) (dst : Z) (payload : list Z) : option sel :=
    if x mod q =? 0 then None else Some (mk_sel true (fscale x (fbasis (dst, payload)))).

  (* coreVerify: e(H(m), −pk) · e(σ, G) = 1 *)
  Definition core_verify (pk : kel) (payload : list Z) (sg : sel) (dst : Z) : bool :=
    if s_is_id sg then false
    else if negb (s_sub sg) then false
    else if k_is_id pk then false
    else if negb (k_sub pk) then false
    else form_is0 (fadd (fscale (- k_a pk) (fbasis (dst, payload))) (s_f sg)).

  (* coreAggregateVerify: Π e(H(m_i), pk_i) · e(−σ, G) = 1 *)
  Fixpoint agg_guard (pks : list kel) : bool :=
    match pks with
    | [] => true
    | pk :: r => if k_is_id pk then false else if negb (k_sub pk) then false else agg_guard r
    end.
  Fixpoint agg_sum (pks : list kel) (payloads : list (list Z)) (dst : Z) : form :=
    match pks, payloads with
    | pk :: r, m :: ms => fadd (fscale (k_a pk) (fbasis (dst, m))) (agg_sum r ms dst)
    | _, _ => fzero
    end.
  Definition core_aggregate_verify (pks : list kel) (payloads : list (list Z)) (sg : sel) (dst : Z) : bool :=
    match pks with
    | [] => false
    | _ =>
      if negb (Nat.eqb (length pks) (length payloads)) then false
      else if s_is_id sg then false
      else if negb (s_sub sg) then false
      else if negb (agg_guard pks) then false
      else form_is0 (fadd (agg_sum pks payloads dst) (fneg (s_f sg)))
    end.

  (* AugmentMessage *)
  Definition augment (pk : kel) (m : list Z) : option (list Z) :=
    if k_is_id pk then None else if negb (k_sub pk) then None else Some (pkenc (k_a pk mod q) ++ m).

  (* popVerify *)
  Definition pop_verify (pk : kel) (pop : sel) : bool :=
    if k_is_id pk then false else if negb (k_sub pk) then false
    else core_verify pk (pkenc (k_a pk mod q)) pop dst_pop_proof.

  (* ---- Signer ------------------------------------------------------------------------- *)
  Record bsig := mk_bsig { b_v : sel; b_pop : option sel }.

  Definition bls_sign (sc : scheme) (x : Z) (m : list Z) : option bsig :=
    match m with
    | [] => None
    | _ =>
      match sc with
      | Basic => match core_sign x dst_basic m with Some v => Some (mk_bsig v None) | None => None end
      | Aug =>
          match augment (mk_kel true x) m with
          | None => None
          | Some am => match core_sign x dst_aug am with Some v => Some (mk_bsig v None) | None => None end
          end
      | Pop =>
          match core_sign x dst_pop_proof (pkenc (x mod q)) with
          | None => None
          | Some pp => match core_sign x dst_pop_sig m with Some v => Some (mk_bsig v (Some pp)) | None => None end
          end
      end
    end.

  (* AggregateSign: one key, several messages, Σ sk·H(m_i) *)
  Definition aggregate_sign_value (x : Z) (dst : Z) (payloads : list (list Z)) : form :=
    fsum (map (fun m => fscale x (fbasis (dst, m))) payloads).

  (* ---- Verifier ------------------------------------------------------------------------ *)
  Definition bls_verify (sc : scheme) (sg : bsig) (pk : kel) (m : list Z) : bool :=
    match m with
    | [] => false
    | _ =>
      if negb (k_sub pk) then false
      else if k_is_id pk then false
      else if negb (s_sub (b_v sg)) then false
      else if s_is_id (b_v sg) then false
      else
        match sc with
        | Basic => core_verify pk m (b_v sg) dst_basic
        | Aug => match augment pk m with
                 | None => false
                 | Some am => core_verify pk am (b_v sg) dst_aug
                 end
        | Pop => match b_pop sg with
                 | None => false
                 | Some pp => if pop_verify pk pp then core_verify pk m (b_v sg) dst_pop_sig else false
                 end
        end
    end.

  Fixpoint all_distinct (ms : list (list Z)) : bool :=
    match ms with
    | [] => true
    | m :: r => negb (existsb (bytes_eqb m) r) && all_distinct r
    end.
  Definition all_same (ms : list (list Z)) : bool :=
    match ms with
    | [] => false
    | m :: r => forallb (bytes_eqb m) r
    end.

  Fixpoint augment_all (pks : list kel) (ms : list (list Z)) : option (list (list Z)) :=
    match pks, ms with
    | pk :: r, m :: ms' =>
        match augment pk m, augment_all r ms' with
        | Some am, Some rest => Some (am :: rest)
        | _, _ => None
        end
    | _, _ => Some []
    end.

  Fixpoint pops_ok (pks : list kel) (pops : list sel) : bool :=
    match pks, pops with
    | pk :: r, pp :: ps => pop_verify pk pp && pops_ok r ps
    | _, _ => true
    end.

  (* AggregateAll over public keys (TryAdd): sum of the discrete logs *)
  Definition agg_pk (pks : list kel) : kel :=
    mk_kel true (fold_right (fun pk acc => (k_a pk + acc) mod q) 0 pks).

  (* Verifier.AggregateVerify *)
  Definition aggregate_verify (sc : scheme) (sg : sel) (pks : list kel) (ms : list (list Z)) (pops : list sel) : bool :=
    if negb (Nat.eqb (length pks) (length ms)) then false
    else if negb (forallb (fun pk => k_sub pk && negb (k_is_id pk)) pks) then false
    else if negb (s_sub sg) then false
    else if s_is_id sg then false
    else
      match sc with
      | Basic =>
          match pops with
          | _ :: _ => false
          | [] => if all_distinct ms then core_aggregate_verify pks ms sg dst_basic else false
          end
      | Pop =>
          if negb (Nat.eqb (length pks) (length pops)) then false
          else if negb (pops_ok pks pops) then false
          else if all_same ms
               then core_verify (agg_pk pks) (hd [] ms) sg dst_pop_sig      (* FastAggregateVerify *)
               else core_aggregate_verify pks ms sg dst_pop_sig
      | Aug =>
          match pops with
          | _ :: _ => false
          | [] => match augment_all pks ms with
                  | None => false
                  | Some ams => core_aggregate_verify pks ams sg dst_aug
                  end
          end
      end.

  (* Scheme.AggregateSignatures on the values (TryAdd checks every element but the first) *)
  Fixpoint aggregate_values (acc : sel) (rest : list sel) : option sel :=
    match rest with
    | [] => Some acc
    | s :: r =>
        if s_is_id s then None
        else if negb (s_sub s) then None
        else aggregate_values (mk_sel (s_sub acc) (fadd (s_f acc) (s_f s))) r
    end.
  Definition aggregate_signatures (sigs : list sel) : option sel :=
    match sigs with
    | [] => None
    | s :: r => aggregate_values s r
    end.
End Bls.
