(* ScalarMul.v — the fixed-window scalar multiplication and the bucket multi-scalar
   multiplication of pkg/base/algebra/impl/mul.go (ScalarMulLowLevel,
   MultiScalarMulLowLevel), written loop-for-loop over an ABSTRACT group given by
   section variables (zero, add, dbl, is_zero).  pkg/base/utils/algebrautils has the
   same two algorithms on big-endian byte strings with [dbl x := add x x]; they are
   [scalar_mul_window_be] / [msm_be].  Executable, no proofs.

   Bytes are N (each < 256 in every use); a scalar is a LITTLE-endian byte list. *)
From Coq Require Import NArith List Bool.
Import ListNotations.
Local Open Scope N_scope.

Section ScalarMul.
  Context {G : Type} (zero : G) (add : G -> G -> G) (dbl : G -> G) (is_zero : G -> bool).

  (* precomputed[0] = 0, [1] = P, for i = 2,4,..,14: [i] = Double([i/2]); [i+1] = Add([i], P) *)
  Fixpoint build_table (P : G) (j : nat) (cnt : nat) (tbl : list G) : list G :=
    match cnt with
    | O => tbl
    | S c => let d := dbl (nth j tbl zero) in build_table P (S j) c (tbl ++ [d; add d P])
    end.
  Definition precompute (P : G) : list G := build_table P 1 7 [zero; P].

  Definition dbl4 (r : G) : G := dbl (dbl (dbl (dbl r))).

  (* one byte: high nibble first, then low nibble *)
  Definition window_step (tbl : list G) (r : G) (byte : N) : G :=
    let r1 := add (dbl4 r) (nth (N.to_nat ((byte / 16) mod 16)) tbl zero) in
    add (dbl4 r1) (nth (N.to_nat (byte mod 16)) tbl zero).

  (* for i := len(s)-1; i >= 0; i-- : most significant byte (last) first *)
  Definition scalar_mul_window (P : G) (s : list N) : G :=
    fold_left (window_step (precompute P)) (rev s) zero.

  (* algebrautils.scalarMul: big-endian input, doubling by Op(res,res) — same loop *)
  Definition scalar_mul_window_be (P : G) (s : list N) : G :=
    fold_left (window_step (precompute P)) s zero.

  (* ---- MultiScalarMulLowLevel -------------------------------------------------------- *)

  (* bits.Len *)
  Definition bits_len (n : N) : N := match n with 0 => 0 | Npos p => N.succ (N.log2 (Npos p)) end.

  Definition window_bits (n : N) : N :=
    let w := bits_len n in
    if w <? 2 then 2 else if 16 <? w then 16 else w.

  Definition max_bits (scalars : list (list N)) : N :=
    fold_left (fun m s => N.max m (8 * N.of_nat (length s))) scalars 0.

  (* getWindow: bits start .. start+w-1 of the little-endian string b, stopping ("break") at
     the first bit index beyond the string *)
  Fixpoint get_window_aux (b : list N) (start : N) (k : nat) (w : nat) : N :=
    match w with
    | O => 0
    | S w' =>
        let bit_index := start + N.of_nat k in
        let byte_index := bit_index / 8 in
        if N.of_nat (length b) <=? byte_index then 0     (* break *)
        else
          let bit := N.land (N.shiftr (nth (N.to_nat byte_index) b 0) (bit_index mod 8)) 1 in
          N.lor (N.shiftl bit (N.of_nat k)) (get_window_aux b start (S k) w')
    end.
  Definition get_window (b : list N) (start : N) (w : N) : N :=
    match b with [] => 0 | _ => get_window_aux b start 0 (N.to_nat w) end.

  Fixpoint iter_n {A} (n : nat) (f : A -> A) (x : A) : A :=
    match n with O => x | S k => iter_n k f (f x) end.

  Fixpoint update_nth {A} (i : nat) (f : A -> A) (l : list A) : list A :=
    match l, i with
    | [], _ => []
    | x :: r, O => f x :: r
    | x :: r, S j => x :: update_nth j f r
    end.

  (* for i := range n { win := getWindow(..); if win == 0 {continue}; buckets[win].Add(buckets[win], points[i]) } *)
  Fixpoint fill_buckets (buckets : list G) (points : list G) (scalars : list (list N)) (start w : N) : list G :=
    match points, scalars with
    | P :: ps, s :: ss =>
        let win := get_window s start w in
        let buckets' := if win =? 0 then buckets else update_nth (N.to_nat win) (fun b => add b P) buckets in
        fill_buckets buckets' ps ss start w
    | _, _ => buckets
    end.

  (* for k := windowSize-1; k > 0; k-- { if !buckets[k].IsZero() { running += buckets[k] }; acc += running }
     [k] counts down from windowSize-1; bucket 0 is never read *)
  Fixpoint running_sum (buckets : list G) (k : nat) (running acc : G) : G :=
    match k with
    | O => acc
    | S k' =>
        let b := nth k buckets zero in
        let running' := if is_zero b then running else add running b in
        running_sum buckets k' running' (add acc running')
    end.

  Definition window_round (points : list G) (scalars : list (list N)) (w : N) (acc : G) (wIdx : N) : G :=
    let acc1 := iter_n (N.to_nat w) (fun x => add x x) acc in
    let buckets := repeat zero (N.to_nat (2 ^ w)) in
    let buckets := fill_buckets buckets points scalars (wIdx * w) w in
    running_sum buckets (N.to_nat (2 ^ w) - 1) zero acc1.

  (* window indices numWindows-1 downto 0 *)
  Fixpoint down_from (n : nat) : list N :=
    match n with O => [] | S k => N.of_nat k :: down_from k end.

  Definition msm_naive (points : list G) (scalars : list (list N)) : G :=
    fold_left (fun acc ps => add acc (scalar_mul_window (fst ps) (snd ps))) (combine points scalars) zero.

  (* None = the code panics (length mismatch) *)
  Definition msm (points : list G) (scalars : list (list N)) : option G :=
    let n := length points in
    if negb (Nat.eqb n (length scalars)) then None
    else if Nat.eqb n 0 then Some zero
    else if Nat.leb n 7 then Some (msm_naive points scalars)
    else
      let mb := max_bits scalars in
      if mb =? 0 then Some zero
      else
        let w := window_bits (N.of_nat n) in
        let num_windows := (mb + w - 1) / w in
        Some (fold_left (window_round points scalars w) (down_from (N.to_nat num_windows)) zero).

  (* the bucket path alone (used by the correspondence to exercise it for every length) *)
  Definition msm_buckets (points : list G) (scalars : list (list N)) (w : N) : G :=
    let mb := max_bits scalars in
    let num_windows := (mb + w - 1) / w in
    fold_left (window_round points scalars w) (down_from (N.to_nat num_windows)) zero.
End ScalarMul.
