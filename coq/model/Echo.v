(* Echo.v — executable model of the echo broadcast rounds of
   pkg/network/echo/rounds.go (property C11).

   Payloads are byte strings.  The SHA3-256 digest is idealised as an injective
   term constructor (DESIGN §3 L4): [DHash b] is the digest of [b]; [DZero] is the
   all-zero array Go yields for a key missing from the EchoHashes map.  No proofs. *)
From Coq Require Import List NArith Bool.
Import ListNotations.
Require Import V.base.Bytes V.model.Router.

Inductive digest := DZero | DHash (b : bytes).

Definition echo_hash (b : bytes) : digest := DHash b.

Definition digest_eqb (a b : digest) : bool :=
  match a, b with
  | DZero, DZero => true
  | DHash x, DHash y => beqb x y
  | _, _ => false
  end.

(* Round2P2P: the digests of every round-1 payload, keyed by sender *)
Definition r2msg := list (N * digest).

(* Participant.state.messages *)
Definition estate := list (N * bytes).

(* the quorum without the party itself, in quorum order *)
Definition others (self : N) (quorum : list N) : list N :=
  filter (fun id => negb (N.eqb id self)) quorum.

(* Round1: the same serialised message to every other party *)
Definition round1 (self : N) (quorum : list N) (msg : bytes) : estate * list (N * bytes) :=
  ([(self, msg)], map (fun id => (id, msg)) (others self quorum)).

(* Round2: a missing round-1 message fails; otherwise remember every payload and
   send the table of digests to everybody else *)
Definition round2 (self : N) (quorum : list N) (st : estate) (r1 : list (N * bytes))
  : option (estate * list (N * r2msg)) :=
  match collect (others self quorum) r1 with
  | None => None
  | Some got =>
    let hashes := map (fun ip => (fst ip, echo_hash (snd ip))) got in
    let st' := fold_left (fun acc ip => aset N.eqb (fst ip) (snd ip) acc) got st in
    Some (st', map (fun id => (id, hashes)) (others self quorum))
  end.

Definition stored (st : estate) (id : N) : bytes :=
  match alookup N.eqb id st with Some m => m | None => [] end.

Definition echoed (e : r2msg) (id : N) : digest :=
  match alookup N.eqb id e with Some d => d | None => DZero end.

(* the inner loop of Round3 for one sender [id]: every other party's echo of [id] must
   equal the digest of what this party holds from [id] *)
Fixpoint check_echoes (self id : N) (echoers : list N) (msg : bytes) (r2 : list (N * r2msg)) : bool :=
  match echoers with
  | [] => true
  | e :: rest =>
    if N.eqb e self || N.eqb e id then check_echoes self id rest msg r2
    else
      match alookup N.eqb e r2 with
      | None => false
      | Some m => digest_eqb (echo_hash msg) (echoed m id) && check_echoes self id rest msg r2
      end
  end.

Fixpoint round3_loop (self : N) (quorum : list N) (ids : list N) (st : estate) (r2 : list (N * r2msg))
  : option (list (N * bytes)) :=
  match ids with
  | [] => Some []
  | id :: rest =>
    if N.eqb id self then round3_loop self quorum rest st r2
    else
      let msg := stored st id in
      if check_echoes self id quorum msg r2 then
        match round3_loop self quorum rest st r2 with
        | None => None
        | Some res => Some ((id, msg) :: res)
        end
      else None
  end.

(* Round3: None = ErrFailed (missing or mismatched echo); Some = the delivered payloads *)
Definition round3 (self : N) (quorum : list N) (st : estate) (r2 : list (N * r2msg))
  : option (list (N * bytes)) :=
  round3_loop self quorum quorum st r2.
