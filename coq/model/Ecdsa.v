(* Ecdsa.v — ECDSA of pkg/signatures/ecdsa in the exponent (DESIGN §3 L3).

   The group <G> of prime order n is Z_n: the point k·G is the residue k, scalar
   multiplication is multiplication mod n.  What ECDSA needs beyond the group
   structure is the affine x-coordinate of a point (an integer below the base-field
   prime p), the parity of its y-coordinate and the inverse map "point with this x and
   this y-parity" (Curve.FromAffineX).  These are section variables:
     xf k        affine x of k·G              (k in [1,n-1])
     yodd k      y of k·G is odd
     lift x b    Some k when k·G has affine x-coordinate x and y-parity b, None when no
                 curve point has that x-coordinate
   Executable; no proofs.  Scalars are canonical representatives in [0,n).
   Signer.Sign hands the digest to crypto/ecdsa, which draws the nonce k itself; the
   model takes k as an input (the harness reconstructs it). *)
From Coq Require Import ZArith List Bool.
Import ListNotations.
Require Import V.base.Fld.
Local Open Scope Z_scope.

Section Ecdsa.
  Variables n p : Z.
  Variable xf : Z -> Z.
  Variable yodd : Z -> bool.
  Variable lift : Z -> bool -> option Z.

  Definition addn (a b : Z) : Z := (a + b) mod n.
  Definition muln (a b : Z) : Z := (a * b) mod n.
  Definition negn (a : Z) : Z := (- a) mod n.
  Definition invn (a : Z) : Z := zp_inv n a.

  (* r = x(k·G) mod n *)
  Definition xc (k : Z) : Z := xf k mod n.

  Record sig := mk_sig { sr : Z; ss : Z; sv : option Z }.

  (* NewSignature: r, s non-zero scalars, v in 0..3 when present *)
  Definition new_signature (r s : Z) (v : option Z) : option sig :=
    if (r =? 0) || (s =? 0) then None
    else match v with
         | Some w => if (w <? 0) || (3 <? w) then None else Some (mk_sig r s v)
         | None => Some (mk_sig r s None)
         end.

  (* ComputeRecoveryID (exported helper; note the strict comparison rx > n) *)
  Definition compute_recovery_id (k : Z) : Z :=
    (if yodd k then 1 else 0) + (if n <? xf k then 2 else 0).

  (* RecoverPublicKey: discrete log of the recovered key, None on any error branch.
     e is the digest as an integer (DigestToScalar reduces it mod n). *)
  Definition recover (r s v e : Z) : option Z :=
    let rx0 := r mod p in
    let rx := if Z.testbit v 1 then (rx0 + n mod p) mod p else rx0 in
    match lift rx (Z.testbit v 0) with
    | None => None                                    (* FromAffineX fails *)
    | Some kR =>
        if r =? 0 then None                           (* r.TryInv fails *)
        else
          let q := muln (addn (muln kR s) (negn e)) (invn r) in   (* (s·R − z·G)·r⁻¹ *)
          if q =? 0 then None                         (* NewPublicKey: zero point *)
          else Some q
    end.

  (* what crypto/ecdsa computes from nonce k: None stands for "draw another k" *)
  Definition sign_rs (d e k : Z) : option (Z * Z) :=
    let r := xc k in
    if r =? 0 then None
    else let s := muln (invn k) (addn e (muln r d)) in
         if s =? 0 then None else Some (r, s).

  (* the loop "for i in 0..3: recover and compare with the signer's key" *)
  Fixpoint find_v (cands : list Z) (r s e d : Z) : option Z :=
    match cands with
    | [] => None
    | v :: rest =>
        match recover r s v e with
        | Some q => if q =? d then Some v else find_v rest r s e d
        | None => find_v rest r s e d
        end
    end.

  Definition ecdsa_sign (d e k : Z) : option sig :=
    match sign_rs d e k with
    | None => None
    | Some (r, s) =>
        match find_v [0; 1; 2; 3] r s e d with
        | None => None                                (* "cannot compute recovery id" *)
        | Some v => Some (mk_sig r s (Some v))
        end
    end.

  (* crypto/ecdsa.Verify on (r, s), digest e, public key d·G *)
  Definition verify_core (r s e d : Z) : bool :=
    if (r <=? 0) || (s <=? 0) || (n <=? r) || (n <=? s) then false
    else
      let w := invn s in
      let u := addn (muln e w) (muln (muln r w) d) in    (* u1·G + u2·Q *)
      if u =? 0 then false                               (* point at infinity *)
      else xc u =? r.

  (* Signature.IsNormalized: s <= n − s as integers *)
  Definition is_normalized (s : Z) : bool := s <=? negn s.

  (* Verifier.Verify; strict = VerifyNonMalleably; the key is d·G with d in [1,n-1] *)
  Definition ecdsa_verify (strict : bool) (sg : sig) (d e : Z) : bool :=
    if strict && negb (is_normalized (ss sg)) then false
    else
      match sv sg with
      | Some v =>
          match recover (sr sg) (ss sg) v e with
          | None => false
          | Some q => if q =? d then verify_core (sr sg) (ss sg) e d else false
          end
      | None => verify_core (sr sg) (ss sg) e d
      end.

  (* Signature.Normalise *)
  Definition normalise (sg : sig) : sig :=
    if is_normalized (ss sg) then sg
    else mk_sig (sr sg) (negn (ss sg))
                (match sv sg with Some v => Some (Z.lxor v 1) | None => None end).

  (* the documented equivalent form: (r, n−s, v xor 1) *)
  Definition flip (sg : sig) : sig :=
    mk_sig (sr sg) (negn (ss sg))
           (match sv sg with Some v => Some (Z.lxor v 1) | None => None end).
End Ecdsa.
