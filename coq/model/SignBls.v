(* SignBls.v — executable model of Boldyreva threshold BLS signing
   (pkg/mpc/signatures/bls/boldyreva02/signing/{participant,aggregator}.go).

   Key group in the exponent: the public key x·g is the scalar x.  The signature group is
   modelled generically: nobody knows the discrete log of a hash-to-curve output, so an
   element of the signature group that the protocol can form is  c·H(i)  for a hash input
   i : Hin (destination tag + message bytes) and a coefficient c : F; it is the pair (i, c).
   The pairing equation e(pk, H(i)) = e(g, sigma) for sigma = (i', c) holds iff i' = i and
   c = x (bilinearity + non-degeneracy; L3 of the design).

   A holder owns one share component ("row") per MSP row labelled with it; the partial
   signature has one component per row (SigmaI), plus one proof-of-possession component
   per row in POP mode (SigmaPopI).  The aggregator reconstructs "in the exponent" with
   the reconstruction coefficients of the rows of the quorum.  No proofs here. *)
From Coq Require Import List Bool Arith ZArith.
Import ListNotations.
Require Import V.base.Fld.

Inductive rogue_mode := Basic | MessageAugmentation | POP.
Inductive key_size := ShortKey | LongKey.

Section Bls.
  Context {F : Type} (K : fops F) {Msg Hin : Type}.
  Variable hin_eqb : Hin -> Hin -> bool.
  (* the hash-to-curve input of a message signature under a mode: DST of (mode, key size),
     message prefixed with the public key for MessageAugmentation *)
  Variable hmsg : rogue_mode -> key_size -> F -> Msg -> Hin.
  (* the hash-to-curve input of a proof of possession: POP DST, public key bytes *)
  Variable hpop : key_size -> F -> Hin.
  Variable msg_empty : Msg -> bool.

  Local Notation "x + y" := (fadd K x y).
  Local Notation "x * y" := (fmul K x y).

  Definition sgel := (Hin * F)%type.                       (* c·H(i) *)
  Definition sgel_eqb (a b : sgel) : bool := hin_eqb (fst a) (fst b) && feqb K (snd a) (snd b).

  (* a holder's rows: the share components lambda_j, and the reconstruction coefficient of each
     row for the quorum at hand *)
  Record holder := mk_holder { h_rows : list F; h_coefs : list F }.

  Record psig := mk_psig { sigma_i : list sgel; sigma_pop_i : list sgel }.

  (* Cosigner.ProducePartialSignature.  x = exponent of the shard's public key.
     None: empty message, or (at construction) bls.NewPrivateKey refuses a zero share component *)
  Definition produce (md : rogue_mode) (ks : key_size) (x : F) (m : Msg) (h : holder) : option psig :=
    if msg_empty m then None
    else if existsb (fis0 K) (h_rows h) then None
    else
      let i := hmsg md ks x m in
      Some (mk_psig (map (fun l => (i, l)) (h_rows h))
                    (match md with POP => map (fun l => (hpop ks x, l)) (h_rows h) | _ => [] end)).

  (* core verification of one component against the public key share l·g *)
  Definition comp_ok (i : Hin) (l : F) (s : sgel) : bool :=
    negb (fis0 K l) && negb (fis0 K (snd s)) && sgel_eqb s (i, l).

  Fixpoint comps_ok (i : Hin) (ls : list F) (ss : list sgel) : bool :=
    match ls, ss with
    | [], [] => true
    | l :: ls', s :: ss' => comp_ok i l s && comps_ok i ls' ss'
    | _, _ => false
    end.

  (* Aggregator.Aggregate: per sender validation + verification of every component *)
  Definition sender_ok (md : rogue_mode) (ks : key_size) (x : F) (m : Msg) (h : holder) (p : psig) : bool :=
    negb (match sigma_i p with [] => true | _ => false end) &&
    Nat.eqb (length (sigma_i p)) (length (h_rows h)) &&
    (match md with
     | POP => Nat.eqb (length (sigma_pop_i p)) (length (sigma_i p)) && comps_ok (hpop ks x) (h_rows h) (sigma_pop_i p)
     | _ => true
     end) &&
    comps_ok (hmsg md ks x m) (h_rows h) (sigma_i p).

  (* ReconstructInTheExponent over the components of one hash input *)
  Fixpoint lin (cs : list F) (ss : list sgel) : F :=
    match cs, ss with
    | c :: cs', s :: ss' => c * snd s + lin cs' ss'
    | _, _ => f0 K
    end.

  Definition bsig := (sgel * option sgel)%type.            (* signature value, proof of possession *)

  Definition aggregate (md : rogue_mode) (ks : key_size) (x : F) (m : Msg) (hs : list holder) (ps : list psig)
    : option bsig :=
    if msg_empty m then None
    else if negb (Nat.eqb (length hs) (length ps)) then None
    else if negb (forallb (fun hp => sender_ok md ks x m (fst hp) (snd hp)) (combine hs ps)) then None
    else
      let c := fold_right (fun hp acc => lin (h_coefs (fst hp)) (sigma_i (snd hp)) + acc) (f0 K) (combine hs ps) in
      let cp := fold_right (fun hp acc => lin (h_coefs (fst hp)) (sigma_pop_i (snd hp)) + acc) (f0 K) (combine hs ps) in
      if fis0 K c then None                                  (* bls.NewSignature refuses the identity *)
      else match md with
           | POP => if fis0 K cp then None else Some ((hmsg md ks x m, c), Some (hpop ks x, cp))
           | _ => Some ((hmsg md ks x m, c), None)
           end.

  Fixpoint all_some {A} (l : list (option A)) : option (list A) :=
    match l with
    | [] => Some []
    | None :: _ => None
    | Some a :: t => match all_some t with Some t' => Some (a :: t') | None => None end
    end.

  Definition sign (md : rogue_mode) (ks : key_size) (x : F) (m : Msg) (hs : list holder) : option bsig :=
    match all_some (map (produce md ks x m) hs) with
    | None => None
    | Some ps => aggregate md ks x m hs ps
    end.

  (* the library's single-party BLS verifier of the scheme (mode, key size) for public key x·g:
     the pairing equation for the message signature, and for POP also for the proof *)
  Definition verify (md : rogue_mode) (ks : key_size) (x : F) (m : Msg) (sg : bsig) : bool :=
    negb (fis0 K x) && negb (msg_empty m) &&
    negb (fis0 K (snd (fst sg))) && sgel_eqb (fst sg) (hmsg md ks x m, x) &&
    (match md, snd sg with
     | POP, Some p => sgel_eqb p (hpop ks x, x)
     | POP, None => false
     | _, _ => true
     end).

  (* sum over all rows of the quorum of coefficient * share component *)
  Definition recon (hs : list holder) : F :=
    fold_right (fun h acc =>
      (fix go (cs ls : list F) : F :=
         match cs, ls with c :: cs', l :: ls' => c * l + go cs' ls' | _, _ => f0 K end)
      (h_coefs h) (h_rows h) + acc) (f0 K) hs.

  Definition wf_holders (hs : list holder) : Prop :=
    Forall (fun h => length (h_coefs h) = length (h_rows h) /\ h_rows h <> []) hs.

End Bls.

(* concrete instance: coefficients over Z_q; hash inputs are numbered by the harness *)
Definition bls_run_Z (q : Z) (md : rogue_mode) (x : Z) (rows coefs : list (list Z))
  : option (Z * option Z) * Z :=
  let K := Zp q in
  let hs := map (fun rc => mk_holder (fst rc) (snd rc)) (combine rows coefs) in
  let r := sign K Z.eqb (fun _ _ _ _ => 1%Z) (fun _ _ => 2%Z) (fun _ : unit => false) md ShortKey x tt hs in
  (match r with
   | Some (s, p) => Some (snd s, match p with Some pp => Some (snd pp) | None => None end)
   | None => None
   end, recon K hs).
