(* Msp.v — executable model of monotone span programmes (kw/msp/msp.go) and of the
   induced-MSP constructors of every access-structure family.  No proofs here.

   Written after the code:
     msp.go            NewMSP -> [new_msp], holdersToRows -> [rows_of], selectedRows -> [sel_rows],
                       ReconstructionVector -> [recon_vector], Accepts -> [accepts],
                       ReconstructionCoefficients -> [recon_coeffs], TargetVector -> [target]
     threshold.go      InducedMSP -> [induced_thr]   (vandermonde.BuildVandermondeMatrix -> [vander_row])
     unanimity.go      InducedMSP -> [induced_una]
     cnf.go            InducedMSP -> [induced_cnf]   (canonical order of the maximal unqualified sets:
                       by the integer Σ 2^(id-1), compared here without building it: [set_ltb])
     boolexpr/msp.go   convert -> [convert]          (one [expand] per iteration of the outer loop)
     hierarchical.go   CheckConstraints -> [hier_constraints], InducedMSP -> [induced_hier]
                       (birkhoff.BuildVandermondeMatrix / internal.Phi -> Interp.[phi], one row = one row of Interp.[build_birkhoff])

   [fromN] is field.FromUint64.  The row ORDER produced here is the order the code produces:
   it is part of the share format and compared entry-wise by the correspondence check. *)
From Coq Require Import List NArith ZArith Bool Arith.
Import ListNotations.
Require Import V.base.Fld V.model.LinAlg V.model.Poly V.model.Interp V.model.Access.

Fixpoint insert_nat (x : nat) (l : list nat) : list nat :=
  match l with
  | [] => [x]
  | h :: t => if Nat.leb x h then x :: l else h :: insert_nat x t
  end.

(* index of the first element satisfying f *)
Fixpoint find_index {A : Type} (f : A -> bool) (l : list A) : option nat :=
  match l with
  | [] => None
  | h :: t => if f h then Some O else match find_index f t with None => None | Some i => Some (S i) end
  end.

Section Msp.
Context {F : Type} (K : fops F) (fromN : N -> F).

Record msp := mk_msp { msp_M : matrix (F:=F); msp_lab : list N }.

Definition msp_D (m : msp) : nat := ncols (msp_M m).
Definition msp_size (m : msp) : nat := length (msp_M m).

(* NewMSP: one label per row (the map has exactly the keys 0..rows-1), no zero label *)
Definition new_msp (M : matrix (F:=F)) (lab : list N) : option msp :=
  if Nat.eqb (length lab) (length M) && negb (memN 0%N lab) then Some (mk_msp M lab) else None.

Definition msp_holders (m : msp) : list N := sortN (nodupN (msp_lab m)).

(* holdersToRows[id], ascending *)
Definition rows_of (m : msp) (id : N) : list nat :=
  filter (fun i => N.eqb (nth i (msp_lab m) 0%N) id) (seq 0 (length (msp_lab m))).

(* selectedRows: every (distinct) ID must own a row; the selected rows are returned sorted
   ascending, i.e. the rows whose label is in the ID set; an empty selection is an error *)
Definition sel_rows (m : msp) (ids : list N) : option (list nat) :=
  if forallb (fun id => memN id (msp_lab m)) ids then
    match filter (fun i => memN (nth i (msp_lab m) 0%N) ids) (seq 0 (length (msp_lab m))) with
    | [] => None
    | rows => Some rows
    end
  else None.

Definition sub_rows (M : matrix (F:=F)) (rows : list nat) : matrix := map (fun i => row i M) rows.

Definition target (m : msp) : list F := unit_vec K (msp_D m) 0.

Definition recon_for_rows (m : msp) (rows : list nat) : option (list F) :=
  solve_left K (sub_rows (msp_M m) rows) (target m).

Definition recon_vector (m : msp) (ids : list N) : option (list F) :=
  match sel_rows m ids with
  | None => None
  | Some rows => recon_for_rows m rows
  end.

Definition accepts (m : msp) (ids : list N) : bool :=
  match recon_vector m ids with Some _ => true | None => false end.

(* ReconstructionCoefficients(holder, IDs...) *)
Definition recon_coeffs (m : msp) (holder : N) (ids : list N) : option (list F) :=
  if negb (memN holder ids) then None else
  match sel_rows m ids with
  | None => None
  | Some rows =>
    match recon_for_rows m rows with
    | None => None
    | Some rv =>
      match rows_of m holder with
      | [] => None
      | hrows =>
        fold_right (fun r acc =>
            match acc, find_index (Nat.eqb r) rows with
            | Some cs, Some pos => Some (nth pos rv (f0 K) :: cs)
            | _, _ => None
            end) (Some []) hrows
      end
    end
  end.

(* ---- threshold: Vandermonde --------------------------------------------------------------- *)

(* input[r*c] = 1; input[r*c+j] = input[r*c+j-1] * node *)
Fixpoint powers_from (acc a : F) (n : nat) : list F :=
  match n with
  | O => []
  | S k => acc :: powers_from (fmul K acc a) a k
  end.
Definition vander_row (a : F) (cols : nat) : list F := powers_from (f1 K) a cols.

Definition induced_thr (t : nat) (ps : list N) : option msp :=
  let hs := sortN (nodupN ps) in
  match hs, t with
  | [], _ => None                                     (* "nodes must be non-empty" *)
  | _, O => None                                      (* "cols must be positive" *)
  | _, _ => new_msp (map (fun id => vander_row (fromN id) t) hs) hs
  end.

(* ---- unanimity ---------------------------------------------------------------------------------- *)

Definition induced_una (ps : list N) : option msp :=
  let hs := sortN (nodupN ps) in
  let n := length hs in
  match n with
  | O => None                                         (* NewMatrixModule(0,0) *)
  | S n1 =>
    let minus1 := fopp K (f1 K) in
    let top := map (fun r => unit_vec K n (S r)) (seq 0 n1) in
    let last := map (fun c => if Nat.eqb c 0 then f1 K else minus1) (seq 0 n) in
    new_msp (top ++ [last]) hs
  end.

(* ---- CNF ------------------------------------------------------------------------------------------ *)

(* order of two ID sets by Σ 2^(id-1): compare the descending lists lexicographically, a proper
   prefix being smaller *)
Definition sort_desc (s : list N) : list N := rev (sortN (nodupN s)).
Fixpoint lex_ltb (a b : list N) : bool :=
  match a, b with
  | _, [] => false
  | [], _ :: _ => true
  | x :: a', y :: b' => if N.ltb x y then true else if N.ltb y x then false else lex_ltb a' b'
  end.
Definition set_ltb (a b : list N) : bool := lex_ltb (sort_desc a) (sort_desc b).

Fixpoint insert_set (x : list N) (l : list (list N)) : list (list N) :=
  match l with
  | [] => [x]
  | h :: t => if set_ltb h x then h :: insert_set x t else x :: l
  end.
Definition sort_sets (l : list (list N)) : list (list N) := fold_right insert_set [] l.

Definition vsub (u v : list F) : list F := map (fun ab => fsub K (fst ab) (snd ab)) (combine u v).

(* clauseVectors[i] = e_{i+1} for i < m-1;  clauseVectors[m-1] = e_0 - e_1 - ... - e_{m-1} *)
Definition clause_vectors (m : nat) : list (list F) :=
  match m with
  | O => []
  | S m1 =>
    let firsts := map (fun i => unit_vec K m (S i)) (seq 0 m1) in
    firsts ++ [fold_left vsub firsts (unit_vec K m 0)]
  end.

Definition induced_cnf (mus : list (list N)) : option msp :=
  match mus with
  | [] => None
  | _ =>
    let sh := nodupN (concat mus) in
    let sorted := sort_sets mus in
    let m := length sorted in
    let clauses := map (fun b => sortN (diffN sh b)) sorted in
    let cvs := clause_vectors m in
    let rows := flat_map (fun cv => map (fun _ => snd cv) (fst cv)) (combine clauses cvs) in
    let labs := concat clauses in
    match rows with
    | [] => None                                      (* NewMatrixModule(0, m) *)
    | _ => new_msp rows labs
    end
  end.

(* ---- threshold-gate trees: Liu–Cao–Wong "Convert" ------------------------------------------------- *)

(* one iteration of the outer loop: z = index of the first gate in L; the row of z is replaced by
   one row per child  (old row ++ [x, x^2, .., x^(d2-1)],  x = i - z + 1  for the child at i),
   every other row is extended by d2-1 zeros *)
Definition expand (M : list (list F)) (L : list tree) : option (list (list F) * list tree) :=
  match find_index (fun n => negb (is_leaf n)) L with
  | None => None
  | Some z =>
    match nth z L (Leaf 0%N) with
    | Leaf _ => None
    | Gate d2 cs =>
      let pad := repeat (f0 K) (pred d2) in
      let rz := nth z M [] in
      let m2 := length cs in
      let newrows := map (fun i =>
          let x := fadd K (fsub K (fromN (N.of_nat i)) (fromN (N.of_nat z))) (f1 K) in
          rz ++ powers_from x x (pred d2)) (seq z m2) in
      Some (map (fun r => r ++ pad) (firstn z M) ++ newrows ++ map (fun r => r ++ pad) (skipn (S z) M),
            firstn z L ++ cs ++ skipn (S z) L)
    end
  end.

Fixpoint convert_loop (fuel : nat) (M : list (list F)) (L : list tree) : option (list (list F) * list tree) :=
  match expand M L with
  | None => Some (M, L)
  | Some (M', L') =>
    match fuel with
    | O => None
    | S k => convert_loop k M' L'
    end
  end.

Definition induced_gate (root : tree) : option msp :=
  match convert_loop (tree_size root) [[f1 K]] [root] with
  | None => None
  | Some (M, L) =>
    if forallb is_leaf L then new_msp M (leaf_ids L) else None
  end.

(* ---- hierarchical: Birkhoff–Vandermonde ------------------------------------------------------------ *)

(* Phi(c, x, j) = (d/dx)^j x^c at x, zero for j > c: model/Interp.v [phi] (C20), written after
   birkhoff/internal.Phi (coded Derivative iterated j times, coded Eval) *)

(* CheckConstraints.  (1) the IDs of a level exceed every ID of the previous levels;
   (2) k = last threshold + 1 <= 20;  (3) alpha(k) * n^((k-1)(k-2)/2) < q with
   alpha(k) = 2^(2-k) (k-1)^((k-1)/2) (k-1)!, n = maxID + 1 computed in uint64 (wraps).  The code
   evaluates (3) in float64; here it is the same inequality squared, in exact integers:
   16 (k-1)^(k-1) ((k-1)!)^2 n^((k-1)(k-2)) < 4^k q^2. *)
Fixpoint hier_order_ok (prevmax : N) (levels : list (nat * list N)) : option N :=
  match levels with
  | [] => Some prevmax
  | (_, ps) :: rest =>
      if forallb (fun id => N.ltb prevmax id) ps
      then hier_order_ok (fold_right N.max prevmax ps) rest
      else None
  end.

Fixpoint fact (n : nat) : Z := match n with O => 1%Z | S k => (Z.of_nat n * fact k)%Z end.

Definition hier_constraints (q : Z) (levels : list (nat * list N)) : bool :=
  match hier_order_ok 0%N levels with
  | None => false
  | Some prevmax =>
    let n := Z.of_N (N.modulo (prevmax + 1) (2 ^ 64)) in
    let k := S (fst (last levels (O, []))) in
    if Nat.ltb 20 k then false else
    let k1 := Z.of_nat (pred k) in
    Z.ltb (16 * Z.pow k1 k1 * (fact (pred k) * fact (pred k)) * Z.pow n (k1 * (k1 - 1)))
          (Z.pow 4 (Z.of_nat k) * (q * q))
  end.

Definition induced_hier (q : Z) (levels : list (nat * list N)) : option msp :=
  if negb (hier_constraints q levels) then None else
  let hs := sortN (nodupN (flat_map snd levels)) in
  let k := fst (last levels (O, [])) in
  match k with
  | O => None
  | _ =>
    let rows := map (fun id =>
        match hier_rank levels id with
        | None => None
        | Some j => Some (map (fun c => phi K c (fromN id) (N.of_nat j)) (seq 0 k))
        end) hs in
    if forallb (fun r => match r with Some _ => true | None => false end) rows
    then new_msp (flat_map (fun r => match r with Some x => [x] | None => [] end) rows) hs
    else None
  end.

(* accessstructures.InducedMSP: dispatch on the concrete type ([q] = field order, used by the
   hierarchical guard only) *)
Definition induced (q : Z) (p : policy) : option msp :=
  match p with
  | Thr t ps => induced_thr t ps
  | Una ps => induced_una ps
  | Cnf mus => induced_cnf mus
  | Hier levels => induced_hier q levels
  | GateT root => induced_gate root
  end.

End Msp.
