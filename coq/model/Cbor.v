(* Cbor.v — executable model of the CBOR subset that pkg/base/serde produces and of the
   strictness of the decoder mode configured in serde.updateModes (fxamacker/cbor v2):

   encoder  = cbor.CoreDetEncOptions(): shortest-form heads, definite lengths only, map keys
              sorted bytewise-lexicographically by their *encoded* bytes (checked against the
              library: {0,24,1000,-1,-25} is emitted as 00 1818 1903e8 20 3818);
   decoder  = DupMapKeyEnforcedAPF, IndefLengthForbidden, MaxNestedLevels 32 (arrays and maps
              count, tags do not — checked), MaxArrayElements / MaxMapPairs 131072,
              UTF8RejectInvalid, BignumTagForbidden, no trailing bytes (Unmarshal, not
              UnmarshalFirst).  The library's decoder does NOT require shortest-form heads nor
              sorted map keys (checked: 1802 is accepted for 2, unsorted struct keys are
              accepted), so neither does the model's: decoding is not injective, encoding is.

   Data items are the ones the library's formats use; floating point (major type 7, additional
   information 25..27) never occurs in them and is refused with the reason EFloat (class
   "unsupported", for which the correspondence check claims nothing).  No proofs here. *)
From Coq Require Import List NArith Bool.
Require Import V.base.Bytes V.gen.SerdeConsts.
Import ListNotations.
Local Open Scope N_scope.

Inductive item : Type :=
| UInt (n : N)                    (* major 0: the unsigned integer n *)
| NInt (n : N)                    (* major 1: the integer -1-n *)
| BStr (b : bytes)                (* major 2 *)
| TStr (b : bytes)                (* major 3: UTF-8 bytes *)
| Arr (l : list item)             (* major 4 *)
| Map (l : list (item * item))    (* major 5, pairs in wire order *)
| Tag (t : N) (x : item)          (* major 6 *)
| Simple (v : N).                 (* major 7: 20 false, 21 true, 22 null, 23 undefined, other simple values *)

Record limits := { max_depth : nat; max_arr : N; max_map : N }.

(* serde.DefaultMaxNestedLevels / DefaultMaxArrayElements / DefaultMaxMapPairs as the DecOptions
   literal of serde.updateModes uses them — regenerated from serde.go (gen/SerdeConsts.v) *)
Definition serde_limits : limits :=
  {| max_depth := max_nested_levels; max_arr := max_array_elements; max_map := max_map_pairs |}.

(* ---------------------------------------------------------------- encoder *)

(* shortest-form head of major type mt with argument n (n < 2^64) *)
Definition head (mt n : N) : bytes :=
  if n <? 24 then [mt * 32 + n]
  else if n <? 256 then [mt * 32 + 24; n]
  else if n <? 65536 then (mt * 32 + 25) :: be_bytes 2 n
  else if n <? 4294967296 then (mt * 32 + 26) :: be_bytes 4 n
  else (mt * 32 + 27) :: be_bytes 8 n.

(* bytewise lexicographic order on byte strings (a proper prefix is smaller) *)
Fixpoint lex_ltb (a b : bytes) : bool :=
  match a, b with
  | [], [] => false
  | [], _ :: _ => true
  | _ :: _, [] => false
  | x :: a', y :: b' => if x <? y then true else if y <? x then false else lex_ltb a' b'
  end.

Definition lex_leb (a b : bytes) : bool := negb (lex_ltb b a).

(* insertion sort of (encoded key, payload) pairs by encoded key; stable *)
Fixpoint insert_by {A} (p : bytes * A) (l : list (bytes * A)) : list (bytes * A) :=
  match l with
  | [] => [p]
  | q :: l' => if lex_leb (fst p) (fst q) then p :: l else q :: insert_by p l'
  end.

Fixpoint sort_by {A} (l : list (bytes * A)) : list (bytes * A) :=
  match l with
  | [] => []
  | p :: l' => insert_by p (sort_by l')
  end.

Fixpoint encode (x : item) : bytes :=
  match x with
  | UInt n => head 0 n
  | NInt n => head 1 n
  | BStr b => head 2 (len b) ++ b
  | TStr b => head 3 (len b) ++ b
  | Arr l => head 4 (len l) ++ concat (map encode l)
  | Map l =>
      head 5 (len l) ++
      concat (map (fun p : bytes * bytes => fst p ++ snd p)
                  (sort_by (map (fun kv : item * item => match kv with (k, v) => (encode k, encode v) end) l)))
  | Tag t y => head 6 t ++ encode y
  | Simple v => if v <? 24 then [224 + v] else [248; v]
  end.

(* ---------------------------------------------------------------- well-formed items *)

Definition cont_byte (b : N) : bool := (128 <=? b) && (b <? 192).
Definition in_range (b lo hi : N) : bool := (lo <=? b) && (b <=? hi).

(* Go's utf8.Valid: no overlong forms, no surrogates, nothing above U+10FFFF *)
Fixpoint utf8_valid (l : bytes) : bool :=
  match l with
  | [] => true
  | b0 :: r0 =>
      if b0 <? 128 then utf8_valid r0
      else if b0 <? 194 then false
      else if b0 <? 224 then
        match r0 with
        | b1 :: r1 => cont_byte b1 && utf8_valid r1
        | _ => false
        end
      else if b0 <? 240 then
        match r0 with
        | b1 :: b2 :: r2 =>
            (if b0 =? 224 then in_range b1 160 191
             else if b0 =? 237 then in_range b1 128 159
             else cont_byte b1) && cont_byte b2 && utf8_valid r2
        | _ => false
        end
      else if b0 <? 245 then
        match r0 with
        | b1 :: b2 :: b3 :: r3 =>
            (if b0 =? 240 then in_range b1 144 191
             else if b0 =? 244 then in_range b1 128 143
             else cont_byte b1) && cont_byte b2 && cont_byte b3 && utf8_valid r3
        | _ => false
        end
      else false
  end.

(* map keys the model's decoder supports: integers and strings (everything the library's
   formats use: struct field names, IDs, row indices) *)
Definition scalar_key (k : item) : bool :=
  match k with
  | UInt _ | NInt _ | BStr _ | TStr _ => true
  | _ => false
  end.

Definition simple_ok (v : N) : bool := (v <? 24) || ((32 <=? v) && (v <? 256)).

(* tags 2 and 3 (bignums) are refused by BignumTagForbidden *)
Definition tag_allowed (t : N) : bool := negb ((t =? 2) || (t =? 3)).

Definition all_bytes (b : bytes) : bool := forallb (fun x => x <? 256) b.

(* nesting height as fxamacker counts it: arrays and maps add one level, tags none *)
Fixpoint height (x : item) : nat :=
  match x with
  | Arr l => S (fold_right (fun y m => Nat.max (height y) m) O l)
  | Map l => S (fold_right (fun kv m => match kv with (k, v) => Nat.max (Nat.max (height k) (height v)) m end) O l)
  | Tag _ y => height y
  | _ => O
  end.

(* strictly increasing encoded keys: the canonical order (implies distinct keys) *)
Fixpoint strictly_sorted (l : list bytes) : bool :=
  match l with
  | [] => true
  | a :: l' => match l' with
               | [] => true
               | b :: _ => lex_ltb a b && strictly_sorted l'
               end
  end.

(* items the deterministic encoder can emit and the strict decoder accepts: arguments fit
   in 64 bits, strings are byte strings (text valid UTF-8), sizes within the limits,
   supported scalar map keys, and — the canonical form — map pairs in strictly increasing
   order of their encoded keys *)
Fixpoint wf (L : limits) (x : item) : bool :=
  match x with
  | UInt n | NInt n => n <? 18446744073709551616
  | BStr b => all_bytes b && (len b <? 18446744073709551616)
  | TStr b => all_bytes b && (len b <? 18446744073709551616) && utf8_valid b
  | Arr l => (len l <=? max_arr L) && forallb (wf L) l
  | Map l =>
      (len l <=? max_map L)
      && forallb (fun kv : item * item => match kv with (k, v) => scalar_key k && wf L k && wf L v end) l
      && strictly_sorted (map (fun kv : item * item => encode (fst kv)) l)
  | Tag t y => (t <? 18446744073709551616) && tag_allowed t && wf L y
  | Simple v => simple_ok v
  end.

Definition within (L : limits) (x : item) : bool := wf L x && Nat.leb (height x) (max_depth L).

(* ---------------------------------------------------------------- decoder *)

Inductive err : Type :=
| ETrunc        (* input ends inside an item *)
| EIndef        (* indefinite-length string, array or map *)
| EReserved     (* additional information 28..30, or 31 on major 0, 1, 6; byte value > 255 *)
| EBreak        (* stray break code 0xff *)
| EDup          (* duplicate map key *)
| ETrailing     (* bytes after the top-level item *)
| EDepth        (* nesting deeper than max_depth *)
| ESize         (* more array elements / map pairs than allowed *)
| EUtf8         (* text string is not valid UTF-8 *)
| ESimple       (* two-byte simple value below 32 *)
| EBigTag       (* tag 2 / 3 *)
| EFloat        (* unsupported by the model: floating point *)
| EKey          (* unsupported by the model: map key that is not an integer or a string *)
| EFuel.        (* recursion fuel exhausted (never happens for fuel > length, see decode_no_fuel) *)

Inductive res (A : Type) : Type :=
| Ok (a : A)
| Err (e : err).
Arguments Ok {A} a.
Arguments Err {A} e.

(* the reasons that mean "malformed container" (everything but the unsupported classes) *)
Definition malformed_reason (e : err) : bool :=
  match e with
  | EFloat | EKey | EFuel => false
  | _ => true
  end.

Fixpoint take (n : nat) (bs : bytes) : option (bytes * bytes) :=
  match n with
  | O => Some ([], bs)
  | S n' => match bs with
            | [] => None
            | b :: r => match take n' r with
                        | Some (a, r') => Some (b :: a, r')
                        | None => None
                        end
            end
  end.

(* does the input hold at least n more bytes?  (n is a 64-bit length: compare without
   converting it to nat) *)
Definition take_n (n : N) (bs : bytes) : option (bytes * bytes) :=
  if n <=? len bs then take (N.to_nat n) bs else None.

(* (major type, additional information, argument, rest) *)
Definition read_head (bs : bytes) : res (N * N * N * bytes) :=
  match bs with
  | [] => Err ETrunc
  | b :: r =>
      if 256 <=? b then Err EReserved else
      let mt := b / 32 in
      let ai := b mod 32 in
      if ai <? 24 then Ok (mt, ai, ai, r)
      else if ai <? 28 then
        let k := match ai with 24 => 1%nat | 25 => 2%nat | 26 => 4%nat | _ => 8%nat end in
        match take k r with
        | Some (a, r') => if all_bytes a then Ok (mt, ai, be_value a, r') else Err EReserved
        | None => Err ETrunc
        end
      else if ai <? 31 then Err EReserved
      else (* 31 *)
        if mt =? 7 then Err EBreak
        else if (2 <=? mt) && (mt <=? 5) then Err EIndef
        else Err EReserved
  end.

(* n items / n pairs, decoded by d, left to right *)
Fixpoint dec_seq (d : bytes -> res (item * bytes)) (n : nat) (bs : bytes) : res (list item * bytes) :=
  match n with
  | O => Ok ([], bs)
  | S n' =>
      match d bs with
      | Err e => Err e
      | Ok (x, r) =>
          match dec_seq d n' r with
          | Err e => Err e
          | Ok (xs, r') => Ok (x :: xs, r')
          end
      end
  end.

Fixpoint dec_pairs (d : bytes -> res (item * bytes)) (n : nat) (bs : bytes) : res (list (item * item) * bytes) :=
  match n with
  | O => Ok ([], bs)
  | S n' =>
      match d bs with
      | Err e => Err e
      | Ok (k, r) =>
          if negb (scalar_key k) then Err EKey else
          match d r with
          | Err e => Err e
          | Ok (v, r1) =>
              match dec_pairs d n' r1 with
              | Err e => Err e
              | Ok (ps, r') => Ok ((k, v) :: ps, r')
              end
          end
      end
  end.

(* duplicate detection on decoded keys: two scalar keys are the same key iff their
   deterministic encodings coincide (so 01 and 1801 are the same key, as in the library) *)
Fixpoint bytes_eqb (a b : bytes) : bool :=
  match a, b with
  | [], [] => true
  | x :: a', y :: b' => (x =? y) && bytes_eqb a' b'
  | _, _ => false
  end.

Fixpoint has_dup (l : list bytes) : bool :=
  match l with
  | [] => false
  | a :: l' => existsb (bytes_eqb a) l' || has_dup l'
  end.

Fixpoint dec (L : limits) (fuel : nat) (depth : nat) (bs : bytes) : res (item * bytes) :=
  match fuel with
  | O => Err EFuel
  | S f =>
      match read_head bs with
      | Err e => Err e
      | Ok (mt, ai, n, r) =>
          match mt with
          | 0 => Ok (UInt n, r)
          | 1 => Ok (NInt n, r)
          | 2 => match take_n n r with
                 | Some (a, r') => if all_bytes a then Ok (BStr a, r') else Err EReserved
                 | None => Err ETrunc
                 end
          | 3 => match take_n n r with
                 | Some (a, r') => if all_bytes a then (if utf8_valid a then Ok (TStr a, r') else Err EUtf8) else Err EReserved
                 | None => Err ETrunc
                 end
          | 4 => if max_arr L <? n then Err ESize else
                 match depth with
                 | O => Err EDepth
                 | S d' =>
                     match dec_seq (dec L f d') (N.to_nat n) r with
                     | Err e => Err e
                     | Ok (xs, r') => Ok (Arr xs, r')
                     end
                 end
          | 5 => if max_map L <? n then Err ESize else
                 match depth with
                 | O => Err EDepth
                 | S d' =>
                     match dec_pairs (dec L f d') (N.to_nat n) r with
                     | Err e => Err e
                     | Ok (ps, r') =>
                         if has_dup (map (fun kv : item * item => encode (fst kv)) ps) then Err EDup
                         else Ok (Map ps, r')
                     end
                 end
          | 6 => if negb (tag_allowed n) then Err EBigTag else
                 match dec L f depth r with
                 | Err e => Err e
                 | Ok (y, r') => Ok (Tag n y, r')
                 end
          | _ => (* 7 *)
              if ai <? 24 then Ok (Simple n, r)
              else if ai =? 24 then (if n <? 32 then Err ESimple else Ok (Simple n, r))
              else Err EFloat
          end
      end
  end.

(* one top-level item, nothing after it.  Fuel: every nested item consumes at least one
   byte of input, so S (length bs) is always enough (Cbor_proofs.decode_no_fuel). *)
Definition decode (L : limits) (bs : bytes) : res item :=
  match dec L (S (length bs)) (max_depth L) bs with
  | Err e => Err e
  | Ok (x, []) => Ok x
  | Ok (_, _ :: _) => Err ETrailing
  end.

(* ---------------------------------------------------------------- canonical form *)

(* re-sorts the pairs of every map by encoded key (what re-encoding does); scalar keys are
   their own canonical form *)
Fixpoint insert_kv (p : item * item) (l : list (item * item)) : list (item * item) :=
  match l with
  | [] => [p]
  | q :: l' => if lex_leb (encode (fst p)) (encode (fst q)) then p :: l else q :: insert_kv p l'
  end.

Fixpoint sort_kv (l : list (item * item)) : list (item * item) :=
  match l with
  | [] => []
  | p :: l' => insert_kv p (sort_kv l')
  end.

Fixpoint canon (x : item) : item :=
  match x with
  | Arr l => Arr (map canon l)
  | Map l => Map (sort_kv (map (fun kv : item * item => match kv with (k, v) => (k, canon v) end) l))
  | Tag t y => Tag t (canon y)
  | _ => x
  end.
