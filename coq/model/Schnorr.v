(* Schnorr.v — the Schnorr-like signatures of pkg/signatures/schnorrlike in the exponent
   (DESIGN §3 L3): generic configurable variant (schnorr/schnorr.go + VerifierTrait),
   BIP-340 (x-only keys, even-y rules) and Mina (generic verifier, even-y nonce,
   challenge over (m, P.x, P.y, R.x)).

   The point k·G is the residue k in Z_n.  The parity of its y-coordinate is the
   section variable [yodd].  The x-only encoding of a point is modelled by the class
   {k, −k}: [xo k] is its canonical representative (a definition: on a curve the
   x-coordinate determines the point up to sign).  The Fiat–Shamir challenge is the
   section variable [chal] applied to the encodings of R and P and to the message.
   Executable; no proofs. *)
From Coq Require Import ZArith List Bool.
Import ListNotations.
Local Open Scope Z_scope.

Section Schnorr.
  Variable n : Z.
  Variable yodd : Z -> bool.
  Variable M : Type.
  Variable chal : Z -> Z -> M -> Z.       (* enc R, enc P, message -> challenge in [0,n) *)

  Definition sadd (a b : Z) : Z := (a + b) mod n.
  Definition smul (a b : Z) : Z := (a * b) mod n.
  Definition sneg (a : Z) : Z := (- a) mod n.

  (* x-only encoding: the class {k, −k} *)
  Definition xo (k : Z) : Z := Z.min (k mod n) ((- k) mod n).
  (* full encoding: the point itself *)
  Definition full (k : Z) : Z := k mod n.

  (* the point with the same x and even y (bip340.LiftX); identity stays *)
  Definition even_y (k : Z) : Z := if (k mod n =? 0) then 0 else if yodd k then sneg k else k mod n.

  (* a group element as it reaches a verifier: its discrete log and whether it is
     torsion free (always true on the prime-order curves; the guard is modelled) *)
  Record gelt := mk_gelt { g_tf : bool; g_k : Z }.

  Record ssig := mk_ssig { s_R : gelt; s_s : Z }.

  (* ---- generic variant ------------------------------------------------------------ *)
  Section Generic.
    Variable neg_resp : bool.              (* responseOperatorIsNegative *)
    Variable encR encP : Z -> Z.           (* how R and P enter the challenge *)
    Variable negate_nonce : Z -> bool.     (* shouldNegateNonce applied to k·G *)

    (* VerifierTrait.Verify (ChallengePublicKey = nil) *)
    Definition gen_verify (sg : ssig) (pk : gelt) (m : M) : bool :=
      if (g_k pk mod n =? 0) then false                         (* public key is identity *)
      else if (s_s sg mod n =? 0) || (g_k (s_R sg) mod n =? 0) || negb (g_tf (s_R sg)) then false
      else
        let e := chal (encR (g_k (s_R sg))) (encP (g_k pk)) m in
        let rhs := smul (g_k pk) e in
        let rhs := if neg_resp then sneg rhs else rhs in
        (smul 1 (s_s sg)) =? sadd (g_k (s_R sg)) rhs.           (* s·G = R ± e·P *)

    (* SignerTrait.Sign with nonce k0 drawn by the variant; includes the self-check *)
    Definition gen_sign (x k0 : Z) (m : M) : option ssig :=
      if (k0 mod n =? 0) then None                              (* RandomNonIdentity never returns 0 *)
      else
        let k := if negate_nonce k0 then sneg k0 else k0 mod n in
        let e := chal (encR k) (encP x) m in
        let op := smul e x in
        let op := if neg_resp then sneg op else op in
        let s := sadd k op in
        let sg := mk_ssig (mk_gelt true k) s in
        if gen_verify sg (mk_gelt true x) m then Some sg else None.
  End Generic.

  (* ---- BIP-340 ---------------------------------------------------------------------- *)
  (* Verifier.Verify (challengePublicKey = nil) *)
  Definition bip_verify (sg : ssig) (pk : gelt) (m : M) : bool :=
    if (s_s sg mod n =? 0) || (g_k (s_R sg) mod n =? 0) then false
    else if (g_k pk mod n =? 0) then false
    else if negb (g_tf pk) then false
    else
      let P := even_y (g_k pk) in
      let e := chal (xo (g_k (s_R sg))) (xo P) m in
      let R' := sadd (s_s sg) (sneg (smul P e)) in               (* s·G − e·P *)
      if R' =? 0 then false
      else if yodd R' then false
      else xo R' =? xo (g_k (s_R sg)).

  (* Variant.ComputeNonceCommitment / ComputeResponse + SignerTrait.Sign; k0 is the
     hash-derived nonce k' *)
  Definition bip_sign (d0 k0 : Z) (m : M) : option ssig :=
    if (d0 mod n =? 0) then None
    else
      let d := if yodd d0 then sneg d0 else d0 mod n in
      if (k0 mod n =? 0) then None
      else
        let k := if yodd k0 then sneg k0 else k0 mod n in
        let e := chal (xo k) (xo d0) m in
        let s := sadd k (smul e d) in
        let sg := mk_ssig (mk_gelt true k) s in
        if bip_verify sg (mk_gelt true (d0 mod n)) m then Some sg else None.

  (* ---- batch verification ------------------------------------------------------------
     bip340.Verifier.BatchVerify: (Σ a_i s_i)·G = Σ a_i·lift_x(R_i) + Σ (a_i e_i)·lift_x(P_i) with
     a_1 = 1 and a_2.. drawn from the verifier's prng ([coefs] is the whole list 1 :: a_2 :: ...;
     the caller supplies as many coefficients as entries).  The challenge is computed from the
     x-only encodings of R_i and of the key as given.  No check on s_i or R_i is made.
     VerifierTrait.BatchVerify (generic, Mina) verifies the entries one after the other. *)
  Record bentry := mk_bentry { be_sig : ssig; be_pk : gelt; be_m : M }.

  Fixpoint batch_left (coefs : list Z) (es : list bentry) : Z :=
    match coefs, es with
    | a :: cs, e :: r => sadd (smul a (s_s (be_sig e))) (batch_left cs r)
    | _, _ => 0
    end.

  Definition batch_term (a : Z) (e : bentry) : Z :=
    let R := even_y (g_k (s_R (be_sig e))) in
    let P := even_y (g_k (be_pk e)) in
    let c := chal (xo (g_k (s_R (be_sig e)))) (xo (g_k (be_pk e))) (be_m e) in
    sadd (smul a R) (smul (smul a c) P).

  Fixpoint batch_right (coefs : list Z) (es : list bentry) : Z :=
    match coefs, es with
    | a :: cs, e :: r => sadd (batch_term a e) (batch_right cs r)
    | _, _ => 0
    end.

  Definition bip_batch_verify (coefs : list Z) (es : list bentry) : bool :=
    match es with
    | [] => false                                                (* empty batch refused *)
    | _ =>
      if negb (Nat.eqb (length coefs) (length es)) then false
      else if existsb (fun e => g_k (be_pk e) mod n =? 0) es then false   (* identity key refused *)
      else batch_left coefs es =? batch_right coefs es
    end.

  Definition gen_batch_verify (neg_resp : bool) (encR encP : Z -> Z) (es : list bentry) : bool :=
    forallb (fun e => gen_verify neg_resp encR encP (be_sig e) (be_pk e) (be_m e)) es.

  (* ---- Mina ------------------------------------------------------------------------- *)
  Definition mina_verify := gen_verify false xo full.
  Definition mina_sign := gen_sign false xo full yodd.

  (* ---- wire forms ----------------------------------------------------------------------
     The 64-byte forms carry integers: an x-coordinate below the base-field prime p and a
     scalar below n.  The decoders (bip340.NewSignatureFromBytes / NewPublicKeyFromBytes,
     mina.DeserializeSignature) refuse every other representative and rebuild the point
     with that x-coordinate and even y ([lift_even x] is its discrete log, None when x is
     not the x-coordinate of a curve point). *)
  Section Wire.
    Variable p : Z.
    Variable lift_even : Z -> option Z.

    Definition canonical (modulus c : Z) : bool := (0 <=? c) && (c <? modulus).

    Definition bip_verify_wire (px rx s : Z) (m : M) : bool :=
      if negb (canonical p px) then false            (* NewPublicKeyFromBytes: x >= p *)
      else if negb (canonical p rx) then false       (* NewSignatureFromBytes: r >= p *)
      else if negb (canonical n s) then false        (* s >= n *)
      else match lift_even px, lift_even rx with
           | Some P, Some R => bip_verify (mk_ssig (mk_gelt true R) s) (mk_gelt true P) m
           | _, _ => false
           end.

    Definition mina_verify_wire (rx s : Z) (pk : gelt) (m : M) : bool :=
      if negb (canonical p rx) then false            (* DeserializeSignature: R.x >= p *)
      else if negb (canonical n s) then false        (* s >= q *)
      else match lift_even rx with
           | Some R => mina_verify (mk_ssig (mk_gelt true R) s) pk m
           | None => false
           end.
  End Wire.
End Schnorr.
