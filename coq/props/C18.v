(* C18 — Commitments open only to what was committed.  Property theorems only; proofs
   are in proofs/Commit_proofs.v, the executable model in model/Commit.v; the hashcom
   framing (hash key, bytes written, sizes) is gen/Hashcom.v, regenerated from
   pkg/commitments/hashcom/{hashcom,key}.go on every run.
   Idealisations (section hypotheses, visible below): the keyed hash / the XOF are
   injective in their inputs; a group element of unknown discrete log is the
   independent variable X of linear forms over Z_q; encryption is injective. *)
From Coq Require Import List NArith ZArith Bool.
Import ListNotations.
Require Import V.base.Bytes V.base.Fld V.gen.Hagrid V.model.Transcript V.proofs.Transcript_proofs.
Require Import V.model.Commit V.proofs.Commit_proofs.

(* ---- hashcom ---- *)

Theorem C18_concat_fixed_suffix_injective : forall (k m1 w1 m2 w2 : bytes),
  length w1 = length w2 -> hashcom_input k m1 w1 = hashcom_input k m2 w2 -> m1 = m2 /\ w1 = w2.
Proof. exact concat_fixed_suffix_injective. Qed.
Print Assumptions C18_concat_fixed_suffix_injective.

Theorem C18_hashcom_open_iff : forall (H : bytes -> bytes -> bytes),
  (forall k1 i1 k2 i2, H k1 i1 = H k2 i2 -> k1 = k2 /\ i1 = i2) ->
  forall k m w k' c' m' w',
  hashcom_wf k w -> hashcom_wf k' w' ->
  (hashcom_open H k' c' m' w' = true /\ c' = hashcom_commit H k m w)
  <-> (k' = k /\ m' = m /\ w' = w /\ c' = hashcom_commit H k m w).
Proof. exact hashcom_open_iff. Qed.
Print Assumptions C18_hashcom_open_iff.

Theorem C18_hashcom_single_change_fails : forall (H : bytes -> bytes -> bytes),
  (forall k1 i1 k2 i2, H k1 i1 = H k2 i2 -> k1 = k2 /\ i1 = i2) ->
  forall k m w,
  hashcom_wf k w ->
  (forall k', hashcom_wf k' w -> k' <> k -> hashcom_open H k' (hashcom_commit H k m w) m w = false) /\
  (forall m', m' <> m -> hashcom_open H k (hashcom_commit H k m w) m' w = false) /\
  (forall w', hashcom_wf k w' -> w' <> w -> hashcom_open H k (hashcom_commit H k m w) m w' = false) /\
  (forall c', c' <> hashcom_commit H k m w -> hashcom_open H k c' m w = false).
Proof. exact hashcom_single_change_fails. Qed.
Print Assumptions C18_hashcom_single_change_fails.

Theorem C18_hashcom_honest_opens : forall (H : bytes -> bytes -> bytes) k m w,
  hashcom_open H k (hashcom_commit H k m w) m w = true.
Proof. exact hashcom_honest_opens. Qed.
Print Assumptions C18_hashcom_honest_opens.

(* ---- pedersencom, in linear forms over Z_q ---- *)

Theorem C18_pedersen_open_iff : forall q m r m' r',
  ped_open q ped_std_key (ped_commit q ped_std_key m r) m' r' = true
  <-> (m' mod q = m mod q /\ r' mod q = r mod q)%Z.
Proof. exact ped_open_iff. Qed.
Print Assumptions C18_pedersen_open_iff.

Theorem C18_pedersen_changed_commitment_fails : forall q k m r c',
  lf_norm q c' <> ped_commit q k m r -> ped_open q k c' m r = false.
Proof. exact ped_changed_commitment_fails. Qed.
Print Assumptions C18_pedersen_changed_commitment_fails.

(* the key changed on its own (q prime): a changed h opens only for the zero witness,
   a changed g only for the zero message *)
Theorem C18_pedersen_changed_h_fails : forall q g h h' m r,
  Znumtheory.prime q -> lf_norm q h' <> lf_norm q h -> (r mod q <> 0)%Z ->
  ped_open q {| pk_g := g; pk_h := h' |} (ped_commit q {| pk_g := g; pk_h := h |} m r) m r = false.
Proof. exact ped_changed_h_fails. Qed.
Print Assumptions C18_pedersen_changed_h_fails.

Theorem C18_pedersen_changed_g_fails : forall q g g' h m r,
  Znumtheory.prime q -> lf_norm q g' <> lf_norm q g -> (m mod q <> 0)%Z ->
  ped_open q {| pk_g := g'; pk_h := h |} (ped_commit q {| pk_g := g; pk_h := h |} m r) m r = false.
Proof. exact ped_changed_g_fails. Qed.
Print Assumptions C18_pedersen_changed_g_fails.

Theorem C18_trapdoor_equivocates : forall q t m r m' r',
  (1 < q)%Z ->
  ped_equivocate q t m r m' = Some r' ->
  ped_open q (ped_export q t) (ped_tcommit q t m r) m' r' = true.
Proof. exact ped_trapdoor_equivocates. Qed.
Print Assumptions C18_trapdoor_equivocates.

(* on a valid trapdoor key (λ ≠ 0 mod q, q prime) Equivocate never refuses *)
Theorem C18_equivocate_total : forall q t m r m',
  Znumtheory.prime q -> (tk_lambda t mod q <> 0)%Z -> exists r', ped_equivocate q t m r m' = Some r'.
Proof. exact ped_equivocate_total. Qed.
Print Assumptions C18_equivocate_total.

Theorem C18_trapdoor_commit_is_public_commit : forall q t m r,
  ped_tcommit q t m r = ped_commit q (ped_export q t) m r.
Proof. exact ped_trapdoor_commit_is_public. Qed.
Print Assumptions C18_trapdoor_commit_is_public_commit.

Theorem C18_pedersen_homomorphic : forall q k m1 r1 m2 r2,
  ped_commitment_op q (ped_commit q k m1 r1) (ped_commit q k m2 r2)
  = ped_commit q k (sc_add q m1 m2) (sc_add q r1 r2).
Proof. exact ped_homomorphic. Qed.
Print Assumptions C18_pedersen_homomorphic.

Theorem C18_pedersen_homomorphic_inv : forall q k m r,
  ped_commitment_op_inv q (ped_commit q k m r) = ped_commit q k (sc_neg q m) (sc_neg q r).
Proof. exact ped_homomorphic_inv. Qed.
Print Assumptions C18_pedersen_homomorphic_inv.

Theorem C18_pedersen_homomorphic_scalar : forall q k m r s,
  ped_commitment_scalar_op q (ped_commit q k m r) s = ped_commit q k (sc_mul q m s) (sc_mul q r s).
Proof. exact ped_homomorphic_scalar. Qed.
Print Assumptions C18_pedersen_homomorphic_scalar.

Theorem C18_pedersen_rerandomise : forall q k m r s,
  ped_rerandomise q k (ped_commit q k m r) s = ped_commit q k m (sc_add q r s).
Proof. exact ped_rerandomise_opens. Qed.
Print Assumptions C18_pedersen_rerandomise.

Theorem C18_pedersen_shift : forall q k m r d,
  ped_shift q k (ped_commit q k m r) d = ped_commit q k (sc_add q m d) r.
Proof. exact ped_shift_opens. Qed.
Print Assumptions C18_pedersen_shift.

(* sequences of homomorphic operations of any length: every tracked opening verifies *)
Theorem C18_pedersen_program_opens : forall q k ops,
  Forall (fun g => let '(m, r, c) := g in ped_open q k c m r = true) (hrun (ped_scheme q k) ops).
Proof. exact ped_program_opens. Qed.
Print Assumptions C18_pedersen_program_opens.

(* ---- intcom ---- *)

Theorem C18_intcom_open_complete : forall k m r, int_open k (int_commit k m r) m r = true.
Proof. exact int_open_complete. Qed.
Print Assumptions C18_intcom_open_complete.

Theorem C18_intcom_changed_commitment_fails : forall k m r c',
  (c' mod ik_n k)%Z <> int_commit k m r -> int_open k c' m r = false.
Proof. exact int_changed_commitment_fails. Qed.
Print Assumptions C18_intcom_changed_commitment_fails.

(* the honest statement about binding of integer commitments: with s = t^λ and t of
   order ord, exactly the openings with λ·m + r ≡ λ·m' + r' (mod ord) give the same
   commitment.  That such a pair cannot be found without λ / ord rests on hardness and
   is NOT claimed. *)
Theorem C18_intcom_openings_coincide_iff : forall (k : int_key) (lambda ti : Z),
  (1 < ik_n k)%Z -> ((ik_t k * ti) mod ik_n k = 1 mod ik_n k)%Z -> (0 <= lambda)%Z ->
  ik_s k = (ik_t k ^ lambda mod ik_n k)%Z ->
  forall ord : Z, (0 < ord)%Z -> (ik_t k ^ ord mod ik_n k = 1)%Z ->
  (forall e : Z, (0 < e < ord)%Z -> (ik_t k ^ e mod ik_n k)%Z <> 1%Z) ->
  forall m r m' r' : Z,
  int_commit k m r = int_commit k m' r' <-> ((lambda * m + r) mod ord = (lambda * m' + r') mod ord)%Z.
Proof. exact int_openings_coincide_iff. Qed.
Print Assumptions C18_intcom_openings_coincide_iff.

(* the designed exception for intcom: a witness of the form Equivocate returns opens the
   same commitment to the new message *)
Theorem C18_intcom_equivocate_opens : forall (k : int_key) (lambda ti : Z),
  (1 < ik_n k)%Z -> ((ik_t k * ti) mod ik_n k = 1 mod ik_n k)%Z -> (0 <= lambda)%Z ->
  ik_s k = (ik_t k ^ lambda mod ik_n k)%Z ->
  forall ord : Z, (0 < ord)%Z -> (ik_t k ^ ord mod ik_n k = 1)%Z ->
  forall m r m' r' : Z,
  int_equivocate_ok ord lambda m r m' r' = true -> int_open k (int_commit k m r) m' r' = true.
Proof. exact int_equivocate_opens. Qed.
Print Assumptions C18_intcom_equivocate_opens.

(* homomorphic operation sequences of any length over Z_N^* (signed exponents) *)
Theorem C18_intcom_program_opens : forall (k : int_key) (lambda ti : Z),
  (1 < ik_n k)%Z -> ((ik_t k * ti) mod ik_n k = 1 mod ik_n k)%Z -> (0 <= lambda)%Z ->
  ik_s k = (ik_t k ^ lambda mod ik_n k)%Z ->
  forall ops : list hop,
  Forall (fun g => let '(m, r, c) := g in int_open k c m r = true) (hrun (int_scheme k) ops).
Proof. exact int_program_opens. Qed.
Print Assumptions C18_intcom_program_opens.

(* ---- indcpacom ---- *)

Theorem C18_indcpa_open_iff : forall (K M R C : Type) (enc : K -> M -> R -> C) (ceqb : C -> C -> bool),
  (forall a b, ceqb a b = true <-> a = b) ->
  (forall k m r m' r', enc k m r = enc k m' r' -> m = m') ->
  (forall k m r m' r', enc k m r = enc k m' r' -> r = r') ->
  forall k m r m' r',
  indcpa_open K M R C enc ceqb k (indcpa_commit K M R C enc k m r) m' r' = true <-> m' = m /\ r' = r.
Proof. exact indcpa_open_iff. Qed.
Print Assumptions C18_indcpa_open_iff.

Theorem C18_indcpa_open_binding : forall (K M R C : Type) (enc : K -> M -> R -> C) (ceqb : C -> C -> bool),
  (forall a b, ceqb a b = true <-> a = b) ->
  (forall k m r m' r', enc k m r = enc k m' r' -> m = m') ->
  forall k m r m' r',
  indcpa_open K M R C enc ceqb k (indcpa_commit K M R C enc k m r) m' r' = true -> m' = m.
Proof. exact indcpa_open_binding. Qed.
Print Assumptions C18_indcpa_open_binding.

Theorem C18_indcpa_changed_commitment_fails : forall (K M R C : Type) (enc : K -> M -> R -> C) (ceqb : C -> C -> bool),
  (forall a b, ceqb a b = true <-> a = b) ->
  forall k m r c', c' <> enc k m r -> indcpa_open K M R C enc ceqb k c' m r = false.
Proof. exact indcpa_changed_commitment_fails. Qed.
Print Assumptions C18_indcpa_changed_commitment_fails.

(* the executable instance (ElGamal in the exponent) meets the hypotheses *)
Theorem C18_elgamal_open_iff : forall q x mu r mu' r',
  eg_open q x (eg_enc q x mu r) mu' r' = true <-> (mu' mod q = mu mod q /\ r' mod q = r mod q)%Z.
Proof. exact eg_open_iff. Qed.
Print Assumptions C18_elgamal_open_iff.

Theorem C18_elgamal_changed_key_fails : forall q x x' mu r,
  Znumtheory.prime q -> (x' mod q <> x mod q)%Z -> (r mod q <> 0)%Z ->
  eg_open q x' (eg_enc q x mu r) mu r = false.
Proof. exact eg_changed_key_fails. Qed.
Print Assumptions C18_elgamal_changed_key_fails.

Theorem C18_elgamal_program_tracked : forall q x ops,
  Forall (tracked (eg_scheme q x)) (hrun (eg_scheme q x) ops).
Proof. exact eg_program_tracked. Qed.
Print Assumptions C18_elgamal_program_tracked.

(* ---- Equal on keys: equal iff every component is equal ---- *)

Theorem C18_pedersen_key_eq_iff : forall q a b,
  ped_key_eqb q a b = true <->
  lf_norm q (pk_g a) = lf_norm q (pk_g b) /\ lf_norm q (pk_h a) = lf_norm q (pk_h b).
Proof. exact ped_key_eq_iff. Qed.
Print Assumptions C18_pedersen_key_eq_iff.

Theorem C18_pedersen_trapdoor_key_eq_iff : forall q a b,
  ped_tkey_eqb q a b = true <->
  lf_norm q (tk_g a) = lf_norm q (tk_g b) /\ (tk_lambda a mod q = tk_lambda b mod q)%Z.
Proof. exact ped_tkey_eq_iff. Qed.
Print Assumptions C18_pedersen_trapdoor_key_eq_iff.

Theorem C18_intcom_key_eq_iff : forall a b, int_key_eqb a b = true <-> a = b.
Proof. exact int_key_eq_iff. Qed.
Print Assumptions C18_intcom_key_eq_iff.

Theorem C18_intcom_trapdoor_key_eq_iff : forall a b, int_tkey_eqb a b = true <-> a = b.
Proof. exact int_tkey_eq_iff. Qed.
Print Assumptions C18_intcom_trapdoor_key_eq_iff.

(* ---- keys extracted from transcripts (from the C19 theorems) ---- *)

Theorem C18_extracted_keys_equal_iff_transcripts_equal :
  forall (Key : Type) (XOF : xof_call -> bytes) (of_bytes : bytes -> Key),
  (forall c1 c2, XOF c1 = XOF c2 -> c1 = c2) ->
  (forall b1 b2, of_bytes b1 = of_bytes b2 -> b1 = b2) ->
  forall n name1 h1 l1 name2 h2 l2 k1 k2,
  Forall valid_op h1 -> Forall valid_op h2 -> (len l1 < 2^64)%N -> (len l2 < 2^64)%N -> (0 < n < 2^64)%N ->
  extract_key Key XOF of_bytes n name1 h1 l1 = Some k1 ->
  extract_key Key XOF of_bytes n name2 h2 l2 = Some k2 ->
  (k1 = k2 <-> name1 = name2 /\ performed_ops h1 = performed_ops h2 /\ l1 = l2).
Proof. exact extracted_keys_equal_iff_transcripts_equal. Qed.
Print Assumptions C18_extracted_keys_equal_iff_transcripts_equal.

(* ---- the hypotheses are satisfiable by non-trivial instances ---- *)

(* secp256k1 group order *)
Definition q_k256 : Z := 0xFFFFFFFFFFFFFFFFFFFFFFFFFFFFFFFEBAAEDCE6AF48A03BBFD25E8CD0364141%Z.

(* a trapdoor key over the k256 order equivocates: NewTrapdoorKey accepts, Equivocate
   returns a witness different from the original one, and it opens under the exported key *)
Example C18_nonvacuous_equivocation :
  match ped_new_tkey q_k256 (1, 0)%Z 123456789%Z with
  | Some t =>
      match ped_equivocate q_k256 t 5%Z 77%Z (q_k256 - 1)%Z with
      | Some r' => negb (r' =? 77)%Z &&
                   ped_open q_k256 (ped_export q_k256 t) (ped_tcommit q_k256 t 5 77) (q_k256 - 1) r'
      | None => false
      end
  | None => false
  end = true.
Proof. vm_compute. reflexivity. Qed.

(* a well-formed hashcom instance and a non-trivial program *)
Example C18_nonvacuous_hashcom_and_program :
  hashcom_wf (repeat 7%N 32) (repeat 9%N 32) /\
  length (hrun (ped_scheme 101 ped_std_key) [HNew 5 7; HNew 100 0; HOp 0 1; HInv 2; HScal 0 10; HRer 3 4; HShift 4 2]) = 7%nat /\
  extract_key bytes (fun c => xc_input c) (fun b => b) 32 [1%N] [Dom [2%N]; App [3%N] [[4%N]]] [5%N] <> None.
Proof.
  split; [split; reflexivity|]. split; [vm_compute; reflexivity|vm_compute; discriminate].
Qed.

(* intcom hypotheses: N̂ = 7·11 (safe primes), t = 4 of order 15 = 3·5, λ = 2, s = 16 *)
Example C18_nonvacuous_intcom :
  let k := {| ik_n := 77; ik_s := 16; ik_t := 4 |} in
  (1 < ik_n k)%Z /\ ((ik_t k * 58) mod ik_n k = 1 mod ik_n k)%Z /\ ik_s k = (ik_t k ^ 2 mod ik_n k)%Z /\
  (ik_t k ^ 15 mod ik_n k = 1)%Z /\
  (forall e : Z, (0 < e < 15)%Z -> (ik_t k ^ e mod ik_n k)%Z <> 1%Z) /\
  int_commit k 5 (-3) = int_commit k 4 (-1) /\ int_commit k 5 (-3) <> int_commit k 5 (-2).
Proof.
  cbn zeta. cbn [ik_n ik_s ik_t]. repeat split; try (vm_compute; congruence).
  intros e He.
  assert (E : (e = 1 \/ e = 2 \/ e = 3 \/ e = 4 \/ e = 5 \/ e = 6 \/ e = 7 \/ e = 8 \/ e = 9 \/ e = 10
               \/ e = 11 \/ e = 12 \/ e = 13 \/ e = 14)%Z) by (clear - He; Lia.lia).
  repeat (destruct E as [->|E]; [vm_compute; discriminate|]). subst e. vm_compute. discriminate.
Qed.
