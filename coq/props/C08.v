(* C08 — Non-interactive proofs verify only for the right statement, prover and session.
   Property theorems only; proofs are in proofs/Sigma_proofs.v and proofs/Compilers_proofs.v.
   The sigma layer is model/Sigma.v (Maurer's protocol over arbitrary abelian groups with an
   integer action and a homomorphism, AND/OR composition), the compilers are
   model/Compilers.v on top of the C19 transcript model (model/Transcript.v + gen/Hagrid.v).
   Hypotheses that stay visible: the group/homomorphism laws (ab_action, is_hom,
   decides_eq), the anchor equation, and for the compilers the idealisation that the XOF is
   injective on its (customisation, input, length) triple. *)
From Coq Require Import List ZArith NArith Bool.
Import ListNotations.
Require Import V.base.Bytes V.gen.Hagrid V.model.Transcript V.proofs.Transcript_proofs.
Require Import V.model.Sigma V.model.Compilers V.proofs.Sigma_proofs V.proofs.Compilers_proofs.

(* ---------------- sigma layer: Maurer's protocol ---------------- *)

(* completeness: for every witness w, nonce k and challenge e the honest transcript
   (phi k, e, k + e*w) verifies for the statement phi w *)
Theorem C08_maurer_complete :
  forall (W X : Type) (wadd : W -> W -> W) (wneg : W -> W) (wzero : W) (wsmul : Z -> W -> W)
         (xadd : X -> X -> X) (xneg : X -> X) (xzero : X) (xsmul : Z -> X -> X)
         (xeqb : X -> X -> bool) (phi : W -> X),
  ab_action wadd wneg wzero wsmul -> ab_action xadd xneg xzero xsmul ->
  is_hom wadd wsmul xadd xsmul phi -> decides_eq xeqb ->
  forall (w k : W) (e : bytes),
    maurer_verify W X xadd xsmul xeqb phi (phi w) (maurer_commit W X phi k) e
                  (maurer_respond W wadd wsmul k w e) = true.
Proof. exact maurer_complete_b. Qed.
Print Assumptions C08_maurer_complete.

(* special soundness of the coded extractor: from two transcripts with the same first
   message that both verify (the extractor re-checks them) and whose challenge difference
   is coprime to the anchor's l (the extractor tests the gcd), whatever the extractor
   returns is a pre-image of the statement *)
Theorem C08_maurer_special_sound :
  forall (W X : Type) (wadd : W -> W -> W) (wneg : W -> W) (wzero : W) (wsmul : Z -> W -> W)
         (xadd : X -> X -> X) (xneg : X -> X) (xzero : X) (xsmul : Z -> X -> X)
         (xeqb : X -> X -> bool) (phi : W -> X),
  ab_action wadd wneg wzero wsmul -> ab_action xadd xneg xzero xsmul ->
  is_hom wadd wsmul xadd xsmul phi -> decides_eq xeqb ->
  forall (anchor_pre : X -> W) (ell : Z) (x a : X) (e1 : bytes) (z1 : W) (e2 : bytes) (z2 : W) (w : W),
    phi (anchor_pre x) = xsmul ell x ->
    maurer_extract W X wadd wneg wsmul xadd xsmul xeqb phi anchor_pre ell x a e1 z1 e2 z2 = Some w ->
    phi w = x.
Proof. exact maurer_special_sound_b. Qed.
Print Assumptions C08_maurer_special_sound.

(* ... and it does return a witness on two accepting transcripts whenever the extended
   Euclid reports gcd(l, e1 - e2) = 1 *)
Theorem C08_maurer_extract_defined :
  forall (W X : Type) (wadd : W -> W -> W) (wneg : W -> W) (wzero : W) (wsmul : Z -> W -> W)
         (xadd : X -> X -> X) (xneg : X -> X) (xzero : X) (xsmul : Z -> X -> X)
         (xeqb : X -> X -> bool) (phi : W -> X),
  ab_action wadd wneg wzero wsmul -> ab_action xadd xneg xzero xsmul ->
  is_hom wadd wsmul xadd xsmul phi -> decides_eq xeqb ->
  forall (anchor_pre : X -> W) (ell : Z) (x a : X) (e1 : bytes) (z1 : W) (e2 : bytes) (z2 : W) alpha beta,
    maurer_verify W X xadd xsmul xeqb phi x a e1 z1 = true ->
    maurer_verify W X xadd xsmul xeqb phi x a e2 z2 = true ->
    egcd ell (chal_int e1 - chal_int e2)%Z = (1%Z, alpha, beta) ->
    exists w, maurer_extract W X wadd wneg wsmul xadd xsmul xeqb phi anchor_pre ell x a e1 z1 e2 z2 = Some w
              /\ (phi (anchor_pre x) = xsmul ell x -> phi w = x).
Proof. exact maurer_extract_defined_b. Qed.
Print Assumptions C08_maurer_extract_defined.

(* the coded simulator's transcripts verify, for every statement (no witness), challenge
   and simulator randomness *)
Theorem C08_maurer_simulator_verifies :
  forall (W X : Type) (wadd : W -> W -> W) (wneg : W -> W) (wzero : W) (wsmul : Z -> W -> W)
         (xadd : X -> X -> X) (xneg : X -> X) (xzero : X) (xsmul : Z -> X -> X)
         (xeqb : X -> X -> bool) (phi : W -> X),
  ab_action wadd wneg wzero wsmul -> ab_action xadd xneg xzero xsmul ->
  is_hom wadd wsmul xadd xsmul phi -> decides_eq xeqb ->
  forall (x : X) (e : bytes) (z : W),
    maurer_verify W X xadd xsmul xeqb phi x
      (fst (maurer_simulate W X xadd xneg xsmul phi x e z)) e
      (snd (maurer_simulate W X xadd xneg xsmul phi x e z)) = true.
Proof. exact maurer_simulator_verifies_b. Qed.
Print Assumptions C08_maurer_simulator_verifies.

(* Maurer's protocol meets the abstract notions the composition theorems are stated with *)
Theorem C08_maurer_proto_complete_and_simulatable :
  forall (W X : Type) (wadd : W -> W -> W) (wneg : W -> W) (wzero : W) (wsmul : Z -> W -> W)
         (xadd : X -> X -> X) (xneg : X -> X) (xzero : X) (xsmul : Z -> X -> X)
         (xeqb : X -> X -> bool) (phi : W -> X) (len : nat),
  ab_action wadd wneg wzero wsmul -> ab_action xadd xneg xzero xsmul ->
  is_hom wadd wsmul xadd xsmul phi -> decides_eq xeqb ->
  sp_complete (maurer_proto W X wadd wsmul xadd xneg xsmul xeqb phi len) (fun x w => phi w = x) /\
  sp_sim_ok (maurer_proto W X wadd wsmul xadd xneg xsmul xeqb phi len).
Proof.
  exact (fun W X wadd wneg wzero wsmul xadd xneg xzero xsmul xeqb phi len HW HX Hp He =>
    conj (maurer_proto_complete W X wadd wneg wzero wsmul xadd xneg xzero xsmul xeqb phi len HW HX Hp He)
         (maurer_proto_sim_ok W X wadd wneg wzero wsmul xadd xneg xzero xsmul xeqb phi len HW HX Hp He)).
Qed.
Print Assumptions C08_maurer_proto_complete_and_simulatable.

(* the exponent instance used for prime-order groups (group = Z_q with canonical
   representatives, phi(w) = g*w, anchor u = 0, l = q) meets every hypothesis of the sigma
   theorems, for every modulus q > 0 and every g *)
Theorem C08_exponent_instance : forall (q g : Z), (0 < q)%Z ->
  ab_action (zadd q) (zneg q) (zzero q) (zsmul q) /\
  is_hom (zadd q) (zsmul q) (zadd q) (zsmul q) (zphi q g) /\
  decides_eq (zeqb q) /\
  forall x, zphi q g (zzero q) = zsmul q q x.
Proof. exact zq_instance. Qed.
Print Assumptions C08_exponent_instance.

(* closed instance for the Paillier-style homomorphisms (n-th root protocol): the units
   modulo M (M = N^2; represented with their inverses, canonical representatives) under
   multiplication, integer powers as the action, phi(r) = r^N, anchor u = x, l = N.  All
   hypotheses of the Maurer theorems hold, for every modulus M > 0 and every N; no
   primality or coprimality assumption is needed *)
Theorem C08_paillier_power_instance : forall (M : Z) (HM : (0 < M)%Z) (N : Z),
  ab_action (umul M HM) (uinv M HM) (uone M HM) (upow M HM) /\
  is_hom (umul M HM) (upow M HM) (umul M HM) (upow M HM) (upow M HM N) /\
  decides_eq (ueqb M) /\
  forall x, upow M HM N ((fun y => y) x) = upow M HM N x.
Proof. exact units_power_instance. Qed.
Print Assumptions C08_paillier_power_instance.

(* ---------------- AND / OR composition ---------------- *)

(* sigand (cartesian): complete when both branches are; accepts exactly when both branches
   accept under their challenge prefixes; two accepting transcripts with the same first
   message yield witnesses for both statements *)
Theorem C08_and_complete : forall (P0 P1 : sproto) rel0 rel1,
  sp_complete P0 rel0 -> sp_complete P1 rel1 -> sp_complete (and2 P0 P1) (and_rel P0 P1 rel0 rel1).
Proof. exact and_complete. Qed.
Print Assumptions C08_and_complete.

Theorem C08_and_verify_iff : forall (P0 P1 : sproto) (x : sp_X (and2 P0 P1)) (a : sp_A (and2 P0 P1)) e (z : sp_Z (and2 P0 P1)),
  sp_verify (and2 P0 P1) x a e z = true <->
  sp_verify P0 (fst x) (fst a) (firstn (sp_len P0) e) (fst z) = true /\
  sp_verify P1 (snd x) (snd a) (firstn (sp_len P1) e) (snd z) = true.
Proof. exact and_verify_iff. Qed.
Print Assumptions C08_and_verify_iff.

Theorem C08_and_sound : forall (P0 P1 : sproto) rel0 rel1 good0 good1 ext0 ext1,
  sp_special_sound P0 rel0 good0 ext0 -> sp_special_sound P1 rel1 good1 ext1 ->
  sp_special_sound (and2 P0 P1) (and_rel P0 P1 rel0 rel1)
    (fun e1 e2 => good0 (firstn (sp_len P0) e1) (firstn (sp_len P0) e2) /\
                  good1 (firstn (sp_len P1) e1) (firstn (sp_len P1) e2))
    (fun x a e1 z1 e2 z2 =>
       (ext0 (fst x) (fst a) (firstn (sp_len P0) e1) (fst z1) (firstn (sp_len P0) e2) (fst z2),
        ext1 (snd x) (snd a) (firstn (sp_len P1) e1) (snd z1) (firstn (sp_len P1) e2) (snd z2))).
Proof. exact and_sound. Qed.
Print Assumptions C08_and_sound.

(* sigand (n copies, shared challenge): accepts exactly when all lengths are the count and
   every branch accepts *)
Theorem C08_andn_verify_iff : forall (P : sproto) (count : nat) xs az e zs,
  andn_verify P count xs az e zs = true <->
  length xs = count /\ length az = count /\ length zs = count /\
  forall i x a z, nth_error xs i = Some x -> nth_error az i = Some a -> nth_error zs i = Some z ->
                  sp_verify P x a e z = true.
Proof. exact andn_verify_iff. Qed.
Print Assumptions C08_andn_verify_iff.

(* sigand (n copies): an accepted transcript has exactly count statements, commitments AND
   responses; a response or commitment vector with one component more or fewer is rejected *)
Theorem C08_andn_accept_lengths : forall (P : sproto) (count : nat) xs az e zs,
  andn_verify P count xs az e zs = true ->
  length xs = count /\ length az = count /\ length zs = count.
Proof. exact andn_accept_lengths. Qed.
Print Assumptions C08_andn_accept_lengths.

Theorem C08_andn_wrong_response_count : forall (P : sproto) (count : nat) xs az e zs,
  length zs <> count -> andn_verify P count xs az e zs = false.
Proof. exact andn_wrong_response_count. Qed.
Print Assumptions C08_andn_wrong_response_count.

Theorem C08_andn_wrong_commitment_count : forall (P : sproto) (count : nat) xs az e zs,
  length az <> count -> andn_verify P count xs az e zs = false.
Proof. exact andn_wrong_commitment_count. Qed.
Print Assumptions C08_andn_wrong_commitment_count.

(* sigor: a proof built with exactly one real witness (branch b) and every other branch
   simulated verifies *)
Theorem C08_or_complete_one_witness : forall (P : sproto) rel (count b : nat) xs w r sims e xb,
  sp_complete P rel -> sp_sim_ok P ->
  length xs = count -> length sims = count -> (b < count)%nat ->
  nth_error xs b = Some xb -> rel xb w ->
  length e = sp_len P ->
  Forall (fun s => length (fst s) = sp_len P) sims ->
  or_verify_branches P count xs e (or_prove P b xs w r sims e) = true.
Proof. exact or_complete_one_witness. Qed.
Print Assumptions C08_or_complete_one_witness.

(* sigor: the verifier checks that the shares combine to the challenge, hence two accepting
   transcripts with the same first message and different challenges contain a branch with
   two accepting transcripts under different shares (input of that branch's extractor) *)
Theorem C08_or_sound_split : forall (P : sproto) (count : nat) xs az e es zs e' es' zs',
  or_verify P count xs az e es zs = true ->
  or_verify P count xs az e' es' zs' = true ->
  e <> e' ->
  exists i x a ei zi ei' zi',
    nth_error xs i = Some x /\ nth_error az i = Some a /\
    nth_error es i = Some ei /\ nth_error zs i = Some zi /\
    nth_error es' i = Some ei' /\ nth_error zs' i = Some zi' /\
    ei <> ei' /\ sp_verify P x a ei zi = true /\ sp_verify P x a ei' zi' = true.
Proof. exact or_sound_split. Qed.
Print Assumptions C08_or_sound_split.

(* sigor: every challenge share must have exactly the protocol's challenge length; a share of
   any other length (e.g. an over-long one whose first L bytes satisfy the XOR relation and
   whose integer value suits a simulated branch) is rejected *)
Theorem C08_or_overlong_share_rejected : forall (P : sproto) (count : nat) xs az e es zs i ei,
  nth_error es i = Some ei -> length ei <> sp_len P ->
  or_verify P count xs az e es zs = false.
Proof. exact or_overlong_share_rejected. Qed.
Print Assumptions C08_or_overlong_share_rejected.

Theorem C08_or_accept_share_lengths : forall (P : sproto) (count : nat) xs az e es zs,
  or_verify P count xs az e es zs = true ->
  length e = sp_len P /\ Forall (fun ei => length ei = sp_len P) es.
Proof. exact or_accept_share_lengths. Qed.
Print Assumptions C08_or_accept_share_lengths.

(* ---------------- Fiat–Shamir ---------------- *)

(* the compiled verifier accepts (a,e,z) in context c iff e is the challenge derived from
   (c, protocol name, statement, a) and the sigma verifier accepts *)
Theorem C08_fs_accept_iff :
  forall (P : sproto) (encX : sp_X P -> bytes) (encA : sp_A P -> bytes) (xof : xof_call -> bytes)
         c pname x a e z,
    fs_verify P encX encA xof c pname x a e z = true <->
    exists call, fs_challenge_call c pname (encX x) (encA a) (N.of_nat (sp_len P)) = Some call /\
                 e = xof call /\ sp_verify P x a e z = true.
Proof. exact fs_accept_iff. Qed.
Print Assumptions C08_fs_accept_iff.

(* an honest proof verifies in the context it was made in (P complete for (x,w)) *)
Theorem C08_fs_complete :
  forall (P : sproto) (encX : sp_X P -> bytes) (encA : sp_A P -> bytes) (xof : xof_call -> bytes)
         c pname x w r a e z,
    (forall e', sp_verify P x (fst (sp_commit P x w r)) e'
                  (sp_respond P x w (fst (sp_commit P x w r)) (snd (sp_commit P x w r)) e') = true) ->
    fs_prove P encX encA xof c pname x w r = Some (a, e, z) ->
    fs_verify P encX encA xof c pname x a e z = true.
Proof. exact fs_complete. Qed.
Print Assumptions C08_fs_complete.

Theorem C08_fs_wrong_transcript_state :
  forall (P : sproto) (encX : sp_X P -> bytes) (encA : sp_A P -> bytes) (xof : xof_call -> bytes),
  (forall c1 c2, xof c1 = xof c2 -> c1 = c2) ->
  forall c1 c2 pname x a e z,
    fs_valid c1 pname (encX x) (encA a) -> fs_valid c2 pname (encX x) (encA a) ->
    (0 < N.of_nat (sp_len P) < 2^64)%N ->
    c_hist c1 <> c_hist c2 ->
    fs_verify P encX encA xof c1 pname x a e z = true ->
    fs_verify P encX encA xof c2 pname x a e z = false.
Proof. exact fs_wrong_transcript_state. Qed.
Print Assumptions C08_fs_wrong_transcript_state.

Theorem C08_fs_wrong_session :
  forall (P : sproto) (encX : sp_X P -> bytes) (encA : sp_A P -> bytes) (xof : xof_call -> bytes),
  (forall c1 c2, xof c1 = xof c2 -> c1 = c2) ->
  forall c1 c2 pname x a e z,
    fs_valid c1 pname (encX x) (encA a) -> fs_valid c2 pname (encX x) (encA a) ->
    (0 < N.of_nat (sp_len P) < 2^64)%N ->
    wf_bytes (c_sid c1) -> wf_bytes (c_sid c2) -> length (c_sid c1) = length (c_sid c2) ->
    c_sid c1 <> c_sid c2 ->
    fs_verify P encX encA xof c1 pname x a e z = true ->
    fs_verify P encX encA xof c2 pname x a e z = false.
Proof. exact fs_wrong_session. Qed.
Print Assumptions C08_fs_wrong_session.

Theorem C08_fs_wrong_prover :
  forall (P : sproto) (encX : sp_X P -> bytes) (encA : sp_A P -> bytes) (xof : xof_call -> bytes),
  (forall c1 c2, xof c1 = xof c2 -> c1 = c2) ->
  forall c label id1 id2 pname x a e z,
    fs_valid (bind_prover c label id1) pname (encX x) (encA a) ->
    fs_valid (bind_prover c label id2) pname (encX x) (encA a) ->
    (0 < N.of_nat (sp_len P) < 2^64)%N ->
    id1 <> id2 ->
    fs_verify P encX encA xof (bind_prover c label id1) pname x a e z = true ->
    fs_verify P encX encA xof (bind_prover c label id2) pname x a e z = false.
Proof. exact fs_wrong_prover. Qed.
Print Assumptions C08_fs_wrong_prover.

Theorem C08_fs_wrong_statement :
  forall (P : sproto) (encX : sp_X P -> bytes) (encA : sp_A P -> bytes) (xof : xof_call -> bytes),
  (forall c1 c2, xof c1 = xof c2 -> c1 = c2) ->
  forall c pname x1 x2 a e z,
    fs_valid c pname (encX x1) (encA a) -> fs_valid c pname (encX x2) (encA a) ->
    (0 < N.of_nat (sp_len P) < 2^64)%N ->
    encX x1 <> encX x2 ->
    fs_verify P encX encA xof c pname x1 a e z = true ->
    fs_verify P encX encA xof c pname x2 a e z = false.
Proof. exact fs_wrong_statement. Qed.
Print Assumptions C08_fs_wrong_statement.

Theorem C08_fs_wrong_protocol :
  forall (P : sproto) (encX : sp_X P -> bytes) (encA : sp_A P -> bytes) (xof : xof_call -> bytes),
  (forall c1 c2, xof c1 = xof c2 -> c1 = c2) ->
  forall c p1 p2 x a e z,
    fs_valid c p1 (encX x) (encA a) -> fs_valid c p2 (encX x) (encA a) ->
    (0 < N.of_nat (sp_len P) < 2^64)%N ->
    wf_bytes (c_sid c) -> p1 <> p2 ->
    fs_verify P encX encA xof c p1 x a e z = true ->
    fs_verify P encX encA xof c p2 x a e z = false.
Proof. exact fs_wrong_protocol. Qed.
Print Assumptions C08_fs_wrong_protocol.

(* changing one decoded component of an accepted proof — the commitment (to one with a
   different encoding), the challenge, or the response (when the sigma verifier accepts at
   most one response per (x,a,e): Maurer with phi injective on responses,
   maurer_response_unique_b) — rejects *)
Theorem C08_fs_component_change :
  forall (P : sproto) (encX : sp_X P -> bytes) (encA : sp_A P -> bytes) (xof : xof_call -> bytes),
  (forall c1 c2, xof c1 = xof c2 -> c1 = c2) ->
  forall c pname x a e z,
    fs_valid c pname (encX x) (encA a) -> (0 < N.of_nat (sp_len P) < 2^64)%N ->
    fs_verify P encX encA xof c pname x a e z = true ->
    (forall a', fs_valid c pname (encX x) (encA a') -> encA a' <> encA a ->
                fs_verify P encX encA xof c pname x a' e z = false) /\
    (forall e', e' <> e -> fs_verify P encX encA xof c pname x a e' z = false) /\
    ((forall z1 z2, sp_verify P x a e z1 = true -> sp_verify P x a e z2 = true -> z1 = z2) ->
     forall z', z' <> z -> fs_verify P encX encA xof c pname x a e z' = false).
Proof. exact fs_component_change. Qed.
Print Assumptions C08_fs_component_change.

Theorem C08_maurer_response_unique :
  forall (W X : Type) (xadd : X -> X -> X) (xsmul : Z -> X -> X) (xeqb : X -> X -> bool) (phi : W -> X),
  decides_eq xeqb ->
  forall x a e z z',
    (forall u v, phi u = phi v -> u = v) ->
    maurer_verify W X xadd xsmul xeqb phi x a e z = true ->
    maurer_verify W X xadd xsmul xeqb phi x a e z' = true -> z = z'.
Proof. exact maurer_response_unique_b. Qed.
Print Assumptions C08_maurer_response_unique.

(* ---------------- Fischlin and randomised Fischlin ---------------- *)

(* Full statement wanted (as for Fiat–Shamir): "a proof accepted in context c is rejected in
   every context / for every statement / after every component change".  For these two
   compilers acceptance depends on hash-target tests of oracle outputs, so rejection in
   another context holds only with overwhelming probability over the oracle, which is not
   a property of a fixed function H.  Proved part (hence _partial): the exact acceptance
   condition, the structural rejections, and that the key / CRS all hash queries are chained
   from is an extraction of the session transcript that determines the whole context. *)
Theorem C08_fischlin_accept_iff_partial :
  forall (xof : xof_call -> bytes) (H : bytes -> bytes) c pname stmt rho b t len reps sv,
  fischlin_accept xof H c pname stmt rho b t len reps sv = true <->
  N.of_nat (length reps) = rho /\
  exists call, fi_key_call c pname stmt rho = Some call /\
    let commonH := H (xof call ++ stmt ++ flat_map (fun r => fst (fst r)) reps ++ c_sid c) in
    forall j a e z, nth_error reps j = Some (a, e, z) ->
      length e = N.to_nat ((t + 7) / 8) /\
      fi_target b (H (fi_rep_input commonH (N.of_nat j) e z)) = true /\
      (length e <= len)%nat /\ sv (N.of_nat j) (pad_left len e) = true.
Proof. exact fischlin_accept_iff. Qed.
Print Assumptions C08_fischlin_accept_iff_partial.

Theorem C08_fischlin_wrong_count :
  forall (xof : xof_call -> bytes) (H : bytes -> bytes) c pname stmt rho b t len reps sv,
  N.of_nat (length reps) <> rho -> fischlin_accept xof H c pname stmt rho b t len reps sv = false.
Proof. exact fischlin_wrong_count. Qed.
Print Assumptions C08_fischlin_wrong_count.

Theorem C08_fischlin_key_binds_context_partial :
  forall c1 p1 s1 rho1 c2 p2 s2 rho2 k,
  fi_valid c1 p1 s1 -> fi_valid c2 p2 s2 -> (rho1 < 2^64)%N -> (rho2 < 2^64)%N ->
  fi_key_call c1 p1 s1 rho1 = Some k -> fi_key_call c2 p2 s2 rho2 = Some k ->
  c_name c1 = c_name c2 /\ c_hist c1 = c_hist c2 /\
  fi_dst (c_sid c1) p1 = fi_dst (c_sid c2) p2 /\ rho1 = rho2 /\ s1 = s2.
Proof. exact fischlin_key_call_inj. Qed.
Print Assumptions C08_fischlin_key_binds_context_partial.

Theorem C08_fischlin_other_context_other_key_partial :
  forall (xof : xof_call -> bytes) c1 p1 s1 c2 p2 s2 rho k1 k2,
  (forall a b, xof a = xof b -> a = b) ->
  fi_valid c1 p1 s1 -> fi_valid c2 p2 s2 -> (rho < 2^64)%N ->
  fi_key_call c1 p1 s1 rho = Some k1 -> fi_key_call c2 p2 s2 rho = Some k2 ->
  (c_hist c1 <> c_hist c2 \/ fi_dst (c_sid c1) p1 <> fi_dst (c_sid c2) p2 \/ s1 <> s2) ->
  xof k1 <> xof k2.
Proof. exact fischlin_other_context_other_key. Qed.
Print Assumptions C08_fischlin_other_context_other_key_partial.

Theorem C08_randfischlin_accept_iff_partial :
  forall (xof : xof_call -> bytes) (H : bytes -> bytes) c pname len reps sv,
  randfischlin_accept xof H c pname len reps sv = true <->
  N.of_nat (length reps) = rf_R /\
  exists call, rf_crs_call c pname = Some call /\
    forall j a e z, nth_error reps j = Some (a, e, z) ->
      length e = len /\
      forallb (fun x => N.eqb x 0)
        (firstn rf_LBytes (H (rf_rep_input (xof call) (flat_map (fun r => fst (fst r)) reps) (N.of_nat j) e z))) = true /\
      sv (N.of_nat j) e = true.
Proof. exact randfischlin_accept_iff. Qed.
Print Assumptions C08_randfischlin_accept_iff_partial.

Theorem C08_randfischlin_wrong_count :
  forall (xof : xof_call -> bytes) (H : bytes -> bytes) c pname len reps sv,
  N.of_nat (length reps) <> rf_R -> randfischlin_accept xof H c pname len reps sv = false.
Proof. exact randfischlin_wrong_count. Qed.
Print Assumptions C08_randfischlin_wrong_count.

(* the guard of the fix for finding randfischlin-challenge-leading-zeros *)
Theorem C08_randfischlin_wrong_challenge_length :
  forall (xof : xof_call -> bytes) (H : bytes -> bytes) c pname len reps sv j a e z,
  nth_error reps j = Some (a, e, z) -> length e <> len ->
  randfischlin_accept xof H c pname len reps sv = false.
Proof. exact randfischlin_wrong_challenge_length. Qed.
Print Assumptions C08_randfischlin_wrong_challenge_length.

Theorem C08_randfischlin_crs_binds_context_partial :
  forall c1 p1 c2 p2 k,
  rf_valid c1 p1 -> rf_valid c2 p2 -> wf_bytes (c_sid c1) -> wf_bytes (c_sid c2) ->
  rf_crs_call c1 p1 = Some k -> rf_crs_call c2 p2 = Some k ->
  c_name c1 = c_name c2 /\ c_hist c1 = c_hist c2 /\ c_sid c1 = c_sid c2 /\ p1 = p2.
Proof. exact randfischlin_crs_call_inj. Qed.
Print Assumptions C08_randfischlin_crs_binds_context_partial.

(* ---------------- non-vacuity ---------------- *)

(* the hypotheses of the sigma theorems hold for the integers with phi(w) = 15*w (anchor
   u = x, l = 15), and the coded extractor recovers the witness 7 of 105 from the two
   transcripts of the nonce 4 with challenges 3 and 1 *)
Example C08_nonvacuous_sigma :
  ab_action Z.add Z.opp 0%Z Z.mul /\ is_hom Z.add Z.mul Z.add Z.mul (Z.mul 15) /\ decides_eq Z.eqb /\
  maurer_extract Z Z Z.add Z.opp Z.mul Z.add Z.mul Z.eqb (Z.mul 15) (fun x => x) 15
                 105%Z 60%Z [3%N] 25%Z [1%N] 11%Z = Some 7%Z.
Proof.
  split; [exact Z_ab_action|]. split; [exact (Zmul_is_hom 15)|]. split; [exact Zeqb_decides|].
  vm_compute. reflexivity.
Qed.

(* the XOF hypothesis is satisfiable (free encoding of the triple), a concrete context is
   valid, and a concrete honest proof is accepted there but not under another session id *)
Definition ex_P : sproto := maurer_proto Z Z Z.add Z.mul Z.add Z.opp Z.mul Z.eqb (Z.mul 15) 16.
Definition ex_enc (x : Z) : bytes := [Z.to_N x].
Definition ex_ctx (sid : bytes) : context :=
  {| c_name := [1%N]; c_hist := [App [2%N] [[3%N; 4%N]]]; c_sid := sid |}.

Example C08_nonvacuous_fs :
  (forall c1 c2, xof_free c1 = xof_free c2 -> c1 = c2) /\
  fs_valid (ex_ctx [9%N]) [5%N] (ex_enc 105) (ex_enc 60) /\
  match fs_prove ex_P ex_enc ex_enc xof_free (ex_ctx [9%N]) [5%N] 105%Z 7%Z 4%Z with
  | Some (a, e, z) =>
      a = 60%Z /\
      fs_verify ex_P ex_enc ex_enc xof_free (ex_ctx [9%N]) [5%N] 105%Z a e z = true /\
      fs_verify ex_P ex_enc ex_enc xof_free (ex_ctx [8%N]) [5%N] 105%Z a e z = false
  | None => False
  end.
Proof.
  split; [exact xof_free_inj|]. split.
  - unfold fs_valid, small.
    split; [|split; [|split]]; [|vm_compute; reflexivity|vm_compute; reflexivity|vm_compute; reflexivity].
    constructor; [|constructor]. cbn [valid_op].
    split; [vm_compute; reflexivity|]. split; [vm_compute; reflexivity|].
    constructor; [vm_compute; reflexivity|constructor].
  - vm_compute. repeat split; reflexivity.
Qed.
