(* C09 — Oblivious transfer and multiplication outputs are correctly correlated.
   Property theorems only; proofs are in proofs/Ot_proofs.v and proofs/Vole_proofs.v,
   the models in model/Ot.v and model/Vole.v (hand-written after
   pkg/ot/extension/softspoken/rounds.go, pkg/ot/base/{vsot,ecbbot}, pkg/mpc/rvole/bbot/rounds.go,
   pkg/base/binaryfields/bf128; tied to the code by the correspondence harness cmd/c09). *)
From Coq Require Import List Bool Arith NArith.
Import ListNotations.
Require Import V.base.Fld V.model.Ot V.model.Vole V.proofs.Ot_proofs V.proofs.Vole_proofs.

(* ---- OT extension ---------------------------------------------------------------------- *)

(* For every number of base OTs (rows), every row length, every Delta and every x':
   column j of the sender's matrix q is column j of t0, xor Delta when x'_j = 1. *)
Theorem C09_cot_correlation : forall (Delta : bits) (t0 t1 : list bits) (x' : bits) (j : nat),
  wf_rows (length x') Delta t0 t1 -> j < length x' ->
  column (send_q Delta (t_delta Delta t0 t1) (recv_u t0 t1 x')) j
  = xorv (column t0 j) (scalev (bit x' j) Delta).
Proof. exact cot_correlation_l. Qed.
Print Assumptions C09_cot_correlation.

(* hence, for every batch size xi, block length L and choice vector x, the receiver's output
   message (j, l) is the sender's message selected by the choice bit x_j *)
Theorem C09_cot_outputs : forall (L xi : nat) (Delta x sg : bits) (t0 t1 : list bits) (j l : nat),
  let x' := x_prime L x sg in
  let q := send_q Delta (t_delta Delta t0 t1) (recv_u t0 t1 x') in
  length x = xi -> wf_rows (length x') Delta t0 t1 -> j < xi -> l < L ->
  recv_msg L xi (L * xi) t0 j l
  = (if bit x j then snd else fst) (send_msgs L xi (L * xi) Delta q j l).
Proof. exact cot_outputs_l. Qed.
Print Assumptions C09_cot_outputs.

(* the two sender messages of an instance differ — guard: Delta <> 0 *)
Theorem C09_ot_messages_differ : forall (L xi ncols : nat) (Delta : bits) (q : list bits) (j l : nat),
  existsb (fun b => b) Delta = true -> length q = length Delta ->
  j < xi -> l < L -> j * L + l < ncols ->
  fst (send_msgs L xi ncols Delta q j l) <> snd (send_msgs L xi ncols Delta q j l).
Proof. exact ot_messages_differ_l. Qed.
Print Assumptions C09_ot_messages_differ.

(* the guard is necessary: with Delta = 0 (probability 2^-128 for an honest sender) they coincide *)
Theorem C09_ot_messages_equal_when_delta_zero : forall (L xi ncols : nat) (Delta : bits) (q : list bits) (j l : nat),
  forallb negb Delta = true -> length q = length Delta ->
  j < xi -> l < L -> j * L + l < ncols ->
  fst (send_msgs L xi ncols Delta q j l) = snd (send_msgs L xi ncols Delta q j l).
Proof. exact ot_messages_equal_when_delta_zero. Qed.
Print Assumptions C09_ot_messages_equal_when_delta_zero.

(* ---- consistency check, over any commutative ring of characteristic 2 and any additive
        embedding of sigma-bit blocks (GF(2^128) and bf128.FromBytes in the code) ------------- *)

Theorem C09_softspoken_check_complete :
  forall (R : Type) (K : c2ops R), c2laws K ->
  forall (emb : bits -> R) (sigma : nat),
  (forall a b, length a = length b -> emb (xorv a b) = radd K (emb a) (emb b)) ->
  forall (chi : list R) (x' Delta : bits) (t0 t1 : list bits),
  wf_rows (length x') Delta t0 t1 ->
  verify K emb sigma chi (compute_response K emb sigma chi x' t0) Delta
         (send_q Delta (t_delta Delta t0 t1) (recv_u t0 t1 x')) = true.
Proof. exact @softspoken_check_complete_l. Qed.
Print Assumptions C09_softspoken_check_complete.

(* any T different from the honest one is rejected ... *)
Theorem C09_softspoken_check_T :
  forall (R : Type) (K : c2ops R), c2laws K ->
  forall (emb : bits -> R) (sigma : nat),
  (forall a b, length a = length b -> emb (xorv a b) = radd K (emb a) (emb b)) ->
  forall (chi : list R) (x' Delta : bits) (t0 t1 : list bits) (T' : list R),
  wf_rows (length x') Delta t0 t1 ->
  T' <> snd (compute_response K emb sigma chi x' t0) ->
  verify K emb sigma chi (fst (compute_response K emb sigma chi x' t0), T') Delta
         (send_q Delta (t_delta Delta t0 t1) (recv_u t0 t1 x')) = false.
Proof. exact @softspoken_check_T_l. Qed.
Print Assumptions C09_softspoken_check_T.

(* ... in particular T[i] altered by any delta <> 0 *)
Theorem C09_softspoken_check_T_delta :
  forall (R : Type) (K : c2ops R), c2laws K ->
  forall (emb : bits -> R) (sigma : nat),
  (forall a b, length a = length b -> emb (xorv a b) = radd K (emb a) (emb b)) ->
  forall (chi : list R) (x' Delta : bits) (t0 t1 : list bits) (i : nat) (dl : R),
  wf_rows (length x') Delta t0 t1 -> i < length t0 -> dl <> r0 K ->
  let resp := compute_response K emb sigma chi x' t0 in
  verify K emb sigma chi (fst resp, upd (snd resp) i (radd K (nth i (snd resp) (r0 K)) dl)) Delta
         (send_q Delta (t_delta Delta t0 t1) (recv_u t0 t1 x')) = false.
Proof. exact @softspoken_check_T_delta_l. Qed.
Print Assumptions C09_softspoken_check_T_delta.

(* an altered X is rejected exactly when some Delta_i = 1; with Delta = 0 it is accepted *)
Theorem C09_softspoken_check_X :
  forall (R : Type) (K : c2ops R), c2laws K ->
  forall (emb : bits -> R) (sigma : nat),
  (forall a b, length a = length b -> emb (xorv a b) = radd K (emb a) (emb b)) ->
  forall (chi : list R) (x' Delta : bits) (t0 t1 : list bits) (X' : R),
  wf_rows (length x') Delta t0 t1 ->
  X' <> fst (compute_response K emb sigma chi x' t0) ->
  verify K emb sigma chi (X', snd (compute_response K emb sigma chi x' t0)) Delta
         (send_q Delta (t_delta Delta t0 t1) (recv_u t0 t1 x'))
  = negb (existsb (fun b => b) Delta).
Proof. exact @softspoken_check_X_l. Qed.
Print Assumptions C09_softspoken_check_X.

(* the embedding hypothesis holds for the executable bf128 model (bf128.FromBytes of a packed block, xor) *)
Theorem C09_bf128_embedding_additive : forall a b : bits,
  length a = length b -> emb128 (xorv a b) = radd bf128 (emb128 a) (emb128 b).
Proof. exact emb128_xor. Qed.
Print Assumptions C09_bf128_embedding_additive.

(* ---- base OTs, key derivation in the exponent (group = Z_q, any field) -------------------- *)

Theorem C09_vsot_correlation : forall (F : Type) (K : fops F), flaws K ->
  forall (idx : nat) (a b : F) (w : bool),
  vsot_recv_key K idx a w (vsot_bigB b)
  = (if w then snd else fst) (vsot_send_keys K idx b (vsot_bigA K a b w)).
Proof. exact @vsot_correlation_l. Qed.
Print Assumptions C09_vsot_correlation.

Theorem C09_vsot_messages_differ : forall (F : Type) (K : fops F), flaws K ->
  forall (idx : nat) (b A : F),
  b <> f0 K -> fst (vsot_send_keys K idx b A) <> snd (vsot_send_keys K idx b A).
Proof. exact @vsot_messages_differ_l. Qed.
Print Assumptions C09_vsot_messages_differ.

(* ecbbot: hash-to-curve functions h0, h1 arbitrary *)
Theorem C09_ecbbot_correlation : forall (F : Type) (K : fops F), flaws K ->
  forall (h0 h1 : F -> F) (idx : nat) (c : bool) (a bi s : F),
  snd (ec_recv K h0 h1 idx c bi s (ec_ms a))
  = (if c then snd else fst) (ec_send K h0 h1 idx a (fst (ec_recv K h0 h1 idx c bi s (ec_ms a)))).
Proof. exact @ecbbot_correlation_l. Qed.
Print Assumptions C09_ecbbot_correlation.

Theorem C09_ecbbot_messages_differ : forall (F : Type) (K : fops F),
  forall (h0 h1 : F -> F) (idx : nat) (a : F) (phi : F * F),
  fst (ec_send K h0 h1 idx a phi) <> snd (ec_send K h0 h1 idx a phi).
Proof. exact @ecbbot_messages_differ_l. Qed.
Print Assumptions C09_ecbbot_messages_differ.

(* ---- random VOLE multiplication, over any field, any xi, l, rho, any gadget vector g,
        any OT sender messages alpha0/alpha1 (Bob holding gamma_j = alpha_j[beta_j]),
        any random-oracle function roTheta ---------------------------------------------------- *)

Theorem C09_vole_product : forall (F : Type) (K : fops F), flaws K ->
  forall (ro_theta : mat -> nat -> nat -> F) (l rho xi : nat) (g a ahat : vec) (alpha0 alpha1 : mat)
         (beta : list bool) (d : vec),
  bob_round4 K ro_theta l rho xi g beta (ot_gamma K xi (l + rho) beta alpha0 alpha1)
             (fst (alice_round3 K ro_theta l rho xi g a ahat alpha0 alpha1)) = Some d ->
  forall i, i < l ->
  fadd K (vget K (snd (alice_round3 K ro_theta l rho xi g a ahat alpha0 alpha1)) i) (vget K d i)
  = fmul K (vget K a i) (bob_b K xi beta g).
Proof. exact @vole_product_l. Qed.
Print Assumptions C09_vole_product.

Theorem C09_vole_check_complete : forall (F : Type) (K : fops F), flaws K ->
  forall (ro_theta : mat -> nat -> nat -> F) (l rho xi : nat) (g a ahat : vec) (alpha0 alpha1 : mat)
         (beta : list bool),
  exists d, bob_round4 K ro_theta l rho xi g beta (ot_gamma K xi (l + rho) beta alpha0 alpha1)
                       (fst (alice_round3 K ro_theta l rho xi g a ahat alpha0 alpha1)) = Some d.
Proof. exact @vole_check_complete_l. Qed.
Print Assumptions C09_vole_check_complete.

(* any change of mu (the digest of a different matrix: roMu injective) is rejected *)
Theorem C09_vole_mu_altered : forall (F : Type) (K : fops F), flaws K ->
  forall (ro_theta : mat -> nat -> nat -> F) (l rho xi : nat) (g a ahat : vec) (alpha0 alpha1 : mat)
         (beta : list bool) (mu' : mat),
  let msg := fst (alice_round3 K ro_theta l rho xi g a ahat alpha0 alpha1) in
  mu' <> m_mu msg ->
  bob_round4 K ro_theta l rho xi g beta (ot_gamma K xi (l + rho) beta alpha0 alpha1)
             (mk_r3msg (m_atilde msg) (m_eta msg) mu') = None.
Proof. exact @vole_mu_altered_l. Qed.
Print Assumptions C09_vole_mu_altered.

(* an altered eta is accepted exactly when it agrees with the honest one at every k < rho or
   no beta_j (j < xi) is set; i.e. a change of some eta_k is rejected iff some beta_j = 1 *)
Theorem C09_vole_eta_altered : forall (F : Type) (K : fops F), flaws K ->
  forall (ro_theta : mat -> nat -> nat -> F) (l rho xi : nat) (g a ahat : vec) (alpha0 alpha1 : mat)
         (beta : list bool) (eta' : vec),
  let msg := fst (alice_round3 K ro_theta l rho xi g a ahat alpha0 alpha1) in
  (exists d, bob_round4 K ro_theta l rho xi g beta (ot_gamma K xi (l + rho) beta alpha0 alpha1)
                        (mk_r3msg (m_atilde msg) eta' (m_mu msg)) = Some d)
  <-> (forall j k, j < xi -> k < rho -> bget beta j = true -> vget K eta' k = vget K (m_eta msg) k).
Proof. exact @vole_eta_altered_l. Qed.
Print Assumptions C09_vole_eta_altered.

(* Full statement (not a theorem of this model: it is probabilistic over the random oracle):
     "an altered aTilde is rejected except with probability <= (xi*rho)/|F| over roTheta".
   Proved part: the exact acceptance set.  aTilde + dl is accepted iff for every j < xi, k < rho the
   linear coincidence below holds between the re-derived challenges theta' = roTheta(aTilde + dl)
   and the honest theta = roTheta(aTilde). *)
Theorem C09_vole_atilde_altered_partial : forall (F : Type) (K : fops F), flaws K ->
  forall (ro_theta : mat -> nat -> nat -> F) (l rho xi : nat) (g a ahat : vec) (alpha0 alpha1 : mat)
         (beta : list bool) (dl : mat),
  let msg := fst (alice_round3 K ro_theta l rho xi g a ahat alpha0 alpha1) in
  let theta := ro_theta (alice_atilde K l rho xi a ahat alpha0 alpha1) in
  let theta' := ro_theta (madd K xi (l + rho) (m_atilde msg) dl) in
  (exists d, bob_round4 K ro_theta l rho xi g beta (ot_gamma K xi (l + rho) beta alpha0 alpha1)
                        (mk_r3msg (madd K xi (l + rho) (m_atilde msg) dl) (m_eta msg) (m_mu msg)) = Some d)
  <-> (forall j k, j < xi -> k < rho ->
        fadd K (fmul K (betaF K beta j) (mget K dl j (l + k)))
          (fsub K
             (acc_upto K l (f0 K) (fun i =>
                fmul K (theta' i k)
                  (fadd K (mget K alpha0 j i) (fmul K (betaF K beta j) (fadd K (vget K a i) (mget K dl j i))))))
             (acc_upto K l (f0 K) (fun i =>
                fmul K (theta i k)
                  (fadd K (mget K alpha0 j i) (fmul K (betaF K beta j) (vget K a i))))))
        = f0 K).
Proof. exact @vole_atilde_altered_l. Qed.
Print Assumptions C09_vole_atilde_altered_partial.

(* ---- the hypotheses are satisfiable by non-trivial instances ------------------------------ *)

(* a 2 x 3 extension over GF(2) with 1-bit blocks: well-formed rows, Delta <> 0, the check accepts the
   honest response and rejects X flipped *)
Example C09_nonvacuous_ot :
  let Delta := [true; false] in let x' := [true; false; true] in
  let t0 := [[true; true; false]; [false; true; true]] in
  let t1 := [[false; true; false]; [true; true; false]] in
  wf_rows (length x') Delta t0 t1 /\ existsb (fun b => b) Delta = true /\
  c2laws c2_gf2 /\ (forall a b, length a = length b -> emb_hd (xorv a b) = radd c2_gf2 (emb_hd a) (emb_hd b)) /\
  verify c2_gf2 emb_hd 1 [true; true] (compute_response c2_gf2 emb_hd 1 [true; true] x' t0) Delta
         (send_q Delta (t_delta Delta t0 t1) (recv_u t0 t1 x')) = true /\
  negb (fst (compute_response c2_gf2 emb_hd 1 [true; true] x' t0)) <> fst (compute_response c2_gf2 emb_hd 1 [true; true] x' t0).
Proof.
  cbn zeta. split; [unfold wf_rows; repeat split; try reflexivity; repeat constructor|].
  split; [reflexivity|]. split; [exact c2_gf2_laws|]. split; [exact emb_hd_xor|]. split; [reflexivity|].
  vm_compute. intros E; discriminate E.
Qed.

(* a VOLE instance over GF(2): l = 2, rho = 1, xi = 3 *)
Example C09_nonvacuous_vole :
  flaws gf2 /\
  exists d, bob_round4 gf2 (fun m i k => mget gf2 m i k) 2 1 3 [true; true; false] [true; false; true]
              (ot_gamma gf2 3 3 [true; false; true] [[true; false; true]; [false; false; true]; [true; true; false]]
                        [[false; false; true]; [true; false; false]; [true; false; true]])
              (fst (alice_round3 gf2 (fun m i k => mget gf2 m i k) 2 1 3 [true; true; false] [true; false] [true]
                      [[true; false; true]; [false; false; true]; [true; true; false]]
                      [[false; false; true]; [true; false; false]; [true; false; true]])) = Some d.
Proof. split; [exact gf2_flaws|]. vm_compute. eexists; reflexivity. Qed.

(* the Gallina bf128 product itself (not only its extraction) on vectors on which the harness found
   bf128.Mul and the extracted model to agree: x^127 * x = x^7+x^2+x+1, and two random pairs *)
Example C09_bf128_vectors :
  let el := bits_of_N 128 in
  bits_eqb (bf_mul (el 0x80000000000000000000000000000000%N) (el 2%N)) (el 0x87%N) = true /\
  bits_eqb (bf_mul (el 0xf8898c558e0b1984439bb70eefee78e3%N) (el 0x94744e3e0dbc190dccfe7bb1c535a9ea%N))
           (el 0x62e066aa08884134e5d13b6150121bb2%N) = true /\
  bits_eqb (bf_mul (el 0xff6b1465ad6a21b8a991a433af342ecf%N) (el 0x47221e95c1c8ddfa5b54b0e162345f78%N))
           (el 0x301aa95c4db131917acc70bb3ab167e2%N) = true.
Proof. vm_compute. repeat split. Qed.
