(* C16 — Encryption (Paillier, ElGamal) decrypts correctly; homomorphisms are exact.
   Property theorems only; proofs are in proofs/Paillier_proofs.v, proofs/ElGamal_proofs.v
   and mc/NtFacts.v.  The models (model/Paillier.v on Z, model/ElGamal.v in the exponent)
   are hand-written after pkg/encryption/{paillier,elgamal}, pkg/base/nt/{znstar,modular,crt}
   and tied to the code by the correspondence check (harness/cmd/c16). *)
From Coq Require Import ZArith Znumtheory.
Require Import V.model.Paillier V.proofs.Paillier_proofs.
Require Import V.model.ElGamal V.proofs.ElGamal_proofs.
Local Open Scope Z_scope.

(* ---- Paillier: the public computation is the textbook formula -------------------------- *)

Theorem C16_one_plus_N_pow : forall N m, 0 <= m ->
  ((1 + N) ^ m) mod (N * N) = (1 + m * N) mod (N * N).
Proof. exact one_plus_N_pow. Qed.
Print Assumptions C16_one_plus_N_pow.

Theorem C16_enc_textbook : forall N m r, 0 < N -> 0 <= m -> enc N m r = textbook N m r.
Proof. exact enc_textbook. Qed.
Print Assumptions C16_enc_textbook.

(* ---- homomorphisms: ring identities modulo N^2, any modulus N > 0, any m, r, scalar ----- *)

Theorem C16_enc_add : forall N m1 r1 m2 r2, 0 < N ->
  cmul N (enc N m1 r1) (enc N m2 r2) = enc N ((m1 + m2) mod N) ((r1 * r2) mod N).
Proof. exact enc_add. Qed.
Print Assumptions C16_enc_add.

(* scalar: negative, zero, larger than N; [cscale]/[nonce_scale] refuse (None) only when an
   inverse does not exist *)
Theorem C16_enc_scale : forall N m r k c' r', 1 < N ->
  cscale N (enc N m r) k = Some c' -> nonce_scale N r k = Some r' ->
  c' = enc N ((m * k) mod N) r'.
Proof. exact enc_scale. Qed.
Print Assumptions C16_enc_scale.

Theorem C16_enc_inv : forall N m r c' r', 1 < N ->
  cinv N (enc N m r) = Some c' -> nonce_inv N r = Some r' -> c' = enc N ((- m) mod N) r'.
Proof. exact enc_inv. Qed.
Print Assumptions C16_enc_inv.

Theorem C16_enc_shift : forall N m r d, 0 < N ->
  shift N (enc N m r) d = enc N ((m + d) mod N) r.
Proof. exact enc_shift. Qed.
Print Assumptions C16_enc_shift.

Theorem C16_rerandomise : forall N m r r', 0 < N ->
  rerandomise N (enc N m r) r' = enc N m ((r * r') mod N).
Proof. exact rerandomise_spec. Qed.
Print Assumptions C16_rerandomise.

(* ---- decryption as coded (Fermat quotients per prime, CRT recombination) ----------------- *)

Theorem C16_decrypt_enc : forall p q k m r, prime p -> prime q -> p <> q ->
  precompute p q = Some k -> Z.gcd r (p * q) = 1 -> 0 <= m < p * q ->
  decrypt k (enc (p * q) m r) = m.
Proof. exact decrypt_enc. Qed.
Print Assumptions C16_decrypt_enc.

(* plaintexts carried in a smaller ring Z_M, M <= N: accepted by the public-key encryption, which
   encrypts the VALUE m (textbook formula with N, not M) and decrypts back to it *)
Theorem C16_decrypt_enc_ring : forall p q k M m r c, prime p -> prime q -> p <> q ->
  precompute p q = Some k -> Z.gcd r (p * q) = 1 -> 0 <= m < M ->
  pk_enc_ring (p * q) M m r = Some c -> decrypt k c = m /\ c = textbook (p * q) m r.
Proof. exact decrypt_enc_ring. Qed.
Print Assumptions C16_decrypt_enc_ring.

Theorem C16_enc_ring_accepts : forall N M m r, 0 < M <= N -> pk_enc_ring N M m r = Some (enc N m r).
Proof. exact pk_enc_ring_accepts. Qed.
Print Assumptions C16_enc_ring_accepts.

(* decryption of combined ciphertexts: the operations act on plaintexts as +, scalar *, shift, identity *)
Theorem C16_decrypt_homomorphic : forall p q k, prime p -> prime q -> p <> q -> precompute p q = Some k ->
  (forall m1 r1 m2 r2, Z.gcd r1 (p * q) = 1 -> Z.gcd r2 (p * q) = 1 ->
     decrypt k (cmul (p * q) (enc (p * q) m1 r1) (enc (p * q) m2 r2)) = (m1 + m2) mod (p * q)) /\
  (forall m r s c', Z.gcd r (p * q) = 1 ->
     cscale (p * q) (enc (p * q) m r) s = Some c' -> decrypt k c' = (m * s) mod (p * q)) /\
  (forall m r s, Z.gcd r (p * q) = 1 -> exists c', cscale (p * q) (enc (p * q) m r) s = Some c') /\
  (forall m r d, Z.gcd r (p * q) = 1 ->
     decrypt k (shift (p * q) (enc (p * q) m r) d) = (m + d) mod (p * q)) /\
  (forall m r r', Z.gcd r (p * q) = 1 -> Z.gcd r' (p * q) = 1 -> 0 <= m < p * q ->
     decrypt k (rerandomise (p * q) (enc (p * q) m r) r') = m).
Proof. exact decrypt_homomorphic. Qed.
Print Assumptions C16_decrypt_homomorphic.

(* Open returns both the plaintext and the nonce *)
Theorem C16_open_enc : forall p q k m r, prime p -> prime q -> p <> q ->
  precompute p q = Some k -> Z.gcd r (p * q) = 1 -> 0 <= m < p * q -> 0 <= r < p * q ->
  open_ct k (enc (p * q) m r) = Some (m, r).
Proof. exact open_enc. Qed.
Print Assumptions C16_open_enc.

(* operations accelerated with the secret key (CRT modulo p^2, q^2 resp. p, q; reduced exponents;
   ExpToN) give the same values as the public-key operations *)
Theorem C16_sk_ops_equal_pk_ops : forall p q k, prime p -> prime q -> p <> q -> precompute p q = Some k ->
  forall c c2 m r s d, Z.gcd r (p * q) = 1 ->
  sk_enc k m r = enc (p * q) m r /\
  sk_noise k r = noise (p * q) r /\
  sk_cmul k c c2 = cmul (p * q) c c2 /\
  sk_cscale k c s = cscale (p * q) c s /\
  sk_cinv k c = cinv (p * q) c /\
  sk_shift k c d = shift (p * q) c d /\
  sk_rerandomise k c r = rerandomise (p * q) c r /\
  sk_nonce_mul k c c2 = nonce_mul (p * q) c c2 /\
  sk_nonce_scale k c s = nonce_scale (p * q) c s /\
  sk_nonce_inv k c = nonce_inv (p * q) c.
Proof. exact sk_ops_equal_pk_ops. Qed.
Print Assumptions C16_sk_ops_equal_pk_ops.

(* key construction: the size floor and factor checks; admissible primes are never refused, so the
   hypothesis [precompute p q = Some k] above holds for every key the constructor accepts *)
Theorem C16_new_secret_key_ok : forall minlen p q k, new_secret_key minlen p q = Some k ->
  precompute p q = Some k /\ minlen <= bitlen (p * q) /\ bitlen p = bitlen q /\ p <> q.
Proof. exact new_secret_key_ok. Qed.
Print Assumptions C16_new_secret_key_ok.

Theorem C16_new_secret_key_total : forall minlen p q, prime p -> prime q -> p <> q -> 2 < p -> 2 < q ->
  bitlen p = bitlen q -> minlen <= bitlen (p * q) -> exists k, new_secret_key minlen p q = Some k.
Proof. exact new_secret_key_total. Qed.
Print Assumptions C16_new_secret_key_total.

(* symmetric plaintext range [-N/2, N/2): accepted exactly there, and Normalise inverts it *)
Theorem C16_symmetric_roundtrip : forall N x y, 0 < N -> plaintext_symmetric N x = Some y -> normalise N y = x.
Proof. exact symmetric_roundtrip. Qed.
Print Assumptions C16_symmetric_roundtrip.

Theorem C16_symmetric_accepts : forall N x, - N <= 2 * x < N -> plaintext_symmetric N x = Some (x mod N).
Proof. exact plaintext_symmetric_accepts. Qed.
Print Assumptions C16_symmetric_accepts.

(* ---- ElGamal in the exponent ------------------------------------------------------------------ *)

Theorem C16_elgamal_decrypt_enc : forall q a mu r,
  eg_decrypt q a (eg_enc q (eg_public q a) mu r) = mu mod q.
Proof. exact elgamal_decrypt_enc. Qed.
Print Assumptions C16_elgamal_decrypt_enc.

Theorem C16_elgamal_homomorphic : forall q a m1 r1 m2 r2 s d,
  let h := eg_public q a in
  eg_decrypt q a (eg_op q (eg_enc q h m1 r1) (eg_enc q h m2 r2)) = (m1 + m2) mod q /\
  eg_decrypt q a (eg_scale q (eg_enc q h m1 r1) s) = (m1 * s) mod q /\
  eg_decrypt q a (eg_inv q (eg_enc q h m1 r1)) = (- m1) mod q /\
  eg_decrypt q a (eg_shift q (eg_enc q h m1 r1) d) = (m1 + d) mod q.
Proof. exact elgamal_homomorphic. Qed.
Print Assumptions C16_elgamal_homomorphic.

Theorem C16_elgamal_rerandomise : forall q a m r r',
  let h := eg_public q a in
  eg_rerandomise q h (eg_enc q h m r) r' = eg_enc q h m (r + r') /\
  eg_sk_rerandomise q a (eg_enc q h m r) r' = eg_enc q h m (r + r') /\
  eg_decrypt q a (eg_rerandomise q h (eg_enc q h m r) r') = m mod q.
Proof. exact elgamal_rerandomise_decrypt. Qed.
Print Assumptions C16_elgamal_rerandomise.

Theorem C16_elgamal_sk_enc : forall q a mu r, eg_sk_enc q a mu r = eg_enc q (eg_public q a) mu r.
Proof. exact eg_sk_enc_eq. Qed.
Print Assumptions C16_elgamal_sk_enc.

Example C16_nonvacuous_primes : prime 1031 /\ prime 1049 /\ 1031 <> 1049.
Proof. exact example_primes. Qed.

(* hypotheses are satisfiable: a concrete key the model's key generation accepts, a unit
   nonce and an in-range plaintext (1031 and 1049 are prime: C16_nonvacuous_primes) *)
Example C16_nonvacuous :
  exists k, precompute 1031 1049 = Some k /\ Z.gcd 5 (1031 * 1049) = 1 /\
            decrypt k (enc (1031 * 1049) 1081518 5) = 1081518 /\
            cscale (1031 * 1049) (enc (1031 * 1049) 7 5) (-3) <> None /\
            open_ct k (enc (1031 * 1049) 1081518 5) = Some (1081518, 5) /\
            sk_cscale k (enc (1031 * 1049) 7 5) (-3) = cscale (1031 * 1049) (enc (1031 * 1049) 7 5) (-3) /\
            new_secret_key 21 1031 1049 = Some k /\ new_secret_key 22 1031 1049 = None /\
            plaintext_symmetric 1081519 (-540759) = Some 540760 /\
            eg_decrypt 13 5 (eg_enc 13 (eg_public 13 5) 9 11) = 9.
Proof.
  eexists. split; [vm_compute; reflexivity|].
  vm_compute. repeat split; try discriminate.
Qed.
