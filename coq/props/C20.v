(* C20 — Interpolation and linear algebra over the scalar fields are exact.
   Property theorems only; proofs are in proofs/LinAlg_proofs.v, proofs/Poly_proofs.v,
   proofs/Interp_proofs.v.  The models (model/LinAlg.v, model/Poly.v, model/Interp.v) are
   hand-written after /repo/pkg/base/{mat,polynomials} and tied by the correspondence
   check; every theorem is over an arbitrary field record K with [flaws K] and over
   arbitrary sizes.  (Go matrices always have >= 1 row and >= 1 column.) *)
From Coq Require Import List.
Import ListNotations.
Require Import V.base.Fld V.model.LinAlg V.proofs.LinAlg_proofs.

(* (a) SolveRight: a returned vector solves the system *)
Theorem C20_solve_right_sound : forall (F : Type) (K : fops F), flaws K ->
  forall r c (M : @matrix F) b x,
  wf_matrix r c M -> 0 < r -> 0 < c -> length b = r ->
  solve_right K M b = Some x -> length x = c /\ mvec K M x = b.
Proof. exact @solve_right_sound. Qed.
Print Assumptions C20_solve_right_sound.

(* (b) SolveRight: a solution is returned whenever one exists *)
Theorem C20_solve_right_complete : forall (F : Type) (K : fops F), flaws K ->
  forall r c (M : @matrix F) b y,
  wf_matrix r c M -> 0 < r -> 0 < c -> length b = r -> length y = c ->
  mvec K M y = b -> solve_right K M b <> None.
Proof. exact @solve_right_complete. Qed.
Print Assumptions C20_solve_right_complete.

(* failure is reported exactly when no solution exists (every shape: over-, under-determined, rank-deficient) *)
Theorem C20_solve_right_none_iff : forall (F : Type) (K : fops F), flaws K ->
  forall r c (M : @matrix F) b,
  wf_matrix r c M -> 0 < r -> 0 < c -> length b = r ->
  (solve_right K M b = None <-> ~ exists y, length y = c /\ mvec K M y = b).
Proof. exact @solve_right_none_iff. Qed.
Print Assumptions C20_solve_right_none_iff.

(* (c) SolveLeft *)
Theorem C20_solve_left_sound : forall (F : Type) (K : fops F), flaws K ->
  forall r c (M : @matrix F) rv x,
  wf_matrix r c M -> 0 < r -> 0 < c -> length rv = c ->
  solve_left K M rv = Some x -> length x = r /\ vecm K x M = rv.
Proof. exact @solve_left_sound. Qed.
Print Assumptions C20_solve_left_sound.

Theorem C20_solve_left_none_iff : forall (F : Type) (K : fops F), flaws K ->
  forall r c (M : @matrix F) rv,
  wf_matrix r c M -> 0 < r -> 0 < c -> length rv = c ->
  (solve_left K M rv = None <-> ~ exists y, length y = r /\ vecm K y M = rv).
Proof. exact @solve_left_none_iff. Qed.
Print Assumptions C20_solve_left_none_iff.
