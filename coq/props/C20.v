(* C20 — Interpolation and linear algebra over the scalar fields are exact.
   Property theorems only; proofs are in proofs/. (under construction) *)
From Coq Require Import List.
Import ListNotations.
Require Import V.base.Fld V.model.LinAlg V.proofs.LinAlg_proofs.

Theorem C20_wf_matrixb_iff : forall (F : Type) r c (M : @matrix F), wf_matrixb r c M = true <-> wf_matrix r c M.
Proof. exact @wf_matrixb_iff. Qed.
Print Assumptions C20_wf_matrixb_iff.
