(* C20 — Interpolation and linear algebra over the scalar fields are exact.
   Property theorems only; proofs are in proofs/LinAlg_proofs.v, proofs/Poly_proofs.v,
   proofs/Interp_proofs.v.  The models (model/LinAlg.v, model/Poly.v, model/Interp.v) are
   hand-written after /repo/pkg/base/{mat,polynomials} (loop for loop) and tied to the code
   by the correspondence check; every theorem is over an arbitrary field record K with
   [flaws K] (base/Fld.v; an executable instance with proved laws is base/ZpField.v, a field
   under the hypothesis [prime p]) and over arbitrary sizes.  Go matrices always have >= 1
   row and >= 1 column (NewMatrixModule refuses 0), hence the [0 < r], [0 < c] guards. *)
From Coq Require Import List ZArith.
Import ListNotations.
Require Import V.base.Fld V.base.ZpField V.model.LinAlg V.model.Poly V.model.Interp.
Require Import V.proofs.LinAlg_proofs V.proofs.Poly_proofs V.proofs.Interp_proofs V.proofs.Birkhoff_proofs V.proofs.Det_proofs V.proofs.DetCol_proofs.

(* ---- linear solving -------------------------------------------------------------------- *)

(* (a) SolveRight: a returned vector solves the system *)
Theorem C20_solve_right_sound : forall (F : Type) (K : fops F), flaws K ->
  forall r c (M : @matrix F) b x,
  wf_matrix r c M -> 0 < r -> 0 < c -> length b = r ->
  solve_right K M b = Some x -> length x = c /\ mvec K M x = b.
Proof. exact @solve_right_sound. Qed.
Print Assumptions C20_solve_right_sound.

(* (b) SolveRight: a solution is returned whenever one exists *)
Theorem C20_solve_right_complete : forall (F : Type) (K : fops F), flaws K ->
  forall r c (M : @matrix F) b y,
  wf_matrix r c M -> 0 < r -> 0 < c -> length b = r -> length y = c ->
  mvec K M y = b -> solve_right K M b <> None.
Proof. exact @solve_right_complete. Qed.
Print Assumptions C20_solve_right_complete.

(* failure is reported exactly when no solution exists — every shape: over-, under-determined,
   rank-deficient *)
Theorem C20_solve_right_none_iff : forall (F : Type) (K : fops F), flaws K ->
  forall r c (M : @matrix F) b,
  wf_matrix r c M -> 0 < r -> 0 < c -> length b = r ->
  (solve_right K M b = None <-> ~ exists y, length y = c /\ mvec K M y = b).
Proof. exact @solve_right_none_iff. Qed.
Print Assumptions C20_solve_right_none_iff.

(* (c) SolveLeft  (x·M = r through [M^T | r^T]) *)
Theorem C20_solve_left_sound : forall (F : Type) (K : fops F), flaws K ->
  forall r c (M : @matrix F) rv x,
  wf_matrix r c M -> 0 < r -> 0 < c -> length rv = c ->
  solve_left K M rv = Some x -> length x = r /\ vecm K x M = rv.
Proof. exact @solve_left_sound. Qed.
Print Assumptions C20_solve_left_sound.

Theorem C20_solve_left_none_iff : forall (F : Type) (K : fops F), flaws K ->
  forall r c (M : @matrix F) rv,
  wf_matrix r c M -> 0 < r -> 0 < c -> length rv = c ->
  (solve_left K M rv = None <-> ~ exists y, length y = r /\ vecm K y M = rv).
Proof. exact @solve_left_none_iff. Qed.
Print Assumptions C20_solve_left_none_iff.

(* the augmented-matrix core: Gauss–Jordan preserves the solution set ([ker aug (x ++ [-1])]
   says x solves [A | b]) *)
Theorem C20_solve_augmented_sound : forall (F : Type) (K : fops F), flaws K ->
  forall r n (aug : @matrix F) x,
  wf_matrix r (S n) aug -> 0 < r -> solve_augmented K aug = Some x ->
  length x = n /\ ker K aug (x ++ [fopp K (f1 K)]).
Proof. exact @solve_augmented_sound. Qed.
Print Assumptions C20_solve_augmented_sound.

Theorem C20_solve_augmented_complete : forall (F : Type) (K : fops F), flaws K ->
  forall r n (aug : @matrix F) y,
  wf_matrix r (S n) aug -> 0 < r -> length y = n -> ker K aug (y ++ [fopp K (f1 K)]) ->
  solve_augmented K aug <> None.
Proof. exact @solve_augmented_complete. Qed.
Print Assumptions C20_solve_augmented_complete.

(* ---- inverse ------------------------------------------------------------------------------ *)

(* (d) TryInv: a returned matrix is a two-sided inverse *)
Theorem C20_try_inv_sound : forall (F : Type) (K : fops F), flaws K ->
  forall n (M N : @matrix F), wf_matrix n n M -> 0 < n ->
  try_inv K M = Some N ->
  wf_matrix n n N /\ mmul K M N = identity K n /\ mmul K N M = identity K n.
Proof. exact @try_inv_sound. Qed.
Print Assumptions C20_try_inv_sound.

(* ... and failure ("matrix is singular") means there is not even a left inverse *)
Theorem C20_try_inv_complete : forall (F : Type) (K : fops F), flaws K ->
  forall n (M : @matrix F), wf_matrix n n M -> 0 < n ->
  try_inv K M = None -> ~ exists N, wf_matrix n n N /\ mmul K N M = identity K n.
Proof. exact @try_inv_complete. Qed.
Print Assumptions C20_try_inv_complete.

Theorem C20_try_inv_none_iff : forall (F : Type) (K : fops F), flaws K ->
  forall n (M : @matrix F), wf_matrix n n M -> 0 < n ->
  (try_inv K M = None <->
   ~ exists N, wf_matrix n n N /\ mmul K M N = identity K n /\ mmul K N M = identity K n).
Proof. exact @try_inv_none_iff. Qed.
Print Assumptions C20_try_inv_none_iff.

(* (g) Determinant returns zero exactly when TryInv reports "singular", i.e. exactly on the
   matrices without an inverse *)
Theorem C20_det_zero_iff : forall (F : Type) (K : fops F), flaws K ->
  forall n (M : @matrix F), wf_matrix n n M -> 0 < n ->
  (determinant K M = f0 K <-> try_inv K M = None).
Proof. exact @det_zero_iff. Qed.
Print Assumptions C20_det_zero_iff.

Theorem C20_det_zero_iff_singular : forall (F : Type) (K : fops F), flaws K ->
  forall n (M : @matrix F), wf_matrix n n M -> 0 < n ->
  (determinant K M = f0 K <->
   ~ exists N, wf_matrix n n N /\ mmul K M N = identity K n /\ mmul K N M = identity K n).
Proof. exact @det_zero_iff_singular. Qed.
Print Assumptions C20_det_zero_iff_singular.

(* ---- product, transpose, lifting --------------------------------------------------------------- *)

(* (e) *)
Theorem C20_mmul_assoc : forall (F : Type) (K : fops F), flaws K ->
  forall r m p q (A B C : @matrix F),
  wf_matrix r m A -> wf_matrix m p B -> wf_matrix p q C -> 0 < m -> 0 < p ->
  mmul K (mmul K A B) C = mmul K A (mmul K B C).
Proof. exact @mmul_assoc. Qed.
Print Assumptions C20_mmul_assoc.

Theorem C20_transpose_mul : forall (F : Type) (K : fops F), flaws K ->
  forall r m c (A B : @matrix F),
  wf_matrix r m A -> wf_matrix m c B -> 0 < r -> 0 < m -> 0 < c ->
  transpose K (mmul K A B) = mmul K (transpose K B) (transpose K A).
Proof. exact @transpose_mul. Qed.
Print Assumptions C20_transpose_mul.

Theorem C20_mvec_mmul : forall (F : Type) (K : fops F), flaws K ->
  forall r m c (A B : @matrix F) x,
  wf_matrix r m A -> wf_matrix m c B -> 0 < m -> length x = c ->
  mvec K (mmul K A B) x = mvec K A (mvec K B x).
Proof. exact @mvec_mmul. Qed.
Print Assumptions C20_mvec_mmul.

Theorem C20_mmul_identity : forall (F : Type) (K : fops F), flaws K ->
  forall r c (M : @matrix F), wf_matrix r c M -> 0 < r -> 0 < c ->
  mmul K (identity K r) M = M /\ mmul K M (identity K c) = M.
Proof. exact @mmul_identity. Qed.
Print Assumptions C20_mmul_identity.

(* "in the exponent": acting with a scalar matrix commutes with lifting, for every module
   satisfying [mlaws] (a prime-order group written additively) and all shapes *)
Theorem C20_lift_left_action : forall (F : Type) (K : fops F), flaws K ->
  forall (G : Type) (Mo : mops G F), mlaws K Mo ->
  forall (A X : @matrix F) g, left_action Mo A (lift Mo X g) = lift Mo (mmul K A X) g.
Proof. exact @lift_left_action. Qed.
Print Assumptions C20_lift_left_action.

Theorem C20_lift_right_action : forall (F : Type) (K : fops F), flaws K ->
  forall (G : Type) (Mo : mops G F), mlaws K Mo ->
  forall (X A : @matrix F) g, right_action K Mo (lift Mo X g) A = lift Mo (mmul K X A) g.
Proof. exact @lift_right_action. Qed.
Print Assumptions C20_lift_right_action.

(* ---- polynomials and interpolation ---------------------------------------------------------------- *)

(* the coded Horner loop is evaluation *)
Theorem C20_peval_horner : forall (F : Type) (K : fops F), flaws K ->
  forall p x, peval K p x = peval_r K p x.
Proof. exact @peval_eq_peval_r. Qed.
Print Assumptions C20_peval_horner.

(* root counting: fewer coefficients than distinct roots => the zero polynomial *)
Theorem C20_poly_roots_all0 : forall (F : Type) (K : fops F), flaws K ->
  forall (roots p : list F), NoDup roots -> length p <= length roots ->
  (forall r, In r roots -> peval_r K p r = f0 K) -> all0 K p.
Proof. exact @poly_roots_all0. Qed.
Print Assumptions C20_poly_roots_all0.

(* (f) Lagrange: distinct nodes, deg < n  =>  InterpolateAt recovers the polynomial's value
   at every point (node 0 or not, sorted or not, any size) *)
Theorem C20_lagrange_interp : forall (F : Type) (K : fops F), flaws K ->
  forall xs p at_, NoDup xs -> length p <= length xs ->
  lagrange_interpolate_at K xs (map (peval K p) xs) at_ = Ok (peval K p at_).
Proof. exact @lagrange_interp. Qed.
Print Assumptions C20_lagrange_interp.

(* the error is returned exactly for duplicate nodes *)
Theorem C20_lagrange_error_iff_dup : forall (F : Type) (K : fops F), flaws K ->
  forall xs at_, basis_at K xs at_ = None <-> ~ NoDup xs.
Proof. exact @basis_at_none_iff_dup. Qed.
Print Assumptions C20_lagrange_error_iff_dup.

Theorem C20_lagrange_dup_error : forall (F : Type) (K : fops F), flaws K ->
  forall xs ys at_, length ys = length xs -> ~ NoDup xs ->
  lagrange_interpolate_at K xs ys at_ = Err ErrDiv.
Proof. exact @lagrange_dup_error. Qed.
Print Assumptions C20_lagrange_dup_error.

(* interpolation in the exponent commutes with lifting, for all inputs (errors included) *)
Theorem C20_interp_in_exponent : forall (F : Type) (K : fops F), flaws K ->
  forall (G : Type) (Mo : mops G F), mlaws K Mo ->
  forall xs ys g at_,
  lagrange_interpolate_in_exponent_at K Mo xs (map (fun y => gsmul Mo g y) ys) at_ =
  match lagrange_interpolate_at K xs ys at_ with Ok v => Ok (gsmul Mo g v) | Err e => Err e end.
Proof. exact @lagrange_interp_in_exponent. Qed.
Print Assumptions C20_interp_in_exponent.

Theorem C20_interp_in_exponent_correct : forall (F : Type) (K : fops F), flaws K ->
  forall (G : Type) (Mo : mops G F), mlaws K Mo ->
  forall xs p g at_, NoDup xs -> length p <= length xs ->
  lagrange_interpolate_in_exponent_at K Mo xs (map (fun y => gsmul Mo g y) (map (peval K p) xs)) at_
  = Ok (gsmul Mo g (peval K p at_)).
Proof. exact @lagrange_interp_exponent_correct. Qed.
Print Assumptions C20_interp_in_exponent_correct.

(* Vandermonde (through SolveRight): recovers the coefficients, never fails on distinct nodes *)
Theorem C20_vandermonde_interp : forall (F : Type) (K : fops F), flaws K ->
  forall xs p, xs <> [] -> NoDup xs -> length p <= length xs ->
  vandermonde_interpolate K xs (map (peval K p) xs) = Ok (p ++ repeat (f0 K) (length xs - length p)).
Proof. exact @vandermonde_interp. Qed.
Print Assumptions C20_vandermonde_interp.

Theorem C20_vandermonde_total : forall (F : Type) (K : fops F), flaws K ->
  forall xs ys, xs <> [] -> NoDup xs -> length ys = length xs ->
  exists c, vandermonde_interpolate K xs ys = Ok c /\ length c = length xs /\ map (peval K c) xs = ys.
Proof. exact @vandermonde_total. Qed.
Print Assumptions C20_vandermonde_total.

(* (g) det_value: the elimination-coded Determinant equals the Laplace (first-column cofactor
   expansion) determinant [ldet], for every square matrix *)
Theorem C20_det_value : forall (F : Type) (K : fops F), flaws K ->
  forall n (M : @matrix F), wf_matrix n n M -> determinant K M = ldet K n M.
Proof. exact @det_value. Qed.
Print Assumptions C20_det_value.

(* the coded determinant of the coded transpose *)
Theorem C20_det_transpose : forall (F : Type) (K : fops F), flaws K ->
  forall n (M : @matrix F), wf_matrix n n M -> 0 < n ->
  determinant K (transpose K M) = determinant K M.
Proof. exact @det_transpose. Qed.
Print Assumptions C20_det_transpose.

(* det(A·B) = det(A)·det(B) for the coded determinant and product, all square matrices *)
Theorem C20_det_mul : forall (F : Type) (K : fops F), flaws K ->
  forall n (A B : @matrix F), wf_matrix n n A -> wf_matrix n n B -> 0 < n ->
  determinant K (mmul K A B) = fmul K (determinant K A) (determinant K B).
Proof. exact @det_mul. Qed.
Print Assumptions C20_det_mul.

(* multiplicativity (invertible left factor) and Cramer's rule as the code applies it
   (SetColumn + Determinant, divided by the determinant) *)
Theorem C20_det_mul_invertible : forall (F : Type) (K : fops F), flaws K ->
  forall n (A B : @matrix F), wf_matrix n n A -> wf_matrix n n B -> 0 < n ->
  try_inv K A <> None -> ldet K n (mmul K A B) = fmul K (ldet K n A) (ldet K n B).
Proof. exact @ldet_mul_invertible. Qed.
Print Assumptions C20_det_mul_invertible.

Theorem C20_cramer_rule : forall (F : Type) (K : fops F), flaws K ->
  forall n (V : @matrix F) ys, wf_matrix n n V -> 0 < n -> length ys = n ->
  determinant K V <> f0 K ->
  exists P, sequence_opt (map (fun c => match set_column c ys V with
                                        | None => None
                                        | Some Vc => Some (fdiv K (determinant K Vc) (determinant K V))
                                        end) (seq 0 n)) = Some P /\
            length P = n /\ mvec K V P = ys.
Proof. exact @cramer_rule. Qed.
Print Assumptions C20_cramer_rule.

(* Birkhoff: the generalised Vandermonde matrix built by birkhoff.BuildVandermondeMatrix is the
   matrix of the derivative constraints: a coefficient vector solves V·P = ys iff P^(j_i)(x_i) = y_i
   for every node (coded Derivative iterated j_i times, coded Eval), for all node sets and orders *)
Theorem C20_birkhoff_system_iff_constraints : forall (F : Type) (K : fops F), flaws K ->
  forall xs js ys P, length xs = length js -> length ys = length xs ->
  (mvec K (build_birkhoff K xs js (length P)) P = ys <->
   forall i, i < length xs ->
     peval K (pderiv_iter K (N.to_nat (nth i js 0%N)) P) (nth i xs (f0 K)) = nth i ys (f0 K)).
Proof. exact @birkhoff_system_iff_constraints. Qed.
Print Assumptions C20_birkhoff_system_iff_constraints.

(* birkhoff_interp: whenever birkhoff.Interpolate returns a polynomial P, every input constraint
   P^(j)(x) = y holds (any node order, any derivative-order pattern; [fkey] is the sort key) *)
Theorem C20_birkhoff_interp : forall (F : Type) (K : fops F), flaws K ->
  forall (fkey : F -> Z) xs js ys P,
  birkhoff_interpolate K fkey xs js ys = Ok P ->
  length P = length xs /\
  forall x j y, In (x, j, y) (combine (combine xs js) ys) ->
    peval K (pderiv_iter K (N.to_nat j) P) x = y.
Proof. exact @birkhoff_interp. Qed.
Print Assumptions C20_birkhoff_interp.

(* ... and an error (beyond the length / empty refusals) is returned exactly when the Birkhoff
   matrix of the sorted nodes is singular (determinant zero <-> no inverse: C20_det_zero_iff_singular) *)
Theorem C20_birkhoff_total : forall (F : Type) (K : fops F), flaws K ->
  forall (fkey : F -> Z) xs js ys, xs <> [] -> length xs = length js -> length xs = length ys ->
  let nodes := sort_nodes fkey (combine (combine xs js) ys) in
  let V := build_birkhoff K (map (fun n : F * N * F => fst (fst n)) nodes)
                            (map (fun n : F * N * F => snd (fst n)) nodes) (length xs) in
  (determinant K V = f0 K -> birkhoff_interpolate K fkey xs js ys = Err ErrSingular) /\
  (determinant K V <> f0 K -> exists P, birkhoff_interpolate K fkey xs js ys = Ok P).
Proof. exact @birkhoff_total. Qed.
Print Assumptions C20_birkhoff_total.

(* cofactor expansion along an arbitrary column, as InterpolateInExponent computes its numerators
   (Minor + Determinant with the sign (−1)^{r+c}) *)
Theorem C20_cofactor_column : forall (F : Type) (K : fops F), flaws K ->
  forall n c (V Vc : @matrix F) ys, wf_matrix n n V -> 1 < n -> c < n -> length ys = n ->
  set_column c ys V = Some Vc ->
  determinant K Vc =
  bsum K n (fun r => fmul K (nth r ys (f0 K))
                       match minor r c V with
                       | Some m => if Nat.even (r + c) then determinant K m else fopp K (determinant K m)
                       | None => f0 K
                       end).
Proof. exact @cofactor_column. Qed.
Print Assumptions C20_cofactor_column.

(* birkhoff_interp_in_exponent: interpolating group elements y_i·g equals lifting the scalar
   interpolation, for all inputs, error classes included; with a single node the code refuses
   (Minor of a 1x1 matrix is undefined) although the scalar variant answers *)
Theorem C20_birkhoff_interp_in_exponent : forall (F : Type) (K : fops F), flaws K ->
  forall (G : Type) (Mo : mops G F), mlaws K Mo ->
  forall (fkey : F -> Z) xs js ys g,
  birkhoff_interpolate_in_exponent K Mo fkey xs js (map (fun y => gsmul Mo g y) ys) =
  match birkhoff_interpolate K fkey xs js ys with
  | Ok P => if Nat.eqb (length xs) 1 then Err ErrDim else Ok (map (fun c => gsmul Mo g c) P)
  | Err e => Err e
  end.
Proof. exact @birkhoff_interp_in_exponent. Qed.
Print Assumptions C20_birkhoff_interp_in_exponent.

(* ---- non-vacuity: the hypotheses are met by concrete non-trivial instances ------------------------- *)

(* Z_7 with proved laws: a rank-deficient, under-determined system [[1 2 3][2 4 6]]·x = (3,6) *)
Example C20_nonvacuous_field : flaws (ZpS 7 (prime_gt0 7 prime_7)).
Proof. exact ZpS_7_flaws. Qed.

Example C20_nonvacuous_solve :
  let K := ZpS 7 (prime_gt0 7 prime_7) in
  let z := zp_of 7 (prime_gt0 7 prime_7) in
  let M := [[z 1; z 2; z 3]; [z 2; z 4; z 6]]%Z in
  wf_matrix 2 3 M /\ (exists x, solve_right K M [z 3; z 6]%Z = Some x) /\
  solve_right K M [z 3; z 5]%Z = None.
Proof.
  cbv zeta. split; [|split].
  - split; [reflexivity|repeat constructor].
  - eexists. vm_compute. reflexivity.
  - vm_compute. reflexivity.
Qed.

(* raw Z_101: cubic through 4 distinct unsorted nodes, and the duplicate-node error *)
Example C20_nonvacuous_lagrange :
  NoDup [4; 9; 1; 50]%Z /\
  lagrange_interpolate_at (Zp 101) [4; 9; 1; 50]%Z (map (peval (Zp 101) [3; 5; 7; 2]%Z) [4; 9; 1; 50]%Z) 77%Z
    = Ok (peval (Zp 101) [3; 5; 7; 2]%Z 77%Z) /\
  lagrange_interpolate_at (Zp 101) [4; 9; 4]%Z [1; 2; 1]%Z 0%Z = Err ErrDiv.
Proof.
  split; [|split]; [|vm_compute; reflexivity|vm_compute; reflexivity].
  repeat constructor; cbn; intuition discriminate.
Qed.

(* raw Z_101: a 3x3 determinant (= its Leibniz value 3), a singular one, and a Birkhoff problem with
   derivative constraints p(1), p'(2), p(3), p''(3) for p = 3 + 5X + 7X^2 + 2X^3, scalar and in the exponent *)
Example C20_nonvacuous_det_birkhoff :
  determinant (Zp 101) [[1; 2; 3]; [4; 5; 6]; [0; 1; 1]]%Z = 3%Z /\
  determinant (Zp 101) [[1; 2; 3]; [2; 4; 6]; [0; 1; 1]]%Z = 0%Z /\
  (let p := [3; 5; 7; 2]%Z in let K := Zp 101 in
   let ys := [peval K p 1; peval K (pderiv K p) 2; peval K p 3; peval K (pderiv K (pderiv K p)) 3]%Z in
   birkhoff_interpolate K (fun x => x) [3; 1; 2; 3]%Z [2; 0; 1; 0]%N [nth 3 ys 0; nth 0 ys 0; nth 1 ys 0; nth 2 ys 0]%Z = Ok p /\
   birkhoff_interpolate_in_exponent K (self_module K) (fun x => x) [3; 1; 2; 3]%Z [2; 0; 1; 0]%N
     (map (fun y => (5 * y) mod 101)%Z [nth 3 ys 0; nth 0 ys 0; nth 1 ys 0; nth 2 ys 0]%Z)
     = Ok (map (fun c => (5 * c) mod 101)%Z p)).
Proof. vm_compute. repeat split; reflexivity. Qed.
