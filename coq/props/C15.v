(* C15 — single-party signatures verify exactly for the signed message and key.
   Property theorems only; proofs are in proofs/{Ecdsa,Schnorr,Bls}_proofs.v. *)
From Coq Require Import ZArith List Bool.
Import ListNotations.
Require Import V.base.Fld V.model.Ecdsa V.model.Schnorr V.model.Bls.
Local Open Scope Z_scope.
