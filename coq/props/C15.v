(* C15 — single-party signatures verify exactly for the signed message and key.
   Property theorems only; proofs are in proofs/{ZnInv,Ecdsa,Schnorr,Bls}_proofs.v.
   The models (model/Ecdsa.v, Schnorr.v, Bls.v) are hand-written after pkg/signatures and tied to the
   code by the correspondence run.  Idealisations (definitions, not axioms): a prime-order group is
   Z_n in the exponent; hash-to-curve outputs are fresh basis elements of linear forms; the
   x-coordinate / y-parity / FromAffineX maps, the challenge and the key encoding are abstract
   functions constrained only by the hypotheses visible in each statement. *)
From Coq Require Import ZArith Znumtheory List Bool Zdiv.
Import ListNotations.
Require Import V.base.Fld V.model.Ecdsa V.model.Schnorr V.model.Bls.
Require Import V.proofs.ZnInv_proofs V.proofs.Ecdsa_proofs V.proofs.Schnorr_proofs V.proofs.Bls_proofs.
Local Open Scope Z_scope.
Arguments be_sig {M} _.
Arguments be_pk {M} _.
Arguments be_m {M} _.

(* ======================================== ECDSA ================================================== *)
(* hypotheses on the curve maps, used below:
     xf_inj    := forall a b, 0<a<n -> 0<b<n -> (xf a = xf b <-> a = b \/ a = n - b)
     yodd_neg  := forall a, 0<a<n -> yodd (n - a) = negb (yodd a)
     lift_spec := forall x b k, lift x b = Some k <-> (0<k<n /\ xf k = x /\ yodd k = b)            *)

(* the extended-Euclid inverse used by the models is a modular inverse for prime moduli *)
Theorem C15_inverse_correct : forall p a, prime p -> 0 < a < p -> (a * zp_inv p a) mod p = 1.
Proof. exact zp_inv_correct. Qed.
Print Assumptions C15_inverse_correct.

(* a signature produced by Sign verifies, carries a recovery id in 0..3, and that id is the documented
   one: bit 0 is the parity of y(kG), the x-coordinate looked up is x(kG) *)
Theorem C15_ecdsa_sign_verify : forall n p xf yodd lift,
  prime n ->
  (forall x b k, lift x b = Some k <-> (0 < k < n /\ xf k = x /\ yodd k = b)) ->
  forall d e k sg, 0 < d < n -> 0 < k < n ->
  ecdsa_sign n p xf lift d e k = Some sg ->
  ecdsa_verify n p xf lift false sg d e = true /\
  exists v, sv sg = Some v /\ In v [0; 1; 2; 3] /\ sr sg = xc n xf k /\ uval n (sr sg) (ss sg) e d = k /\
            xf k = rxv n p (sr sg) v /\ yodd k = Z.testbit v 0.
Proof. exact ecdsa_sign_verify. Qed.
Print Assumptions C15_ecdsa_sign_verify.

(* Sign never fails to find a recovery id once crypto/ecdsa produced non-zero (r, s), for n < p < 2n *)
Theorem C15_ecdsa_sign_total : forall n p xf yodd lift,
  prime n ->
  (forall x b k, lift x b = Some k <-> (0 < k < n /\ xf k = x /\ yodd k = b)) ->
  forall d e k r s, n < p < 2 * n -> (forall a, 0 < a < n -> 0 <= xf a < p) ->
  0 < d < n -> 0 < k < n ->
  sign_rs n xf d e k = Some (r, s) -> exists v, ecdsa_sign n p xf lift d e k = Some (mk_sig r s (Some v)).
Proof. exact ecdsa_sign_total. Qed.
Print Assumptions C15_ecdsa_sign_total.

(* the acceptance set without recovery id: r, s in [1,n-1] and x(s^-1 (e + r d) G) = r mod n *)
Theorem C15_ecdsa_accept_iff_no_recovery_id : forall n p xf lift,
  prime n ->
  forall strict r s e d,
  ecdsa_verify n p xf lift strict (mk_sig r s None) d e = true <->
  ((strict = true -> is_normalized n s = true) /\
   0 < r < n /\ 0 < s < n /\ uval n r s e d <> 0 /\ xc n xf (uval n r s e d) = r).
Proof. exact ecdsa_accept_iff_nov. Qed.
Print Assumptions C15_ecdsa_accept_iff_no_recovery_id.

(* ... and with a recovery id v: additionally v names the x-coordinate and y-parity of that point *)
Theorem C15_ecdsa_accept_iff : forall n p xf yodd lift,
  prime n ->
  (forall x b k, lift x b = Some k <-> (0 < k < n /\ xf k = x /\ yodd k = b)) ->
  forall strict r s v e d, 0 < d < n ->
  (ecdsa_verify n p xf lift strict (mk_sig r s (Some v)) d e = true <->
   ((strict = true -> is_normalized n s = true) /\
    0 < r < n /\ 0 < s < n /\ uval n r s e d <> 0 /\ xc n xf (uval n r s e d) = r /\
    xf (uval n r s e d) = rxv n p r v /\ yodd (uval n r s e d) = Z.testbit v 0)).
Proof. exact ecdsa_accept_iff. Qed.
Print Assumptions C15_ecdsa_accept_iff.

(* the documented equivalent form (r, n-s, v xor 1) is accepted by the default verifier ... *)
Theorem C15_ecdsa_equivalent_form_accepted : forall n p xf yodd lift,
  prime n ->
  (forall a b, 0 < a < n -> 0 < b < n -> (xf a = xf b <-> a = b \/ a = n - b)) ->
  (forall a, 0 < a < n -> yodd (n - a) = negb (yodd a)) ->
  (forall x b k, lift x b = Some k <-> (0 < k < n /\ xf k = x /\ yodd k = b)) ->
  forall sg d e, 0 < d < n ->
  ecdsa_verify n p xf lift false sg d e = true -> ecdsa_verify n p xf lift false (flip n sg) d e = true.
Proof. exact flip_accepted_by_default. Qed.
Print Assumptions C15_ecdsa_equivalent_form_accepted.

(* ... the strict verifier rejects whatever has s in the upper half ... *)
Theorem C15_ecdsa_strict_rejects_high_s : forall n p xf lift r s v d e,
  is_normalized n s = false -> ecdsa_verify n p xf lift true (mk_sig r s v) d e = false.
Proof. exact strict_rejects_high. Qed.
Print Assumptions C15_ecdsa_strict_rejects_high_s.

(* ... and of a valid signature and its equivalent form it accepts exactly one *)
Theorem C15_ecdsa_strict_accepts_exactly_one : forall n p xf yodd lift,
  prime n ->
  (forall a b, 0 < a < n -> 0 < b < n -> (xf a = xf b <-> a = b \/ a = n - b)) ->
  (forall a, 0 < a < n -> yodd (n - a) = negb (yodd a)) ->
  (forall x b k, lift x b = Some k <-> (0 < k < n /\ xf k = x /\ yodd k = b)) ->
  forall sg d e, 2 < n -> 0 < d < n ->
  ecdsa_verify n p xf lift false sg d e = true ->
  ecdsa_verify n p xf lift true sg d e = negb (ecdsa_verify n p xf lift true (flip n sg) d e).
Proof. exact strict_accepts_exactly_one. Qed.
Print Assumptions C15_ecdsa_strict_accepts_exactly_one.

(* low-S normalisation preserves validity and its result passes the strict verifier *)
Theorem C15_normalise_preserves : forall n p xf yodd lift,
  prime n ->
  (forall a b, 0 < a < n -> 0 < b < n -> (xf a = xf b <-> a = b \/ a = n - b)) ->
  (forall a, 0 < a < n -> yodd (n - a) = negb (yodd a)) ->
  (forall x b k, lift x b = Some k <-> (0 < k < n /\ xf k = x /\ yodd k = b)) ->
  forall sg d e, 2 < n -> 0 < d < n ->
  ecdsa_verify n p xf lift false sg d e = true ->
  ecdsa_verify n p xf lift true (normalise n sg) d e = true /\ is_normalized n (ss (normalise n sg)) = true.
Proof. exact normalise_preserves. Qed.
Print Assumptions C15_normalise_preserves.

(* public-key recovery returns the key under which the signature verifies / the signing key *)
Theorem C15_recover_returns_key : forall n p xf lift r s v d e,
  ecdsa_verify n p xf lift false (mk_sig r s (Some v)) d e = true -> recover n p lift r s v e = Some d.
Proof. exact recover_returns_key. Qed.
Print Assumptions C15_recover_returns_key.

Theorem C15_sign_recover_returns_key : forall n p xf yodd lift,
  prime n ->
  (forall x b k, lift x b = Some k <-> (0 < k < n /\ xf k = x /\ yodd k = b)) ->
  forall d e k sg, 0 < d < n -> 0 < k < n ->
  ecdsa_sign n p xf lift d e k = Some sg ->
  exists v, sv sg = Some v /\ recover n p lift (sr sg) (ss sg) v e = Some d.
Proof. exact sign_recover_returns_key. Qed.
Print Assumptions C15_sign_recover_returns_key.

(* single-component alterations: accepted only on the written coincidence sets
   (x_wrap a b: the points a·G, b·G have different x-coordinates that agree mod n) *)
Theorem C15_ecdsa_digest_changed : forall n xf,
  prime n ->
  (forall a b, 0 < a < n -> 0 < b < n -> (xf a = xf b <-> a = b \/ a = n - b)) ->
  forall r s e e' d,
  verify_core n xf r s e d = true -> verify_core n xf r s e' d = true ->
  eqm n e e' \/ eqm n e' (- e - 2 * r * d) \/ x_wrap n xf (uval n r s e d) (uval n r s e' d).
Proof. exact digest_changed. Qed.
Print Assumptions C15_ecdsa_digest_changed.

Theorem C15_ecdsa_s_changed : forall n xf,
  prime n ->
  (forall a b, 0 < a < n -> 0 < b < n -> (xf a = xf b <-> a = b \/ a = n - b)) ->
  forall r s s' e d,
  verify_core n xf r s e d = true -> verify_core n xf r s' e d = true ->
  s = s' \/ s' = n - s \/ x_wrap n xf (uval n r s e d) (uval n r s' e d).
Proof. exact s_changed. Qed.
Print Assumptions C15_ecdsa_s_changed.

Theorem C15_ecdsa_key_changed : forall n xf,
  prime n ->
  (forall a b, 0 < a < n -> 0 < b < n -> (xf a = xf b <-> a = b \/ a = n - b)) ->
  forall r s e d d',
  verify_core n xf r s e d = true -> verify_core n xf r s e d' = true ->
  eqm n d d' \/ eqm n (r * (d + d')) (- 2 * e) \/ x_wrap n xf (uval n r s e d) (uval n r s e d').
Proof. exact key_changed. Qed.
Print Assumptions C15_ecdsa_key_changed.

Theorem C15_ecdsa_recovery_id_changed : forall n p xf yodd lift,
  prime n ->
  (forall x b k, lift x b = Some k <-> (0 < k < n /\ xf k = x /\ yodd k = b)) ->
  forall r s v v' e d, n < p -> 0 < d < n -> 0 <= v <= 3 -> 0 <= v' <= 3 ->
  ecdsa_verify n p xf lift false (mk_sig r s (Some v)) d e = true ->
  ecdsa_verify n p xf lift false (mk_sig r s (Some v')) d e = true -> v = v'.
Proof. exact v_changed. Qed.
Print Assumptions C15_ecdsa_recovery_id_changed.

(* a changed r is accepted exactly when the acceptance condition above holds for the new r (the
   characterisation C15_ecdsa_accept_iff is the coincidence set) *)

(* ======================================== Schnorr-like =========================================== *)
(* generic variant (also Mina: encR = x-only, encP = full): accept iff s·G = R ± e·P with non-identity
   P, R, non-zero s and torsion-free R *)
Theorem C15_schnorr_accept_iff : forall n M (chal : Z -> Z -> M -> Z),
  prime n ->
  forall neg_resp encR encP sg pk m,
  gen_verify n M chal neg_resp encR encP sg pk m = true <->
  (~ eqm n (g_k pk) 0 /\ ~ eqm n (s_s sg) 0 /\ ~ eqm n (g_k (s_R sg)) 0 /\ g_tf (s_R sg) = true /\
   eqm n (s_s sg) (gen_rhs neg_resp (g_k (s_R sg)) (g_k pk) (chal (encR (g_k (s_R sg))) (encP (g_k pk)) m))).
Proof. exact (fun n M chal Hp neg encR encP => gen_accept_iff n M chal Hp neg encR encP (fun _ => false)). Qed.
Print Assumptions C15_schnorr_accept_iff.

Theorem C15_schnorr_sign_verify : forall n M (chal : Z -> Z -> M -> Z) neg_resp encR encP negate_nonce x k0 m sg,
  gen_sign n M chal neg_resp encR encP negate_nonce x k0 m = Some sg ->
  gen_verify n M chal neg_resp encR encP sg (mk_gelt true x) m = true /\
  sg = mk_ssig (mk_gelt true (gen_nonce n negate_nonce k0)) (gen_resp n M chal neg_resp encR encP negate_nonce x k0 m).
Proof. exact gen_sign_verify. Qed.
Print Assumptions C15_schnorr_sign_verify.

(* Sign succeeds (its self-verification passes) whenever key, nonce and response are non-zero *)
Theorem C15_schnorr_sign_total : forall n M (chal : Z -> Z -> M -> Z),
  prime n ->
  forall neg_resp encR encP negate_nonce x k0 m,
  ~ eqm n x 0 -> ~ eqm n k0 0 -> ~ eqm n (gen_resp n M chal neg_resp encR encP negate_nonce x k0 m) 0 ->
  gen_sign n M chal neg_resp encR encP negate_nonce x k0 m
    = Some (mk_ssig (mk_gelt true (gen_nonce n negate_nonce k0)) (gen_resp n M chal neg_resp encR encP negate_nonce x k0 m)).
Proof. exact gen_sign_total. Qed.
Print Assumptions C15_schnorr_sign_total.

(* a changed message is accepted only if the two challenges collide *)
Theorem C15_schnorr_message_changed : forall n M (chal : Z -> Z -> M -> Z),
  prime n -> (forall a b m, 0 <= chal a b m < n) ->
  forall neg_resp encR encP sg pk m m',
  gen_verify n M chal neg_resp encR encP sg pk m = true ->
  gen_verify n M chal neg_resp encR encP sg pk m' = true ->
  chal (encR (g_k (s_R sg))) (encP (g_k pk)) m = chal (encR (g_k (s_R sg))) (encP (g_k pk)) m'.
Proof. exact (fun n M chal Hp Hr neg encR encP => gen_message_changed n M chal Hp Hr neg encR encP (fun _ => false)). Qed.
Print Assumptions C15_schnorr_message_changed.

Theorem C15_schnorr_response_changed : forall n M (chal : Z -> Z -> M -> Z),
  prime n ->
  forall neg_resp encR encP R s s' pk m,
  gen_verify n M chal neg_resp encR encP (mk_ssig R s) pk m = true ->
  gen_verify n M chal neg_resp encR encP (mk_ssig R s') pk m = true -> eqm n s s'.
Proof. exact (fun n M chal Hp neg encR encP => gen_response_changed n M chal Hp neg encR encP (fun _ => false)). Qed.
Print Assumptions C15_schnorr_response_changed.

(* a changed key is accepted only on the written relation between the two challenges *)
Theorem C15_schnorr_key_changed : forall n M (chal : Z -> Z -> M -> Z),
  prime n ->
  forall neg_resp encR encP sg pk pk' m,
  gen_verify n M chal neg_resp encR encP sg pk m = true ->
  gen_verify n M chal neg_resp encR encP sg pk' m = true ->
  eqm n (g_k pk * chal (encR (g_k (s_R sg))) (encP (g_k pk)) m)
        (g_k pk' * chal (encR (g_k (s_R sg))) (encP (g_k pk')) m).
Proof. exact (fun n M chal Hp neg encR encP => gen_key_changed n M chal Hp neg encR encP (fun _ => false)). Qed.
Print Assumptions C15_schnorr_key_changed.

Theorem C15_mina_accept_iff : forall n M (chal : Z -> Z -> M -> Z),
  prime n ->
  forall sg pk m,
  mina_verify n M chal sg pk m = true <->
  (~ eqm n (g_k pk) 0 /\ ~ eqm n (s_s sg) 0 /\ ~ eqm n (g_k (s_R sg)) 0 /\ g_tf (s_R sg) = true /\
   eqm n (s_s sg) (g_k (s_R sg) + g_k pk * chal (xo n (g_k (s_R sg))) (full n (g_k pk)) m)).
Proof. exact mina_accept_iff. Qed.
Print Assumptions C15_mina_accept_iff.

(* BIP-340: accept iff R' = s·G − e·lift_x(P) is not the identity, has even y and the x-coordinate of R *)
Theorem C15_bip340_accept_iff : forall n yodd M (chal : Z -> Z -> M -> Z),
  prime n ->
  forall sg pk m,
  bip_verify n yodd M chal sg pk m = true <->
  (~ eqm n (s_s sg) 0 /\ ~ eqm n (g_k (s_R sg)) 0 /\ ~ eqm n (g_k pk) 0 /\ g_tf pk = true /\
   let P := even_y n yodd (g_k pk) in
   let R' := bip_R' n (s_s sg) P (chal (xo n (g_k (s_R sg))) (xo n P) m) in
   R' <> 0 /\ yodd R' = false /\ xo n R' = xo n (g_k (s_R sg))).
Proof. exact bip_accept_iff. Qed.
Print Assumptions C15_bip340_accept_iff.

Theorem C15_bip340_sign_verify : forall n yodd M (chal : Z -> Z -> M -> Z) d0 k0 m sg,
  bip_sign n yodd M chal d0 k0 m = Some sg ->
  bip_verify n yodd M chal sg (mk_gelt true (d0 mod n)) m = true /\
  sg = mk_ssig (mk_gelt true (bip_k n yodd k0)) (bip_s n yodd M chal d0 k0 m).
Proof. exact bip_sign_verify. Qed.
Print Assumptions C15_bip340_sign_verify.

(* the signer's parity corrections make its own verification pass; the R it returns has even y *)
Theorem C15_bip340_sign_total : forall n yodd M (chal : Z -> Z -> M -> Z),
  prime n ->
  (forall a, 0 < a < n -> yodd (n - a) = negb (yodd a)) ->
  forall d0 k0 m, 0 < d0 < n -> 0 < k0 < n -> ~ eqm n (bip_s n yodd M chal d0 k0 m) 0 ->
  bip_sign n yodd M chal d0 k0 m = Some (mk_ssig (mk_gelt true (bip_k n yodd k0)) (bip_s n yodd M chal d0 k0 m)) /\
  yodd (bip_k n yodd k0) = false.
Proof. exact bip_sign_total. Qed.
Print Assumptions C15_bip340_sign_total.

(* (R, s) and (−R, s) are the same 64 bytes and get the same verdict *)
Theorem C15_bip340_R_negation_same_verdict : forall n yodd M (chal : Z -> Z -> M -> Z) tf rk s pk m,
  0 < rk < n ->
  bip_verify n yodd M chal (mk_ssig (mk_gelt tf (n - rk)) s) pk m = bip_verify n yodd M chal (mk_ssig (mk_gelt tf rk) s) pk m.
Proof. exact bip_R_negation_same_verdict. Qed.
Print Assumptions C15_bip340_R_negation_same_verdict.

Theorem C15_bip340_odd_R_rejected : forall n yodd M (chal : Z -> Z -> M -> Z),
  prime n ->
  forall sg pk m,
  yodd (bip_R' n (s_s sg) (even_y n yodd (g_k pk)) (chal (xo n (g_k (s_R sg))) (xo n (even_y n yodd (g_k pk))) m)) = true ->
  bip_verify n yodd M chal sg pk m = false.
Proof. exact bip_odd_R_rejected. Qed.
Print Assumptions C15_bip340_odd_R_rejected.

Theorem C15_bip340_message_changed : forall n yodd M (chal : Z -> Z -> M -> Z),
  prime n ->
  (forall a, 0 < a < n -> yodd (n - a) = negb (yodd a)) ->
  (forall a b m, 0 <= chal a b m < n) ->
  forall sg pk m m', 0 < g_k (s_R sg) < n -> 0 < g_k pk < n ->
  bip_verify n yodd M chal sg pk m = true -> bip_verify n yodd M chal sg pk m' = true ->
  chal (xo n (g_k (s_R sg))) (xo n (even_y n yodd (g_k pk))) m = chal (xo n (g_k (s_R sg))) (xo n (even_y n yodd (g_k pk))) m'.
Proof. exact bip_message_changed. Qed.
Print Assumptions C15_bip340_message_changed.

(* wire forms (64-byte BIP-340 / Mina signatures, 32-byte x-only keys): accepted iff every component is the
   canonical representative (x < p, s < n), decodes to a point, and the decoded signature verifies *)
Theorem C15_bip340_wire_accept_iff : forall n yodd M (chal : Z -> Z -> M -> Z) p lift_even px rx s m,
  bip_verify_wire n yodd M chal p lift_even px rx s m = true <->
  (0 <= px < p /\ 0 <= rx < p /\ 0 <= s < n /\
   exists P R, lift_even px = Some P /\ lift_even rx = Some R /\
               bip_verify n yodd M chal (mk_ssig (mk_gelt true R) s) (mk_gelt true P) m = true).
Proof. exact bip_wire_accept_iff. Qed.
Print Assumptions C15_bip340_wire_accept_iff.

Theorem C15_mina_wire_accept_iff : forall n M (chal : Z -> Z -> M -> Z) p lift_even rx s pk m,
  mina_verify_wire n M chal p lift_even rx s pk m = true <->
  (0 <= rx < p /\ 0 <= s < n /\
   exists R, lift_even rx = Some R /\ mina_verify n M chal (mk_ssig (mk_gelt true R) s) pk m = true).
Proof. exact mina_wire_accept_iff. Qed.
Print Assumptions C15_mina_wire_accept_iff.

(* the encodings of s + k·n, k >= 1, are rejected whatever else the string contains *)
Theorem C15_wire_shifted_scalar_rejected : forall n yodd M (chal : Z -> Z -> M -> Z),
  prime n ->
  forall p lift_even px rx s m k, 0 <= s -> 0 < n -> 1 <= k ->
  bip_verify_wire n yodd M chal p lift_even px rx (s + k * n) m = false /\
  forall pk, mina_verify_wire n M chal p lift_even rx (s + k * n) pk m = false.
Proof. exact wire_shifted_component_rejected. Qed.
Print Assumptions C15_wire_shifted_scalar_rejected.

(* batch verification.  bip340.BatchVerify checks (sum a_i s_i) G = sum a_i lift_x(R_i) + sum a_i e_i lift_x(P_i)
   with a_1 = 1 and the other coefficients drawn by the verifier (coefs is the whole coefficient list):
   - if every signature verifies on its own, the batch is accepted for every choice of coefficients;
   - a batch of one signature is exactly single verification;
   - if the batch and the batch with EVERY response negated both pass, the left-hand side sum a_i s_i vanishes
     (never for a batch of one: that altered batch is rejected);
   - changing one response is rejected whenever its coefficient is non-zero.
   Soundness for general alterations holds only with probability over the coefficients and is not claimed. *)
Theorem C15_bip340_batch_complete : forall n yodd M (chal : Z -> Z -> M -> Z),
  prime n ->
  (forall a, 0 < a < n -> yodd (n - a) = negb (yodd a)) ->
  forall (es : list (bentry M)) coefs,
  es <> [] -> length coefs = length es ->
  (forall e, In e es -> entry_ok n M e /\ bip_verify n yodd M chal (be_sig e) (be_pk e) (be_m e) = true) ->
  bip_batch_verify n yodd M chal coefs es = true.
Proof. exact bip_batch_complete. Qed.
Print Assumptions C15_bip340_batch_complete.

Theorem C15_bip340_batch_of_one_is_single_verify : forall n yodd M (chal : Z -> Z -> M -> Z),
  prime n ->
  (forall a, 0 < a < n -> yodd (n - a) = negb (yodd a)) ->
  forall sg pk m,
  0 < g_k (s_R sg) < n -> 0 < g_k pk < n -> ~ eqm n (s_s sg) 0 -> g_tf pk = true ->
  bip_batch_verify n yodd M chal [1] [mk_bentry M sg pk m] = bip_verify n yodd M chal sg pk m.
Proof. exact bip_batch_one_equiv_single. Qed.
Print Assumptions C15_bip340_batch_of_one_is_single_verify.

Theorem C15_bip340_batch_all_responses_negated : forall n yodd M (chal : Z -> Z -> M -> Z),
  prime n ->
  forall (es : list (bentry M)) coefs,
  2 < n ->
  bip_batch_verify n yodd M chal coefs es = true ->
  bip_batch_verify n yodd M chal coefs (map (neg_s n M) es) = true -> batch_left n M coefs es = 0.
Proof. exact bip_batch_all_s_negated. Qed.
Print Assumptions C15_bip340_batch_all_responses_negated.

Theorem C15_bip340_batch_of_one_negated_rejected : forall n yodd M (chal : Z -> Z -> M -> Z),
  prime n ->
  forall e : bentry M,
  2 < n -> ~ eqm n (s_s (be_sig e)) 0 ->
  bip_batch_verify n yodd M chal [1] [e] = true -> bip_batch_verify n yodd M chal [1] [neg_s n M e] = false.
Proof. exact bip_batch_one_s_negated_rejected. Qed.
Print Assumptions C15_bip340_batch_of_one_negated_rejected.

Theorem C15_bip340_batch_one_response_changed : forall n yodd M (chal : Z -> Z -> M -> Z),
  prime n ->
  forall (l1 : list (bentry M)) c1 e a l2 c2 s',
  length c1 = length l1 -> ~ eqm n a 0 ->
  bip_batch_verify n yodd M chal (c1 ++ a :: c2) (l1 ++ e :: l2) = true ->
  bip_batch_verify n yodd M chal (c1 ++ a :: c2) (l1 ++ set_s M e s' :: l2) = true -> eqm n (s_s (be_sig e)) s'.
Proof. exact bip_batch_one_s_changed. Qed.
Print Assumptions C15_bip340_batch_one_response_changed.

(* VerifierTrait.BatchVerify (generic variant, Mina) verifies one entry after the other *)
Theorem C15_schnorr_batch_iff : forall n M (chal : Z -> Z -> M -> Z) neg_resp encR encP (es : list (bentry M)),
  gen_batch_verify n M chal neg_resp encR encP es = true <->
  (forall e, In e es -> gen_verify n M chal neg_resp encR encP (be_sig e) (be_pk e) (be_m e) = true).
Proof. exact gen_batch_iff. Qed.
Print Assumptions C15_schnorr_batch_iff.

(* ============================================ BLS ================================================ *)
(* feq q f g: the linear forms f, g have the same coefficients mod q (the same group element) *)
Theorem C15_bls_sign_verify : forall q pkenc,
  1 < q ->
  forall sc x m, x mod q <> 0 -> m <> [] ->
  exists sg, bls_sign q pkenc sc x m = Some sg /\ bls_verify q pkenc sc sg (mk_kel true x) m = true.
Proof. exact bls_sign_verify. Qed.
Print Assumptions C15_bls_sign_verify.

(* the verifier accepts iff key and signature are subgroup elements, the key is not the identity and
   sigma = x·H(dst, payload) *)
Theorem C15_bls_accept_iff_basic : forall q pkenc,
  1 < q ->
  forall sg pop pk m,
  bls_verify q pkenc Basic (mk_bsig sg pop) pk m = true <->
  (m <> [] /\ s_sub sg = true /\ k_sub pk = true /\ k_a pk mod q <> 0 /\
   feq q (s_f sg) (fscale (k_a pk) (fbasis (dst_basic, m)))).
Proof. exact bls_accept_iff_basic. Qed.
Print Assumptions C15_bls_accept_iff_basic.

Theorem C15_bls_accept_iff_aug : forall q pkenc,
  1 < q ->
  forall sg pop pk m,
  bls_verify q pkenc Aug (mk_bsig sg pop) pk m = true <->
  (m <> [] /\ s_sub sg = true /\ k_sub pk = true /\ k_a pk mod q <> 0 /\
   feq q (s_f sg) (fscale (k_a pk) (fbasis (dst_aug, pkenc (k_a pk mod q) ++ m)))).
Proof. exact bls_accept_iff_aug. Qed.
Print Assumptions C15_bls_accept_iff_aug.

Theorem C15_bls_accept_iff_pop : forall q pkenc,
  1 < q ->
  forall sg pop pk m,
  bls_verify q pkenc Pop (mk_bsig sg pop) pk m = true <->
  (m <> [] /\ s_sub sg = true /\ k_sub pk = true /\ k_a pk mod q <> 0 /\
   (exists pp, pop = Some pp /\ pop_verify q pkenc pk pp = true) /\
   feq q (s_f sg) (fscale (k_a pk) (fbasis (dst_pop_sig, m)))).
Proof. exact bls_accept_iff_pop. Qed.
Print Assumptions C15_bls_accept_iff_pop.

Theorem C15_pop_verify_iff : forall q pkenc,
  1 < q ->
  forall pk pop,
  pop_verify q pkenc pk pop = true <->
  (s_sub pop = true /\ k_sub pk = true /\ k_a pk mod q <> 0 /\
   feq q (s_f pop) (fscale (k_a pk) (fbasis (dst_pop_proof, pkenc (k_a pk mod q))))).
Proof. exact pop_verify_iff. Qed.
Print Assumptions C15_pop_verify_iff.

Theorem C15_pop_binds_key : forall q pkenc,
  1 < q ->
  forall pk pk' pop,
  pop_verify q pkenc pk pop = true -> pop_verify q pkenc pk' pop = true -> k_a pk mod q = k_a pk' mod q.
Proof. exact pop_binds_key. Qed.
Print Assumptions C15_pop_binds_key.

Theorem C15_aug_binds_key_and_message : forall q pkenc,
  1 < q -> (forall a b, length (pkenc a) = length (pkenc b)) ->
  forall sg pop pop' pk pk' m m',
  bls_verify q pkenc Aug (mk_bsig sg pop) pk m = true -> bls_verify q pkenc Aug (mk_bsig sg pop') pk' m' = true ->
  k_a pk mod q = k_a pk' mod q /\ m = m'.
Proof. exact aug_binds_key_and_message. Qed.
Print Assumptions C15_aug_binds_key_and_message.

Theorem C15_bls_message_changed : forall q pkenc,
  1 < q ->
  forall sg pop pop' pk m m',
  bls_verify q pkenc Basic (mk_bsig sg pop) pk m = true -> bls_verify q pkenc Basic (mk_bsig sg pop') pk m' = true -> m = m'.
Proof. exact basic_message_changed. Qed.
Print Assumptions C15_bls_message_changed.

Theorem C15_bls_key_changed : forall q pkenc,
  1 < q ->
  forall sg pop pop' pk pk' m,
  bls_verify q pkenc Basic (mk_bsig sg pop) pk m = true -> bls_verify q pkenc Basic (mk_bsig sg pop') pk' m = true ->
  k_a pk mod q = k_a pk' mod q.
Proof. exact basic_key_changed. Qed.
Print Assumptions C15_bls_key_changed.

(* an aggregate verifies iff it is the sum of x_i·H(m_i) and every key is a non-identity subgroup element *)
Theorem C15_bls_aggregate_iff : forall q,
  1 < q ->
  forall pks payloads sg dst,
  core_aggregate_verify q pks payloads sg dst = true <->
  (pks <> [] /\ length pks = length payloads /\ s_sub sg = true /\ form_is0 q (s_f sg) = false /\
   (forall pk, In pk pks -> k_sub pk = true /\ k_a pk mod q <> 0) /\
   feq q (s_f sg) (agg_sum pks payloads dst)).
Proof. exact bls_aggregate_iff. Qed.
Print Assumptions C15_bls_aggregate_iff.

Theorem C15_aggregate_identity_or_out_of_subgroup_key_rejected : forall q,
  1 < q ->
  forall pks payloads sg dst pk,
  In pk pks -> (k_sub pk = false \/ k_a pk mod q = 0) -> core_aggregate_verify q pks payloads sg dst = false.
Proof. exact aggregate_bad_key_rejected. Qed.
Print Assumptions C15_aggregate_identity_or_out_of_subgroup_key_rejected.

Theorem C15_aggregate_missing_contributor_rejected : forall q,
  1 < q ->
  forall l1 p1 pk m l2 p2 sg dst,
  length l1 = length p1 -> ~ In m (p1 ++ p2) -> k_a pk mod q <> 0 ->
  feq q (s_f sg) (agg_sum (l1 ++ l2) (p1 ++ p2) dst) ->
  core_aggregate_verify q (l1 ++ pk :: l2) (p1 ++ m :: p2) sg dst = false.
Proof. exact aggregate_missing_rejected. Qed.
Print Assumptions C15_aggregate_missing_contributor_rejected.

Theorem C15_aggregate_foreign_contributor_rejected : forall q,
  1 < q ->
  forall pks payloads sg dst b m' c0,
  ~ In m' payloads -> (b mod q <> 0 \/ c0 mod q <> 0) ->
  feq q (s_f sg) (fadd (agg_sum pks payloads dst) (fadd (fscale b (fbasis (dst, m'))) (fgen c0))) ->
  core_aggregate_verify q pks payloads sg dst = false.
Proof. exact aggregate_foreign_rejected. Qed.
Print Assumptions C15_aggregate_foreign_contributor_rejected.

(* FastAggregateVerify (POP scheme, one common message: pair the message with the sum of the keys)
   gives the same verdict as the general aggregate check *)
Theorem C15_fast_aggregate_verify_equiv : forall q,
  1 < q ->
  forall pks m sg dst,
  pks <> [] -> (forall pk, In pk pks -> k_sub pk = true /\ k_a pk mod q <> 0) ->
  core_verify q (agg_pk q pks) m sg dst = core_aggregate_verify q pks (map (fun _ => m) pks) sg dst.
Proof. exact (fun q => fast_aggregate_verify_equiv q (fun _ => [])). Qed.
Print Assumptions C15_fast_aggregate_verify_equiv.

(* ======================= the hypotheses are satisfiable by non-trivial instances ===================== *)
(* y^2 = x^3 + 7 over F_13: prime order 7, n < p < 2n; a signature produced and verified *)
Example C15_ecdsa_nonvacuous :
  prime 7 /\ 7 < 13 < 2 * 7 /\
  (forall a b, 0 < a < 7 -> 0 < b < 7 -> (toy_xf a = toy_xf b <-> a = b \/ a = 7 - b)) /\
  (forall a, 0 < a < 7 -> toy_yodd (7 - a) = negb (toy_yodd a)) /\
  (forall x b k, toy_lift x b = Some k <-> (0 < k < 7 /\ toy_xf k = x /\ toy_yodd k = b)) /\
  (forall a, 0 < a < 7 -> 0 <= toy_xf a < 13) /\
  ecdsa_sign 7 13 toy_xf toy_lift 3 2 2 = Some (mk_sig 1 6 (Some 3)) /\
  ecdsa_verify 7 13 toy_xf toy_lift true (mk_sig 1 1 (Some 2)) 3 2 = true.
Proof. exact toy_instance. Qed.

Example C15_schnorr_nonvacuous :
  (forall a, 0 < a < 7 -> toy_par (7 - a) = negb (toy_par a)) /\
  (forall a b m, 0 <= toy_chal a b m < 7) /\
  (exists sg, bip_sign 7 toy_par Z toy_chal 3 2 5 = Some sg /\ bip_verify 7 toy_par Z toy_chal sg (mk_gelt true 3) 5 = true) /\
  (exists sg, gen_sign 7 Z toy_chal true (full 7) (full 7) toy_par 3 2 5 = Some sg) /\
  (exists sg, mina_sign 7 toy_par Z toy_chal 3 2 4 = Some sg /\ mina_verify 7 Z toy_chal sg (mk_gelt true 3) 4 = true).
Proof. exact schnorr_toy_instance. Qed.

Example C15_bls_nonvacuous :
  1 < 7 /\ (forall a b, length (toy_pkenc a) = length (toy_pkenc b)) /\
  (exists sg, bls_sign 7 toy_pkenc Pop 3 [1; 2] = Some sg /\ bls_verify 7 toy_pkenc Pop sg (mk_kel true 3) [1; 2] = true) /\
  core_aggregate_verify 7 [mk_kel true 3; mk_kel true 5] [[1]; [2]]
    (mk_sel true (fadd (fscale 3 (fbasis (1, [1]))) (fscale 5 (fbasis (1, [2]))))) 1 = true /\
  core_aggregate_verify 7 [mk_kel true 3; mk_kel true 5] [[1]; [2]]
    (mk_sel true (fscale 3 (fbasis (1, [1])))) 1 = false /\
  aggregate_verify 7 toy_pkenc Aug (mk_sel true (fadd (fscale 3 (fbasis (2, [3; 9]))) (fscale 5 (fbasis (2, [5; 9])))))
    [mk_kel true 3; mk_kel true 5] [[9]; [9]] [] = true.
Proof. exact bls_toy_instance. Qed.
