(* C14 — Curve, field and pairing arithmetic equal the mathematical operations.
   Property theorems only; proofs are in proofs/Curve_proofs.v, proofs/ScalarMul_proofs.v.

   The straight-line programs W_Add W_Double W_Neg W_Sub W_Equal W_IsZero W_SetAffine W_ToAffine
   (weierstrass.go), E_Add E_Double E_Neg E_Sub E_Equal E_IsZero E_ToAffine (edwards.go),
   Q_Mul Q_Square C_Mul C_Square (quadratic.go, cubic.go) are gen/Formulas.v, REGENERATED from
   the current source on every run; the statements below are about those definitions, for an
   arbitrary field K with laws (flaws K) and arbitrary curve parameters.
   waff_add / waff_double / waff_neg / eaff_add / eaff_double are the affine chord-tangent and
   Edwards laws of model/Curve.v (the model the implementation is compared with at run time).
   scalar_mul_window / msm are the loops of aimpl.ScalarMulLowLevel / MultiScalarMulLowLevel
   (model/ScalarMul.v) over an abstract commutative monoid.

   Hypotheses that stay visible: no_two_torsion (x^3+ax+b has no root in F: holds for every
   supported prime-order curve because the group order is odd), characteristic not 2 and not 3,
   d non-square and a square for Edwards, and the monoid laws (associativity, commutativity,
   identity) of the group in which scalars act — for an elliptic curve, associativity of the
   chord-tangent law is such a hypothesis; it is not proved here.
   Not modelled in Coq (correspondence / implementation-side predicate only): the pairing
   (bilinearity and non-degeneracy are checked on the implementation), field inversion, square
   roots and wide reduction of the fiat-crypto generated fields (compared with Zp at run time). *)
From Coq Require Import List NArith ZArith Bool.
Import ListNotations.
Require Import V.base.Fld V.gen.Formulas V.gen.MsmWindow V.model.CurveParams V.model.Curve V.model.ScalarMul.
From Coq Require Import Znumtheory.
Require Import V.proofs.Curve_proofs V.proofs.ScalarMul_proofs V.proofs.F7_instance V.proofs.ZpField_proofs.

(* ---- short Weierstrass: the complete addition program ------------------------------------ *)

(* Add followed by ToAffine is the chord-tangent law, for ALL valid projective operands:
   identity operands, equal operands, opposite operands, generic operands; and the output is
   again a valid projective point of the curve (never (0,0,0)). *)
Theorem C14_w_add_correct : forall (F : Type) (K : fops F), flaws K -> forall a b : F,
  fadd K (f1 K) (f1 K) <> f0 K -> fadd K (fadd K (f1 K) (f1 K)) (f1 K) <> f0 K ->
  no_two_torsion K a b ->
  forall P Q : F * F * F, valid K a b P -> valid K a b Q ->
  valid K a b (proj_add K a b P Q) /\
  w_to_affine K (proj_add K a b P Q) = waff_add K a (w_to_affine K P) (w_to_affine K Q).
Proof. exact @w_add_correct. Qed.
Print Assumptions C14_w_add_correct.

Theorem C14_w_double_correct : forall (F : Type) (K : fops F), flaws K -> forall a b : F,
  fadd K (f1 K) (f1 K) <> f0 K -> fadd K (fadd K (f1 K) (f1 K)) (f1 K) <> f0 K ->
  no_two_torsion K a b ->
  forall P : F * F * F, valid K a b P ->
  valid K a b (proj_double K a b P) /\
  w_to_affine K (proj_double K a b P) = waff_double K a (w_to_affine K P).
Proof. exact @w_double_correct. Qed.
Print Assumptions C14_w_double_correct.

(* Sub is regenerated as Neg followed by Add *)
Theorem C14_w_sub_correct : forall (F : Type) (K : fops F), flaws K -> forall a b : F,
  fadd K (f1 K) (f1 K) <> f0 K -> fadd K (fadd K (f1 K) (f1 K)) (f1 K) <> f0 K ->
  no_two_torsion K a b ->
  forall P Q : F * F * F, valid K a b P -> valid K a b Q ->
  valid K a b (proj_sub K a b P Q) /\
  w_to_affine K (proj_sub K a b P Q) = waff_sub K a (w_to_affine K P) (w_to_affine K Q).
Proof. exact @w_sub_correct. Qed.
Print Assumptions C14_w_sub_correct.

Theorem C14_add_preserves_curve : forall (F : Type) (K : fops F), flaws K ->
  forall (a b : F) (P Q : F * F * F),
  proj_on K a b P -> proj_on K a b Q -> proj_on K a b (proj_add K a b P Q).
Proof. exact @add_preserves_curve. Qed.
Print Assumptions C14_add_preserves_curve.

Theorem C14_dbl_preserves_curve : forall (F : Type) (K : fops F), flaws K ->
  forall (a b : F) (P : F * F * F), proj_on K a b P -> proj_on K a b (proj_double K a b P).
Proof. exact @dbl_preserves_curve. Qed.
Print Assumptions C14_dbl_preserves_curve.

(* the cross-multiplied case identities behind C14_w_add_correct *)
Theorem C14_add_generic_agrees : forall (F : Type) (K : fops F), flaws K ->
  forall a b x1 y1 x2 y2 l di X3 Y3 Z3 : F,
  aff_on K a b x1 y1 -> aff_on K a b x2 y2 ->
  fmul K (fsub K x2 x1) di = f1 K -> l = fmul K (fsub K y2 y1) di ->
  W_Add K a b x1 y1 (f1 K) x2 y2 (f1 K) = (X3, Y3, Z3) ->
  X3 = fmul K (fsub K (fsub K (fmul K l l) x1) x2) Z3 /\
  Y3 = fmul K (fsub K (fmul K l (fsub K x1 (fsub K (fsub K (fmul K l l) x1) x2))) y1) Z3.
Proof. exact @add_generic_agrees. Qed.
Print Assumptions C14_add_generic_agrees.

Theorem C14_add_doubling_agrees : forall (F : Type) (K : fops F), flaws K -> forall a b : F,
  fadd K (f1 K) (f1 K) <> f0 K -> fadd K (fadd K (f1 K) (f1 K)) (f1 K) <> f0 K ->
  forall x y l di X3 Y3 Z3 : F,
  aff_on K a b x y -> fmul K (fadd K y y) di = f1 K ->
  l = fmul K (fadd K (fadd K (fadd K (fmul K x x) (fmul K x x)) (fmul K x x)) a) di ->
  W_Add K a b x y (f1 K) x y (f1 K) = (X3, Y3, Z3) ->
  X3 = fmul K (fsub K (fsub K (fmul K l l) x) x) Z3 /\
  Y3 = fmul K (fsub K (fmul K l (fsub K x (fsub K (fsub K (fmul K l l) x) x))) y) Z3 /\
  Z3 = fmul K (fmul K (fadd K y y) (fadd K y y)) (fadd K y y).
Proof. exact @add_doubling_agrees. Qed.
Print Assumptions C14_add_doubling_agrees.

Theorem C14_add_inverse_gives_infinity : forall (F : Type) (K : fops F), flaws K ->
  forall a b x y : F,
  let '(X3, _, Z3) := W_Add K a b x y (f1 K) x (fopp K y) (f1 K) in X3 = f0 K /\ Z3 = f0 K.
Proof. exact @add_inverse_gives_infinity. Qed.
Print Assumptions C14_add_inverse_gives_infinity.

Theorem C14_add_inverse_nondegenerate : forall (F : Type) (K : fops F), flaws K -> forall a b : F,
  fadd K (f1 K) (f1 K) <> f0 K -> no_two_torsion K a b ->
  forall x y Y3 : F, aff_on K a b x y ->
  W_Add K a b x y (f1 K) x (fopp K y) (f1 K) = (f0 K, Y3, f0 K) -> Y3 <> f0 K.
Proof. exact @add_inverse_nondegenerate. Qed.
Print Assumptions C14_add_inverse_nondegenerate.

Theorem C14_add_identity_left : forall (F : Type) (K : fops F), flaws K ->
  forall a b Y1 X2 Y2 Z2 : F,
  W_Add K a b (f0 K) Y1 (f0 K) X2 Y2 Z2 =
  (fmul K (fmul K (fmul K Y1 Y1) Y2) X2, fmul K (fmul K (fmul K Y1 Y1) Y2) Y2,
   fmul K (fmul K (fmul K Y1 Y1) Y2) Z2).
Proof. exact @add_identity_left. Qed.
Print Assumptions C14_add_identity_left.

Theorem C14_add_identity_right : forall (F : Type) (K : fops F), flaws K ->
  forall a b X1 Y1 Z1 Y2 : F,
  W_Add K a b X1 Y1 Z1 (f0 K) Y2 (f0 K) =
  (fmul K (fmul K (fmul K Y1 Y2) Y2) X1, fmul K (fmul K (fmul K Y1 Y2) Y2) Y1,
   fmul K (fmul K (fmul K Y1 Y2) Y2) Z1).
Proof. exact @add_identity_right. Qed.
Print Assumptions C14_add_identity_right.

(* completeness: for affine operands with x1 <> x2 the three outputs never vanish together *)
Theorem C14_add_nondegenerate : forall (F : Type) (K : fops F), flaws K -> forall a b : F,
  fadd K (f1 K) (f1 K) <> f0 K -> no_two_torsion K a b ->
  forall x1 y1 x2 y2 : F, aff_on K a b x1 y1 -> aff_on K a b x2 y2 -> x1 <> x2 ->
  W_Add K a b x1 y1 (f1 K) x2 y2 (f1 K) <> (f0 K, f0 K, f0 K).
Proof. exact @add_nondegenerate. Qed.
Print Assumptions C14_add_nondegenerate.

Theorem C14_neg_agrees : forall (F : Type) (K : fops F), flaws K -> forall P : F * F * F,
  w_to_affine K (proj_neg K P) = waff_neg K (w_to_affine K P).
Proof. exact @neg_agrees. Qed.
Print Assumptions C14_neg_agrees.

Theorem C14_equal_iff_same_affine : forall (F : Type) (K : fops F), flaws K ->
  forall (a b : F) (P Q : F * F * F), valid K a b P -> valid K a b Q ->
  (proj_equal K P Q = true <-> w_to_affine K P = w_to_affine K Q).
Proof. exact @equal_iff_same_affine. Qed.
Print Assumptions C14_equal_iff_same_affine.

Theorem C14_set_affine_iff_on_curve : forall (F : Type) (K : fops F), flaws K ->
  forall a b x y pX pY pZ : F,
  (fst (fst (fst (W_SetAffine K a b x y pX pY pZ))) = true <-> aff_on K a b x y).
Proof. exact @set_affine_ok_iff. Qed.
Print Assumptions C14_set_affine_iff_on_curve.

Theorem C14_is_zero_iff : forall (F : Type) (K : fops F), flaws K -> forall Z : F,
  (W_IsZero K Z = true <-> Z = f0 K).
Proof. exact @is_zero_spec. Qed.
Print Assumptions C14_is_zero_iff.

(* What exists at run time, for a prime modulus p: the regenerated addition program evaluated with
   the raw-integer operations Zp p of base/Fld.v (what the implementation computes modulo p, and
   what the extracted driver evaluates) followed by ToAffine equals the raw-integer chord-tangent
   law waff_add (Zp p) of model/Curve.v, on canonical residues.  Fp p is the field of canonical
   residues (a field because p is prime: hypothesis), fp_val its embedding into Z. *)
Theorem C14_zp_add_program_is_model : forall (p : Z) (p_prime : prime p) (a b : Fp p),
  fadd (FpOps p p_prime) (f1 (FpOps p p_prime)) (f1 (FpOps p p_prime)) <> f0 (FpOps p p_prime) ->
  fadd (FpOps p p_prime) (fadd (FpOps p p_prime) (f1 (FpOps p p_prime)) (f1 (FpOps p p_prime)))
       (f1 (FpOps p p_prime)) <> f0 (FpOps p p_prime) ->
  no_two_torsion (FpOps p p_prime) a b ->
  forall P Q : Fp p * Fp p * Fp p,
  valid (FpOps p p_prime) a b P -> valid (FpOps p p_prime) a b Q ->
  let '(X1, Y1, Z1) := h3 (fp_val p) P in
  let '(X2, Y2, Z2) := h3 (fp_val p) Q in
  w_to_affine (Zp p) (W_Add (Zp p) (fp_val p a) (fp_val p b) X1 Y1 Z1 X2 Y2 Z2) =
  waff_add (Zp p) (fp_val p a) (w_to_affine (Zp p) (X1, Y1, Z1)) (w_to_affine (Zp p) (X2, Y2, Z2)).
Proof. exact zp_add_program_is_model. Qed.
Print Assumptions C14_zp_add_program_is_model.

(* ---- twisted Edwards, extended coordinates ---------------------------------------------------- *)

Theorem C14_ed_add_correct : forall (F : Type) (K : fops F), flaws K -> forall a d : F,
  fadd K (f1 K) (f1 K) <> f0 K -> (forall r : F, fmul K r r <> d) ->
  forall s : F, fmul K s s = a ->
  forall P Q : F * F * F * F, e_valid K a d P -> e_valid K a d Q ->
  e_valid K a d (e_add K a d P Q) /\
  e_to_affine K (e_add K a d P Q) = eaff_add K a d (e_to_affine K P) (e_to_affine K Q).
Proof. exact @e_add_correct. Qed.
Print Assumptions C14_ed_add_correct.

Theorem C14_ed_double_correct : forall (F : Type) (K : fops F), flaws K -> forall a d : F,
  fadd K (f1 K) (f1 K) <> f0 K -> (forall r : F, fmul K r r <> d) ->
  forall s : F, fmul K s s = a ->
  forall P : F * F * F * F, e_valid K a d P ->
  e_valid K a d (e_double K a P) /\
  e_to_affine K (e_double K a P) = eaff_double K a d (e_to_affine K P).
Proof. exact @e_double_correct. Qed.
Print Assumptions C14_ed_double_correct.

Theorem C14_ed_sub_correct : forall (F : Type) (K : fops F), flaws K -> forall a d : F,
  fadd K (f1 K) (f1 K) <> f0 K -> (forall r : F, fmul K r r <> d) ->
  forall s : F, fmul K s s = a ->
  forall P Q : F * F * F * F, e_valid K a d P -> e_valid K a d Q ->
  e_valid K a d (e_sub K a d P Q) /\
  e_to_affine K (e_sub K a d P Q) = eaff_sub K a d (e_to_affine K P) (e_to_affine K Q).
Proof. exact @e_sub_correct. Qed.
Print Assumptions C14_ed_sub_correct.

Theorem C14_ed_add_preserves_curve : forall (F : Type) (K : fops F), flaws K ->
  forall (a d : F) (P Q : F * F * F * F),
  e_proj_on K a d P -> e_proj_on K a d Q -> e_proj_on K a d (e_add K a d P Q).
Proof. exact @ed_add_preserves_curve. Qed.
Print Assumptions C14_ed_add_preserves_curve.

Theorem C14_ed_add_complete : forall (F : Type) (K : fops F), flaws K -> forall a d : F,
  fadd K (f1 K) (f1 K) <> f0 K -> (forall r : F, fmul K r r <> d) ->
  forall s : F, fmul K s s = a ->
  forall x1 y1 x2 y2 : F, e_aff_on K a d x1 y1 -> e_aff_on K a d x2 y2 ->
  let t := fmul K d (fmul K (fmul K x1 x2) (fmul K y1 y2)) in
  fsub K (f1 K) t <> f0 K /\ fadd K (f1 K) t <> f0 K.
Proof. exact @ed_add_complete. Qed.
Print Assumptions C14_ed_add_complete.

Theorem C14_ed_equal_iff_same_affine : forall (F : Type) (K : fops F), flaws K ->
  forall P Q : F * F * F * F, snd P <> f0 K -> snd Q <> f0 K ->
  (e_equal K P Q = true <-> e_to_affine K P = e_to_affine K Q).
Proof. exact @ed_equal_iff_same_affine. Qed.
Print Assumptions C14_ed_equal_iff_same_affine.

Theorem C14_ed_is_zero_iff : forall (F : Type) (K : fops F), flaws K ->
  forall P : F * F * F * F, snd P <> f0 K ->
  (e_is_zero K P = true <-> e_to_affine K P = eaff_zero K).
Proof. exact @ed_is_zero_iff. Qed.
Print Assumptions C14_ed_is_zero_iff.

Theorem C14_ed_neg_agrees : forall (F : Type) (K : fops F), flaws K ->
  forall P : F * F * F * F, snd P <> f0 K ->
  e_to_affine K (e_neg K P) = eaff_neg K (e_to_affine K P).
Proof. exact @ed_neg_agrees. Qed.
Print Assumptions C14_ed_neg_agrees.

Theorem C14_zp_ed_add_program_is_model : forall (p : Z) (p_prime : prime p) (a d s : Fp p),
  fadd (FpOps p p_prime) (f1 (FpOps p p_prime)) (f1 (FpOps p p_prime)) <> f0 (FpOps p p_prime) ->
  (forall r : Fp p, fmul (FpOps p p_prime) r r <> d) -> fmul (FpOps p p_prime) s s = a ->
  forall P Q : Fp p * Fp p * Fp p * Fp p,
  e_valid (FpOps p p_prime) a d P -> e_valid (FpOps p p_prime) a d Q ->
  let '(X1, Y1, T1, Z1) := h4 (fp_val p) P in
  let '(X2, Y2, T2, Z2) := h4 (fp_val p) Q in
  e_to_affine (Zp p) (E_Add (Zp p) (fp_val p a) (fp_val p d) X1 Y1 T1 Z1 X2 Y2 T2 Z2) =
  eaff_add (Zp p) (fp_val p a) (fp_val p d)
           (e_to_affine (Zp p) (X1, Y1, T1, Z1)) (e_to_affine (Zp p) (X2, Y2, T2, Z2)).
Proof. exact zp_ed_add_program_is_model. Qed.
Print Assumptions C14_zp_ed_add_program_is_model.

(* ---- extension towers --------------------------------------------------------------------------------- *)

Theorem C14_quad_mul_schoolbook : forall (F : Type) (K : fops F), flaws K ->
  forall beta a0 a1 b0 b1 : F,
  Q_Mul K beta a0 a1 b0 b1 =
  (fadd K (fmul K a0 b0) (fmul K beta (fmul K a1 b1)), fadd K (fmul K a0 b1) (fmul K a1 b0)).
Proof. exact @quad_mul_schoolbook. Qed.
Print Assumptions C14_quad_mul_schoolbook.

Theorem C14_quad_square_is_mul : forall (F : Type) (K : fops F), flaws K ->
  forall beta a0 a1 : F, Q_Square K beta a0 a1 = Q_Mul K beta a0 a1 a0 a1.
Proof. exact @quad_square_is_mul. Qed.
Print Assumptions C14_quad_square_is_mul.

Theorem C14_cubic_mul_schoolbook : forall (F : Type) (K : fops F), flaws K ->
  forall xi a0 a1 a2 b0 b1 b2 : F,
  C_Mul K xi a0 a1 a2 b0 b1 b2 =
  (fadd K (fmul K a0 b0) (fmul K xi (fadd K (fmul K a1 b2) (fmul K a2 b1))),
   fadd K (fadd K (fmul K a0 b1) (fmul K a1 b0)) (fmul K xi (fmul K a2 b2)),
   fadd K (fadd K (fmul K a0 b2) (fmul K a1 b1)) (fmul K a2 b0)).
Proof. exact @cubic_mul_schoolbook. Qed.
Print Assumptions C14_cubic_mul_schoolbook.

Theorem C14_cubic_square_is_mul : forall (F : Type) (K : fops F), flaws K ->
  forall xi a0 a1 a2 : F, C_Square K xi a0 a1 a2 = C_Mul K xi a0 a1 a2 a0 a1 a2.
Proof. exact @cubic_square_is_mul. Qed.
Print Assumptions C14_cubic_square_is_mul.

(* ---- scalar multiplication (window algorithm of ScalarMulLowLevel) --------------------------- *)

(* n*P for the little-endian value n of every byte string (incl. the empty string, all-zero
   strings, strings longer than the group order), in every commutative monoid *)
Theorem C14_scalar_mul_window_correct :
  forall (G : Type) (zero : G) (add : G -> G -> G) (dbl : G -> G) (is_zero : G -> bool),
  (forall x y z : G, add x (add y z) = add (add x y) z) ->
  (forall x y : G, add x y = add y x) ->
  (forall x : G, add zero x = x) ->
  (forall x : G, dbl x = add x x) ->
  (forall x : G, is_zero x = true -> x = zero) ->
  forall (P : G) (s : list N), bytes_ok s ->
  scalar_mul_window zero add dbl P s = nmul zero add (le_value s) P.
Proof. exact @scalar_mul_window_correct. Qed.
Print Assumptions C14_scalar_mul_window_correct.

(* MultiScalarMulLowLevel (naive path for n <= 7, bucket path with running sums above):
   sum_i n_i * P_i for EVERY vector length, 0 included (the identity); None — the code panics —
   exactly when the two vectors have different lengths *)
Theorem C14_msm_correct :
  forall (G : Type) (zero : G) (add : G -> G -> G) (dbl : G -> G) (is_zero : G -> bool),
  (forall x y z : G, add x (add y z) = add (add x y) z) ->
  (forall x y : G, add x y = add y x) ->
  (forall x : G, add zero x = x) ->
  (forall x : G, dbl x = add x x) ->
  (forall x : G, is_zero x = true -> x = zero) ->
  forall (ps : list G) (ss : list (list N)), Forall bytes_ok ss ->
  msm zero add dbl is_zero ps ss =
  if Nat.eqb (length ps) (length ss) then Some (wsumf zero add le_value ps ss) else None.
Proof. exact @msm_correct. Qed.
Print Assumptions C14_msm_correct.

(* the window extraction closure of MultiScalarMulLowLevel, REGENERATED from mul.go with the Go
   typing of every subexpression (gen/MsmWindow.v: byte-typed arithmetic wraps modulo 256), is the
   get_window of the model about which C14_msm_correct is stated — for every window width (the
   code uses widths 2..16), every start bit and every byte string *)
Theorem C14_getWindow_generated_eq_model : forall (w : N) (b : list N) (start : N),
  getWindow w b start = get_window b start w.
Proof. exact getWindow_generated_eq_model. Qed.
Print Assumptions C14_getWindow_generated_eq_model.

(* the bucket path alone, for every vector length and every window width w > 0 *)
Theorem C14_msm_buckets_correct :
  forall (G : Type) (zero : G) (add : G -> G -> G) (dbl : G -> G) (is_zero : G -> bool),
  (forall x y z : G, add x (add y z) = add (add x y) z) ->
  (forall x y : G, add x y = add y x) ->
  (forall x : G, add zero x = x) ->
  (forall x : G, dbl x = add x x) ->
  (forall x : G, is_zero x = true -> x = zero) ->
  forall (ps : list G) (ss : list (list N)) (w : N), Forall bytes_ok ss -> (0 < w)%N ->
  msm_buckets zero add is_zero ps ss w = wsumf zero add le_value ps ss.
Proof. exact @msm_buckets_correct. Qed.
Print Assumptions C14_msm_buckets_correct.

(* ---- non-vacuity: a concrete field, curve and points meet every hypothesis ---------------------- *)

(* F_7, y^2 = x^3 + 2 (no root of x^3 + 2, characteristic 7), P = (3,1), Q = (0,3) *)
Example C14_weierstrass_hypotheses_satisfiable :
  flaws F7ops /\ fadd F7ops A1 A1 <> A0 /\ fadd F7ops (fadd F7ops A1 A1) A1 <> A0 /\
  no_two_torsion F7ops A0 A2 /\ valid F7ops A0 A2 (A3, A1, A1) /\ valid F7ops A0 A2 (A0, A3, A1) /\
  valid F7ops A0 A2 (A0, A1, A0) /\
  w_to_affine F7ops (proj_add F7ops A0 A2 (A3, A1, A1) (A0, A3, A1)) = Some (A6, A1).
Proof.
  split; [exact F7laws|]. split; [discriminate|]. split; [discriminate|].
  split; [intros []; discriminate|].
  split; [split; [reflexivity|discriminate]|].
  split; [split; [reflexivity|discriminate]|].
  split; [split; [reflexivity|discriminate]|].
  reflexivity.
Qed.

(* F_7, x^2 + y^2 = 1 + 5 x^2 y^2 (5 is a non-square, a = 1 = 1^2), P = (2,3) *)
Example C14_edwards_hypotheses_satisfiable :
  (forall r : F7, fmul F7ops r r <> A5) /\ fmul F7ops A1 A1 = A1 /\
  e_valid F7ops A1 A5 (A2, A3, A6, A1) /\ e_valid F7ops A1 A5 (A0, A1, A0, A1) /\
  e_to_affine F7ops (e_add F7ops A1 A5 (A2, A3, A6, A1) (A2, A3, A6, A1)) =
  eaff_add F7ops A1 A5 (A2, A3) (A2, A3).
Proof.
  split; [intros []; discriminate|]. split; [reflexivity|].
  split; [split; [split; reflexivity|discriminate]|].
  split; [split; [split; reflexivity|discriminate]|].
  reflexivity.
Qed.

(* (N, +): the monoid laws hold and the window algorithm gives 261 * 3 for the bytes [5; 1] *)
Example C14_scalar_mul_hypotheses_satisfiable :
  (forall x y z : N, N.add x (N.add y z) = N.add (N.add x y) z) /\
  (forall x y : N, N.add x y = N.add y x) /\ (forall x : N, N.add 0 x = x) /\
  bytes_ok [5%N; 1%N] /\
  scalar_mul_window 0%N N.add (fun x => N.add x x) 3%N [5%N; 1%N] = (261 * 3)%N /\
  msm 0%N N.add (fun x => N.add x x) (N.eqb 0) [1; 2; 3; 4; 5; 6; 7; 8; 9]%N
      [[1]; [2; 1]; []; [255]; [0; 0; 1]; [7]; [0]; [3]; [200; 200]]%N =
  Some (1 * 1 + 2 * 258 + 3 * 0 + 4 * 255 + 5 * 65536 + 6 * 7 + 7 * 0 + 8 * 3 + 9 * 51400)%N.
Proof.
  split; [intros; apply N.add_assoc|]. split; [intros; apply N.add_comm|].
  split; [intros; reflexivity|]. split; [repeat constructor|]. split; vm_compute; reflexivity.
Qed.

(* the executable affine model on the hand-written constants of CurveParams.v, evaluated by the
   kernel: every generator satisfies its curve equation, n*G is the identity on pallas' sister
   curve k256 for the small check 2G (SEC 2 test vector), and the window algorithm run on the
   affine k256 group agrees with double-and-add (cross-check of what the extracted driver runs) *)
Example C14_model_generators_on_curve :
  (w_on_curve k256_params (w_gen k256_params) && w_on_curve p256_params (w_gen p256_params) &&
   w_on_curve pallas_params (w_gen pallas_params) && w_on_curve vesta_params (w_gen vesta_params) &&
   w_on_curve bls12381g1_params (w_gen bls12381g1_params) &&
   w2_on_curve bls12381g2_params (w2_gen bls12381g2_params) &&
   e_on_curve ed25519_params (e_gen ed25519_params) &&
   m_on_curve curve25519_params (m_gen curve25519_params))%bool = true.
Proof. vm_compute. reflexivity. Qed.

Example C14_model_k256_2G :
  Curve.w_double k256_params (w_gen k256_params) =
  Some (0xc6047f9441ed7d6d3045406e95c07cd85c778e4b8cef3ca7abac09b95c709ee5,
        0x1ae168fea63dc339a3c58419466ceaeef7f632653266d0e1236431a950cfe52a)%Z /\
  scalar_mul_window None (Curve.w_add k256_params) (Curve.w_double k256_params) (w_gen k256_params) [0x39; 0x05]%N =
  w_mul k256_params 0x0539%Z (w_gen k256_params).
Proof. split; vm_compute; reflexivity. Qed.
