(* C07 — Protocol secrets come from, and depend on, each party's own randomness.
   Property theorems only; proofs are in proofs/Draws_proofs.v.  These are statements about
   the tape-functional model of model/Draws.v (any number of parties, any tapes, any draw
   specification); the model is tied to the code by the correspondence check
   (harness/cmd/c07: draw count and offset tie against recording tapes, paired runs). *)
From Coq Require Import List NArith ZArith Permutation.
Import ListNotations.
Require Import V.base.Bytes V.model.Draws V.proofs.Draws_proofs.
Local Open Scope N_scope.

(* Non-interference: replacing party j's tape leaves every other party's first-round
   randomised fields unchanged; party j's own message is the model's function of the new tape. *)
Theorem C07_msgs_function_of_own_tape : forall q specs ts j t',
  (forall i, i <> j -> nth i (run q specs (upd ts j t')) [] = nth i (run q specs ts) []) /\
  ((j < length specs)%nat -> (j < length ts)%nat ->
   nth j (run q specs (upd ts j t')) [] = first_msg q (nth j specs []) t').
Proof. exact msgs_function_of_own_tape_lemma. Qed.
Print Assumptions C07_msgs_function_of_own_tape.

(* A party's sampled values are a function of the bytes its draws cover (the recorded reads). *)
Theorem C07_values_function_of_served_bytes : forall q ds t1 t2,
  firstn (N.to_nat (total_len ds)) t1 = firstn (N.to_nat (total_len ds)) t2 ->
  party_values q ds t1 = party_values q ds t2.
Proof. exact party_values_served. Qed.
Print Assumptions C07_values_function_of_served_bytes.

(* The little-endian-mod-q sampler at an offset of two tapes: equal scalars iff the two
   integers are congruent mod q; equal integers of equal-length byte strings iff equal bytes. *)
Theorem C07_sample_depends_on_tape : forall q t1 t2 off len, q <> 0 ->
  let s1 := slice off len t1 in
  let s2 := slice off len t2 in
  (sample_scalar q s1 = sample_scalar q s2 <->
   ((Z.of_N (le_value s1) - Z.of_N (le_value s2)) mod Z.of_N q = 0)%Z) /\
  (wf_bytes s1 -> wf_bytes s2 -> length s1 = length s2 -> le_value s1 = le_value s2 -> s1 = s2).
Proof. exact sample_depends_on_tape_lemma. Qed.
Print Assumptions C07_sample_depends_on_tape.

(* Each party's first randomised message is an injective function of the sampled values. *)
Theorem C07_first_msg_injective : forall q ds t1 t2,
  first_msg q ds t1 = first_msg q ds t2 -> party_values q ds t1 = party_values q ds t2.
Proof. exact first_msg_injective_lemma. Qed.
Print Assumptions C07_first_msg_injective.

Theorem C07_encoding_injective : forall vs1 vs2, map enc_value vs1 = map enc_value vs2 -> vs1 = vs2.
Proof. exact encoding_injective_lemma. Qed.
Print Assumptions C07_encoding_injective.

(* The joint values depend on every party's sample: the sum changes by exactly delta when one
   sample changes by delta (so it changes iff delta <> 0 mod q); the session-id term changes
   when one party's contribution changes (distinct ids); a peer's zero share changes by
   exactly the signed difference of the pairwise term it shares with the changed party. *)
Theorem C07_joint_value_depends :
  (forall q ks j delta, q <> 0 -> (j < length ks)%nat ->
     joint_sum q (upd ks j ((nth j ks 0 + delta) mod q)) = (joint_sum q ks + delta) mod q /\
     (delta mod q <> 0 -> joint_sum q (upd ks j ((nth j ks 0 + delta) mod q)) <> joint_sum q ks)) /\
  (forall cs cs' i c c',
     NoDup (map fst cs) -> In (i, c) cs -> In (i, c') cs' -> c <> c' -> sid_term cs <> sid_term cs') /\
  (forall q s s' ids a b,
     NoDup ids -> In a ids -> b <> a ->
     (forall x y, x <> a -> y <> a -> s' x y = s x y) ->
     ((zero_share q s' ids b - zero_share q s ids b - (pterm s' b a - pterm s b a)) mod q = 0)%Z).
Proof. exact joint_value_depends_lemma. Qed.
Print Assumptions C07_joint_value_depends.

(* A sub-context pairwise seed (the source of a signing sub-quorum's zero shares) is an injective
   function of the parent pairwise seed bytes and the sub-quorum: it changes when they change. *)
Theorem C07_sub_seed_depends : forall p1 q1 p2 q2,
  sub_seed_term p1 q1 = sub_seed_term p2 q2 -> p1 = p2 /\ q1 = q2.
Proof. exact sub_seed_depends. Qed.
Print Assumptions C07_sub_seed_depends.

(* The session-id term determines the multiset of (id, contribution) pairs. *)
Theorem C07_sid_term_determines : forall cs cs', sid_term cs = sid_term cs' -> Permutation cs cs'.
Proof. exact sid_term_determines. Qed.
Print Assumptions C07_sid_term_determines.

(* Sessions whose tapes give non-congruent nonce bytes (or different witnesses) have different
   nonce commitments and different nonce points. *)
Theorem C07_nonce_commitments_fresh : forall q ck1 ck2 s1 s2 w1 w2, q <> 0 ->
  ((Z.of_N (le_value s1) - Z.of_N (le_value s2)) mod Z.of_N q <> 0)%Z \/ w1 <> w2 ->
  nonce_commitment ck1 (sample_scalar q s1) w1 <> nonce_commitment ck2 (sample_scalar q s2) w2 /\
  (((Z.of_N (le_value s1) - Z.of_N (le_value s2)) mod Z.of_N q <> 0)%Z ->
   TExp (sample_scalar q s1) <> TExp (sample_scalar q s2)).
Proof. exact nonce_commitments_fresh_lemma. Qed.
Print Assumptions C07_nonce_commitments_fresh.

(* In every draw specification a scalar draw reads exactly the wide length of the field. *)
Theorem C07_draws_scalar_len : forall p c r d,
  In d (draws p c r) -> d_kind d = KScalar -> d_len d = c_w c.
Proof. exact draws_scalar_len. Qed.
Print Assumptions C07_draws_scalar_len.

(* The draw table read as offsets (the sites the offset tie of the correspondence uses). *)
Theorem C07_lindell22_nonce_site : forall q c t,
  nth_error (first_msg q (draws PLindell22 c 1) t) 0 =
  Some (TExp (sample_scalar q (slice 0 (N.to_nat (c_w c)) t))).
Proof. exact lindell22_nonce_site. Qed.
Print Assumptions C07_lindell22_nonce_site.

Theorem C07_dkls23_round1_sites : forall q c t,
  let W := N.to_nat (c_w c) in
  firstn 3 (party_values q (draws PDkls23Bbot c 1) t) =
  [VScalar (sample_scalar q (slice 0 W t)); VRaw (slice W (N.to_nat 32) t);
   VScalar (sample_scalar q (slice (W + N.to_nat 32) W t))].
Proof. exact dkls23_round1_sites. Qed.
Print Assumptions C07_dkls23_round1_sites.

Theorem C07_session_round1_sites : forall q c t,
  first_msg q (draws PSession c 1) t =
  [TBytes (slice 0 (N.to_nat 32) t); TBytes (slice (N.to_nat 32) (N.to_nat 32) t);
   TBytes (slice (N.to_nat 32 + N.to_nat 32) (N.to_nat 32) t)].
Proof. exact session_round1_sites. Qed.
Print Assumptions C07_session_round1_sites.

Theorem C07_otext_sigma_site : forall q c t,
  first_msg q (draws POtExtReceiver c 1) t = [TBytes (slice 0 (N.to_nat 16) t)].
Proof. exact otext_sigma_site. Qed.
Print Assumptions C07_otext_sigma_site.

(* Non-vacuity: a concrete three-party instance in which relabelling one tape leaves the
   others' messages unchanged and changes its own. *)
Example C07_nonvacuous :
  nth 0 (run ex_q ex_specs (upd ex_tapes 1 [9;9;9;9])) [] = nth 0 (run ex_q ex_specs ex_tapes) [] /\
  nth 1 (run ex_q ex_specs (upd ex_tapes 1 [9;9;9;9])) [] <> nth 1 (run ex_q ex_specs ex_tapes) [].
Proof. exact ex_noninterference. Qed.
