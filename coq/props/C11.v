(* C11 — placeholder while the proofs are being built *)
From Coq Require Import List NArith.
Import ListNotations.
Require Import V.base.Bytes V.gen.RouterConsts V.model.Router V.model.Echo.
Example C11_placeholder : fst (step (init [1%N]) Shutdown) = fail_locked (init [1%N]) FClosed.
Proof. reflexivity. Qed.
