(* C11 — Message routing is exact under every delivery order; broadcast is consistent.
   Property theorems only; proofs are in proofs/Router_proofs.v and proofs/Echo_proofs.v.

   The router model (model/Router.v) is a transition system whose atomic steps are the
   lock-protected regions of pkg/network/router.go.  [reach q tr s] says that state [s] is
   reached from [init q] by SOME finite sequence of atomic steps whose history (event and
   output of every step, newest first) is [tr]; by C11_reach_is_every_run this is exactly
   "every finite event list run from the initial state", i.e. every interleaving of
   deposits, receives, wake-ups, cancellations, failures, with any number of correlation
   ids, namespaces and parties.  Specification functions over the history:
     pending_r tr c f  first payload filed from sender f under full id c since the last
                       consumption of (c, f)              (characterised by C11_pending_spec)
     blame_r tr c      sender of the latest conflicting retransmission under c
     entered_r tr c    sender list of the receive attached to c
   Constants, the buffer test and the id prefixing are gen/RouterConsts.v (regenerated). *)
From Coq Require Import List NArith ZArith.
Import ListNotations.
Require Import V.base.Bytes V.gen.RouterConsts V.model.Router V.proofs.Router_proofs.
Require Import V.model.Echo V.proofs.Echo_proofs V.model.Runner V.proofs.Runner_proofs.

(* reach = all finite event sequences *)
Theorem C11_reach_is_every_run : forall q,
  (forall evs, reach q (history (init q) evs) (fst (run (init q) evs))) /\
  (forall tr s, reach q tr s -> exists evs, tr = history (init q) evs /\ s = fst (run (init q) evs)).
Proof. exact reach_is_every_run. Qed.
Print Assumptions C11_reach_is_every_run.

(* a completed receive returns exactly one payload per requested sender (duplicates in the
   request collapse): the first one filed from that member sender under that full id since the
   last consumption — hence never one of another id, namespace or a non-member *)
Theorem C11_recv_exact : forall q tr s c s' res,
  reach q tr s -> step s (RecvCheck c) = (s', ORecvOk res) ->
  exists froms, entered_r tr c = Some froms /\ map fst res = dedup froms /\ NoDup (map fst res) /\
    (forall f, In f froms -> exists p, In (f, p) res) /\
    (forall f p, In (f, p) res ->
       pending_r tr c f = Some p /\ In f q /\ exists d, In (Deposit f c p, ODep d) tr /\ filed d = true).
Proof. exact recv_exact. Qed.
Print Assumptions C11_recv_exact.

Theorem C11_pending_spec : forall tr c f p,
  pending_r tr c f = Some p <->
  exists newer older d, tr = newer ++ (Deposit f c p, ODep d) :: older /\ filed d = true /\
    pending_r older c f = None /\ (forall eo, In eo newer -> ~ consumes c f eo).
Proof. exact pending_r_spec. Qed.
Print Assumptions C11_pending_spec.

(* an identical retransmission leaves the router state untouched *)
Theorem C11_dup_absorbed : forall q tr s f c p,
  reach q tr s -> reader s = RRunning -> pending_r tr c f = Some p ->
  step s (Deposit f c p) = (s, ODep DAbsorbed).
Proof. exact dup_absorbed. Qed.
Print Assumptions C11_dup_absorbed.

(* a different retransmission before consumption poisons the mailbox tagging that sender;
   from then on every enabled check of that id fails blaming the sender of the latest
   conflict, and a check blames g only after a real conflict by g *)
Theorem C11_conflict_poisons : forall q tr s c,
  reach q tr s ->
  (forall f p p', reader s = RRunning -> pending_r tr c f = Some p -> p <> p' ->
     snd (step s (Deposit f c p')) = ODep DPoisoned /\
     blame_r ((Deposit f c p', snd (step s (Deposit f c p'))) :: tr) c = Some f) /\
  (forall g s' o, blame_r tr c = Some g -> step s (RecvCheck c) = (s', o) ->
     o = ODisabled \/ o = ORecvErr (EConflict g)) /\
  (forall g s', step s (RecvCheck c) = (s', ORecvErr (EConflict g)) -> blame_r tr c = Some g) /\
  (forall g, blame_r tr c = Some g ->
     exists newer older p p' d, tr = newer ++ (Deposit g c p', ODep d) :: older /\ filed d = true /\
       pending_r older c g = Some p /\ p <> p') /\
  (forall eo, blame_r tr c <> None -> blame_r (eo :: tr) c <> None).
Proof. exact conflict_poisons. Qed.
Print Assumptions C11_conflict_poisons.

(* no step other than a deposit or a completing check changes any mailbox content — in
   particular a cancelled or failed receive and its clean-up lose nothing — and a later
   receive on that id gets exactly the pending payloads *)
Theorem C11_cancel_loses_nothing : forall q tr s,
  reach q tr s ->
  (forall e, (forall f c p, e <> Deposit f c p) -> (forall res, snd (step s e) <> ORecvOk res) ->
     forall c f, pl (fst (step s e)) c f = pl s c f) /\
  (forall c f, pl s c f = pending_r tr c f) /\
  (forall c froms, fatal s = None -> entered_r tr c = None -> blame_r tr c = None ->
     (forall f, In f froms -> pending_r tr c f <> None) ->
     snd (step s (RecvEnter c froms)) = OEntered /\
     exists res, snd (step (fst (step s (RecvEnter c froms))) (RecvCheck c)) = ORecvOk res /\
       map fst res = dedup froms /\ forall f p, In (f, p) res -> pending_r tr c f = Some p).
Proof. exact cancel_loses_nothing. Qed.
Print Assumptions C11_cancel_loses_nothing.

(* buffered = sum of the mailbox sizes; a deposit is bounced only when that count has reached
   the regenerated bound; the buffer-full failure arises from nothing else *)
Theorem C11_buffer_accounting : forall q tr s,
  reach q tr s ->
  (buffered s = total (boxes s) /\ (0 <= buffered s)%Z) /\
  (forall f c p, snd (step s (Deposit f c p)) = ODep DOverflow -> (maxReceiveBufferSize <= buffered s)%Z) /\
  (fatal s = Some FBufferFull -> exists e, In (e, ODep DOverflow) tr).
Proof. exact buffer_accounting_all. Qed.
Print Assumptions C11_buffer_accounting.

(* a parked receiver whose mailbox is complete or poisoned, or whose router failed, or that was
   cancelled, can always be woken (token, ctx.Done or failed) and its next check returns *)
Theorem C11_no_lost_wakeup : forall q tr s c w,
  reach q tr s -> mb_waiter (view s c) = Some w -> w_phase w = Parked -> ready s c w ->
  exists e, (e = WakeToken c \/ e = WakeAlt c) /\ snd (step s e) = OWoken /\
    exists o, snd (step (fst (step s e)) (RecvCheck c)) = o /\
      ((exists res, o = ORecvOk res) \/ (exists err, o = ORecvErr err)).
Proof. exact no_lost_wakeup. Qed.
Print Assumptions C11_no_lost_wakeup.

(* full ids of distinct (namespace path, id) pairs are distinct, provided no name contains the
   separator byte '/' (not enforced by the code: DESIGN §6) ; sender and receiver agree *)
Theorem C11_namespace_injective : forall nss nss' c c',
  (forall n, In n nss -> ~ In 47%N n) -> (forall n, In n nss' -> ~ In 47%N n) -> ~ In 47%N c -> ~ In 47%N c' ->
  recv_full nss c = recv_full nss' c' -> nss = nss' /\ c = c'.
Proof. exact namespace_injective. Qed.
Print Assumptions C11_namespace_injective.

Theorem C11_sender_receiver_same_id : forall nss c, send_full nss c = recv_full nss c.
Proof. exact send_recv_agree. Qed.
Print Assumptions C11_sender_receiver_same_id.

(* the hypothesis cannot be dropped *)
Theorem C11_namespace_injective_needs_hypothesis_refuted :
  exists nss nss' c c', recv_full nss c = recv_full nss' c' /\ nss <> nss'.
Proof. exact namespace_needs_hypothesis. Qed.
Print Assumptions C11_namespace_injective_needs_hypothesis_refuted.

(* echo broadcast: two honest parties that both accept hold the same payload from every third
   sender S, whatever S sent to whom (digest = injective term); and what they hold from a sender
   is what they received from it in round 1 *)
Theorem C11_echo_agreement : forall quorum P Q S stP stQ r1P r1Q stP' stQ' outP outQ r2P r2Q resP resQ,
  In P quorum -> In Q quorum -> In S quorum -> P <> Q -> S <> P -> S <> Q ->
  round2 P quorum stP r1P = Some (stP', outP) ->
  round2 Q quorum stQ r1Q = Some (stQ', outQ) ->
  alookup N.eqb Q r2P = alookup N.eqb P outQ ->
  round3 P quorum stP' r2P = Some resP ->
  round3 Q quorum stQ' r2Q = Some resQ ->
  exists m, alookup N.eqb S resP = Some m /\ alookup N.eqb S resQ = Some m.
Proof. exact echo_agreement. Qed.
Print Assumptions C11_echo_agreement.

Theorem C11_echo_holds_received : forall quorum P S stP r1P stP' outP r2P resP,
  In P quorum -> In S quorum -> S <> P ->
  round2 P quorum stP r1P = Some (stP', outP) ->
  round3 P quorum stP' r2P = Some resP ->
  alookup N.eqb S resP = alookup N.eqb S r1P.
Proof. exact echo_holds_received. Qed.
Print Assumptions C11_echo_holds_received.

(* runners: a runner is the fold of the round functions whose inbox in every round is what a
   completed receive of its router returned for the round's correlation id (requested from the
   other parties; the filed deposits under that id carry what the senders' round functions produced
   for this party: authentic transport, one exchange per id, identical retransmissions).  Then, for
   EVERY schedule in which the receives complete, states and inboxes of every party equal those of
   the round-by-round drive of the same round functions from the same initial states (tapes). *)
Theorem C11_runner_refines_rounds :
  forall (St : Type) (parties : list N)
         (rf : nat -> N -> St -> list (N * bytes) -> St * list (N * bytes)) (init : N -> St)
         (cid_of : nat -> cid) (rin : nat -> N -> list (N * bytes)),
  NoDup parties ->
  (forall k p, In p parties ->
     router_inbox parties (cid_of k) p
       (fun f => sent rf k (fst (runner rf init rin k)) (snd (runner rf init rin k)) f p) (rin k p)) ->
  forall n p, In p parties ->
    fst (runner rf init rin n) p = fst (rounds parties rf init n) p /\
    snd (runner rf init rin n) p = snd (rounds parties rf init n) p.
Proof. exact (@runner_refines_rounds). Qed.
Print Assumptions C11_runner_refines_rounds.

(* ---- the hypotheses are satisfiable by non-trivial instances -------------------------------- *)

(* a receive for senders 1 and 2 under "a/bc": parks, sender 1 arrives, wakes and parks again, an
   identical retransmission is absorbed, sender 1 under another id and a non-member are kept apart,
   sender 2 arrives, the receive completes with exactly the two payloads *)
Example C11_nonvacuous_receive :
  let c := recv_full [[97]]%N [98; 99]%N in
  let c2 := recv_full [[97; 98]]%N [99]%N in
  snd (run (init [1; 2; 9]%N)
        [RecvEnter c [1; 2; 2]%N; RecvCheck c; Deposit 1%N c [17]%N; WakeToken c; RecvCheck c;
         Deposit 1%N c [17]%N; Deposit 1%N c2 [33]%N; Deposit 7%N c [7]%N; Deposit 2%N c [18]%N;
         WakeToken c; RecvCheck c; RecvExit c]) =
  [OEntered; OParked; ODep DStored; OWoken; OParked; ODep DAbsorbed; ODep DStored; ODep DDropped;
   ODep DStored; OWoken; ORecvOk [(1, [17]); (2, [18])]%N; ONone].
Proof. vm_compute. reflexivity. Qed.

(* a conflicting retransmission poisons; the receive fails blaming sender 1; a cancelled receive
   on another id leaves the payload for the next one *)
Example C11_nonvacuous_conflict_cancel :
  let c := recv_full [] [120]%N in
  let d := recv_full [] [121]%N in
  snd (run (init [1; 2; 9]%N)
        [RecvEnter [] []; RecvCheck []; RecvExit [];
         Deposit 1%N c [1]%N; Deposit 1%N c [2]%N; RecvEnter c [1]%N; RecvCheck c; RecvExit c;
         Deposit 1%N d [5]%N; RecvEnter d [1; 2]%N; RecvCheck d; Cancel d; WakeAlt d; RecvCheck d; RecvExit d;
         RecvEnter d [1]%N; RecvCheck d]) =
  [OEntered; ORecvOk []; ONone;
   ODep DStored; ODep DPoisoned; OEntered; ORecvErr (EConflict 1%N); ONone;
   ODep DStored; OEntered; OParked; ONone; OWoken; ORecvErr ECancelled; ONone;
   OEntered; ORecvOk [(1, [5])]%N].
Proof. vm_compute. reflexivity. Qed.

(* echo with three parties: honest run accepted by 1 and 2 with the same payload from 3; when 3
   equivocates (sends [7] to 1 and [8] to 2) party 1 rejects *)
Example C11_nonvacuous_echo :
  let q := [1; 2; 3]%N in
  let r2 (self : N) r1 := match round2 self q [] r1 with Some (_, o) => o | None => [] end in
  let st (self : N) r1 := match round2 self q [] r1 with Some (s, _) => s | None => [] end in
  let pick (dst : N) (o : list (N * r2msg)) := match alookup N.eqb dst o with Some m => m | None => [] end in
  (let r1_1 := [(2, [5]); (3, [7])]%N in let r1_2 := [(1, [4]); (3, [7])]%N in let r1_3 := [(1, [4]); (2, [5])]%N in
   round3 1%N q (st 1%N r1_1) [(2%N, pick 1%N (r2 2%N r1_2)); (3%N, pick 1%N (r2 3%N r1_3))] = Some [(2, [5]); (3, [7])]%N /\
   round3 2%N q (st 2%N r1_2) [(1%N, pick 2%N (r2 1%N r1_1)); (3%N, pick 2%N (r2 3%N r1_3))] = Some [(1, [4]); (3, [7])]%N) /\
  (let r1_1 := [(2, [5]); (3, [7])]%N in let r1_2 := [(1, [4]); (3, [8])]%N in let r1_3 := [(1, [4]); (2, [5])]%N in
   round3 1%N q (st 1%N r1_1) [(2%N, pick 1%N (r2 2%N r1_2)); (3%N, pick 1%N (r2 3%N r1_3))] = None).
Proof. vm_compute. repeat split; reflexivity. Qed.

(* a router history of party 1 that satisfies [router_inbox] for a round whose sender 2 sent [5] *)
Example C11_nonvacuous_runner :
  router_inbox [1; 2]%N [7]%N 1%N (fun f => if N.eqb f 2 then Some [5]%N else None) [(2, [5])]%N.
Proof.
  exists [1; 2]%N.
  exists (history (init [1; 2]%N) [RecvEnter [7]%N [2]%N; RecvCheck [7]%N; Deposit 2%N [7]%N [5]%N; WakeToken [7]%N]).
  exists (fst (run (init [1; 2]%N) [RecvEnter [7]%N [2]%N; RecvCheck [7]%N; Deposit 2%N [7]%N [5]%N; WakeToken [7]%N])).
  eexists. split; [apply reach_run|]. split; [vm_compute; reflexivity|]. split; [vm_compute; reflexivity|].
  intros f pl d Hin _. vm_compute in Hin.
  repeat (destruct Hin as [Hin|Hin]; [inversion Hin; subst; try reflexivity|]); destruct Hin.
Qed.
