(* C04 — A deviating party is detected, blamed correctly, and cannot cause a bad output.
   Property theorems only; the model is model/Deviate.v (an abstract check-then-output
   skeleton and its instances in the exponent with hashes as free terms), the proofs are in
   proofs/Deviate_proofs.v.  Every theorem quantifies over an arbitrary algebra [A] (the
   exponent ring of the group), its ring laws, the correctness of its equality test and — where a
   product of exponents has to be cancelled — the absence of zero divisors; Z_q for prime q
   and Z are instances.  Unbounded: any number of parties (inbox of any length), any messages.

   Full statements that are only proved in part keep the name suffix _partial:
   - bound_field_detected for vector entries of the VSS-type messages (HJKY, redistribution,
     Lindell22's zero sharing) holds for the recipients whose MSP row uses that column
     (hypothesis [hchanges]/[rchanges]/[lchanges]); a column no honest row uses is invisible
     (C04_hjky_unused_column).  For DKLs23 the leaves psi and phi are NOT checked by the
     recipient (C04_dkls_late): only the aggregator's final verification can notice.
   - CGGMP21, Lindell17 signing and the Lindell17 DKG have no round model here.  For Canetti and
     softspoken DKLs23 only the final check gives no_bad_output. *)
From Coq Require Import List NArith ZArith Bool Ring.
Import ListNotations.
Require Import V.model.Deviate V.proofs.Deviate_proofs.

(* ---------------- blame_sound (all protocols: the skeleton) ---------------- *)

(* every blamed ID is the sender of a message on which a check of that round failed *)
Theorem C04_blame_sound : forall (St Dos Out : Type) (rs : list nat) (cs : list (check St Dos))
    (fin : St -> list (N * Dos) -> option Out) (st : St) (inbox : list (N * Dos)) (r : nat) (id : N),
  party rs cs fin st inbox = Blame r id ->
  In r rs /\ (exists (m : Dos) (c : check St Dos),
               In (id, m) inbox /\ In c cs /\ c_round c = r /\ c_pred c st id m = false).
Proof. exact party_blame. Qed.
Print Assumptions C04_blame_sound.

(* if everybody but d sent messages that pass every check, only d can be blamed *)
Theorem C04_blame_only_deviator : forall (St Dos : Type) (rs : list nat) (cs : list (check St Dos))
    (st : St) (inbox : list (N * Dos)) (d : N) (r : nat) (id : N),
  (forall (i : N) (m : Dos) (c : check St Dos), In (i, m) inbox -> i <> d -> In c cs -> c_pred c st i m = true) ->
  run_rounds rs cs st inbox = Reject r id -> id = d.
Proof. exact blame_only_deviator. Qed.
Print Assumptions C04_blame_only_deviator.

(* an output exists only after every check of every round passed on every sender's messages *)
Theorem C04_output_only_after_checks : forall (St Dos Out : Type) (rs : list nat) (cs : list (check St Dos))
    (fin : St -> list (N * Dos) -> option Out) (st : St) (inbox : list (N * Dos)) (o : Out),
  party rs cs fin st inbox = Output o ->
  run_rounds rs cs st inbox = Accept /\ fin st inbox = Some o.
Proof. exact party_output. Qed.
Print Assumptions C04_output_only_after_checks.

Theorem C04_accept_means_all_checks_passed : forall (St Dos : Type) (rs : list nat) (cs : list (check St Dos))
    (st : St) (inbox : list (N * Dos)),
  run_rounds rs cs st inbox = Accept ->
  forall (id : N) (m : Dos) (c : check St Dos), In (id, m) inbox -> In c cs -> In (c_round c) rs -> c_pred c st id m = true.
Proof. exact run_rounds_accept. Qed.
Print Assumptions C04_accept_means_all_checks_passed.

(* ---------------- bound_field_detected, per modelled protocol ---------------- *)

Theorem C04_session_bound_field_detected : forall A : alg,
  (forall a b : car A, aeqb A a b = true <-> a = b) ->
  forall f : sfld, session_class f = Bound ->
  forall (st : sst A) (d : N) (m : sdos A) (v : term A) (inbox : list (N * sdos A)),
  all_pass (session_checks A) st d m -> v <> sget A f m -> In (d, sset A f v m) inbox ->
  run_rounds [3; 4]%nat (session_checks A) st inbox <> Accept.
Proof. exact session_detected. Qed.
Print Assumptions C04_session_bound_field_detected.

(* the commitment key a sender announces is its free choice: no check reads it *)
Theorem C04_session_ck_unbound : forall (A : alg) (f : sfld), session_class f = Unbound ->
  forall (st : sst A) (id : N) (m : sdos A) (v : term A) (c : check (sst A) (sdos A)),
  In c (session_checks A) -> c_pred c st id (sset A f v m) = c_pred c st id m.
Proof. exact session_unbound. Qed.
Print Assumptions C04_session_ck_unbound.

Theorem C04_gennaro_bound_field_detected : forall A : alg,
  (forall a b : car A, aeqb A a b = true <-> a = b) ->
  forall (mu : gmut A) (st : gst A) (d : N) (m : gdos A) (inbox : list (N * gdos A)),
  all_pass (gennaro_checks A) st d m -> gchanges A mu m -> In (d, gapply A mu m) inbox ->
  run_rounds [2; 3]%nat (gennaro_checks A) st inbox <> Accept.
Proof. exact gennaro_detected. Qed.
Print Assumptions C04_gennaro_bound_field_detected.

Theorem C04_hjky_bound_field_detected_partial : forall A : alg,
  ring_theory (a0 A) (a1 A) (aadd A) (amul A) (asub A) (aopp A) eq ->
  (forall a b : car A, aeqb A a b = true <-> a = b) ->
  (forall a b : car A, amul A a b = a0 A -> a = a0 A \/ b = a0 A) ->
  forall (mu : hmut A) (st : hst A) (d : N) (m : hdos A) (inbox : list (N * hdos A)),
  all_pass (hjky_checks A) st d m -> hchanges A st mu m -> In (d, happly A mu m) inbox ->
  run_rounds [2]%nat (hjky_checks A) st inbox <> Accept.
Proof. exact hjky_detected. Qed.
Print Assumptions C04_hjky_bound_field_detected_partial.

Theorem C04_hjky_unused_column : forall A : alg,
  ring_theory (a0 A) (a1 A) (aadd A) (amul A) (asub A) (aopp A) eq ->
  forall (k : nat) (x : car A) (st : hst A) (id : N) (m : hdos A) (c : check (hst A) (hdos A)),
  (0 < k)%nat -> (k < length (h_vv A m))%nat -> (k < length (h_row A st))%nat ->
  nth k (h_row A st) (a0 A) = a0 A -> In c (hjky_checks A) ->
  c_pred c st id (happly A (HmVv A k x) m) = c_pred c st id m.
Proof. exact hjky_unused_column. Qed.
Print Assumptions C04_hjky_unused_column.

Theorem C04_redistribute_bound_field_detected_partial : forall A : alg,
  ring_theory (a0 A) (a1 A) (aadd A) (amul A) (asub A) (aopp A) eq ->
  (forall a b : car A, aeqb A a b = true <-> a = b) ->
  (forall a b : car A, amul A a b = a0 A -> a = a0 A \/ b = a0 A) ->
  forall (mu : rmut A) (st : rst A) (d : N) (m : rdos A) (inbox : list (N * rdos A)),
  all_pass (redistribute_checks A) st d m -> rchanges A st mu m -> In (d, rapply A mu m) inbox ->
  run_rounds [3]%nat (redistribute_checks A) st inbox <> Accept.
Proof. exact redistribute_detected. Qed.
Print Assumptions C04_redistribute_bound_field_detected_partial.

Theorem C04_lindell22_bound_field_detected_partial : forall A : alg,
  ring_theory (a0 A) (a1 A) (aadd A) (amul A) (asub A) (aopp A) eq ->
  (forall a b : car A, aeqb A a b = true <-> a = b) ->
  (forall a b : car A, amul A a b = a0 A -> a = a0 A \/ b = a0 A) ->
  forall (mu : lmut A) (st : lst A) (d : N) (m : ldos A) (inbox : list (N * ldos A)),
  all_pass (lindell22_checks A) st d m -> lchanges A st mu m -> In (d, lapply A mu m) inbox ->
  run_rounds [2; 3]%nat (lindell22_checks A) st inbox <> Accept.
Proof. exact lindell22_detected. Qed.
Print Assumptions C04_lindell22_bound_field_detected_partial.

(* Lindell22 aggregators: a changed s_i or R_i of one partial signature is refused *)
Theorem C04_lindell22_partial_s_bound : forall A : alg,
  (forall a b : car A, aeqb A a b = true <-> a = b) ->
  forall (chal : car A -> car A) (x r s s' : car A),
  schnorr_verify A chal x r s = true -> s' <> s -> schnorr_verify A chal x r s' = false.
Proof. exact aggregate_s_bound. Qed.
Print Assumptions C04_lindell22_partial_s_bound.

Theorem C04_lindell22_partial_r_bound : forall A : alg,
  ring_theory (a0 A) (a1 A) (aadd A) (amul A) (asub A) (aopp A) eq ->
  (forall a b : car A, aeqb A a b = true <-> a = b) ->
  forall (chal : car A -> car A) (x r r' s e : car A),
  schnorr_verify A chal x r s = true -> e = chal r -> r' <> r ->
  aeqb A e (chal r') && schnorr_verify A chal x r' s = false.
Proof. exact aggregate_r_bound. Qed.
Print Assumptions C04_lindell22_partial_r_bound.

(* the challenge field E of ONE partial signature altered (R_i, s_i unchanged): Aggregate compares
   the E of every partial signature with the recomputed challenge, so it refuses *)
Theorem C04_lindell22_partial_e_bound : forall (A : alg),
  (forall a b : car A, aeqb A a b = true <-> a = b) ->
  forall (chal : car A -> car A) (x : car A) (ps1 : list (N * psig A)) (id : N) (p : psig A)
         (ps2 : list (N * psig A)) (e' r s : car A),
  aggregate A chal x (ps1 ++ (id, p) :: ps2) = Some (r, s) -> e' <> p_e A p ->
  aggregate A chal x (ps1 ++ (id, mkP A e' (p_r A p) (p_s A p)) :: ps2) = None.
Proof. exact aggregate_e_bound. Qed.
Print Assumptions C04_lindell22_partial_e_bound.

Theorem C04_boldyreva_bound_field_detected : forall A : alg,
  (forall a b : car A, aeqb A a b = true <-> a = b) ->
  forall (st : bst A) (d : N) (sg sg' : car A) (inbox : list (N * car A)),
  all_pass (bls_checks A) st d sg -> sg' <> sg -> In (d, sg') inbox ->
  run_rounds [2]%nat (bls_checks A) st inbox <> Accept.
Proof. exact bls_detected. Qed.
Print Assumptions C04_boldyreva_bound_field_detected.

Theorem C04_dkls_bound_field_detected_partial : forall A : alg,
  ring_theory (a0 A) (a1 A) (aadd A) (amul A) (asub A) (aopp A) eq ->
  (forall a b : car A, aeqb A a b = true <-> a = b) ->
  (forall a b : car A, amul A a b = a0 A -> a = a0 A \/ b = a0 A) ->
  forall (mu : dmut A) (st : dst A) (d : N) (m : ddos A) (inbox : list (N * ddos A)),
  dkls_class (dmut_fld A mu) = Bound -> d_chi A st d <> a0 A ->
  all_pass (dkls_checks A) st d m -> dchanges A mu m -> In (d, dapply A mu m) inbox ->
  run_rounds [3; 4]%nat (dkls_checks A) st inbox <> Accept.
Proof. exact dkls_detected. Qed.
Print Assumptions C04_dkls_bound_field_detected_partial.

(* psi (Round3P2P) and phi (Round2P2P): unicast leaves that NO check of the recipient reads; for
   these two leaves detection is at the aggregator only (known finding
   dkls23-unicast-detected-only-by-aggregator): the recipient's verdict is unchanged by any
   value, and what dkls23.Aggregate returns has passed the ECDSA verifier *)
Theorem C04_dkls_late_detected_only_at_aggregator : forall (A : alg) (ecdsa_ok : car A -> car A -> car A -> bool)
    (rdiv : car A -> car A -> car A) (mu : dmut A) (st : dst A) (id : N) (m : ddos A),
  dkls_class (dmut_fld A mu) = Late ->
  (forall c : check (dst A) (ddos A), In c (dkls_checks A) -> c_pred c st id (dapply A mu m) = c_pred c st id m) /\
  (forall (pk : car A) (ps : list (dpart A)) (r s : car A),
     dkls_aggregate A ecdsa_ok rdiv pk ps = Some (r, s) -> ecdsa_ok pk r s = true).
Proof. exact dkls_late_only_aggregator. Qed.
Print Assumptions C04_dkls_late_detected_only_at_aggregator.

Theorem C04_dkls_late : forall (A : alg) (mu : dmut A) (st : dst A) (id : N) (m : ddos A) (c : check (dst A) (ddos A)),
  dkls_class (dmut_fld A mu) = Late -> In c (dkls_checks A) ->
  c_pred c st id (dapply A mu m) = c_pred c st id m.
Proof. exact dkls_late. Qed.
Print Assumptions C04_dkls_late.

(* ---------------- no_bad_output ---------------- *)

(* Gennaro: the last step adds up what passed feldmanVSS.Verify; linearity gives share.g = M_i.V *)
Theorem C04_gennaro_no_bad_output : forall A : alg,
  ring_theory (a0 A) (a1 A) (aadd A) (amul A) (asub A) (aopp A) eq ->
  (forall a b : car A, aeqb A a b = true <-> a = b) ->
  forall (st : gst A) (inbox : list (N * gdos A)) (own_s : car A) (own_v : list (car A)),
  own_s = dot A (g_row A st) own_v -> length own_v = g_d A st ->
  (forall (id : N) (m : gdos A), In (id, m) inbox -> all_pass (gennaro_checks A) st id m) ->
  fst (gennaro_out A own_s own_v inbox) = dot A (g_row A st) (snd (gennaro_out A own_s own_v inbox)) /\
  length (snd (gennaro_out A own_s own_v inbox)) = g_d A st.
Proof. exact gennaro_out_consistent. Qed.
Print Assumptions C04_gennaro_no_bad_output.

Theorem C04_hjky_no_bad_output : forall A : alg,
  ring_theory (a0 A) (a1 A) (aadd A) (amul A) (asub A) (aopp A) eq ->
  (forall a b : car A, aeqb A a b = true <-> a = b) ->
  forall (st : hst A) (inbox : list (N * hdos A)) (own_s : car A) (own_v : list (car A)),
  own_s = dot A (h_row A st) own_v -> length own_v = h_d A st -> nth 0 own_v (a0 A) = a0 A ->
  (forall (id : N) (m : hdos A), In (id, m) inbox -> all_pass (hjky_checks A) st id m) ->
  fst (hjky_out A own_s own_v inbox) = dot A (h_row A st) (snd (hjky_out A own_s own_v inbox)) /\
  nth 0 (snd (hjky_out A own_s own_v inbox)) (a0 A) = a0 A.
Proof. exact hjky_out_consistent. Qed.
Print Assumptions C04_hjky_no_bad_output.

(* redistribution: the final guard (oldPk = newPk, aggregated share verifies) is the statement *)
Theorem C04_redistribute_no_bad_output : forall A : alg,
  (forall a b : car A, aeqb A a b = true <-> a = b) ->
  forall (st : rst A) (own_s : car A) (own_v : list (car A)) (inbox : list (N * rdos A)) (s : car A) (V : list (car A)),
  redistribute_fin A st own_s own_v inbox = Some (s, V) ->
  s = dot A (r_row A st) V /\
  (forall (id : N) (m : rdos A), In (id, m) inbox -> nth 0 (r_prevvv A m) (a0 A) = nth 0 V (a0 A)).
Proof. exact redistribute_fin_good. Qed.
Print Assumptions C04_redistribute_no_bad_output.

(* Lindell22: whatever partial signatures arrive, a returned signature verifies (final self-verification) *)
Theorem C04_lindell22_no_bad_output : forall (A : alg) (chal : car A -> car A) (x : car A)
    (ps : list (N * psig A)) (r s : car A),
  aggregate A chal x ps = Some (r, s) -> schnorr_verify A chal x r s = true.
Proof. exact aggregate_verifies. Qed.
Print Assumptions C04_lindell22_no_bad_output.

(* Boldyreva: no final check in the code; per-partial verification + interpolation give x.H(m) *)
Theorem C04_boldyreva_no_bad_output : forall A : alg,
  ring_theory (a0 A) (a1 A) (aadd A) (amul A) (asub A) (aopp A) eq ->
  (forall a b : car A, aeqb A a b = true <-> a = b) ->
  forall (st : bst A) (ps : list (N * car A)) (sg : car A),
  sum A (map (fun ip : N * car A => amul A (b_lam A st (fst ip)) (b_x A st (fst ip))) ps) = b_pk A st ->
  bls_aggregate A st ps = Some sg -> sg = amul A (b_pk A st) (b_h A st).
Proof. exact bls_aggregate_good. Qed.
Print Assumptions C04_boldyreva_no_bad_output.

(* DKLs23: Aggregate returns only what the ECDSA verifier accepted *)
Theorem C04_dkls_no_bad_output : forall (A : alg) (ecdsa_ok : car A -> car A -> car A -> bool)
    (rdiv : car A -> car A -> car A) (pk : car A) (ps : list (dpart A)) (r s : car A),
  dkls_aggregate A ecdsa_ok rdiv pk ps = Some (r, s) -> ecdsa_ok pk r s = true.
Proof. exact dkls_aggregate_verifies. Qed.
Print Assumptions C04_dkls_no_bad_output.

(* ---------------- phase 3: agree-on-random, Canetti DKG, DKLs23-softspoken ---------------- *)

Theorem C04_aor_bound_field_detected : forall A : alg,
  (forall a b : car A, aeqb A a b = true <-> a = b) ->
  forall (mu : amut A) (ck : term A) (d : N) (m : ados A) (inbox : list (N * ados A)),
  all_pass (aor_checks A) ck d m -> achanges A mu m -> In (d, aapply A mu m) inbox ->
  run_rounds [3]%nat (aor_checks A) ck inbox <> Accept.
Proof. exact aor_detected. Qed.
Print Assumptions C04_aor_bound_field_detected.

(* Canetti: the round-1 commitment binds every field of the opened message (session, sender id,
   rho, every vector entry, the Schnorr commitment) and its witness; the share by the Feldman
   check; the proof's A by equality with the committed one, its E by the recomputed challenge, its
   Z by the batch Schnorr equation *)
Theorem C04_canetti_bound_field_detected : forall A : alg,
  (forall a b : car A, aeqb A a b = true <-> a = b) ->
  forall (mu : cmut A) (st : cst A) (d : N) (m : cdos A) (inbox : list (N * cdos A)),
  all_pass (canetti_checks A) st d m -> cchanges A mu m -> In (d, capply A mu m) inbox ->
  run_rounds [3; 4]%nat (canetti_checks A) st inbox <> Accept.
Proof. exact canetti_detected. Qed.
Print Assumptions C04_canetti_bound_field_detected.

(* only the final check (mpc.NewBaseShard) gives this one *)
Theorem C04_canetti_no_bad_output_partial : forall A : alg,
  (forall a b : car A, aeqb A a b = true <-> a = b) ->
  forall (st : cst A) (own_s : car A) (own_v : list (car A)) (inbox : list (N * cdos A)) (s : car A) (V : list (car A)),
  canetti_fin A st own_s own_v inbox = Some (s, V) -> s = dot A (c_row A st) V.
Proof. exact canetti_fin_good. Qed.
Print Assumptions C04_canetti_no_bad_output_partial.

Theorem C04_softspoken_bound_field_detected_partial : forall A : alg,
  ring_theory (a0 A) (a1 A) (aadd A) (amul A) (asub A) (aopp A) eq ->
  (forall a b : car A, aeqb A a b = true <-> a = b) ->
  (forall a b : car A, amul A a b = a0 A -> a = a0 A \/ b = a0 A) ->
  forall (mu : omut A) (st : dst A) (d : N) (m : odos A) (inbox : list (N * odos A)),
  softspoken_class (omut_fld A mu) = Bound -> d_chi A st d <> a0 A ->
  all_pass (softspoken_checks A) st d m -> ochanges A mu m -> In (d, oapply A mu m) inbox ->
  run_rounds [4; 5]%nat (softspoken_checks A) st inbox <> Accept.
Proof. exact softspoken_detected. Qed.
Print Assumptions C04_softspoken_bound_field_detected_partial.

(* psi is read by no check of the recipient in the softspoken variant either; the aggregator is
   the same dkls23.Aggregate (C04_dkls_no_bad_output) *)
Theorem C04_softspoken_late : forall (A : alg) (mu : omut A) (st : dst A) (id : N) (m : odos A) (c : check (dst A) (odos A)),
  softspoken_class (omut_fld A mu) = Late -> In c (softspoken_checks A) ->
  c_pred c st id (oapply A mu m) = c_pred c st id m.
Proof. exact softspoken_late. Qed.
Print Assumptions C04_softspoken_late.

(* ---------------- non-vacuity ---------------- *)
(* the integers satisfy the algebra hypotheses; an honest session inbox is accepted, a changed
   contribution is blamed on its sender in round 3, a changed commitment key changes nothing *)
Example C04_algebra_instance :
  ring_theory (a0 ZA) (a1 ZA) (aadd ZA) (amul ZA) (asub ZA) (aopp ZA) eq /\
  (forall a b : car ZA, aeqb ZA a b = true <-> a = b) /\
  (forall a b : car ZA, amul ZA a b = a0 ZA -> a = a0 ZA \/ b = a0 ZA).
Proof. exact (conj ZA_ring (conj ZA_eqb ZA_integral)). Qed.

Example C04_session_example :
  run_rounds [3; 4]%nat (session_checks ZA) ex_st [(2%N, ex_dos); (3%N, ex_dos)] = Accept /\
  run_rounds [3; 4]%nat (session_checks ZA) ex_st [(2%N, ex_dos); (3%N, sset ZA SContrib (TB ZA 5) ex_dos)] = Reject 3 3%N /\
  run_rounds [3; 4]%nat (session_checks ZA) ex_st [(2%N, sset ZA SCk (TB ZA 77) ex_dos); (3%N, ex_dos)] = Accept.
Proof. exact (conj ex_honest_accept (conj ex_tampered_blamed ex_ck_free)). Qed.
