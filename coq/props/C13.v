(* C13 — Element encodings are faithful; decoders admit only valid group elements.
   Property theorems only; proofs are in proofs/PointCodec_proofs.v, the executable
   model (written after the Go decoders/encoders) is model/PointCodec.v. *)
From Coq Require Import ZArith Znumtheory List.
Import ListNotations.
Require Import V.base.Fld V.model.CurveParams V.model.Curve V.model.PointCodec V.proofs.PointCodec_proofs.
Local Open Scope Z_scope.

(* every accepted string denotes a point of the curve — for every curve (p, a, b), every
   Tonelli–Shanks parameter set and every byte string, no hypothesis *)
Theorem C13_decoded_on_curve_sec1_compressed : forall c bs P,
  sec1_dec_c c bs = Some P -> w_on_curve (wc c) P = true.
Proof. exact sec1_dec_c_on_curve. Qed.
Print Assumptions C13_decoded_on_curve_sec1_compressed.
