(* C13 — Element encodings are faithful; decoders admit only valid group elements.
   Property theorems only; proofs are in proofs/PointCodec_proofs.v, the executable model
   (written after the Go decoders/encoders, tied to them by the correspondence check) is
   model/PointCodec.v.  Every theorem quantifies over an arbitrary codec record (modulus p,
   curve constants a b / a d, Tonelli–Shanks constants, coordinate size) and over all byte
   strings / points; the hypotheses are explicit:
     wcodec_ok c / ecodec_ok c :  p prime  +  closed equations on the constants
                                   (p - 1 = 2^e (2g+1), rou^(2^(e-1)) = -1, p fits the size),
   the latter are discharged by computation for each named curve (k256_codec_ok, ...), the
   primality of the concrete moduli stays a visible hypothesis. *)
From Coq Require Import ZArith Znumtheory List.
Import ListNotations.
Require Import V.base.Fld V.model.CurveParams V.model.Curve V.gen.CodecConsts V.model.PointCodec V.proofs.PointCodec_proofs.
Local Open Scope Z_scope.

(* ---- decoders admit only valid elements (no hypothesis on p where the code re-checks) ---- *)

Theorem C13_decoded_on_curve_sec1_compressed : forall c bs P,
  sec1_dec_c c bs = Some P -> w_on_curve (wc c) P = true.
Proof. exact sec1_dec_c_on_curve. Qed.
Print Assumptions C13_decoded_on_curve_sec1_compressed.

Theorem C13_decoded_on_curve_sec1_uncompressed : forall c bs P,
  sec1_dec_u c bs = Some P -> w_on_curve (wc c) P = true.
Proof. exact sec1_dec_u_on_curve. Qed.
Print Assumptions C13_decoded_on_curve_sec1_uncompressed.

Theorem C13_decoded_on_curve_pasta_compressed : forall c bs P,
  pasta_dec_c c bs = Some P -> w_on_curve (wc c) P = true.
Proof. exact pasta_dec_c_on_curve. Qed.
Print Assumptions C13_decoded_on_curve_pasta_compressed.

Theorem C13_decoded_on_curve_pasta_uncompressed : forall c bs P,
  pasta_dec_u c bs = Some P -> w_on_curve (wc c) P = true.
Proof. exact pasta_dec_u_on_curve. Qed.
Print Assumptions C13_decoded_on_curve_pasta_uncompressed.

(* BLS12-381 G1: on the curve and killed by the group order *)
Theorem C13_decoded_in_subgroup_blsg1_compressed : forall c bs P,
  blsg1_dec_c c bs = Some P -> w_on_curve (wc c) P = true /\ w_in_subgroup c P.
Proof. exact blsg1_dec_c_valid. Qed.
Print Assumptions C13_decoded_in_subgroup_blsg1_compressed.

Theorem C13_decoded_in_subgroup_blsg1_uncompressed : forall c bs P,
  blsg1_dec_u c bs = Some P -> w_on_curve (wc c) P = true /\ w_in_subgroup c P.
Proof. exact blsg1_dec_u_valid. Qed.
Print Assumptions C13_decoded_in_subgroup_blsg1_uncompressed.

Theorem C13_from_affine_blsg1_valid : forall c x y P,
  blsg1_from_affine c x y = Some P ->
  P = Some (x, y) /\ w_on_curve (wc c) P = true /\ w_in_subgroup c P.
Proof. exact blsg1_from_affine_valid. Qed.
Print Assumptions C13_from_affine_blsg1_valid.

(* BLS12-381 G2 (the same format over Fp2, c1 || c0; a = 0 as in g2_params.go).  The Fp2 square
   root of the library does not re-check its result, so the compressed decoder needs prime p *)
Theorem C13_decoded_in_subgroup_blsg2_compressed : forall c bs P,
  prime (w2c_p c) -> 2 < w2c_p c -> w2_a (w2c c) = (0, 0) ->
  blsg2_dec_c c bs = Some P -> w2_on_curve (w2c c) P = true /\ w2_in_subgroup c P.
Proof. exact blsg2_dec_c_valid. Qed.
Print Assumptions C13_decoded_in_subgroup_blsg2_compressed.

Theorem C13_decoded_in_subgroup_blsg2_uncompressed : forall c bs P, w2_a (w2c c) = (0, 0) ->
  blsg2_dec_u c bs = Some P -> w2_on_curve (w2c c) P = true /\ w2_in_subgroup c P.
Proof. exact blsg2_dec_u_valid. Qed.
Print Assumptions C13_decoded_in_subgroup_blsg2_uncompressed.

Theorem C13_from_affine_blsg2_valid : forall c x y P, w2_a (w2c c) = (0, 0) ->
  blsg2_from_affine c x y = Some P ->
  P = Some (x, y) /\ w2_on_curve (w2c c) P = true /\ w2_in_subgroup c P.
Proof. exact blsg2_from_affine_valid. Qed.
Print Assumptions C13_from_affine_blsg2_valid.

Theorem C13_fp2_sqrt_sound : forall c v y, prime (w2c_p c) -> 2 < w2c_p c ->
  fp2_sqrt c v = Some y -> fmul (K2 c) y y = (fst v mod w2c_p c, snd v mod w2c_p c).
Proof. exact fp2_sqrt_sound. Qed.
Print Assumptions C13_fp2_sqrt_sound.

(* GT: an accepted string is twelve reduced coefficients of an element with x^r = 1 *)
Theorem C13_decoded_in_subgroup_gt : forall p r len bs x,
  gt_from_bytes p r len bs = Some x ->
  length bs = (12 * len)%nat /\
  gt_coeffs x = map (fun ch => be_val ch mod p) (chunks len 12 bs) /\
  fp12_eqb p (fp12_pow p x r) (fp12_one p) = true.
Proof. exact gt_from_bytes_valid. Qed.
Print Assumptions C13_decoded_in_subgroup_gt.

(* edwards25519 (RFC 8032 form): x is recovered through a field inverse, hence prime p *)
Theorem C13_decoded_on_curve_ed_compressed : forall c bs P,
  prime (ec_p c) -> ed_dec_c c bs = Some P -> e_on_curve (ec c) P = true.
Proof. exact ed_dec_c_on_curve. Qed.
Print Assumptions C13_decoded_on_curve_ed_compressed.

Theorem C13_decoded_on_curve_ed_uncompressed : forall c bs P,
  ed_dec_u c bs = Some P -> e_on_curve (ec c) P = true.
Proof. exact ed_dec_u_on_curve. Qed.
Print Assumptions C13_decoded_on_curve_ed_uncompressed.

Theorem C13_decoded_in_subgroup_ed_prime_compressed : forall c bs P,
  prime (ec_p c) -> edp_dec_c c bs = Some P -> e_on_curve (ec c) P = true /\ e_in_subgroup c P.
Proof. exact edp_dec_c_valid. Qed.
Print Assumptions C13_decoded_in_subgroup_ed_prime_compressed.

Theorem C13_decoded_in_subgroup_ed_prime_uncompressed : forall c bs P,
  edp_dec_u c bs = Some P -> e_on_curve (ec c) P = true /\ e_in_subgroup c P.
Proof. exact edp_dec_u_valid. Qed.
Print Assumptions C13_decoded_in_subgroup_ed_prime_uncompressed.

(* curve25519 u-coordinates: every accepted u denotes a point of the (Edwards form of the) curve *)
Theorem C13_decoded_on_curve_x25519 : forall c bs P,
  prime (ec_p c) -> x_dec_c c bs = Some P -> e_on_curve (ec c) P = true.
Proof. exact x_dec_c_on_curve. Qed.
Print Assumptions C13_decoded_on_curve_x25519.

(* ---- wrong lengths and reserved flag bytes are refused -------------------------------------- *)

Theorem C13_wrong_length_rejected_sec1 : forall c bs,
  (length bs <> S (wc_len c) -> sec1_dec_c c bs = None) /\
  (length bs <> S (2 * wc_len c) -> sec1_dec_u c bs = None).
Proof. exact sec1_wrong_length. Qed.
Print Assumptions C13_wrong_length_rejected_sec1.

Theorem C13_wrong_tag_rejected_sec1 : forall c tag r,
  (tag <> 2 -> tag <> 3 -> sec1_dec_c c (tag :: r) = None) /\
  (tag <> 4 -> sec1_dec_u c (tag :: r) = None).
Proof. exact sec1_wrong_tag. Qed.
Print Assumptions C13_wrong_tag_rejected_sec1.

Theorem C13_wrong_length_rejected_pasta : forall c bs,
  (length bs <> wc_len c -> pasta_dec_c c bs = None) /\
  (length bs <> (2 * wc_len c)%nat -> pasta_dec_u c bs = None).
Proof. exact pasta_wrong_length. Qed.
Print Assumptions C13_wrong_length_rejected_pasta.

Theorem C13_wrong_length_rejected_blsg1 : forall c bs,
  (length bs <> wc_len c -> blsg1_dec_c c bs = None) /\
  (length bs <> (2 * wc_len c)%nat -> blsg1_dec_u c bs = None).
Proof. exact blsg1_wrong_length. Qed.
Print Assumptions C13_wrong_length_rejected_blsg1.

(* BLS12-381 (ZCash) flags: compressed form requires C, infinity admits neither S nor a payload;
   uncompressed form admits neither C nor S, infinity admits no payload *)
Theorem C13_wrong_flags_rejected_blsg1_compressed : forall c b0 r,
  (flagC b0 <> 1 -> blsg1_dec_c c (b0 :: r) = None) /\
  (flagI b0 = 1 -> flagS b0 = 1 -> blsg1_dec_c c (b0 :: r) = None) /\
  (flagI b0 = 1 -> (b0 mod 32 <> 0 \/ all_zero r = false) -> blsg1_dec_c c (b0 :: r) = None).
Proof. exact blsg1_wrong_flags. Qed.
Print Assumptions C13_wrong_flags_rejected_blsg1_compressed.

Theorem C13_wrong_flags_rejected_blsg1_uncompressed : forall c b0 r,
  (flagC b0 = 1 -> blsg1_dec_u c (b0 :: r) = None) /\
  (flagS b0 = 1 -> blsg1_dec_u c (b0 :: r) = None) /\
  (flagI b0 = 1 -> (b0 mod 32 <> 0 \/ all_zero r = false) -> blsg1_dec_u c (b0 :: r) = None).
Proof. exact blsg1_wrong_flags_u. Qed.
Print Assumptions C13_wrong_flags_rejected_blsg1_uncompressed.

Theorem C13_from_affine_x_blsg1_on_curve : forall c x odd P,
  blsg1_from_affine_x c x odd = Some P -> w_on_curve (wc c) P = true.
Proof. exact blsg1_from_affine_x_on_curve. Qed.
Print Assumptions C13_from_affine_x_blsg1_on_curve.

Theorem C13_wrong_length_rejected_blsg2 : forall c bs,
  (length bs <> (2 * w2c_len c)%nat -> blsg2_dec_c c bs = None) /\
  (length bs <> (4 * w2c_len c)%nat -> blsg2_dec_u c bs = None).
Proof. exact blsg2_wrong_length. Qed.
Print Assumptions C13_wrong_length_rejected_blsg2.

Theorem C13_wrong_flags_rejected_blsg2 : forall c b0 r,
  (flagC b0 <> 1 -> blsg2_dec_c c (b0 :: r) = None) /\
  (flagI b0 = 1 -> flagS b0 = 1 -> blsg2_dec_c c (b0 :: r) = None) /\
  (flagI b0 = 1 -> (b0 mod 32 <> 0 \/ all_zero r = false) -> blsg2_dec_c c (b0 :: r) = None) /\
  (flagC b0 = 1 -> blsg2_dec_u c (b0 :: r) = None) /\
  (flagS b0 = 1 -> blsg2_dec_u c (b0 :: r) = None) /\
  (flagI b0 = 1 -> (b0 mod 32 <> 0 \/ all_zero r = false) -> blsg2_dec_u c (b0 :: r) = None).
Proof. exact blsg2_wrong_flags. Qed.
Print Assumptions C13_wrong_flags_rejected_blsg2.

Theorem C13_wrong_length_rejected_ed_x : forall c bs,
  (length bs <> ec_len c -> ed_dec_c c bs = None) /\
  (length bs <> (2 * ec_len c)%nat -> ed_dec_u c bs = None) /\
  (length bs <> ec_len c -> x_dec_c c bs = None).
Proof. exact ed_wrong_length. Qed.
Print Assumptions C13_wrong_length_rejected_ed_x.

(* ---- scalars / field elements: accepted bytes denote their value modulo the order ------------ *)

Theorem C13_field_decode_reduces : forall q len bs v,
  fld_from_bytes q len bs = Some v -> length bs = len /\ v = be_val bs mod q.
Proof. exact fld_from_bytes_reduces. Qed.
Print Assumptions C13_field_decode_reduces.

Theorem C13_field_decode_wide_reduces : forall q len bs v,
  fld_from_wide q len bs = Some v -> (length bs <= 2 * len)%nat /\ v = be_val bs mod q.
Proof. exact fld_from_wide_reduces. Qed.
Print Assumptions C13_field_decode_wide_reduces.

Theorem C13_field25519_decode_reduces : forall p bs v,
  fld25519_from_bytes p bs = Some v -> length bs = 32%nat /\ be_val bs < 2 ^ 255 /\ v = be_val bs mod p.
Proof. exact fld25519_from_bytes_reduces. Qed.
Print Assumptions C13_field25519_decode_reduces.

(* edwards25519 Fp.SetBytesWide folds bits 255 and 511 in by hand (19, 38, 722): it is the value
   modulo 2^255 - 19 *)
Theorem C13_field25519_decode_wide_reduces : forall p bs v,
  p = 2 ^ 255 - 19 -> is_bytes bs ->
  fld25519_from_wide p bs = Some v -> (length bs <= 64)%nat /\ v = be_val bs mod p.
Proof. exact fld25519_from_wide_reduces. Qed.
Print Assumptions C13_field25519_decode_wide_reduces.

(* ---- square roots: Tonelli–Shanks as coded finds a root of every square ---------------------- *)

Theorem C13_sqrt_correct : forall p e g rou, prime p -> (1 <= e)%nat ->
  p - 1 = 2 ^ Z.of_nat e * (2 * g + 1) -> 0 <= g ->
  sq_iter p (e - 1) rou = p - 1 ->
  forall w, 0 <= w < p -> exists s, ts_sqrt p e g rou (mulm p w w) = Some s.
Proof. exact ts_sqrt_complete. Qed.
Print Assumptions C13_sqrt_correct.

Theorem C13_sqrt_sound : forall p e g rou v s, ts_sqrt p e g rou v = Some s -> mulm p s s = v mod p.
Proof. exact ts_sqrt_sound. Qed.
Print Assumptions C13_sqrt_sound.

(* ---- decode (encode P) = P off the reserved identity encodings -------------------------------
   Full statement "for every point of the curve" is refuted below for P-256; what holds for every
   curve is the statement with the side condition x <> 0 (SEC1 compressed: 02/03||0 is decoded as
   the identity), (x,y) <> (0,0) (uncompressed), not (x = 0 and y even) (pasta). *)

Theorem C13_decode_encode_point_sec1_compressed : forall c, wcodec_ok c -> forall P,
  w_on_curve (wc c) P = true -> w_canon c P -> (forall y, P <> Some (0, y)) ->
  sec1_dec_c c (sec1_enc_c c P) = Some P.
Proof. exact sec1_roundtrip_c. Qed.
Print Assumptions C13_decode_encode_point_sec1_compressed.

Theorem C13_decode_encode_point_sec1_uncompressed : forall c, wcodec_ok c -> forall P,
  w_on_curve (wc c) P = true -> w_canon c P -> P <> Some (0, 0) ->
  sec1_dec_u c (sec1_enc_u c P) = Some P.
Proof. exact sec1_roundtrip_u. Qed.
Print Assumptions C13_decode_encode_point_sec1_uncompressed.

(* b a quadratic non-residue: no point has x = 0 and the round trip holds for ALL points *)
Theorem C13_decode_encode_point_sec1_all_when_b_nonresidue : forall c P, wcodec_ok c ->
  euler (wc_p c) (wp_b (wc c)) = wc_p c - 1 ->
  w_on_curve (wc c) P = true -> w_canon c P ->
  sec1_dec_c c (sec1_enc_c c P) = Some P.
Proof. exact sec1_roundtrip_c_all. Qed.
Print Assumptions C13_decode_encode_point_sec1_all_when_b_nonresidue.

Theorem C13_encode_injective_off_reserved_sec1 : forall c, wcodec_ok c ->
  (forall P Q, sec1_good_c c P -> sec1_good_c c Q -> sec1_enc_c c P = sec1_enc_c c Q -> P = Q) /\
  (forall P Q, sec1_good_u c P -> sec1_good_u c Q -> sec1_enc_u c P = sec1_enc_u c Q -> P = Q).
Proof. exact sec1_encode_injective. Qed.
Print Assumptions C13_encode_injective_off_reserved_sec1.

Theorem C13_decode_encode_point_pasta_compressed : forall c, wcodec_ok c ->
  (1 <= wc_len c)%nat -> wc_p c <= top_bit c -> forall P,
  w_on_curve (wc c) P = true -> w_canon c P -> (forall y, P = Some (0, y) -> y mod 2 = 1) ->
  pasta_dec_c c (pasta_enc_c c P) = Some P.
Proof. exact pasta_roundtrip_c. Qed.
Print Assumptions C13_decode_encode_point_pasta_compressed.

Theorem C13_decode_encode_point_pasta_uncompressed : forall c P, wcodec_ok c ->
  w_on_curve (wc c) P = true -> w_canon c P -> P <> Some (0, 0) ->
  pasta_dec_u c (pasta_enc_u c P) = Some P.
Proof. exact pasta_roundtrip_u. Qed.
Print Assumptions C13_decode_encode_point_pasta_uncompressed.

(* edwards25519: the identity is an ordinary affine point, no reserved encoding, no side condition *)
Theorem C13_decode_encode_point_ed_compressed : forall c, ecodec_ok c -> forall P,
  e_on_curve (ec c) P = true -> e_canon c P -> ed_dec_c c (ed_enc_c c P) = Some P.
Proof. exact ed_roundtrip_c. Qed.
Print Assumptions C13_decode_encode_point_ed_compressed.

Theorem C13_decode_encode_point_ed_uncompressed : forall c, ecodec_ok c -> forall P,
  e_on_curve (ec c) P = true -> e_canon c P -> ed_dec_u c (ed_enc_u c P) = Some P.
Proof. exact ed_roundtrip_u. Qed.
Print Assumptions C13_decode_encode_point_ed_uncompressed.

Theorem C13_decode_encode_point_ed_prime_subgroup : forall c, ecodec_ok c -> forall P,
  e_on_curve (ec c) P = true -> e_canon c P -> e_in_subgroup c P ->
  edp_dec_c c (ed_enc_c c P) = Some P /\ edp_dec_u c (ed_enc_u c P) = Some P.
Proof. exact edp_roundtrip. Qed.
Print Assumptions C13_decode_encode_point_ed_prime_subgroup.

(* BLS12-381 G1 (ZCash flags; the identity has a flag of its own, no reserved encoding): members
   of the subgroup survive both formats *)
Theorem C13_decode_encode_point_blsg1_compressed : forall c, wcodec_ok c ->
  (1 <= wc_len c)%nat -> 8 * wc_p c <= 256 ^ Z.of_nat (wc_len c) -> forall P,
  w_on_curve (wc c) P = true -> w_canon c P -> w_in_subgroup c P ->
  blsg1_dec_c c (blsg1_enc_c c P) = Some P.
Proof. exact blsg1_roundtrip_c. Qed.
Print Assumptions C13_decode_encode_point_blsg1_compressed.

Theorem C13_decode_encode_point_blsg1_uncompressed : forall c, wcodec_ok c ->
  (1 <= wc_len c)%nat -> 8 * wc_p c <= 256 ^ Z.of_nat (wc_len c) -> forall P,
  w_on_curve (wc c) P = true -> w_canon c P -> w_in_subgroup c P ->
  blsg1_dec_u c (blsg1_enc_u c P) = Some P.
Proof. exact blsg1_roundtrip_u. Qed.
Print Assumptions C13_decode_encode_point_blsg1_uncompressed.

Theorem C13_blsg1_decode_encode_subgroup_points : forall P, prime bls12381_p ->
  w_on_curve (wc blsg1_codec) P = true -> w_canon blsg1_codec P -> w_in_subgroup blsg1_codec P ->
  blsg1_dec_c blsg1_codec (blsg1_enc_c blsg1_codec P) = Some P /\
  blsg1_dec_u blsg1_codec (blsg1_enc_u blsg1_codec P) = Some P.
Proof. exact blsg1_roundtrip_instance. Qed.
Print Assumptions C13_blsg1_decode_encode_subgroup_points.

(* BLS12-381 G2: the library's Fp2 square root (norm, (v0 +- sqrt norm)/2, base-field branch) finds
   a root of every square when p = 3 mod 4, hence the round trip for subgroup points *)
Theorem C13_fp2_sqrt_complete : forall c, w2codec_ok c -> forall y, z2_canon (w2c_p c) y ->
  exists s, fp2_sqrt c (fmul (K2 c) y y) = Some s /\ (s = y \/ s = fopp (K2 c) y).
Proof. exact fp2_sqrt_complete. Qed.
Print Assumptions C13_fp2_sqrt_complete.

Theorem C13_decode_encode_point_blsg2_compressed : forall c, w2codec_ok c ->
  (1 <= w2c_len c)%nat -> 8 * w2c_p c <= 256 ^ Z.of_nat (w2c_len c) -> forall P,
  w2_on_curve (w2c c) P = true -> w2_canon c P -> w2_in_subgroup c P ->
  blsg2_dec_c c (blsg2_enc_c c P) = Some P.
Proof. exact blsg2_roundtrip_c. Qed.
Print Assumptions C13_decode_encode_point_blsg2_compressed.

Theorem C13_decode_encode_point_blsg2_uncompressed : forall c, w2codec_ok c ->
  (1 <= w2c_len c)%nat -> 8 * w2c_p c <= 256 ^ Z.of_nat (w2c_len c) -> forall P,
  w2_on_curve (w2c c) P = true -> w2_canon c P -> w2_in_subgroup c P ->
  blsg2_dec_u c (blsg2_enc_u c P) = Some P.
Proof. exact blsg2_roundtrip_u. Qed.
Print Assumptions C13_decode_encode_point_blsg2_uncompressed.

Theorem C13_blsg2_decode_encode_subgroup_points : forall P, prime bls12381_p ->
  w2_on_curve (w2c blsg2_codec) P = true -> w2_canon blsg2_codec P -> w2_in_subgroup blsg2_codec P ->
  blsg2_dec_c blsg2_codec (blsg2_enc_c blsg2_codec P) = Some P /\
  blsg2_dec_u blsg2_codec (blsg2_enc_u blsg2_codec P) = Some P.
Proof. exact blsg2_roundtrip_instance. Qed.
Print Assumptions C13_blsg2_decode_encode_subgroup_points.

(* ---- the named curves (primality of the modulus is the only hypothesis left) ----------------- *)

Theorem C13_k256_decode_encode_all_points : forall P, prime (wp_p k256_params) ->
  w_on_curve k256_params P = true -> w_canon k256_codec P ->
  sec1_dec_c k256_codec (sec1_enc_c k256_codec P) = Some P.
Proof. exact k256_roundtrip_all. Qed.
Print Assumptions C13_k256_decode_encode_all_points.

Theorem C13_pallas_decode_encode_all_points : forall P, prime (wp_p pallas_params) ->
  w_on_curve pallas_params P = true -> w_canon pallas_codec P ->
  pasta_dec_c pallas_codec (pasta_enc_c pallas_codec P) = Some P.
Proof. exact pallas_roundtrip_all. Qed.
Print Assumptions C13_pallas_decode_encode_all_points.

Theorem C13_vesta_decode_encode_all_points : forall P, prime (wp_p vesta_params) ->
  w_on_curve vesta_params P = true -> w_canon vesta_codec P ->
  pasta_dec_c vesta_codec (pasta_enc_c vesta_codec P) = Some P.
Proof. exact vesta_roundtrip_all. Qed.
Print Assumptions C13_vesta_decode_encode_all_points.

Theorem C13_ed25519_codec_ok : prime (ep_p ed25519_params) -> ecodec_ok ed25519_codec.
Proof. exact ed25519_codec_ok. Qed.
Print Assumptions C13_ed25519_codec_ok.

Theorem C13_p256_codec_ok : prime (wp_p p256_params) -> wcodec_ok p256_codec.
Proof. exact p256_codec_ok. Qed.
Print Assumptions C13_p256_codec_ok.

(* the constants regenerated from the field sources on this run (gen/CodecConsts.v: 2-adicity,
   progenitor exponent, root of unity, modulus, element size) are the ones of the model's curves *)
Theorem C13_regenerated_constants_tie :
  wcodec_tie k256_codec k256_fp_modulus k256_fp_e k256_fp_progenitor k256_fp_rou k256_fp_bytes /\
  wcodec_tie p256_codec p256_fp_modulus p256_fp_e p256_fp_progenitor p256_fp_rou p256_fp_bytes /\
  wcodec_tie pallas_codec pallas_fp_modulus pallas_fp_e pallas_fp_progenitor pallas_fp_rou pallas_fp_bytes /\
  wcodec_tie vesta_codec vesta_fp_modulus vesta_fp_e vesta_fp_progenitor vesta_fp_rou vesta_fp_bytes /\
  wcodec_tie blsg1_codec bls12381_fp_modulus bls12381_fp_e bls12381_fp_progenitor bls12381_fp_rou bls12381_fp_bytes /\
  (ec_p ed25519_codec = ed25519_fp_modulus /\ ec_e ed25519_codec = ed25519_fp_e /\
   ec_g ed25519_codec = ed25519_fp_progenitor /\ ec_rou ed25519_codec = ed25519_fp_rou /\
   ec_len ed25519_codec = ed25519_fp_bytes).
Proof. exact codec_consts_tie. Qed.
Print Assumptions C13_regenerated_constants_tie.

(* the instances evaluated by the extracted driver are the ones of the theorems *)
Theorem C13_extracted_instances_tie :
  k256_codec_f tt = k256_codec /\ p256_codec_f tt = p256_codec /\
  pallas_codec_f tt = pallas_codec /\ vesta_codec_f tt = vesta_codec /\
  blsg1_codec_f tt = blsg1_codec /\ ed25519_codec_f tt = ed25519_codec /\
  curve25519_params_f tt = curve25519_params /\ blsg2_codec_f tt = blsg2_codec.
Proof. exact codec_thunks_tie. Qed.
Print Assumptions C13_extracted_instances_tie.

(* P-256 (finding F2): full statement
     forall P, w_on_curve p256_params P = true -> w_canon p256_codec P ->
               sec1_dec_c p256_codec (sec1_enc_c p256_codec P) = Some P
   is FALSE of the faithful model: the point (0, sqrt b) is encoded as 02||00..00, the reserved
   identity encoding, and decoded as the identity. *)
Theorem C13_decode_encode_point_p256_refuted :
  exists P, w_on_curve p256_params P = true /\ w_canon p256_codec P /\
            sec1_dec_c p256_codec (sec1_enc_c p256_codec P) <> Some P.
Proof. exact p256_roundtrip_refuted. Qed.
Print Assumptions C13_decode_encode_point_p256_refuted.

Theorem C13_encode_injective_p256_refuted :
  exists P Q, P <> Q /\ w_on_curve p256_params P = true /\ w_on_curve p256_params Q = true /\
              sec1_enc_c p256_codec P = sec1_enc_c p256_codec Q.
Proof. exact p256_encode_not_injective. Qed.
Print Assumptions C13_encode_injective_p256_refuted.

(* the collision is generic: on any curve a point with x = 0 decodes to the identity *)
Theorem C13_sec1_x0_decodes_to_identity : forall c y,
  sec1_dec_c c (sec1_enc_c c (Some (0, y))) = Some None.
Proof. exact sec1_x0_collides. Qed.
Print Assumptions C13_sec1_x0_decodes_to_identity.

(* ---- the hypotheses are satisfiable: a toy curve over F_11 with every constant checked, and the
   conclusions on the real generators by computation --------------------------------------------- *)
Example C13_nonvacuous :
  wcodec_ok toy_codec /\
  euler (wc_p toy_codec) (wp_b (wc toy_codec)) = wc_p toy_codec - 1 /\
  w_on_curve (wc toy_codec) (Some (5, 0)) = true /\
  sec1_dec_c toy_codec (sec1_enc_c toy_codec (Some (4, 4))) = Some (Some (4, 4)) /\
  sec1_dec_c k256_codec (sec1_enc_c k256_codec (w_gen k256_params)) = Some (w_gen k256_params) /\
  pasta_dec_c pallas_codec (pasta_enc_c pallas_codec (w_gen pallas_params)) = Some (w_gen pallas_params) /\
  ed_dec_c ed25519_codec (ed_enc_c ed25519_codec (e_gen ed25519_params)) = Some (e_gen ed25519_params) /\
  e_on_curve ed25519_params (e_gen ed25519_params) = true.
Proof. exact c13_nonvacuous. Qed.
