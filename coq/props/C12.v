(* C12 — Wire formats round-trip deterministically; decoding validates like construction.
   Property theorems only; proofs are in proofs/Cbor_proofs.v and proofs/Schema_proofs.v, the
   executable models in model/Cbor.v (CBOR items, deterministic encoder, strict decoder as
   configured in serde.updateModes) and model/Schema.v (DTO schemas, unknown-field rule,
   constructor rules).  The limits, the strictness switches and the registered tag numbers are
   gen/SerdeConsts.v, regenerated from pkg/base/serde/serde.go and internal/tags. *)
From Coq Require Import List NArith ZArith Sorting.Permutation Sorted.
Import ListNotations.
Require Import V.base.Bytes V.gen.SerdeConsts V.gen.SerdeDtos V.model.Cbor V.model.Schema.
Require Import V.proofs.Cbor_proofs V.proofs.Schema_proofs.
Local Open Scope N_scope.

(* ---- the configuration read from serde.go is the strict one the model describes ---------- *)

Theorem C12_serde_config_strict : serde_strict = true.
Proof. exact serde_config_strict. Qed.
Print Assumptions C12_serde_config_strict.

Theorem C12_serde_limits_sane :
  lim64 serde_limits /\ (0 < max_depth serde_limits)%nat /\ 1 <= max_arr serde_limits.
Proof. exact serde_limits_sane. Qed.
Print Assumptions C12_serde_limits_sane.

(* the wire field names (and omitempty flags) of the 34 DTO structs behind the typed schemas,
   regenerated from the struct declarations, are exactly the fields of the model's schemas *)
Theorem C12_dto_fields_agree :
  forallb (fun p : schema * list (bytes * bool) => same_fields (struct_fields (fst p)) (snd p)) dto_table = true.
Proof. exact dto_fields_agree. Qed.
Print Assumptions C12_dto_fields_agree.

(* ---- round trip, for every well-formed item within the limits ---------------------------- *)

(* fuel is explicit: any fuel >= the length of the encoding suffices, at any nesting budget >=
   the item's height, with any bytes following *)
Theorem C12_dec_encode : forall L, lim64 L -> forall x fuel depth rest,
  wf L x = true -> (height x <= depth)%nat -> (length (encode x) <= fuel)%nat ->
  dec L fuel depth (encode x ++ rest) = Ok (x, rest).
Proof. exact dec_encode. Qed.
Print Assumptions C12_dec_encode.

Theorem C12_decode_encode : forall L, lim64 L -> forall x,
  within L x = true -> decode L (encode x) = Ok x.
Proof. exact decode_encode. Qed.
Print Assumptions C12_decode_encode.

(* every accepted stream re-encodes to the canonical form of what was decoded, and decoding
   that gives the canonical item again (decoding is not injective — non-shortest heads and
   unsorted keys are accepted, as in the library — but encode . decode is idempotent) *)
Theorem C12_decode_reencode : forall L bs x,
  decode L bs = Ok x -> decode L (encode x) = Ok (canon x).
Proof. exact decode_reencode. Qed.
Print Assumptions C12_decode_reencode.

(* ---- the encoding is injective, prefix-free and independent of map iteration order -------- *)

Theorem C12_encode_injective : forall L, lim64 L -> forall x y,
  wf L x = true -> wf L y = true -> encode x = encode y -> x = y.
Proof. exact encode_injective. Qed.
Print Assumptions C12_encode_injective.

Theorem C12_encode_prefix_free : forall L, lim64 L -> forall x y r1 r2,
  wf L x = true -> wf L y = true -> encode x ++ r1 = encode y ++ r2 -> x = y /\ r1 = r2.
Proof. exact encode_prefix_free. Qed.
Print Assumptions C12_encode_prefix_free.

Theorem C12_encode_map_order_independent : forall l l',
  Permutation l l' -> NoDup (map (fun kv : item * item => encode (fst kv)) l) ->
  encode (Map l) = encode (Map l').
Proof. exact encode_map_order_independent. Qed.
Print Assumptions C12_encode_map_order_independent.

Theorem C12_encode_canonical_maps : forall l,
  exists ps, encode (Map l) = head 5 (len l) ++ concat (map (fun p : bytes * bytes => fst p ++ snd p) ps) /\
             Permutation ps (map (fun kv : item * item => (encode (fst kv), encode (snd kv))) l) /\
             StronglySorted (fun a b => lex_leb a b = true) (map fst ps).
Proof. exact encode_map_keys_sorted. Qed.
Print Assumptions C12_encode_canonical_maps.

(* the accepted language is prefix-free for arbitrary (also non-canonical) input *)
Theorem C12_decode_prefix_free : forall L p s x y,
  decode L p = Ok x -> decode L (p ++ s) = Ok y -> s = [] /\ x = y.
Proof. exact decode_prefix_free. Qed.
Print Assumptions C12_decode_prefix_free.

(* ---- totality: the decoder is never stuck (the model's "never panics") -------------------- *)

Theorem C12_decode_no_stuck : forall L bs, decode L bs <> Err EFuel.
Proof. exact decode_no_fuel. Qed.
Print Assumptions C12_decode_no_stuck.

Theorem C12_dec_consumes : forall L fuel depth bs x r,
  dec L fuel depth bs = Ok (x, r) -> (length r < length bs)%nat.
Proof. exact dec_consumes. Qed.
Print Assumptions C12_dec_consumes.

(* ---- malformed containers are rejected, at every position -------------------------------- *)

Theorem C12_rejects_indefinite : forall L f depth mt rest,
  2 <= mt <= 5 -> dec L (S f) depth ((mt * 32 + 31) :: rest) = Err EIndef.
Proof. exact dec_rejects_indefinite. Qed.
Print Assumptions C12_rejects_indefinite.

Theorem C12_rejects_reserved : forall L f depth b rest,
  b < 256 -> 28 <= b mod 32 <= 30 -> dec L (S f) depth (b :: rest) = Err EReserved.
Proof. exact dec_rejects_reserved. Qed.
Print Assumptions C12_rejects_reserved.

Theorem C12_rejects_trailing : forall L, lim64 L -> forall x b rest,
  within L x = true -> decode L (encode x ++ b :: rest) = Err ETrailing.
Proof. exact decode_rejects_trailing. Qed.
Print Assumptions C12_rejects_trailing.

Theorem C12_rejects_dup_key : forall L, lim64 L -> forall k v1 v2,
  within L (Map [(k, v1)]) = true -> wf L v2 = true -> (height v2 < max_depth L)%nat -> 2 <= max_map L ->
  decode L (head 5 2 ++ encode k ++ encode v1 ++ encode k ++ encode v2) = Err EDup.
Proof. exact decode_rejects_dup_key. Qed.
Print Assumptions C12_rejects_dup_key.

Theorem C12_rejects_deep : forall L, 1 <= max_arr L ->
  decode L (repeat 129 (S (max_depth L)) ++ [0]) = Err EDepth.
Proof. exact decode_rejects_deep. Qed.
Print Assumptions C12_rejects_deep.

Theorem C12_rejects_bignum_tag : forall L t rest,
  t = 2 \/ t = 3 -> decode L (head 6 t ++ rest) = Err EBigTag.
Proof. exact decode_rejects_bignum_tag. Qed.
Print Assumptions C12_rejects_bignum_tag.

Theorem C12_rejects_bad_utf8 : forall L b,
  utf8_valid b = false -> all_bytes b = true -> len b < 18446744073709551616 ->
  decode L (head 3 (len b) ++ b) = Err EUtf8.
Proof. exact decode_rejects_bad_utf8. Qed.
Print Assumptions C12_rejects_bad_utf8.

Theorem C12_rejects_truncated : forall L, lim64 L -> forall x p s,
  within L x = true -> encode x = p ++ s -> s <> [] -> decode L p = Err ETrunc.
Proof. exact decode_rejects_truncated. Qed.
Print Assumptions C12_rejects_truncated.

(* everything the decoder accepts is within the limits: no duplicate keys anywhere, sizes and
   nesting bounded, text valid UTF-8, no bignum tags — for arbitrary input bytes *)
Theorem C12_decode_sound : forall L bs x,
  decode L bs = Ok x -> wf_dec L x = true /\ (height x <= max_depth L)%nat.
Proof. exact decode_sound. Qed.
Print Assumptions C12_decode_sound.

(* ---- typed layer: decoding validates like construction ------------------------------------ *)

Theorem C12_typed_decode_valid : forall L t bs x,
  decode_typed L t bs = Some x ->
  valid t x = true /\ conf conf_fuel (schema_of t) x = COk /\
  decode L (encode_typed x) = Ok x /\ decode_typed L t (encode_typed x) = Some x.
Proof. exact typed_decode_valid. Qed.
Print Assumptions C12_typed_decode_valid.

Theorem C12_typed_encode_injective : forall L t t' bs bs' x y,
  lim64 L -> decode_typed L t bs = Some x -> decode_typed L t' bs' = Some y ->
  encode_typed x = encode_typed y -> x = y.
Proof. exact typed_encode_injective. Qed.
Print Assumptions C12_typed_encode_injective.

Theorem C12_typed_rejects_malformed : forall L t bs e,
  decode L bs = Err e -> decode_typed L t bs = None.
Proof. exact typed_decode_rejects_malformed. Qed.
Print Assumptions C12_typed_rejects_malformed.

Theorem C12_unknown_field_rejected : forall f fs ps nm v,
  In (TStr nm, v) ps -> lookup_field fs nm = None -> conf (S f) (SStruct fs) (Map ps) <> COk.
Proof. exact unknown_field_rejected. Qed.
Print Assumptions C12_unknown_field_rejected.

Theorem C12_struct_conformance : forall f fs ps,
  conf (S f) (SStruct fs) (Map ps) = COk ->
  (forall k v, In (k, v) ps ->
     exists nm opt s, k = TStr nm /\ lookup_field fs nm = Some (opt, s) /\ conf f s v = COk) /\
  (forall nm opt s, In (nm, (opt, s)) fs -> opt = false -> has_key ps nm = true).
Proof. exact conf_struct_fields. Qed.
Print Assumptions C12_struct_conformance.

Theorem C12_classify_unknown_rejected : forall L t bs,
  classify L t bs = VUnknownField -> decode_typed L t bs = None.
Proof. exact classify_unknown_rejected. Qed.
Print Assumptions C12_classify_unknown_rejected.

(* what the validity predicate says for the anchored types (constructor rules restated) *)
Theorem C12_threshold_valid_spec : forall x,
  valid TThreshold x = true ->
  let d := untag x in
  let t := nat_of (fld k_threshold d) in
  let ids := keys_of (fld k_shareholders d) in
  2 <= t /\ t <= len ids /\ ~ In 0 ids.
Proof. exact threshold_valid_spec. Qed.
Print Assumptions C12_threshold_valid_spec.

Theorem C12_ecdsa_valid_spec : forall c x,
  valid (TEcdsaSig c) x = true ->
  scalar_is_zero (fld k_r x) = false /\ scalar_is_zero (fld k_s x) = false /\
  len (scalar_bytes (fld k_r x)) = c_slen c /\ len (scalar_bytes (fld k_s x)) = c_slen c /\
  (is_null (fld k_v x) = true \/ (0 <= int_of (fld k_v x) <= 3)%Z).
Proof. exact ecdsa_valid_spec. Qed.
Print Assumptions C12_ecdsa_valid_spec.

Theorem C12_matrix_valid_spec : forall c x,
  valid (TMatrix c) x = true ->
  (0 < int_of (fld k_rows x))%Z /\ (0 < int_of (fld k_cols x))%Z /\
  lenZ (arr_of (fld k_data x)) = (int_of (fld k_rows x) * int_of (fld k_cols x))%Z.
Proof. exact matrix_valid_spec. Qed.
Print Assumptions C12_matrix_valid_spec.

Theorem C12_msp_valid_spec : forall c x,
  valid (TMsp c) x = true ->
  let lab := pairs_of (fld k_RowsToHolders x) in
  let rows := int_of (fld k_rows (fld k_Matrix x)) in
  lenZ lab = rows /\
  (forall k v, In (k, v) lab -> exists n, k = UInt n /\ (Z.of_N n < rows)%Z /\ nat_of v <> 0).
Proof. exact msp_valid_spec. Qed.
Print Assumptions C12_msp_valid_spec.

Theorem C12_baseshard_valid_spec : forall c m x,
  valid (TBaseShard c m) x = true ->
  m = true /\
  In (nat_of (fld k_id (fld k_share x))) (msp_holders (fld k_msp (fld k_publicMaterial x))) /\
  valid (TBasePublic c) (fld k_publicMaterial x) = true /\
  valid (TKwShare c) (fld k_share x) = true.
Proof. exact baseshard_valid_spec. Qed.
Print Assumptions C12_baseshard_valid_spec.

Theorem C12_vv_valid_spec : forall c x,
  valid (TFeldmanVV c) x = true ->
  let m := fld k_verification_vector x in
  int_of (fld k_cols m) = 1%Z /\ (0 < int_of (fld k_rows m))%Z /\
  lenZ (arr_of (fld k_data m)) = int_of (fld k_rows m).
Proof. exact vv_valid_spec. Qed.
Print Assumptions C12_vv_valid_spec.

Theorem C12_cnf_valid_spec : forall x,
  valid TCnf x = true ->
  let d := untag x in
  let sets := map keys_of (arr_of (fld k_maximal_unqualified_sets d)) in
  sets <> [] /\ Forall (fun s => s <> [] /\ ~ In 0 s) sets /\ 2 <= len (dedupN (List.concat sets)) /\
  antichain_from [] sets = true /\
  seteqN (keys_of (fld k_shareholders d)) (dedupN (List.concat sets)) = true.
Proof. exact cnf_valid_spec. Qed.
Print Assumptions C12_cnf_valid_spec.

Theorem C12_hierarchical_valid_spec : forall x,
  valid THierarchical x = true ->
  let ls := arr_of (fld k_levels (untag x)) in ls <> [] /\ hier_ok 0 [] ls.
Proof. exact hierarchical_valid_spec. Qed.
Print Assumptions C12_hierarchical_valid_spec.

Theorem C12_boolexpr_valid_spec : forall x,
  valid TBoolexpr x = true ->
  let d := untag x in
  node_ok (fld k_root d) /\
  seteqN (keys_of (fld k_shareholders d)) (node_leaves 64 (fld k_root d)) = true /\
  (forall k v, In (k, v) (pairs_of (fld k_shareholders d)) -> v = Simple 21).
Proof. exact boolexpr_valid_spec. Qed.
Print Assumptions C12_boolexpr_valid_spec.

Theorem C12_pedshare_valid_spec : forall c x,
  valid (TPedShare c) x = true ->
  nat_of (fld k_sharingID x) <> 0 /\ arr_of (fld k_secret x) <> [] /\ arr_of (fld k_blinding x) <> [] /\
  len (arr_of (fld k_secret x)) = len (arr_of (fld k_blinding x)).
Proof. exact pedshare_valid_spec. Qed.
Print Assumptions C12_pedshare_valid_spec.

Theorem C12_dklspartial_valid_spec : forall c x,
  valid (TDklsPartial c) x = true ->
  scalar_is_zero (fld k_u x) = false /\ scalar_is_zero (fld k_w x) = false /\
  len (bytes_of (fld k_compressedBytes (fld k_r x))) = c_plen c.
Proof. exact dklspartial_valid_spec. Qed.
Print Assumptions C12_dklspartial_valid_spec.

Theorem C12_natplus_valid_spec : forall x,
  valid TNatPlus x = true ->
  exists b, In b (bytes_of (fld k_natBytes (fld k_natPlus x))) /\ b <> 0.
Proof. exact natplus_valid_spec. Qed.
Print Assumptions C12_natplus_valid_spec.

(* num.Uint: 0 <= value < modulus, at the top and for every Uint-shaped component directly below the
   top of a generically modelled type (Paillier plaintexts, znstar elements, trapdoor keys, ...) *)
Theorem C12_uint_valid_spec : forall x,
  valid TUint x = true ->
  forall v m, uint_leaf x = Some (v, m) -> be_value v < be_value m.
Proof. exact uint_valid_spec. Qed.
Print Assumptions C12_uint_valid_spec.

Theorem C12_generic_uint_leaves_spec : forall x,
  valid TGeneric x = true ->
  (forall v m, uint_leaf x = Some (v, m) -> be_value v < be_value m) /\
  (forall ps k y v m, x = Map ps -> In (k, y) ps -> uint_leaf y = Some (v, m) -> be_value v < be_value m).
Proof. exact generic_uint_leaves_spec. Qed.
Print Assumptions C12_generic_uint_leaves_spec.

(* ---- non-vacuity: concrete instances of the hypotheses ------------------------------------- *)

(* the library's encoding of the (2, {1,2,300}) threshold structure:
   d913bd a2 69"threshold" 02 6c"shareholders" a3 01f5 02f5 19012cf5 *)
Definition ex_threshold : item :=
  Tag 5053 (Map [ (TStr k_threshold, UInt 2);
                  (TStr k_shareholders, Map [ (UInt 1, Simple 21); (UInt 2, Simple 21); (UInt 300, Simple 21) ]) ]).

Example C12_nonvacuous :
  within serde_limits ex_threshold = true /\
  encode ex_threshold =
    [217; 19; 189; 162; 105; 116; 104; 114; 101; 115; 104; 111; 108; 100; 2;
     108; 115; 104; 97; 114; 101; 104; 111; 108; 100; 101; 114; 115; 163; 1; 245; 2; 245; 25; 1; 44; 245] /\
  decode_typed serde_limits TThreshold (encode ex_threshold) = Some ex_threshold /\
  (* threshold 1: refused by rule 1;  an extra key "zz": unknown field;  a duplicated key *)
  classify serde_limits TThreshold
    (encode (Tag 5053 (Map [ (TStr k_threshold, UInt 1);
                             (TStr k_shareholders, Map [ (UInt 1, Simple 21); (UInt 2, Simple 21) ]) ]))) = VInvalid 1 /\
  classify serde_limits TThreshold
    (encode (Tag 5053 (Map [ (TStr [122; 122], UInt 0); (TStr k_threshold, UInt 2);
                             (TStr k_shareholders, Map [ (UInt 1, Simple 21); (UInt 2, Simple 21) ]) ]))) = VUnknownField /\
  decode serde_limits [162; 1; 0; 24; 1; 0] = Err EDup /\
  decode serde_limits [159; 0; 255] = Err EIndef /\
  (* non-shortest head and unsorted keys are accepted and canonicalised *)
  decode serde_limits [162; 24; 2; 0; 1; 0] = Ok (Map [ (UInt 2, UInt 0); (UInt 1, UInt 0) ]) /\
  canon (Map [ (UInt 2, UInt 0); (UInt 1, UInt 0) ]) = Map [ (UInt 1, UInt 0); (UInt 2, UInt 0) ].
Proof. vm_compute. repeat split; reflexivity. Qed.
