(* C06 — Refresh, recovery and redistribution never change the key.
   Property theorems only; proofs are in proofs/Redist_proofs.v, the executable models in
   model/Zero.v (abstract linear sharing, HJKY zero sharing as coded) and model/Redist.v
   (the three redistribution rounds as coded, the history machine of epochs).

   Reading guide.  K is an arbitrary field ([flaws K]); a [sharing] gives every holder a
   list of rows (every MSP the library induces is one); the share of holder i in a dealing
   with column c is rows(i)·c; group elements are represented by their exponents, so the
   verification vector of a dealing is its column and [verify] is feldman.Scheme.Verify.
   [solve] is the MSP solver as an ORACLE: the model uses an answer only after checking
   Σ lam·rows = e₀ ([reconstructs_b]), so the theorems hold for EVERY oracle.
   [good K w s] (proofs/Redist_proofs.v): the current sharing is well formed, the world's
   verification vector has its length, its first entry and the recorded public key are s,
   and every holder's stored share is rows(i)·(verification vector).
   [redist_run K solve w ns a = Some w'] : the honest step with the environment data [a]
   (driving quorum, anchor, zero sharing, the scalars read from the tapes) was performed by
   all parties (every check of Round2 of HJKY and of Round3 passed); [None] = refused. *)
From Coq Require Import List NArith ZArith Bool.
Import ListNotations.
Require Import V.base.Fld V.model.Zero V.model.Redist V.proofs.Redist_proofs.

(* One step, as coded: the new summed column has first entry s; the new vector's first entry
   is the old public key; every new share is rows(i)·(new vector) and verifies; every set that
   reconstructs in the NEXT sharing obtains s. *)
Theorem C06_redist_step_preserves :
  forall (F : Type) (K : fops F), flaws K ->
  forall (solve : sharing -> list N -> option coefs) (w : world) (ns : sharing) (a : step_args) (w' : world) (s : F),
  good K w s -> redist_run K solve w ns a = Some w' ->
  w_sh w' = ns /\ hd0 K (w_vv w') = s /\ w_pk w' = w_pk w /\
  (forall i, In i (holders ns) ->
     share_in w' i = share_of K ns (w_vv w') i /\ verify K ns i (share_in w' i) (w_vv w') = true) /\
  (forall (S : list N) (lam : coefs), reconstructs_b K ns S lam = true -> recon K S lam (share_in w') = s).
Proof. exact (@redist_step_preserves). Qed.
Print Assumptions C06_redist_step_preserves.

(* Completeness of one step: from a good world, with well-formed environment data ([precheck]:
   the sharings are well formed, the driving quorum is a duplicate-free set of at least two current
   holders, the anchor if any is one of them, the tapes belong to the quorum members, there are next
   holders), a solver that answers with reconstructing coefficients for the quorum in the current
   and in the zero sharing, tapes of the length of the two dealings, and sharings with at least two
   columns (the dealer refuses one-column MSPs), NO honest step is refused:
   every check of HJKY Round2 and of Round3 (pieces, consistency with the own / the anchor's data,
   partial public keys, old pk = new pk, aggregated share) passes at every party. *)
Theorem C06_redist_step_complete :
  forall (F : Type) (K : fops F), flaws K ->
  forall (solve : sharing -> list N -> option coefs) (w : world) (ns : sharing) (a : step_args) (s : F) (lam lamz : coefs),
  good K w s -> precheck w ns a = true ->
  coefs_checked K solve (w_sh w) (sa_Q a) = Some lam ->
  coefs_checked K solve (sa_zs a) (sa_Q a) = Some lamz ->
  (forall e : N * vec, In e (sa_rnd1 a) -> length (snd e) = sh_dim (sa_zs a)) ->
  (forall e : N * vec, In e (sa_rnd2 a) -> length (snd e) = sh_dim ns) ->
  (2 <= sh_dim (sa_zs a))%nat -> (2 <= sh_dim ns)%nat ->
  exists w' : world, redist_run K solve w ns a = Some w'.
Proof. exact (@redist_run_complete). Qed.
Print Assumptions C06_redist_step_complete.

(* After ANY finite history of {refresh, recover i, redistribute to any sharing/holders with or
   without anchor, sign} — performed or refused steps alike — starting from the trusted
   dealer's dealing of [secret]: the public key is the original one, the verification vector
   commits to [secret], every current share verifies, and every set that reconstructs in the
   CURRENT sharing reconstructs [secret] (whatever coefficients it uses). *)
Theorem C06_history_invariant :
  forall (F : Type) (K : fops F), flaws K ->
  forall (solve : sharing -> list N -> option coefs) (sh : sharing) (secret : F) (rnd : vec) (w0 : world) (ops : list op),
  genesis K sh secret rnd = Some w0 ->
  let w := run_history K solve w0 ops in
  w_pk w = w_pk w0 /\ hd0 K (w_vv w) = secret /\
  (forall i, In i (holders (w_sh w)) -> verify K (w_sh w) i (share_in w i) (w_vv w) = true) /\
  (forall (S : list N) (lam : coefs), reconstructs_b K (w_sh w) S lam = true -> recon K S lam (share_in w) = secret) /\
  (forall (S : list N) (v : F), reconstruct K solve w S = Some v -> v = secret).
Proof. exact (@history_invariant). Qed.
Print Assumptions C06_history_invariant.

(* ... and the shares after any history are exactly a dealing rows(i)·c of the current sharing
   (so C02's privacy theorem for unqualified sets applies to the current sharing verbatim). *)
Theorem C06_history_is_dealing :
  forall (F : Type) (K : fops F), flaws K ->
  forall (solve : sharing -> list N -> option coefs) (ops : list op) (w : world) (s : F),
  good K w s -> good K (run_history K solve w ops) s.
Proof. exact (@history_good). Qed.
Print Assumptions C06_history_is_dealing.

(* HJKY as coded: the summed zero column Z has first entry 0; every party that accepts holds
   (rows(i)·Z, Z); zero shares reconstruct 0; adding a zero share changes every share by
   rows(i)·Z and leaves what any reconstructing set obtains unchanged. *)
Theorem C06_zero_sum :
  forall (F : Type) (K : fops F), flaws K ->
  forall (zs : sharing) (rnds : list (N * vec)) (zc : zcols),
  wf_sharing_b zs = true -> NoDup (map fst rnds) -> hjky_cols K zs rnds = Some zc ->
  let Z := vsum K (sh_dim zs) (map snd zc) in
  hd0 K Z = f0 K /\ length Z = sh_dim zs /\
  (forall (i : N) (sh : list F) (vv : vec), hjky_party K zs zc i = Ok (sh, vv) -> vv = Z /\ sh = share_of K zs Z i) /\
  (forall (S : list N) (lam : coefs), reconstructs_b K zs S lam = true -> recon K S lam (share_of K zs Z) = f0 K) /\
  (forall (c : list F) (i : N), length c = sh_dim zs ->
     share_of K zs (vadd K c Z) i = vadd K (share_of K zs c i) (share_of K zs Z i)) /\
  (forall (c : list F) (S : list N) (lam : coefs), length c = sh_dim zs -> reconstructs_b K zs S lam = true ->
     recon K S lam (share_of K zs (vadd K c Z)) = hd0 K c).
Proof. exact (@zero_sum). Qed.
Print Assumptions C06_zero_sum.

(* HJKY Round2 against ARBITRARY received messages: whatever is accepted verifies and has
   first entry = identity; the aggregated vector commits to zero and the aggregated share
   verifies against it (a vector whose first entry is not the identity is rejected). *)
Theorem C06_hjky_accept_sound :
  forall (F : Type) (K : fops F), flaws K ->
  forall (zs : sharing) (i : N) (own : list F) (inbox : list zmsg) (s : list F) (v : vec),
  wf_sharing_b zs = true -> In i (holders zs) -> length own = sh_dim zs -> hd0 K own = f0 K ->
  hjky_round2 K zs i own inbox = Ok (s, v) ->
  Forall (fun m : zmsg => verify K zs i (snd (snd m)) (fst (snd m)) = true /\ hd0 K (fst (snd m)) = f0 K) inbox /\
  hd0 K v = f0 K /\ verify K zs i s v = true.
Proof. exact (@hjky_round2_accept_sound). Qed.
Print Assumptions C06_hjky_accept_sound.

(* Round3 against ARBITRARY received messages: an accepted shard verifies against its vector and
   its public key equals the first entry of every broadcast previous vector (old pk = new pk). *)
Theorem C06_round3_accept_sound :
  forall (F : Type) (K : fops F), flaws K ->
  forall (solve : sharing -> list N -> option coefs) (own_t : option trusted) (own : option (list F * vec))
         (anchor : N) (zs ns : sharing) (Q : list N) (i : N) (inbox : list r2msg) (share : list F) (vv : vec),
  round3 K solve own_t own anchor zs ns Q i inbox = Ok (share, vv) ->
  verify K ns i share vv = true /\ (forall m : r2msg, In m inbox -> hd0 K (b_prevvv (m_b m)) = hd0 K vv).
Proof. exact (@round3_accept_sound). Qed.
Print Assumptions C06_round3_accept_sound.

(* Mixed epochs, exactly: a set A++B that reconstructs through lam in the common sharing and
   holds A's shares of epoch wa and B's shares of epoch wb obtains
       s + <mu_B, c_b> - <mu_B, c_a>,   mu_B = Σ_{i∈B} lam_i·rows_i,  c_a, c_b the epochs' columns, *)
Theorem C06_mixed_epochs_value :
  forall (F : Type) (K : fops F), flaws K ->
  forall (wa wb : world) (s : F) (A B : list N) (lam : coefs),
  good K wa s -> good K wb s -> w_sh wb = w_sh wa ->
  reconstructs_b K (w_sh wa) (A ++ B) lam = true ->
  mixed_recon K wa wb A B lam =
  fadd K s (fsub K (dot K (comb K (w_sh wa) B lam) (w_vv wb)) (dot K (comb K (w_sh wa) B lam) (w_vv wa))).
Proof. exact (@mixed_epochs_value). Qed.
Print Assumptions C06_mixed_epochs_value.

(* ... hence it obtains the secret exactly on the linear coincidence
       <tl mu_B, tl c_b> = <tl mu_B, tl c_a>
   between the FRESH coefficients of the two epochs (the column entries after the secret). *)
Theorem C06_mixed_epochs :
  forall (F : Type) (K : fops F), flaws K ->
  forall (wa wb : world) (s : F) (A B : list N) (lam : coefs),
  good K wa s -> good K wb s -> w_sh wb = w_sh wa ->
  reconstructs_b K (w_sh wa) (A ++ B) lam = true ->
  (mixed_recon K wa wb A B lam = s <->
   dot K (tl (comb K (w_sh wa) B lam)) (tl (w_vv wb)) = dot K (tl (comb K (w_sh wa) B lam)) (tl (w_vv wa))).
Proof. exact (@mixed_epochs). Qed.
Print Assumptions C06_mixed_epochs.

(* The coincidence is a genuine condition unless nothing is combined across the epochs: if the
   coefficient vector tl mu_B vanishes then B's part and A's part are both multiples of the
   target vector (whichever is non-zero reconstructs on its own, from one epoch); *)
Theorem C06_mixed_degenerate :
  forall (F : Type) (K : fops F), flaws K ->
  forall (sh : sharing) (A B : list N) (lam : coefs),
  wf_sharing_b sh = true -> reconstructs_b K sh (A ++ B) lam = true ->
  tl (comb K sh B lam) = vzero K (sh_dim sh - 1) ->
  exists t : F, comb K sh B lam = vscale K t (e0 K (sh_dim sh)) /\
                comb K sh A lam = vscale K (fsub K (f1 K) t) (e0 K (sh_dim sh)).
Proof. exact (@mixed_degenerate). Qed.
Print Assumptions C06_mixed_degenerate.

(* and a non-zero coefficient m pins the corresponding fresh entry x to exactly one value
   (one value out of |K| for a uniformly drawn fresh coefficient). *)
Theorem C06_coincidence_unique :
  forall (F : Type) (K : fops F), flaws K ->
  forall m r t : F, m <> f0 K -> forall x : F, fadd K (fmul K m x) r = t <-> x = fmul K (fsub K t r) (finv K m).
Proof. exact (@coincidence_unique). Qed.
Print Assumptions C06_coincidence_unique.

(* Non-vacuity over Z_7 (2-of-3 Shamir on {1,2,3}; refresh by {1,2} with anchor, redistribution to
   {2,3,4} without anchor, recovery of holder 4's share with anchor, an observation): every step
   is performed by the model, i.e. the hypotheses [genesis = Some] and [redist_run = Some] of the
   theorems above are met by a non-trivial history; *)
Example C06_history_nonvacuous :
  match Ex7.w0 with
  | Some w => forallb fst (trace_history Ex7.K7 Ex7.solve7 w Ex7.ops) = true /\
              length (trace_history Ex7.K7 Ex7.solve7 w Ex7.ops) = 4%nat
  | None => False
  end.
Proof. exact Ex7.ex_history_performed. Qed.

(* a mixed set ({1} from the first epoch, {2} from the refreshed one) meets the hypotheses of
   C06_mixed_epochs and does not obtain the secret, while the refreshed epoch alone does; *)
Example C06_mixed_nonvacuous :
  match Ex7.w0 with
  | Some w =>
      let w1 := epoch_step Ex7.K7 Ex7.solve7 w (Refresh Ex7.a1) in
      w_sh w1 = w_sh w /\ reconstructs_b Ex7.K7 (w_sh w) ([1%N] ++ [2%N]) Ex7.lam12 = true /\
      feqb Ex7.K7 (mixed_recon Ex7.K7 w w1 [1%N] [2%N] Ex7.lam12) (Ex7.z 3) = false /\
      feqb Ex7.K7 (recon Ex7.K7 [1%N; 2%N] Ex7.lam12 (share_in w1)) (Ex7.z 3) = true
  | None => False
  end.
Proof. exact Ex7.ex_mixed. Qed.

(* an honest HJKY run is accepted. *)
Example C06_zero_nonvacuous :
  match hjky_cols Ex7.K7 Ex7.zs12 (sa_rnd1 Ex7.a1) with
  | Some zc => (match hjky_party Ex7.K7 Ex7.zs12 zc 1%N with Ok _ => true | _ => false end) = true /\
               wf_sharing_b Ex7.zs12 = true
  | None => False
  end.
Proof. exact Ex7.ex_zero. Qed.
