(* C06 — Refresh, recovery and redistribution never change the key.  Property theorems only;
   proofs are in proofs/Redist_proofs.v, the models in model/Zero.v and model/Redist.v. *)
From Coq Require Import List NArith ZArith Bool.
Import ListNotations.
Require Import V.base.Fld V.model.Zero V.model.Redist V.proofs.Redist_proofs.

Theorem C06_placeholder : forall {F} (K : fops F), flaws K -> forall a b : vec, veqb K a b = true <-> a = b.
Proof. exact (@veqb_eq). Qed.
Print Assumptions C06_placeholder.
