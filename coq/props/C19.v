(* C19 — Transcripts (and hash-to-curve framing) are deterministic, unambiguous,
   domain-separated.  Property theorems only; proofs are in proofs/. The byte
   framings are gen/Hagrid.v, regenerated from pkg/transcripts/hagrid/hagrid.go. *)
From Coq Require Import List NArith.
Import ListNotations.
Require Import V.base.Bytes V.gen.Hagrid V.model.Transcript V.proofs.Transcript_proofs.
Require Import V.model.H2c V.proofs.H2c_proofs.
Local Open Scope N_scope.

(* Two extractions feed the XOF with the same (customisation, input, length)
   exactly when protocol name, every operation performed before (labels, message
   boundaries, order, number, lengths, domain separators, earlier extractions),
   the label and the requested length all coincide. *)
Theorem C19_outputs_equal_iff : forall name1 h1 l1 n1 name2 h2 l2 n2,
  Forall valid_op h1 -> Forall valid_op h2 ->
  len l1 < 2^64 -> 0 < n1 < 2^64 -> len l2 < 2^64 -> 0 < n2 < 2^64 ->
  (snd (step (fst (run (new_transcript name1) h1)) (Ext l1 n1)) =
   snd (step (fst (run (new_transcript name2) h2)) (Ext l2 n2))
   <-> name1 = name2 /\ performed_ops h1 = performed_ops h2 /\ l1 = l2 /\ n1 = n2).
Proof. exact outputs_equal_iff. Qed.
Print Assumptions C19_outputs_equal_iff.

Theorem C19_live_injective : forall (h1 h2 : list op),
  Forall valid_op h1 -> Forall valid_op h2 -> live h1 = live h2 -> h1 = h2.
Proof. exact live_injective. Qed.
Print Assumptions C19_live_injective.

Theorem C19_ext_input_injective : forall h1 l1 n1 h2 l2 n2,
  Forall valid_op h1 -> Forall valid_op h2 ->
  len l1 < 2^64 -> 0 < n1 < 2^64 -> len l2 < 2^64 -> 0 < n2 < 2^64 ->
  ext_input h1 l1 n1 = ext_input h2 l2 n2 -> h1 = h2 /\ l1 = l2 /\ n1 = n2.
Proof. exact ext_input_injective. Qed.
Print Assumptions C19_ext_input_injective.

Theorem C19_ext_input_not_live_prefix : forall h1 l1 n1 h2 rest,
  Forall valid_op h1 -> Forall valid_op h2 ->
  len l1 < 2^64 -> 0 < n1 < 2^64 ->
  live h2 = ext_input h1 l1 n1 ++ rest -> False.
Proof. exact ext_input_not_live_prefix. Qed.
Print Assumptions C19_ext_input_not_live_prefix.

Theorem C19_machine_refines_history : forall t h,
  sp_absorbed (fst (run t h)) = sp_absorbed t ++ live (performed_ops h) /\
  sp_custom (fst (run t h)) = sp_custom t.
Proof. exact run_absorbed. Qed.
Print Assumptions C19_machine_refines_history.

Theorem C19_clone_independent : forall st cs j,
  (j < length st)%nat ->
  forallb (fun c => negb (touches j c)) cs = true ->
  nth_error (fst (crun st cs)) j = nth_error st j.
Proof. exact clone_independent. Qed.
Print Assumptions C19_clone_independent.

Theorem C19_clone_is_copy : forall st i t,
  nth_error st i = Some t ->
  nth_error (fst (cstep st (CloneOf i))) (length st) = Some t /\
  nth_error (fst (cstep st (CloneOf i))) i = Some t.
Proof. exact clone_is_copy. Qed.
Print Assumptions C19_clone_is_copy.

(* RFC 9380 expanders: the first hash input (XMD) / the only XOF input determine
   DST, message and requested length (for |DST| <= 255; longer DSTs are first
   hashed, as in the RFC) *)
Theorem C19_xmd_msg_prime_injective : forall s d msg l d' msg' l',
  len d < 256 -> len d' < 256 -> l < 65536 -> l' < 65536 ->
  xmd_msg_prime s d msg l = xmd_msg_prime s d' msg' l' -> d = d' /\ msg = msg' /\ l = l'.
Proof. exact xmd_msg_prime_injective. Qed.
Print Assumptions C19_xmd_msg_prime_injective.

Theorem C19_xof_msg_prime_injective : forall d msg l d' msg' l',
  len d < 256 -> len d' < 256 -> l < 65536 -> l' < 65536 ->
  xof_msg_prime d msg l = xof_msg_prime d' msg' l' -> d = d' /\ msg = msg' /\ l = l'.
Proof. exact xof_msg_prime_injective. Qed.
Print Assumptions C19_xof_msg_prime_injective.

Theorem C19_expand_message_xmd_length : forall (H : bytes -> bytes) (b s : N) dst msg l out,
  0 < b -> (forall x, length (H x) = N.to_nat b) ->
  expand_message_xmd H b s dst msg l = Some out -> length out = N.to_nat l.
Proof. exact expand_message_xmd_length. Qed.
Print Assumptions C19_expand_message_xmd_length.

(* hypotheses are satisfiable: a concrete non-trivial history *)
Example C19_nonvacuous :
  Forall valid_op [Dom [1;2]; App [3] [[4;5];[]]; Ext [6] 32; App [] []] /\
  performed_ops [Dom [1;2]; Ext [9] 0; Ext [6] 32] = [Dom [1;2]; Ext [6] 32].
Proof.
  split; [|reflexivity].
  repeat constructor; vm_compute; reflexivity.
Qed.
