(* C05 — Share verification accepts exactly the dealer's shares.
   Property theorems only; proofs are in proofs/Vss_proofs.v.  Group elements are modelled in the
   exponent (x·G is x; a Pedersen commitment m·G + r·H is the linear form (m, r)): model/Vss.v,
   tied to the implementation by the correspondence check (harness/cmd/c05), which knows the dealer's
   scalars and tells the model the exponent vector of every verification vector it presents.
   All theorems hold for every field (flaws K) and every MSP (any matrix / labelling). *)
From Coq Require Import List NArith ZArith Arith Bool.
Import ListNotations.
Require Import V.base.Fld V.base.ZpField V.model.LinAlg V.model.Access V.model.Msp V.model.Kw V.model.Vss.
Require Import V.proofs.Span_proofs V.proofs.Msp_proofs V.proofs.Kw_proofs V.proofs.Vss_proofs.

(* Verify(share, V) succeeds iff V has the MSP's column count, the claimed holder owns rows, and the
   share equals (M_i · V) coordinate-wise over the holder's rows — so a changed coordinate, a changed
   length, or a holder that was assigned a different value is rejected *)
Theorem C05_feldman_verify_iff : forall F (K : fops F), flaws K -> forall (m : msp) id vals V,
  feldman_verify K m (id, vals) V = true <->
  length V = msp_D m /\ rows_of m id <> [] /\ vals = derived K m V id.
Proof. exact @feldman_verify_iff. Qed.
Print Assumptions C05_feldman_verify_iff.

(* against the dealer's vector (lift of its random column r): accepted iff the share is the dealt one *)
Theorem C05_feldman_exact : forall F (K : fops F), flaws K -> forall (m : msp) r id vals,
  length r = msp_D m -> rows_of m id <> [] ->
  (feldman_verify K m (id, vals) r = true <-> (id, vals) = share_of K m (mvec K (msp_M m) r) id).
Proof. exact @feldman_exact. Qed.
Print Assumptions C05_feldman_exact.

Theorem C05_feldman_wrong_holder : forall F (K : fops F), flaws K -> forall (m : msp) r id id',
  length r = msp_D m -> rows_of m id' <> [] ->
  snd (share_of K m (mvec K (msp_M m) r) id) <> snd (share_of K m (mvec K (msp_M m) r) id') ->
  feldman_verify K m (id', snd (share_of K m (mvec K (msp_M m) r) id)) r = false.
Proof. exact @feldman_wrong_holder. Qed.
Print Assumptions C05_feldman_wrong_holder.

(* a verification vector shorter or longer than the MSP dimension verifies nothing,
   in particular one extended by identity elements *)
Theorem C05_vv_length : forall F (K : fops F), flaws K -> forall (m : msp) sh V,
  length V <> msp_D m -> feldman_verify K m sh V = false.
Proof. exact @vv_length. Qed.
Print Assumptions C05_vv_length.

Theorem C05_vv_append_identity : forall F (K : fops F), flaws K -> forall (m : msp) sh V k,
  length V = msp_D m -> (0 < k)%nat -> feldman_verify K m sh (V ++ repeat (f0 K) k) = false.
Proof. exact @vv_append_identity. Qed.
Print Assumptions C05_vv_append_identity.

(* changing entry k of V by delta <> 0 makes verification fail for exactly the holders whose rows have
   a non-zero entry in column k *)
Theorem C05_vv_entry_change : forall F (K : fops F), flaws K -> forall (m : msp) id vals V k d,
  d <> f0 K -> (k < length V)%nat ->
  feldman_verify K m (id, vals) V = true ->
  (feldman_verify K m (id, vals) (upd k (fadd K (nth k V (f0 K)) d) V) = true <->
   forall i, In i (rows_of m id) -> nth k (row i (msp_M m)) (f0 K) = f0 K).
Proof. exact @vv_entry_change. Qed.
Print Assumptions C05_vv_entry_change.

(* combination of dealers: V1·V2 verifies exactly the sums of a share verified by V1 and one verified
   by V2 (iterate for any number of dealers) *)
Theorem C05_vv_op_sum : forall F (K : fops F), flaws K -> forall (m : msp) id vals V1 V2,
  length V1 = msp_D m -> length V2 = msp_D m ->
  (feldman_verify K m (id, vals) (vadd K V1 V2) = true <->
   exists v1 v2, feldman_verify K m (id, v1) V1 = true /\ feldman_verify K m (id, v2) V2 = true /\
                 share_add K (id, v1) (id, v2) = Some (id, vals)).
Proof. exact @vv_op_exact. Qed.
Print Assumptions C05_vv_op_sum.

(* any number of dealers: the product of V1, V2, .., Vn verifies exactly the coordinate-wise sum of the
   shares the individual vectors assign to the holder *)
Theorem C05_vv_op_sum_n : forall F (K : fops F), flaws K -> forall (m : msp) id vals V1 Vs,
  length V1 = msp_D m -> Forall (fun V => length V = msp_D m) Vs -> rows_of m id <> [] ->
  (feldman_verify K m (id, vals) (fold_left (vadd K) Vs V1) = true <->
   vals = fold_left (vals_add K) (map (fun V => derived K m V id) Vs) (derived K m V1 id)).
Proof. exact @vv_op_sum_n. Qed.
Print Assumptions C05_vv_op_sum_n.

(* reconstruction in the exponent from the public (lifted) shares of an accepted set gives V_0 = r_0·G *)
Theorem C05_recon_in_exponent : forall F (K : fops F), flaws K -> forall (m : msp) V ids,
  wf_msp m -> NoDup ids -> length V = msp_D m -> accepts K m ids = true ->
  recon_exp K m (map (fun id => (id, derived K m V id)) ids) = Some (nth 0 V (f0 K)).
Proof. exact @recon_in_exponent. Qed.
Print Assumptions C05_recon_in_exponent.

(* Pedersen, as linear forms over {G, H} (equality of commitments is equality of both coefficients:
   binding is relative to the unknown log_G H) *)
Theorem C05_pedersen_verify_iff : forall F (K : fops F), flaws K -> forall (m : msp) id ss bs VA VB,
  pedersen_verify K m id ss bs VA VB = true <->
  length VA = length VB /\ length ss = length bs /\
  length VA = msp_D m /\ rows_of m id <> [] /\ ss = derived K m VA id /\ bs = derived K m VB id.
Proof. exact @pedersen_verify_iff. Qed.
Print Assumptions C05_pedersen_verify_iff.

(* Pedersen with any number of dealers (both coefficient vectors are combined entry-wise by Op) *)
Theorem C05_pedersen_vv_op_sum_n : forall F (K : fops F), flaws K -> forall (m : msp) id ss bs VA1 VAs VB1 VBs,
  length VA1 = msp_D m -> Forall (fun V => length V = msp_D m) VAs ->
  length VB1 = msp_D m -> Forall (fun V => length V = msp_D m) VBs ->
  rows_of m id <> [] ->
  (pedersen_verify K m id ss bs (fold_left (vadd K) VAs VA1) (fold_left (vadd K) VBs VB1) = true <->
   ss = fold_left (vals_add K) (map (fun V => derived K m V id) VAs) (derived K m VA1 id) /\
   bs = fold_left (vals_add K) (map (fun V => derived K m V id) VBs) (derived K m VB1 id)).
Proof. exact @pedersen_vv_op_sum_n. Qed.
Print Assumptions C05_pedersen_vv_op_sum_n.

(* hypotheses are satisfiable: threshold (2,3) over Z_7, dealer column (5,4); holder 1's share 5+4 = 2 *)
Definition K7 := ZpS 7 (prime_gt0 7 prime_7).
Definition fromN7 (n : N) := zp_of 7 (prime_gt0 7 prime_7) (Z.of_N n).
Example C05_nonvacuous :
  exists m, induced_thr K7 fromN7 2 [1;2;3]%N = Some m /\
    feldman_verify K7 m (1%N, [fromN7 2]) [fromN7 5; fromN7 4] = true /\
    feldman_verify K7 m (1%N, [fromN7 3]) [fromN7 5; fromN7 4] = false /\
    feldman_verify K7 m (2%N, [fromN7 2]) [fromN7 5; fromN7 4] = false /\
    feldman_verify K7 m (1%N, [fromN7 2]) [fromN7 5; fromN7 4; fromN7 0] = false /\
    recon_exp K7 m [(3%N, [fromN7 3]); (1%N, [fromN7 2])] = Some (fromN7 5).
Proof. eexists. split; [vm_compute; reflexivity|]. repeat split; vm_compute; reflexivity. Qed.
