(* C03 — Key generation ends with one consistent, reconstructible key.
   Property theorems only; proofs are in proofs/Dkg_proofs.v about the executable model
   model/Dkg.v (hand-written after /repo/pkg/mpc/dkg/{gennaro,canetti,trusteddealer} and
   mpc.NewBaseShard, tied to the code by the correspondence check harness/cmd/c03).

   Every theorem is over an arbitrary field record K with [flaws K], an arbitrary exponent g
   of the base point, an ARBITRARY linear sharing (row map [rows], D columns: every MSP the
   library can induce), any number of parties with arbitrary identifiers and arbitrary
   random tapes.  [gennaro_run]/[canetti_run] return, per party, Ok shard | Blame j | Fail;
   [In (i, Ok s) run] says party i completed with shard s.  Hypotheses common to the DKG
   theorems: the party identifiers are distinct and are shareholders (what NewParticipant
   checks: ctx.Quorum() = ac.Shareholders()). *)
From Coq Require Import List NArith ZArith.
Import ListNotations.
Require Import V.base.Fld V.base.ZpField V.model.Dkg V.proofs.Dkg_proofs.

(* ---- dkg_agreement: same verification vector, public key and public shares everywhere, and they
   are a function of the broadcasts only ---------------------------------------------------------- *)
Theorem C03_dkg_agreement_gennaro : forall (F : Type) (K : fops F), flaws K ->
  forall (g : F) (rows : N -> list (list F)) (D : nat) (holders : list N) (parties : list (N * list F))
         (i i' : N) (s s' : shard),
  NoDup (map fst parties) -> (forall j, In j (map fst parties) -> In j holders) ->
  In (i, Ok s) (gennaro_run K rows D g holders parties) ->
  In (i', Ok s') (gennaro_run K rows D g holders parties) ->
  sh_vv s = sh_vv s' /\ sh_pk s = sh_pk s' /\ sh_pks s = sh_pks s'.
Proof. exact @gennaro_agreement. Qed.
Print Assumptions C03_dkg_agreement_gennaro.

Theorem C03_dkg_public_from_broadcasts_gennaro : forall (F : Type) (K : fops F), flaws K ->
  forall (g : F) (rows : N -> list (list F)) (D : nat) (holders : list N) (parties : list (N * list F))
         (i : N) (s : shard),
  NoDup (map fst parties) -> (forall j, In j (map fst parties) -> In j holders) ->
  In (i, Ok s) (gennaro_run K rows D g holders parties) ->
  exists deals, all_some (map (fun p => (fst p, gennaro_deal D (snd p))) parties) = Some deals /\
    let V := vsum K D (map (fun p => feld (g_round2_bcast K g (snd p))) deals) in
    sh_vv s = V /\ sh_pk s = dot K (e0 K D) V /\ sh_pks s = map (fun h => (h, mv K (rows h) V)) holders.
Proof. exact @gennaro_public_from_broadcasts. Qed.
Print Assumptions C03_dkg_public_from_broadcasts_gennaro.

Theorem C03_dkg_agreement_canetti : forall (F : Type) (K : fops F), flaws K ->
  forall (g : F) (rows : N -> list (list F)) (D : nat) (holders : list N) (parties : list (N * list F))
         (i i' : N) (s s' : shard),
  NoDup (map fst parties) -> (forall j, In j (map fst parties) -> In j holders) ->
  In (i, Ok s) (canetti_run K rows D g holders parties) ->
  In (i', Ok s') (canetti_run K rows D g holders parties) ->
  sh_vv s = sh_vv s' /\ sh_pk s = sh_pk s' /\ sh_pks s = sh_pks s'.
Proof. exact @canetti_agreement. Qed.
Print Assumptions C03_dkg_agreement_canetti.

Theorem C03_dkg_public_from_broadcasts_canetti : forall (F : Type) (K : fops F), flaws K ->
  forall (g : F) (rows : N -> list (list F)) (D : nat) (holders : list N) (parties : list (N * list F))
         (i : N) (s : shard),
  NoDup (map fst parties) -> (forall j, In j (map fst parties) -> In j holders) ->
  In (i, Ok s) (canetti_run K rows D g holders parties) ->
  exists deals, all_some (map (fun p => (fst p, canetti_deal D (snd p))) parties) = Some deals /\
    let V := vsum K D (map (fun p => co_x (c_round2_open K g (fst p) (snd p))) deals) in
    sh_vv s = V /\ sh_pk s = dot K (e0 K D) V /\ sh_pks s = map (fun h => (h, mv K (rows h) V)) holders.
Proof. exact @canetti_public_from_broadcasts. Qed.
Print Assumptions C03_dkg_public_from_broadcasts_canetti.

(* ---- dkg_share_matches: share_i·g = M_i·V (the NewBaseShard consistency check accepts), party i's
   published public share is its lifted private share; NewBaseShard accepts exactly such shares; and
   an honest run with long enough tapes completes for everybody ------------------------------------- *)
Theorem C03_dkg_share_matches_gennaro : forall (F : Type) (K : fops F), flaws K ->
  forall (g : F) (rows : N -> list (list F)) (D : nat) (holders : list N) (parties : list (N * list F))
         (i : N) (s : shard),
  NoDup (map fst parties) -> (forall j, In j (map fst parties) -> In j holders) ->
  In (i, Ok s) (gennaro_run K rows D g holders parties) ->
  lift K g (sh_share s) = mv K (rows i) (sh_vv s) /\ In (i, lift K g (sh_share s)) (sh_pks s).
Proof. exact @gennaro_share_matches. Qed.
Print Assumptions C03_dkg_share_matches_gennaro.

Theorem C03_dkg_share_matches_canetti : forall (F : Type) (K : fops F), flaws K ->
  forall (g : F) (rows : N -> list (list F)) (D : nat) (holders : list N) (parties : list (N * list F))
         (i : N) (s : shard),
  NoDup (map fst parties) -> (forall j, In j (map fst parties) -> In j holders) ->
  In (i, Ok s) (canetti_run K rows D g holders parties) ->
  lift K g (sh_share s) = mv K (rows i) (sh_vv s) /\ In (i, lift K g (sh_share s)) (sh_pks s).
Proof. exact @canetti_share_matches. Qed.
Print Assumptions C03_dkg_share_matches_canetti.

Theorem C03_new_base_shard_accepts_iff : forall (F : Type) (K : fops F), flaws K ->
  forall (g : F) (rows : N -> list (list F)) (D : nat) (holders : list N) (i : N) (share vv : list F),
  (exists s, new_base_shard K rows D g holders i share vv = Some s) <->
  length vv = D /\ In i holders /\ lift K g share = mv K (rows i) vv.
Proof. exact @new_base_shard_some_iff. Qed.
Print Assumptions C03_new_base_shard_accepts_iff.

Theorem C03_dkg_completes_gennaro : forall (F : Type) (K : fops F), flaws K ->
  forall (g : F) (rows : N -> list (list F)) (D : nat) (holders : list N) (parties : list (N * list F)),
  NoDup (map fst parties) -> (forall j, In j (map fst parties) -> In j holders) ->
  (forall p, In p parties -> gennaro_deal D (snd p) <> None) ->
  forall i, In i (map fst parties) -> exists s, In (i, Ok s) (gennaro_run K rows D g holders parties).
Proof. exact @gennaro_completes. Qed.
Print Assumptions C03_dkg_completes_gennaro.

Theorem C03_dkg_completes_canetti : forall (F : Type) (K : fops F), flaws K ->
  forall (g : F) (rows : N -> list (list F)) (D : nat) (holders : list N) (parties : list (N * list F)),
  NoDup (map fst parties) -> (forall j, In j (map fst parties) -> In j holders) ->
  (forall p, In p parties -> canetti_deal D (snd p) <> None) ->
  forall i, In i (map fst parties) -> exists s, In (i, Ok s) (canetti_run K rows D g holders parties).
Proof. exact @canetti_completes. Qed.
Print Assumptions C03_dkg_completes_canetti.

(* ---- dkg_reconstructs_dlog: for ANY set S on which the sharing reconstructs (coefficients λ with
   λ·M_S = e0, [recon_ok]) the parties' shares reconstruct Σ_j r_{j,0} (the sum of the first scalar
   of every tape) and the public key is that value times g ------------------------------------------ *)
Theorem C03_dkg_reconstructs_dlog_gennaro : forall (F : Type) (K : fops F), flaws K ->
  forall (g : F) (rows : N -> list (list F)) (D : nat),
  (forall h, Forall (fun r => length r = D) (rows h)) ->
  forall (holders : list N) (parties : list (N * list F)) (S : list N) (lam shareof : N -> list F)
         (i0 : N) (s0 : shard),
  NoDup (map fst parties) -> (forall j, In j (map fst parties) -> In j holders) ->
  In (i0, Ok s0) (gennaro_run K rows D g holders parties) ->
  (forall i, In i S -> exists s, In (i, Ok s) (gennaro_run K rows D g holders parties) /\ shareof i = sh_share s) ->
  recon_ok K rows D S lam = true ->
  recon_value K S lam shareof = secret_sum K parties /\ sh_pk s0 = fmul K (secret_sum K parties) g.
Proof. exact @gennaro_reconstructs_dlog. Qed.
Print Assumptions C03_dkg_reconstructs_dlog_gennaro.

Theorem C03_dkg_reconstructs_dlog_canetti : forall (F : Type) (K : fops F), flaws K ->
  forall (g : F) (rows : N -> list (list F)) (D : nat),
  (forall h, Forall (fun r => length r = D) (rows h)) ->
  forall (holders : list N) (parties : list (N * list F)) (S : list N) (lam shareof : N -> list F)
         (i0 : N) (s0 : shard),
  NoDup (map fst parties) -> (forall j, In j (map fst parties) -> In j holders) ->
  In (i0, Ok s0) (canetti_run K rows D g holders parties) ->
  (forall i, In i S -> exists s, In (i, Ok s) (canetti_run K rows D g holders parties) /\ shareof i = sh_share s) ->
  recon_ok K rows D S lam = true ->
  recon_value K S lam shareof = secret_sum K parties /\ sh_pk s0 = fmul K (secret_sum K parties) g.
Proof. exact @canetti_reconstructs_dlog. Qed.
Print Assumptions C03_dkg_reconstructs_dlog_canetti.

(* the same for the linear sharing given by ANY labelled matrix with D columns (an MSP as the library
   represents it: matrix + row-to-holder labelling) — the form the correspondence check instantiates *)
Theorem C03_dkg_reconstructs_dlog_any_msp : forall (F : Type) (K : fops F), flaws K ->
  forall (g : F) (M : list (list F)) (labels : list N) (D : nat),
  Forall (fun r => length r = D) M ->
  forall (holders : list N) (parties : list (N * list F)) (S : list N) (lam shareof : N -> list F) (i0 : N) (s0 : shard),
  NoDup (map fst parties) -> (forall j, In j (map fst parties) -> In j holders) ->
  In (i0, Ok s0) (gennaro_run K (lrows M labels) D g holders parties) ->
  (forall i, In i S -> exists s, In (i, Ok s) (gennaro_run K (lrows M labels) D g holders parties) /\ shareof i = sh_share s) ->
  recon_ok K (lrows M labels) D S lam = true ->
  recon_value K S lam shareof = secret_sum K parties /\ sh_pk s0 = fmul K (secret_sum K parties) g.
Proof. exact gennaro_reconstructs_dlog_msp. Qed.
Print Assumptions C03_dkg_reconstructs_dlog_any_msp.

(* ---- dkg_depends_on_all: shifting one party's secret (first scalar of its tape) by δ shifts the
   key by δ·g; so for δ ≠ 0 (and g ≠ 0) the key changes -------------------------------------------- *)
Theorem C03_dkg_depends_on_all_gennaro : forall (F : Type) (K : fops F), flaws K ->
  forall (g : F) (rows : N -> list (list F)) (D : nat),
  (forall h, Forall (fun r => length r = D) (rows h)) ->
  forall (holders : list N) (parties : list (N * list F)) (j : N) (delta : F) (i : N) (s : shard) (i' : N) (s' : shard),
  NoDup (map fst parties) -> (forall k, In k (map fst parties) -> In k holders) ->
  In j (map fst parties) ->
  In (i, Ok s) (gennaro_run K rows D g holders parties) ->
  In (i', Ok s') (gennaro_run K rows D g holders (bump_party K j delta parties)) ->
  sh_pk s' = fadd K (sh_pk s) (fmul K delta g) /\ (delta <> f0 K -> g <> f0 K -> sh_pk s' <> sh_pk s).
Proof. exact @gennaro_depends_on_all. Qed.
Print Assumptions C03_dkg_depends_on_all_gennaro.

Theorem C03_dkg_depends_on_all_canetti : forall (F : Type) (K : fops F), flaws K ->
  forall (g : F) (rows : N -> list (list F)) (D : nat),
  (forall h, Forall (fun r => length r = D) (rows h)) ->
  forall (holders : list N) (parties : list (N * list F)) (j : N) (delta : F) (i : N) (s : shard) (i' : N) (s' : shard),
  NoDup (map fst parties) -> (forall k, In k (map fst parties) -> In k holders) ->
  In j (map fst parties) ->
  In (i, Ok s) (canetti_run K rows D g holders parties) ->
  In (i', Ok s') (canetti_run K rows D g holders (bump_party K j delta parties)) ->
  sh_pk s' = fadd K (sh_pk s) (fmul K delta g) /\ (delta <> f0 K -> g <> f0 K -> sh_pk s' <> sh_pk s).
Proof. exact @canetti_depends_on_all. Qed.
Print Assumptions C03_dkg_depends_on_all_canetti.

(* ---- dealer_consistent: one dealing gives every holder a shard with the same public material,
   matching shares, public key = secret·g, and every reconstructing set recovers the secret -------- *)
Theorem C03_dealer_consistent : forall (F : Type) (K : fops F), flaws K ->
  forall (g : F) (rows : N -> list (list F)) (D : nat),
  (forall h, Forall (fun r => length r = D) (rows h)) ->
  forall (holders : list N) (t : list F) (out : list (N * option shard)),
  dealer_run K rows D g holders t = Some out ->
  (forall h, In h holders -> exists s, In (h, Some s) out) /\
  (forall h s, In (h, Some s) out ->
     lift K g (sh_share s) = mv K (rows h) (sh_vv s) /\ sh_pk s = fmul K (hd (f0 K) t) g) /\
  (forall h h' s s', In (h, Some s) out -> In (h', Some s') out ->
     sh_vv s = sh_vv s' /\ sh_pk s = sh_pk s' /\ sh_pks s = sh_pks s') /\
  (forall S lam (shareof : N -> list F),
     (forall i, In i S -> exists s, In (i, Some s) out /\ shareof i = sh_share s) ->
     recon_ok K rows D S lam = true -> recon_value K S lam shareof = hd (f0 K) t).
Proof. exact @dealer_consistent. Qed.
Print Assumptions C03_dealer_consistent.

(* ---- stored Lindell17 auxiliary information reloads unchanged, also when the holder has no qualified
   two-party peer (both maps empty but PRESENT); an absent map is refused by the decoder ------------- *)
Theorem C03_aux_roundtrip : forall (A B : Type) (pks : list (N * A)) (cts : list (N * B)),
  map fst pks = map fst cts -> aux_decode (aux_encode pks cts) = Some (pks, cts).
Proof. exact aux_roundtrip. Qed.
Print Assumptions C03_aux_roundtrip.

Theorem C03_aux_roundtrip_empty : forall (A B : Type),
  aux_decode (aux_encode (@nil (N * A)) (@nil (N * B))) = Some ([], []).
Proof. exact aux_roundtrip_empty. Qed.
Print Assumptions C03_aux_roundtrip_empty.

Theorem C03_aux_absent_refused : forall (A B : Type) (c : option (list (N * B))),
  aux_decode (mk_aux_dto (@None (list (N * A))) c) = None.
Proof. exact aux_absent_refused. Qed.
Print Assumptions C03_aux_absent_refused.

(* ---- non-vacuity: Z_7, g = 3, Shamir 2-of-3 rows (1, i), three parties with tapes of six scalars:
   the hypotheses of the theorems above hold (distinct shareholder ids, every dealing succeeds, so by
   C03_dkg_completes every party completes; {1,2} reconstructs with the Lagrange coefficients 2, -1) *)
Definition K7 := ZpS 7%Z (prime_gt0 7%Z prime_7).
Definition z7 (x : Z) : ZpT 7%Z := zp_of 7%Z (prime_gt0 7%Z prime_7) x.
Definition ex_rows (i : N) : list (list (ZpT 7%Z)) := [[z7 1%Z; z7 (Z.of_N i)]].
Definition ex_parties : list (N * list (ZpT 7%Z)) :=
  [(1%N, map z7 [3; 0; 5; 1; 0; 2]%Z); (2%N, map z7 [6; 0; 1; 4; 0; 4]%Z); (3%N, map z7 [2; 0; 2; 5; 0; 6]%Z)].
Definition ex_lam (i : N) : list (ZpT 7%Z) := if N.eqb i 1 then [z7 2%Z] else [z7 6%Z].

Example C03_nonvacuous :
  flaws K7 /\
  (forall h, Forall (fun r => length r = 2) (ex_rows h)) /\
  NoDup (map fst ex_parties) /\ (forall j, In j (map fst ex_parties) -> In j [1%N; 2%N; 3%N]) /\
  (forall p, In p ex_parties -> gennaro_deal 2 (snd p) <> None) /\
  (forall p, In p ex_parties -> canetti_deal 2 (snd p) <> None) /\
  (exists s, In (2%N, Ok s) (gennaro_run K7 ex_rows 2 (z7 3%Z) [1%N; 2%N; 3%N] ex_parties)) /\
  recon_ok K7 ex_rows 2 [1%N; 2%N] ex_lam = true /\
  recon_ok K7 ex_rows 2 [1%N] ex_lam = false /\
  dealer_run K7 ex_rows 2 (z7 3%Z) [1%N; 2%N; 3%N] (map z7 [3; 0; 5]%Z) <> None.
Proof.
  assert (Hnd : NoDup (map fst ex_parties)).
  { cbn. repeat constructor; cbn; intuition discriminate. }
  assert (Hsub : forall j, In j (map fst ex_parties) -> In j [1%N; 2%N; 3%N]) by (cbn; tauto).
  assert (Hg : forall p, In p ex_parties -> gennaro_deal 2 (snd p) <> None).
  { intros p [<-|[<-|[<-|[]]]]; vm_compute; discriminate. }
  split; [exact ZpS_7_flaws|]. split; [intro h; repeat constructor|].
  split; [exact Hnd|]. split; [exact Hsub|]. split; [exact Hg|].
  split; [intros p [<-|[<-|[<-|[]]]]; vm_compute; discriminate|].
  split; [apply (gennaro_completes K7 ZpS_7_flaws); [exact Hnd|exact Hsub|exact Hg|cbn; tauto]|].
  split; [vm_compute; reflexivity|]. split; [vm_compute; reflexivity|]. vm_compute. discriminate.
Qed.
