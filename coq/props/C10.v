(* C10 — Session setup gives all parties the same context and symmetric pairwise secrets.
   Property theorems only; proofs are in proofs/Session_proofs.v and proofs/Przs_proofs.v.

   The model (model/Session.v, model/Przs.v) is parameterised by the three hash
   primitives   com (BLAKE2b-256 keyed), h512 (SHA3-512), xof (cSHAKE256 window).
   Agreement, symmetry and blame hold for ARBITRARY such functions; distinctness
   and binding hold under the stated idealisation — the hashes are injective — which
   stays visible below as hypotheses (com_inj, h512_lo_inj, xof_len, xof_inj) and is
   shown satisfiable by C10_hash_hypotheses_satisfiable.  Unused function parameters
   (e.g. xof in a statement that only concerns rounds) are artefacts of the common
   section the lemmas were proved in. *)
From Coq Require Import List NArith ZArith Permutation.
Import ListNotations.
Require Import V.base.Bytes V.gen.Hagrid V.model.Transcript V.proofs.Transcript_proofs.
Require Import V.gen.SessionConsts V.model.Session V.model.Przs V.proofs.Session_proofs V.proofs.Przs_proofs.
Local Open Scope N_scope.

(* ---- agreement: all completing parties compute the same common seed, session id and
   transcript state, a function of the broadcast values and the SORTED quorum only
   (whatever order each party was told the quorum in, whatever order messages arrived) ---- *)
Theorem C10_sid_agreement :
  forall (com : bytes -> bytes -> bytes) (h512 : bytes -> bytes) (xof : bytes -> bytes -> N -> N -> bytes)
         (i j : N) (qi qj : list N) (ti tj : bytes) (ui uj : N)
         (B1i : amap r1b) (B2i : amap r2b) (U2i : amap r2u) (U3i : amap r3u)
         (B1j : amap r1b) (B2j : amap r2b) (U2j : amap r2u) (U3j : amap r3u) (ci cj : context),
    let ri := party_run com h512 i qi ti ui B1i B2i U2i U3i in
    let rj := party_run com h512 j qj tj uj B1j B2j U2j U3j in
    pr_ctx ri = Some ci -> pr_ctx rj = Some cj ->
    Permutation qi qj -> i <> j ->
    same_broadcasts i j qi B1i B2i B1j B2j (pr_r1 ri) (pr_r2b ri) (pr_r1 rj) (pr_r2b rj) ->
    exists view : N -> bview,
      let cs := cs_of (isort qi) view in
      cx_sid ci = firstn W (h512 cs) /\ cx_sid cj = firstn W (h512 cs) /\
      cx_hist ci = init_hist h512 cs /\ cx_hist cj = init_hist h512 cs /\
      cx_tape ci = cx_tape cj /\ cx_quorum ci = isort qi /\ cx_quorum cj = isort qi.
Proof. exact sid_agreement. Qed.
Print Assumptions C10_sid_agreement.

(* end to end, for the honest scheduler (every message delivered unchanged), every quorum
   and every assignment of tapes: any two parties that complete hold matching contexts
   (same SID, transcript state, quorum) and the same pairwise seed *)
Theorem C10_honest_run_agreement :
  forall (com : bytes -> bytes -> bytes) (h512 : bytes -> bytes) (xof : bytes -> bytes -> N -> N -> bytes)
         (q : list N) (tape : N -> bytes) (i j : N) (ri rj : prun) (ci cj : context),
    NoDup q -> In (i, ri) (honest_run com h512 q tape) -> In (j, rj) (honest_run com h512 q tape) -> i <> j ->
    pr_ctx ri = Some ci -> pr_ctx rj = Some cj ->
    (exists s : seed, get j (cx_seeds ci) = Some s /\ get i (cx_seeds cj) = Some s) /\
    ctx_match ci cj /\ cx_holder ci = i /\ cx_holder cj = j.
Proof. exact honest_run_agreement. Qed.
Print Assumptions C10_honest_run_agreement.

(* the party's quorum order is immaterial: it is sorted *)
Theorem C10_sorted_quorum_canonical : forall l l' : list N, isort l = isort l' <-> Permutation l l'.
Proof. exact isort_eq_iff. Qed.
Print Assumptions C10_sorted_quorum_canonical.

(* ---- symmetry: seed_{i->j} = seed_{j->i}; the two contexts match ---- *)
Theorem C10_pair_symmetry :
  forall (com : bytes -> bytes -> bytes) (h512 : bytes -> bytes) (xof : bytes -> bytes -> N -> N -> bytes)
         (i j : N) (qi qj : list N) (ti tj : bytes) (ui uj : N)
         (B1i : amap r1b) (B2i : amap r2b) (U2i : amap r2u) (U3i : amap r3u)
         (B1j : amap r1b) (B2j : amap r2b) (U2j : amap r2u) (U3j : amap r3u) (ci cj : context),
    let ri := party_run com h512 i qi ti ui B1i B2i U2i U3i in
    let rj := party_run com h512 j qj tj uj B1j B2j U2j U3j in
    pr_ctx ri = Some ci -> pr_ctx rj = Some cj ->
    Permutation qi qj -> i <> j ->
    same_broadcasts i j qi B1i B2i B1j B2j (pr_r1 ri) (pr_r2b ri) (pr_r1 rj) (pr_r2b rj) ->
    get j U3i = get i (pr_r3u rj) -> get i U3j = get j (pr_r3u ri) ->
    (exists s : seed, get j (cx_seeds ci) = Some s /\ get i (cx_seeds cj) = Some s) /\
    ctx_match ci cj /\ cx_holder ci = i /\ cx_holder cj = j.
Proof. exact pair_symmetry. Qed.
Print Assumptions C10_pair_symmetry.

(* ---- distinctness: the first 32 bytes of a pair's seed stream determine the pair, the
   session's common seed, both contributions and the chain of sub-quorums ---- *)
Theorem C10_pair_distinct :
  forall (h512 : bytes -> bytes) (xof : bytes -> bytes -> N -> N -> bytes),
    (forall (S i : bytes) (off n : N), length (xof S i off n) = N.to_nat n) ->
    (forall (S i S' i' : bytes) (off : N), xof S i off 32 = xof S' i' off 32 -> S = S' /\ i = i') ->
    forall (a b a' b' : N) (cs cs' c1 c2 c1' c2' : bytes) (rpath rpath' : list (list N)),
      a < b -> a' < b' -> id_ok b -> id_ok b' ->
      length c1 = W -> length c2 = W -> length c1' = W -> length c2' = W ->
      Forall quorum_ok rpath -> Forall quorum_ok rpath' ->
      seed_read xof (seed_path xof (top_seed a b (pair_seed_bytes cs c1 c2)) rpath) 32 =
      seed_read xof (seed_path xof (top_seed a' b' (pair_seed_bytes cs' c1' c2')) rpath') 32 ->
      a = a' /\ b = b' /\ cs = cs' /\ c1 = c1' /\ c2 = c2' /\ rpath = rpath'.
Proof. exact pair_distinct. Qed.
Print Assumptions C10_pair_distinct.

(* the seeds of a sub-context are the parent's seeds extended by the sorted sub-quorum *)
Theorem C10_subctx_seed_path :
  forall (com : bytes -> bytes -> bytes) (h512 : bytes -> bytes) (xof : bytes -> bytes -> N -> N -> bytes)
         (c : context) (q : list N) (c' : context) (top : N -> seed) (rpath : list (list N)),
    seeds_are xof c top rpath -> sub_context xof c q = Some c' -> seeds_are xof c' top (isort q :: rpath).
Proof. exact sub_context_seed_path. Qed.
Print Assumptions C10_subctx_seed_path.

(* byte framing of the common seed: it determines the sorted quorum and every party's
   (commitment key, commitment, contribution, witness); with an injective SHA3-512 so does the SID *)
Theorem C10_common_seed_injective :
  forall (s s' : list N) (v v' : N -> bview),
    Forall id_ok s -> Forall id_ok s' -> len s < 2^64 -> len s' < 2^64 ->
    Forall (fun id => bview_ok (v id)) s -> Forall (fun id => bview_ok (v' id)) s' ->
    cs_of s v = cs_of s' v' -> s = s' /\ (forall id, In id s -> v id = v' id).
Proof. exact cs_of_inj. Qed.
Print Assumptions C10_common_seed_injective.

Theorem C10_sid_binds_session :
  forall h512 : bytes -> bytes,
    (forall a b : bytes, firstn W (h512 a) = firstn W (h512 b) -> a = b) ->
    forall (s : list N) (v : N -> bview) (s' : list N) (v' : N -> bview),
      Forall id_ok s -> Forall id_ok s' -> len s < 2^64 -> len s' < 2^64 ->
      Forall (fun id => bview_ok (v id)) s -> Forall (fun id => bview_ok (v' id)) s' ->
      firstn W (h512 (cs_of s v)) = firstn W (h512 (cs_of s' v')) ->
      s = s' /\ (forall id, In id s -> v id = v' id).
Proof. exact sid_binds_session. Qed.
Print Assumptions C10_sid_binds_session.

Theorem C10_pair_seed_bytes_injective :
  forall cs cs' c1 c1' c2 c2' : bytes,
    length c1 = W -> length c1' = W -> length c2 = W -> length c2' = W ->
    pair_seed_bytes cs c1 c2 = pair_seed_bytes cs' c1' c2' -> cs = cs' /\ c1 = c1' /\ c2 = c2'.
Proof. exact pair_seed_bytes_inj. Qed.
Print Assumptions C10_pair_seed_bytes_injective.

Theorem C10_subquorum_data_prefix_free :
  forall (a b : list N) (r1 r2 : bytes),
    Forall id_ok a -> Forall id_ok b -> len a < 2^64 -> len b < 2^64 ->
    subquorum_data a ++ r1 = subquorum_data b ++ r2 -> a = b /\ r1 = r2.
Proof. exact subquorum_data_inj. Qed.
Print Assumptions C10_subquorum_data_prefix_free.

(* ---- sub-contexts: members of the same sub-quorum (given in any order) derive matching
   sub-contexts — same SID, transcript, quorum, symmetric seed — and this nests ---- *)
Theorem C10_subctx_agree :
  forall (com : bytes -> bytes -> bytes) (h512 : bytes -> bytes) (xof : bytes -> bytes -> N -> N -> bytes)
         (ci cj : context) (qi qj : list N) (si sj : context),
    cx_holder ci <> cx_holder cj -> ctx_match ci cj -> Permutation qi qj ->
    sub_context xof ci qi = Some si -> sub_context xof cj qj = Some sj ->
    ctx_match si sj /\ cx_holder si = cx_holder ci /\ cx_holder sj = cx_holder cj /\
    cx_quorum si = isort qi /\
    (exists s : seed, get (cx_holder cj) (cx_seeds si) = Some s /\ get (cx_holder ci) (cx_seeds sj) = Some s).
Proof. exact subctx_agree. Qed.
Print Assumptions C10_subctx_agree.

(* ... different sub-quorums feed different inputs to the transcript's XOF (C19 history) ... *)
Theorem C10_subctx_distinct :
  forall (com : bytes -> bytes -> bytes) (h512 : bytes -> bytes) (xof : bytes -> bytes -> N -> N -> bytes)
         (c : context) (q1 q2 : list N) (s1 s2 : context) (l : bytes) (n : N),
    ctx_wf c -> len q1 < 2^60 -> len q2 < 2^60 -> Forall id_ok q1 -> Forall id_ok q2 ->
    len l < 2^64 -> 0 < n < 2^64 ->
    sub_context xof c q1 = Some s1 -> sub_context xof c q2 = Some s2 ->
    ctx_extract_call s1 l n = ctx_extract_call s2 l n -> Permutation q1 q2.
Proof. exact subctx_distinct_transcript. Qed.
Print Assumptions C10_subctx_distinct.

(* ... and different from the parent's *)
Theorem C10_subctx_distinct_parent :
  forall (com : bytes -> bytes -> bytes) (h512 : bytes -> bytes) (xof : bytes -> bytes -> N -> N -> bytes)
         (c : context) (q : list N) (s : context) (l : bytes) (n : N),
    ctx_wf c -> len q < 2^60 -> len l < 2^64 -> 0 < n < 2^64 ->
    sub_context xof c q = Some s -> ctx_extract_call s l n <> ctx_extract_call c l n.
Proof. exact subctx_distinct_parent. Qed.
Print Assumptions C10_subctx_distinct_parent.

(* contexts produced by NewContext / SubContext are well-formed C19 histories *)
Theorem C10_new_context_wf :
  forall (com : bytes -> bytes -> bytes) (h512 : bytes -> bytes) (xof : bytes -> bytes -> N -> N -> bytes),
    (forall x : bytes, length (h512 x) = 64%nat) ->
    forall (id : N) (q : list N) (cs : bytes) (pw : amap bytes) (c : context),
      new_context h512 id q cs pw = Some c -> ctx_wf c.
Proof. exact new_context_wf. Qed.
Print Assumptions C10_new_context_wf.

Theorem C10_sub_context_wf :
  forall (com : bytes -> bytes -> bytes) (h512 : bytes -> bytes) (xof : bytes -> bytes -> N -> N -> bytes)
         (c : context) (q : list N) (c' : context),
    ctx_wf c -> len q < 2^60 -> sub_context xof c q = Some c' -> ctx_wf c'.
Proof. exact sub_context_wf. Qed.
Print Assumptions C10_sub_context_wf.

(* ---- zero shares: for every duplicate-free ID list, every sampling function keyed by
   (min,max) and every abelian group, the shares sum to the identity ---- *)
Theorem C10_przs_zero_sum :
  forall (G : Type) (zero : G) (add : G -> G -> G) (neg : G -> G),
    (forall a b c : G, add a (add b c) = add (add a b) c) ->
    (forall a b : G, add a b = add b a) ->
    (forall a : G, add zero a = a) ->
    (forall a : G, add a (neg a) = zero) ->
    forall (R : N -> N -> G) (ids : list N),
      NoDup ids -> sum_shares G zero add neg R ids = zero.
Proof. exact przs_zero_sum. Qed.
Print Assumptions C10_przs_zero_sum.

(* the loop of SampleZeroShare over a context whose seeds are keyed by (min,max) computes
   exactly that share *)
Theorem C10_przs_ctx_share :
  forall (G : Type) (zero : G) (add : G -> G -> G) (neg : G -> G),
    (forall a b c : G, add a (add b c) = add (add a b) c) ->
    (forall a b : G, add a b = add b a) ->
    (forall a : G, add zero a = a) ->
    (forall a : G, add a (neg a) = zero) ->
    (N -> N -> G) ->
    forall (sample : seed -> G) (pairseed : N -> N -> seed) (c : context),
      (forall id : N, In id (cx_quorum c) -> id <> cx_holder c ->
          get id (cx_seeds c) = Some (pairseed (N.min (cx_holder c) id) (N.max (cx_holder c) id))) ->
      ctx_zero_share G zero add neg sample c =
      Some (zero_share G zero add neg (fun a b : N => sample (pairseed a b)) (cx_quorum c) (cx_holder c)).
Proof. exact ctx_zero_share_spec. Qed.
Print Assumptions C10_przs_ctx_share.

(* ---- blame: an opening that does not match its commitment makes the recipient reject and
   blame exactly that sender (round 3: common contribution; round 4: pairwise contribution) ---- *)
Theorem C10_setup_opening_blame_round3 :
  forall (com : bytes -> bytes -> bytes)
         (p : party) (inB : amap r2b) (inU : amap r2u) (s : N),
    p_round p = 3 ->
    first_bad valid_r2b (others p) inB = None -> first_bad valid_r2u (others p) inU = None ->
    (forall id : N, In id (others p) -> exists c : bytes, get id (p_ccom p) = Some c) ->
    In s (others p) ->
    (forall (id : N) (b : r2b) (c : bytes), In id (others p) -> id <> s ->
        get id inB = Some b -> get id (p_ccom p) = Some c ->
        open_ok com commonCommitmentKey c (r2_cc b) (r2_cw b) = true) ->
    (forall (b : r2b) (c : bytes), get s inB = Some b -> get s (p_ccom p) = Some c ->
        open_ok com commonCommitmentKey c (r2_cc b) (r2_cw b) = false) ->
    round3 com p inB inU = Err (VBlame s).
Proof. exact round3_opening_blame. Qed.
Print Assumptions C10_setup_opening_blame_round3.

Theorem C10_setup_opening_blame_round4 :
  forall (com : bytes -> bytes -> bytes) (h512 : bytes -> bytes)
         (p : party) (inU : amap r3u) (s : N) (ck : bytes),
    p_round p = 4 ->
    first_bad valid_r3u (others p) inU = None ->
    get (p_id p) (p_ck p) = Some ck ->
    (exists cs : bytes, common_seed_bytes (p_q p) (p_ck p) (p_ccom p) (p_cc p) (p_cw p) = Some cs) ->
    (forall id : N, In id (others p) -> exists c m : bytes, get id (p_pcom p) = Some c /\ get id (p_pc p) = Some m) ->
    In s (others p) ->
    (forall (id : N) (u : r3u) (c : bytes), In id (others p) -> id <> s ->
        get id inU = Some u -> get id (p_pcom p) = Some c -> open_ok com ck c (r3_pc u) (r3_pw u) = true) ->
    (forall (u : r3u) (c : bytes), get s inU = Some u -> get s (p_pcom p) = Some c ->
        open_ok com ck c (r3_pc u) (r3_pw u) = false) ->
    round4 com h512 p inU = Err (VBlame s).
Proof. exact round4_opening_blame. Qed.
Print Assumptions C10_setup_opening_blame_round4.

(* "does not match": with an injective commitment hash only the committed (message, witness)
   under the committing key opens; the honest opening always does *)
Theorem C10_opening_mismatch_rejected :
  forall (com : bytes -> bytes -> bytes),
    (forall k i k' i' : bytes, com k i = com k' i' -> k = k' /\ i = i') ->
    forall k m w m' w' : bytes,
      length m = length m' -> (m', w') <> (m, w) -> open_ok com k (commit com k m w) m' w' = false.
Proof. exact opening_mismatch_rejected. Qed.
Print Assumptions C10_opening_mismatch_rejected.

Theorem C10_opening_wrong_key_rejected :
  forall (com : bytes -> bytes -> bytes),
    (forall k i k' i' : bytes, com k i = com k' i' -> k = k' /\ i = i') ->
    forall k k' m w m' w' : bytes, k <> k' -> open_ok com k' (commit com k m w) m' w' = false.
Proof. exact opening_wrong_key_rejected. Qed.
Print Assumptions C10_opening_wrong_key_rejected.

Theorem C10_honest_opening_accepted :
  forall (com : bytes -> bytes -> bytes)
         (k m w : bytes), open_ok com k (commit com k m w) m w = true.
Proof. exact honest_opening_accepted. Qed.
Print Assumptions C10_honest_opening_accepted.

(* ---- non-vacuity ---- *)

(* the hash hypotheses are satisfiable (bytes are unbounded naturals in the model, so an
   injective hash into 32 positions exists: every position carries a Goedel code of the input) *)
Theorem C10_hash_hypotheses_satisfiable :
  (forall k i k' i', ideal_com k i = ideal_com k' i' -> k = k' /\ i = i') /\
  (forall x, length (ideal_h512 x) = 64%nat) /\
  (forall a b, firstn W (ideal_h512 a) = firstn W (ideal_h512 b) -> a = b) /\
  (forall a b, skipn W (ideal_h512 a) = skipn W (ideal_h512 b) -> a = b) /\
  (forall S i off n, length (ideal_xof S i off n) = N.to_nat n) /\
  (forall S i S' i' off, ideal_xof S i off 32 = ideal_xof S' i' off 32 -> S = S' /\ i = i').
Proof. exact ideal_hashes_ok. Qed.
Print Assumptions C10_hash_hypotheses_satisfiable.

(* a concrete honest three-party run (IDs 7, 2^40, 3; each party told the quorum in a
   different order) meets every hypothesis of C10_sid_agreement and C10_pair_symmetry;
   the integers are an abelian group for C10_przs_zero_sum *)
Example C10_nonvacuous :
  ((exists ci cj, pr_ctx (ex_run 7) = Some ci /\ pr_ctx (ex_run 3) = Some cj) /\
   Permutation (ex_q 7) (ex_q 3) /\
   same_broadcasts 7 3 (ex_q 7) (ex_B1 7) (ex_B2 7) (ex_B1 3) (ex_B2 3)
                   (pr_r1 (ex_run 7)) (pr_r2b (ex_run 7)) (pr_r1 (ex_run 3)) (pr_r2b (ex_run 3)) /\
   get 3 (ex_U3 7) = get 7 (pr_r3u (ex_run 3)) /\ get 7 (ex_U3 3) = get 3 (pr_r3u (ex_run 7))) /\
  ((forall a b c : Z, (a + (b + c) = a + b + c)%Z) /\ (forall a b : Z, (a + b = b + a)%Z) /\
   (forall a : Z, (0 + a = a)%Z) /\ (forall a : Z, (a + - a = 0)%Z)) /\
  zq_sum_shares 11 (fun a b => Z.of_N (a * 3 + b) mod 11)%Z [5; 2; 9; 1099511627776] = 0%Z.
Proof.
  split; [exact example_run_meets_hypotheses|].
  split; [|vm_compute; reflexivity].
  repeat split; intros; ring.
Qed.
