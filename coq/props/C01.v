(* C01 — Threshold signing by a qualified quorum yields a publicly valid signature.
   Property theorems only; the models are model/Sign{Dkls,Lindell22,Bls,Lindell17,Cggmp}.v,
   the proofs proofs/Sign*_proofs.v.  Groups are taken in the exponent (k·g is k); what the
   verifiers ask of a point beyond its exponent (x-coordinate, parities) is abstract, with the
   stated symmetry hypotheses.  The key-share hypotheses are exactly C02's to_additive_sums
   (the additive shares over the quorum sum to the key) and the zero-sum of the PRZS / HJKY
   blinding; the multiplication hypothesis is exactly C09's vole_product. *)
From Coq Require Import List ZArith Znumtheory Bool.
Import ListNotations.
Require Import V.base.Fld V.base.ZpField.
Require Import V.model.SignDkls V.proofs.SignDkls_proofs.
Require Import V.model.SignLindell22 V.proofs.SignLindell22_proofs.
Require Import V.model.SignBls V.proofs.SignBls_proofs.
Require Import V.model.SignLindell17 V.proofs.SignLindell17_proofs.
Require V.model.SignCggmp V.proofs.SignCggmp_proofs.
Require Import V.proofs.SignC01_extra_proofs.

(* ---- DKLs23 (both multipliers run this algebra) -------------------------------------- *)

(* For every number of parties and all sampled values: under the guard — which is exactly the
   condition under which no step of the code returns an error — the honest run ends with the
   signature (xc k, (m + xc k·x)/k, recovery id of k·g), normalised, for k = Σ r_i; it
   passes Aggregate's self-check (the library verifier incl. public-key recovery) and the
   plain ECDSA verification equation; every party's partial signature carries R = (Σ r_i)·g. *)
Theorem C01_dkls_signature_valid :
  forall (F : Type) (K : fops F), flaws K ->
  forall (xc : F -> F) (yodd xover high : F -> bool),
  (forall k, xc (fopp K k) = xc k) ->
  (forall k, k <> f0 K -> yodd (fopp K k) = negb (yodd k)) ->
  (forall k, xover (fopp K k) = xover k) ->
  forall (inp : SignDkls.inputs) (m x : F) (a zeta : nat -> F),
  (forall i, in_sk inp i = fadd K (a i) (zeta i)) ->
  SignDkls.sum_over K (SignDkls.parties (SignDkls.in_n inp)) a = x ->            (* C02 to_additive_sums *)
  SignDkls.sum_over K (SignDkls.parties (SignDkls.in_n inp)) zeta = f0 K ->      (* przs_zero_sum *)
  vole_product K inp ->                                                           (* C09 vole_product *)
  SignDkls.guard K xc inp m x ->
  let sg := SignDkls.expected_sig K xc yodd xover high inp m x in
  SignDkls.sign K xc yodd xover high inp m x = Some sg /\
  SignDkls.verify K xc yodd xover m x sg = true /\
  verify_plain K xc m x (fst (fst sg)) (snd (fst sg)) = true /\
  (forall j, (j < SignDkls.in_n inp)%nat ->
     round_last K xc inp m x j = Some (SignDkls.big_r K inp, u_of K inp j, w_of K xc inp m j)).
Proof. exact @dkls_signature_valid. Qed.
Print Assumptions C01_dkls_signature_valid.

(* the guard is exact: the run returns an error iff the guard fails *)
Theorem C01_dkls_error_iff_guard_fails :
  forall (F : Type) (K : fops F), flaws K ->
  forall (xc : F -> F) (yodd xover high : F -> bool),
  (forall k, xc (fopp K k) = xc k) ->
  (forall k, k <> f0 K -> yodd (fopp K k) = negb (yodd k)) ->
  (forall k, xover (fopp K k) = xover k) ->
  forall (inp : SignDkls.inputs) (m x : F) (a zeta : nat -> F),
  (forall i, in_sk inp i = fadd K (a i) (zeta i)) ->
  SignDkls.sum_over K (SignDkls.parties (SignDkls.in_n inp)) a = x ->
  SignDkls.sum_over K (SignDkls.parties (SignDkls.in_n inp)) zeta = f0 K ->
  vole_product K inp ->
  (SignDkls.sign K xc yodd xover high inp m x = None <-> ~ SignDkls.guard K xc inp m x).
Proof. exact @dkls_sign_error_iff_guard_fails. Qed.
Print Assumptions C01_dkls_error_iff_guard_fails.

(* the PRZS zero shares (pkg/mpc/zero/przs) sum to zero for every quorum size and all seeds *)
Theorem C01_przs_zero_sum :
  forall (F : Type) (K : fops F), flaws K -> forall n v,
  SignDkls.sum_over K (SignDkls.parties n) (przs_share K n v) = f0 K.
Proof. exact @przs_zero_sum. Qed.
Print Assumptions C01_przs_zero_sum.

(* ---- Lindell22, each Schnorr flavour (vanilla ±, BIP-340, Mina) ----------------------- *)

Theorem C01_lindell22_signature_valid :
  forall (F : Type) (K : fops F), flaws K ->
  forall (M : Type) (odd : F -> bool) (xo : F -> F) (chal : F -> F -> M -> F),
  (forall k, k <> f0 K -> odd (fopp K k) = negb (odd k)) ->
  (forall k, xo (fopp K k) = xo k) ->
  forall (fl : flavour) (inp : SignLindell22.inputs) (m : M) (x : F),
  SignLindell22.sum_over K (SignLindell22.parties (SignLindell22.in_n inp)) (in_a inp) = x ->   (* C02 to_additive_sums *)
  SignLindell22.sum_over K (SignLindell22.parties (SignLindell22.in_n inp)) (in_z inp) = f0 K -> (* HJKY zero sharing *)
  SignLindell22_proofs.guard K odd xo chal fl inp m x ->
  let sg := (challenge xo chal fl (SignLindell22.big_r K inp) x m,
             expected_r K odd fl inp, expected_s K odd xo chal fl inp m x) in
  SignLindell22.sign K odd xo chal fl false inp m x = Some sg /\
  SignLindell22.verify K odd xo chal fl x m sg = true.
Proof. exact @lindell22_signature_valid. Qed.
Print Assumptions C01_lindell22_signature_valid.

(* the same signature when a cosigner aggregates (NewCosigningAggregator), incl. its
   per-sender partial-signature checks *)
Theorem C01_lindell22_cosigning_valid :
  forall (F : Type) (K : fops F), flaws K ->
  forall (M : Type) (odd : F -> bool) (xo : F -> F) (chal : F -> F -> M -> F),
  (forall k, k <> f0 K -> odd (fopp K k) = negb (odd k)) ->
  (forall k, xo (fopp K k) = xo k) ->
  forall (fl : flavour) (inp : SignLindell22.inputs) (m : M) (x : F),
  SignLindell22.sum_over K (SignLindell22.parties (SignLindell22.in_n inp)) (in_a inp) = x ->
  SignLindell22.sum_over K (SignLindell22.parties (SignLindell22.in_n inp)) (in_z inp) = f0 K ->
  SignLindell22_proofs.guard K odd xo chal fl inp m x ->
  (forall i, (i < SignLindell22.in_n inp)%nat ->
     in_k inp i <> f0 K /\
     response K fl (correct_share K odd fl x (eff_share K inp i))
       (correct_nonce K odd fl (SignLindell22.big_r K inp) (in_k inp i))
       (challenge xo chal fl (SignLindell22.big_r K inp) x m) <> f0 K) ->
  let sg := (challenge xo chal fl (SignLindell22.big_r K inp) x m,
             expected_r K odd fl inp, expected_s K odd xo chal fl inp m x) in
  SignLindell22.sign K odd xo chal fl true inp m x = Some sg /\
  SignLindell22.verify K odd xo chal fl x m sg = true.
Proof. exact @lindell22_cosigning_valid. Qed.
Print Assumptions C01_lindell22_cosigning_valid.

(* every party derives the same challenge (from the same aggregate R), and the two kinds of
   aggregator return the identical signature *)
Theorem C01_lindell22_all_parties_agree :
  forall (F : Type) (K : fops F) (M : Type) (odd : F -> bool) (xo : F -> F) (chal : F -> F -> M -> F)
    (fl : flavour) (inp : SignLindell22.inputs) (m : M) (x : F) (ps : list SignLindell22.psig),
  SignLindell22.all_some (List.map (round3 K odd xo chal fl inp m x) (SignLindell22.parties (SignLindell22.in_n inp))) = Some ps ->
  forall p, List.In p ps -> fst (fst p) = challenge xo chal fl (SignLindell22.big_r K inp) x m.
Proof. exact @lindell22_all_parties_agree. Qed.
Print Assumptions C01_lindell22_all_parties_agree.

Theorem C01_lindell22_aggregators_agree :
  forall (F : Type) (K : fops F), flaws K ->
  forall (M : Type) (odd : F -> bool) (xo : F -> F) (chal : F -> F -> M -> F) (fl : flavour)
    (inp : SignLindell22.inputs) (m : M) (x : F) (sg1 sg2 : ssig),
  SignLindell22.sign K odd xo chal fl false inp m x = Some sg1 ->
  SignLindell22.sign K odd xo chal fl true inp m x = Some sg2 ->
  sg1 = sg2.
Proof. exact @lindell22_aggregators_agree. Qed.
Print Assumptions C01_lindell22_aggregators_agree.

(* why the cosigning aggregator must use the parity-corrected aggregate R (repaired defect):
   for Mina the uncorrected aggregate with odd y is rejected by the verifier *)
Theorem C01_lindell22_mina_uncorrected_R_rejected :
  forall (F : Type) (K : fops F), flaws K ->
  forall (M : Type) (odd : F -> bool) (xo : F -> F) (chal : F -> F -> M -> F)
    (inp : SignLindell22.inputs) (m : M) (x : F),
  odd (SignLindell22.big_r K inp) = true ->
  fadd K (SignLindell22.big_r K inp) (SignLindell22.big_r K inp) <> f0 K ->
  SignLindell22.verify K odd xo chal Mina x m
    (challenge xo chal Mina (SignLindell22.big_r K inp) x m, SignLindell22.big_r K inp,
     expected_s K odd xo chal Mina inp m x) = false.
Proof. exact @lindell22_mina_uncorrected_R_rejected. Qed.
Print Assumptions C01_lindell22_mina_uncorrected_R_rejected.

(* ---- Boldyreva BLS: both key sizes, the three rogue-key modes ------------------------- *)

Theorem C01_boldyreva_signature_valid :
  forall (F : Type) (K : fops F), flaws K ->
  forall (Msg Hin : Type) (hin_eqb : Hin -> Hin -> bool),
  (forall a b, hin_eqb a b = true <-> a = b) ->
  forall (hmsg : rogue_mode -> key_size -> F -> Msg -> Hin) (hpop : key_size -> F -> Hin)
    (msg_empty : Msg -> bool) (md : rogue_mode) (ks : key_size) (x : F) (m : Msg) (hs : list holder),
  wf_holders hs ->
  recon K hs = x ->                                             (* C02 to_additive_sums / reconstruct_correct *)
  x <> f0 K -> msg_empty m = false ->
  (forall h, List.In h hs -> forall l, List.In l (h_rows h) -> l <> f0 K) ->
  let sg := (hmsg md ks x m, x, match md with POP => Some (hpop ks x, x) | _ => None end) in
  SignBls.sign K hin_eqb hmsg hpop msg_empty md ks x m hs = Some sg /\
  SignBls.verify K hin_eqb hmsg hpop msg_empty md ks x m sg = true.
Proof. exact @boldyreva_signature_valid. Qed.
Print Assumptions C01_boldyreva_signature_valid.

(* the code's explicit refusals: the empty message; a zero share component as a BLS key *)
Theorem C01_boldyreva_refusals :
  forall (F : Type) (K : fops F), flaws K ->
  forall (Msg Hin : Type) (hin_eqb : Hin -> Hin -> bool)
    (hmsg : rogue_mode -> key_size -> F -> Msg -> Hin) (hpop : key_size -> F -> Hin)
    (msg_empty : Msg -> bool) (md : rogue_mode) (ks : key_size) (x : F) (m : Msg) (hs : list holder),
  msg_empty m = true \/ (exists h, List.In h hs /\ List.In (f0 K) (h_rows h)) ->
  SignBls.sign K hin_eqb hmsg hpop msg_empty md ks x m hs = None.
Proof. exact @boldyreva_refusals_strong. Qed.
Print Assumptions C01_boldyreva_refusals.

(* ---- Lindell17 ------------------------------------------------------------------------ *)

(* pure integer inequality: under the code's bound 2(q^3 + 3dq^2 + 2q) < N the plaintext of c3
   is non-negative and below N/2, so decryption in the symmetric range returns it unchanged *)
Theorem C01_lindell17_no_wrap :
  forall (q N : Z) (xc : Z -> Z) (inp : SignLindell17.inputs) (m' : Z),
  (0 < q)%Z -> (0 <= in_rho inp < q * q)%Z ->
  Forall (fun x => 0 <= x < 3 * q)%Z (in_x1 inp) ->
  length (in_lam inp) = length (in_x1 inp) ->
  bound_ok q N (Z.of_nat (length (in_x1 inp))) = true ->
  (0 <= c3_int q xc inp m')%Z /\ (2 * c3_int q xc inp m' < N)%Z /\
  sym N (c3_int q xc inp m' mod N) = c3_int q xc inp m'.
Proof. exact lindell17_no_wrap. Qed.
Print Assumptions C01_lindell17_no_wrap.

Theorem C01_lindell17_signature_valid :
  forall q N : Z, prime q ->
  forall (xc : Z -> Z) (yodd xover high : Z -> bool),
  (forall k, xc (fopp (Zp q) k) = xc k) ->
  (forall k, (0 < k < q)%Z -> yodd (fopp (Zp q) k) = negb (yodd k)) ->
  (forall k, xover (fopp (Zp q) k) = xover k) ->
  forall (inp : SignLindell17.inputs) (m x : Z),
  in_Zp q (in_k1 inp) -> in_Zp q (in_k2 inp) ->
  (0 <= in_rho inp < q * q)%Z ->
  Forall (fun x0 => 0 <= x0 < 3 * q)%Z (in_x1 inp) ->
  in_x1 inp <> nil ->
  length (in_lam inp) = length (in_x1 inp) ->
  bound_ok q N (Z.of_nat (length (in_x1 inp))) = true ->
  fadd (Zp q) (primary_additive q (in_lam inp) (in_x1 inp)) (in_x2 inp) = x ->   (* C02 to_additive_sums, two-party quorum *)
  in_k1 inp <> 0%Z -> in_k2 inp <> 0%Z ->
  xc (SignLindell17.big_r q inp) <> 0%Z ->
  fadd (Zp q) m (fmul (Zp q) (xc (SignLindell17.big_r q inp)) x) <> 0%Z ->
  SignLindell17.sign q N xc yodd xover high inp m x = Some (SignLindell17.expected_sig q xc yodd xover high inp m x) /\
  SignLindell17.verify q xc yodd xover m x (SignLindell17.expected_sig q xc yodd xover high inp m x) = true.
Proof. exact lindell17_signature_valid. Qed.
Print Assumptions C01_lindell17_signature_valid.

(* ---- every accepted quorum --------------------------------------------------------------- *)
(* The theorems above quantify over ANY number of parties and ANY values satisfying the
   additive-sum hypothesis, i.e. over every accepted quorum, minimal or not.  Stated for two
   quorums (of arbitrary sizes) side by side: *)
Theorem C01_quorum_independence_dkls :
  forall (F : Type) (K : fops F), flaws K ->
  forall (xc : F -> F) (yodd xover high : F -> bool),
  (forall k, xc (fopp K k) = xc k) ->
  (forall k, k <> f0 K -> yodd (fopp K k) = negb (yodd k)) ->
  (forall k, xover (fopp K k) = xover k) ->
  forall (inp1 inp2 : SignDkls.inputs) (m x : F) (a1 zeta1 a2 zeta2 : nat -> F),
  (forall i, in_sk inp1 i = fadd K (a1 i) (zeta1 i)) ->
  SignDkls.sum_over K (SignDkls.parties (SignDkls.in_n inp1)) a1 = x ->
  SignDkls.sum_over K (SignDkls.parties (SignDkls.in_n inp1)) zeta1 = f0 K ->
  vole_product K inp1 -> SignDkls.guard K xc inp1 m x ->
  (forall i, in_sk inp2 i = fadd K (a2 i) (zeta2 i)) ->
  SignDkls.sum_over K (SignDkls.parties (SignDkls.in_n inp2)) a2 = x ->
  SignDkls.sum_over K (SignDkls.parties (SignDkls.in_n inp2)) zeta2 = f0 K ->
  vole_product K inp2 -> SignDkls.guard K xc inp2 m x ->
  (exists sg1, SignDkls.sign K xc yodd xover high inp1 m x = Some sg1 /\
               SignDkls.verify K xc yodd xover m x sg1 = true) /\
  (exists sg2, SignDkls.sign K xc yodd xover high inp2 m x = Some sg2 /\
               SignDkls.verify K xc yodd xover m x sg2 = true).
Proof. exact @quorum_independence_dkls. Qed.
Print Assumptions C01_quorum_independence_dkls.

Theorem C01_quorum_independence_lindell22 :
  forall (F : Type) (K : fops F), flaws K ->
  forall (M : Type) (odd : F -> bool) (xo : F -> F) (chal : F -> F -> M -> F),
  (forall k, k <> f0 K -> odd (fopp K k) = negb (odd k)) ->
  (forall k, xo (fopp K k) = xo k) ->
  forall (fl : flavour) (inp1 inp2 : SignLindell22.inputs) (m : M) (x : F),
  SignLindell22.sum_over K (SignLindell22.parties (SignLindell22.in_n inp1)) (in_a inp1) = x ->
  SignLindell22.sum_over K (SignLindell22.parties (SignLindell22.in_n inp1)) (in_z inp1) = f0 K ->
  SignLindell22_proofs.guard K odd xo chal fl inp1 m x ->
  SignLindell22.sum_over K (SignLindell22.parties (SignLindell22.in_n inp2)) (in_a inp2) = x ->
  SignLindell22.sum_over K (SignLindell22.parties (SignLindell22.in_n inp2)) (in_z inp2) = f0 K ->
  SignLindell22_proofs.guard K odd xo chal fl inp2 m x ->
  (exists sg1, SignLindell22.sign K odd xo chal fl false inp1 m x = Some sg1 /\
               SignLindell22.verify K odd xo chal fl x m sg1 = true) /\
  (exists sg2, SignLindell22.sign K odd xo chal fl false inp2 m x = Some sg2 /\
               SignLindell22.verify K odd xo chal fl x m sg2 = true).
Proof. exact @quorum_independence_lindell22. Qed.
Print Assumptions C01_quorum_independence_lindell22.

(* BLS signatures are unique: every accepted quorum yields the SAME signature, which verifies *)
Theorem C01_quorum_independence_boldyreva :
  forall (F : Type) (K : fops F), flaws K ->
  forall (Msg Hin : Type) (hin_eqb : Hin -> Hin -> bool),
  (forall a b, hin_eqb a b = true <-> a = b) ->
  forall (hmsg : rogue_mode -> key_size -> F -> Msg -> Hin) (hpop : key_size -> F -> Hin)
    (msg_empty : Msg -> bool) (md : rogue_mode) (ks : key_size) (x : F) (m : Msg) (hs1 hs2 : list holder),
  x <> f0 K -> msg_empty m = false ->
  wf_holders hs1 -> recon K hs1 = x ->
  (forall h, List.In h hs1 -> forall l, List.In l (h_rows h) -> l <> f0 K) ->
  wf_holders hs2 -> recon K hs2 = x ->
  (forall h, List.In h hs2 -> forall l, List.In l (h_rows h) -> l <> f0 K) ->
  exists sg,
    SignBls.sign K hin_eqb hmsg hpop msg_empty md ks x m hs1 = Some sg /\
    SignBls.sign K hin_eqb hmsg hpop msg_empty md ks x m hs2 = Some sg /\
    SignBls.verify K hin_eqb hmsg hpop msg_empty md ks x m sg = true.
Proof. exact @quorum_independence_boldyreva. Qed.
Print Assumptions C01_quorum_independence_boldyreva.

(* ---- CGGMP21 (partial: the MtA algebra) -------------------------------------------------- *)
(* Full statement (NOT proved): an honest CGGMP21 run — Paillier encryptions of k_i, gamma_i,
   the enc-elg, aff-g, elog and dec proofs, the red-alert path — terminates with an ECDSA
   signature that the library verifier and an independent verifier accept.
   Proved: the algebra of the online phase, given the outputs of the Paillier affine
   operation as additive shares of the products (hypothesis mta_product, C16), for every
   number of parties: the run yields (xc g, (m + xc g·y)/g, recid) for g = Σ gamma_i, and it
   verifies. *)
Theorem C01_cggmp_signature_valid_partial :
  forall (F : Type) (K : fops F), flaws K ->
  forall (xc : F -> F) (yodd xover : F -> bool) (inp : SignCggmp.inputs) (m y : F),
  SignCggmp.mta_product K inp ->
  SignCggmp.big_x K inp = y ->                                  (* C02 to_additive_sums + zero sharing *)
  SignCggmp.guard K xc inp m y ->
  SignCggmp.sign K xc yodd xover inp m y = Some (SignCggmp.expected_sig K xc yodd xover inp m y) /\
  SignCggmp.verify K xc yodd xover m y (SignCggmp.expected_sig K xc yodd xover inp m y) = true.
Proof. exact @SignCggmp_proofs.cggmp_signature_valid_partial. Qed.
Print Assumptions C01_cggmp_signature_valid_partial.

(* ---- the hypotheses are satisfiable by non-trivial instances (Z_7) ------------------------- *)
Example C01_dkls_nonvacuous :
  flaws K7 /\
  (forall k, ex_xc (fopp K7 k) = ex_xc k) /\
  (forall k, k <> f0 K7 -> ex_yodd (fopp K7 k) = negb (ex_yodd k)) /\
  (forall k, ex_xover (fopp K7 k) = ex_xover k) /\
  (forall i, in_sk ex_inp i = fadd K7 (ex_a i) (ex_zeta i)) /\
  SignDkls.sum_over K7 (SignDkls.parties (SignDkls.in_n ex_inp)) ex_a = z7 5 /\
  SignDkls.sum_over K7 (SignDkls.parties (SignDkls.in_n ex_inp)) ex_zeta = f0 K7 /\
  vole_product K7 ex_inp /\
  SignDkls.guard K7 ex_xc ex_inp (z7 1) (z7 5) /\
  SignDkls.in_n ex_inp = 2%nat.
Proof. exact dkls_nonvacuous. Qed.

Example C01_lindell17_nonvacuous :
  prime 7 /\ (0 < 7)%Z /\ (0 <= in_rho ex17 < 7 * 7)%Z /\
  Forall (fun x => 0 <= x < 3 * 7)%Z (in_x1 ex17) /\
  in_x1 ex17 <> [] /\
  length (in_lam ex17) = length (in_x1 ex17) /\
  bound_ok 7 5000 (Z.of_nat (length (in_x1 ex17))) = true /\
  in_Zp 7 (in_k1 ex17) /\ in_Zp 7 (in_k2 ex17) /\
  in_k1 ex17 <> 0%Z /\ in_k2 ex17 <> 0%Z.
Proof. exact lindell17_nonvacuous. Qed.

Example C01_boldyreva_nonvacuous :
  wf_holders exh /\ recon K7 exh = z7 5 /\ z7 5 <> f0 K7 /\
  (forall h, In h exh -> forall l, In l (h_rows h) -> l <> f0 K7).
Proof. exact boldyreva_nonvacuous. Qed.
