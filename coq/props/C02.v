(* C02 — Exactly the qualified sets can reconstruct; unqualified sets learn nothing.
   Property theorems only; proofs are in proofs/{Span,Msp,Kw,Families}_proofs.v.  The models
   (model/{Access,Msp,Kw,Schemes}.v) are hand-written after the code and tied to it by the
   correspondence check (harness/cmd/c02).  Every theorem holds for every field (flaws K). *)
From Coq Require Import List NArith ZArith Arith Bool.
Import ListNotations.
Require Import V.base.Fld V.base.ZpField V.model.LinAlg V.model.Access V.model.Msp V.model.Kw.
Require Import V.proofs.Span_proofs V.proofs.Msp_proofs V.proofs.Kw_proofs.

(* ---- generic: every MSP (any matrix, any labelling — ideal or not), every field ------------- *)

(* Accepts(S)  <->  the IDs of S all own rows, and e0 is a linear combination of the rows of S *)
Theorem C02_accepts_iff_span : forall F (K : fops F), flaws K -> forall (m : msp) ids, wf_msp m ->
  (accepts K m ids = true <->
   exists rows, sel_rows m ids = Some rows /\
                in_span K (msp_D m) (sub_rows (msp_M m) rows) (target K m)).
Proof. exact @accepts_iff_span. Qed.
Print Assumptions C02_accepts_iff_span.

(* an accepted set reconstructs the dealt secret r_0: shares listed in any order, holders owning
   any number of rows.  (Listing a holder twice is refused by the code — DotProduct length check —
   hence NoDup.) *)
Theorem C02_reconstruct_correct : forall F (K : fops F), flaws K -> forall (m : msp) r ids,
  wf_msp m -> NoDup ids -> length r = msp_D m -> accepts K m ids = true ->
  reconstruct K m (map (share_of K m (mvec K (msp_M m) r)) ids) = Some (nth 0 r (f0 K)).
Proof. exact @reconstruct_dealt. Qed.
Print Assumptions C02_reconstruct_correct.

(* a rejected ID list never reconstructs, whatever share values are presented *)
Theorem C02_reconstruct_rejected : forall F (K : fops F) (m : msp) (shares : list (share (F:=F))),
  accepts K m (map fst shares) = false -> reconstruct K m shares = None.
Proof. exact @reconstruct_rejected. Qed.
Print Assumptions C02_reconstruct_rejected.

(* privacy: for a rejected set of holders, every secret s' is consistent with the shares the set owns *)
Theorem C02_privacy : forall F (K : fops F), flaws K -> forall (m : msp) ids r s', wf_msp m ->
  (forall id, In id ids -> In id (msp_lab m)) ->
  accepts K m ids = false -> length r = msp_D m ->
  exists r', length r' = msp_D m /\ nth 0 r' (f0 K) = s' /\
    forall id, In id ids ->
      share_of K m (mvec K (msp_M m) r') id = share_of K m (mvec K (msp_M m) r) id.
Proof. exact @privacy. Qed.
Print Assumptions C02_privacy.

(* the privacy witness: rejection is equivalent to a kernel vector of the selected rows with first
   coordinate 1 (the correspondence also evaluates Accepts on the implementation's matrices) *)
Theorem C02_rejects_kernel : forall F (K : fops F), flaws K -> forall (m : msp) ids rows, wf_msp m ->
  sel_rows m ids = Some rows -> accepts K m ids = false ->
  exists w, length w = msp_D m /\ in_ker K (sub_rows (msp_M m) rows) w /\ nth 0 w (f0 K) = f1 K.
Proof. exact @rejects_kernel. Qed.
Print Assumptions C02_rejects_kernel.

Theorem C02_kernel_rejects : forall F (K : fops F), flaws K -> forall (m : msp) ids rows w, wf_msp m ->
  sel_rows m ids = Some rows ->
  in_ker K (sub_rows (msp_M m) rows) w -> nth 0 w (f0 K) = f1 K ->
  accepts K m ids = false.
Proof. exact @kernel_rejects. Qed.
Print Assumptions C02_kernel_rejects.

Theorem C02_monotone : forall F (K : fops F), flaws K -> forall (m : msp) ids ids', wf_msp m ->
  incl ids ids' -> (forall id, In id ids' -> In id (msp_lab m)) ->
  accepts K m ids = true -> accepts K m ids' = true.
Proof. exact @monotone. Qed.
Print Assumptions C02_monotone.

(* shares are linear *)
Theorem C02_share_linear_add : forall F (K : fops F), flaws K -> forall (m : msp) r1 r2 id, length r1 = length r2 ->
  share_add K (share_of K m (mvec K (msp_M m) r1) id) (share_of K m (mvec K (msp_M m) r2) id)
  = Some (share_of K m (mvec K (msp_M m) (vadd K r1 r2)) id).
Proof. exact @share_linear_add. Qed.
Print Assumptions C02_share_linear_add.

Theorem C02_share_linear_scale : forall F (K : fops F), flaws K -> forall (m : msp) r c id,
  share_scale K c (share_of K m (mvec K (msp_M m) r) id)
  = share_of K m (mvec K (msp_M m) (smul K c r)) id.
Proof. exact @share_linear_scale. Qed.
Print Assumptions C02_share_linear_scale.

(* converting to additive form over any accepted quorum (minimal or not) gives values that sum to the secret *)
Theorem C02_to_additive_sums : forall F (K : fops F), flaws K -> forall (m : msp) r ids,
  wf_msp m -> NoDup ids -> length r = msp_D m -> accepts K m ids = true ->
  exists f : N -> F,
    (forall id, In id ids ->
       to_additive K m (share_of K m (mvec K (msp_M m) r) id) ids = Some (f id)) /\
    fsumf K f ids = nth 0 r (f0 K).
Proof. exact @to_additive_dealt. Qed.
Print Assumptions C02_to_additive_sums.
