(* C02 — Exactly the qualified sets can reconstruct; unqualified sets learn nothing.
   Property theorems only; proofs are in proofs/{Span,Msp,Kw,Families}_proofs.v.  The models
   (model/{Access,Msp,Kw,Schemes}.v) are hand-written after the code and tied to it by the
   correspondence check (harness/cmd/c02).  Every theorem holds for every field (flaws K). *)
From Coq Require Import List NArith ZArith Arith Bool.
Import ListNotations.
Require Import V.base.Fld V.base.ZpField V.model.LinAlg V.model.Poly V.model.Interp V.model.Access V.model.Msp V.model.Kw V.model.Schemes.
Require Import V.proofs.Span_proofs V.proofs.Msp_proofs V.proofs.Kw_proofs V.proofs.Families_proofs V.proofs.Gate_proofs V.proofs.Hier_proofs V.proofs.Tassa_proofs V.proofs.Schemes_proofs.

(* ---- generic: every MSP (any matrix, any labelling — ideal or not), every field ------------- *)

(* Accepts(S)  <->  the IDs of S all own rows, and e0 is a linear combination of the rows of S *)
Theorem C02_accepts_iff_span : forall F (K : fops F), flaws K -> forall (m : msp) ids, wf_msp m ->
  (accepts K m ids = true <->
   exists rows, sel_rows m ids = Some rows /\
                in_span K (msp_D m) (sub_rows (msp_M m) rows) (target K m)).
Proof. exact @accepts_iff_span. Qed.
Print Assumptions C02_accepts_iff_span.

(* an accepted set reconstructs the dealt secret r_0: shares listed in any order, holders owning
   any number of rows.  (Listing a holder twice is refused by the code — DotProduct length check —
   hence NoDup.) *)
Theorem C02_reconstruct_correct : forall F (K : fops F), flaws K -> forall (m : msp) r ids,
  wf_msp m -> NoDup ids -> length r = msp_D m -> accepts K m ids = true ->
  reconstruct K m (map (share_of K m (mvec K (msp_M m) r)) ids) = Some (nth 0 r (f0 K)).
Proof. exact @reconstruct_dealt. Qed.
Print Assumptions C02_reconstruct_correct.

(* a rejected ID list never reconstructs, whatever share values are presented *)
Theorem C02_reconstruct_rejected : forall F (K : fops F) (m : msp) (shares : list (share (F:=F))),
  accepts K m (map fst shares) = false -> reconstruct K m shares = None.
Proof. exact @reconstruct_rejected. Qed.
Print Assumptions C02_reconstruct_rejected.

(* privacy: for a rejected set of holders, every secret s' is consistent with the shares the set owns *)
Theorem C02_privacy : forall F (K : fops F), flaws K -> forall (m : msp) ids r s', wf_msp m ->
  (forall id, In id ids -> In id (msp_lab m)) ->
  accepts K m ids = false -> length r = msp_D m ->
  exists r', length r' = msp_D m /\ nth 0 r' (f0 K) = s' /\
    forall id, In id ids ->
      share_of K m (mvec K (msp_M m) r') id = share_of K m (mvec K (msp_M m) r) id.
Proof. exact @privacy. Qed.
Print Assumptions C02_privacy.

(* the privacy witness: rejection is equivalent to a kernel vector of the selected rows with first
   coordinate 1 (the correspondence also evaluates Accepts on the implementation's matrices) *)
Theorem C02_rejects_kernel : forall F (K : fops F), flaws K -> forall (m : msp) ids rows, wf_msp m ->
  sel_rows m ids = Some rows -> accepts K m ids = false ->
  exists w, length w = msp_D m /\ in_ker K (sub_rows (msp_M m) rows) w /\ nth 0 w (f0 K) = f1 K.
Proof. exact @rejects_kernel. Qed.
Print Assumptions C02_rejects_kernel.

Theorem C02_kernel_rejects : forall F (K : fops F), flaws K -> forall (m : msp) ids rows w, wf_msp m ->
  sel_rows m ids = Some rows ->
  in_ker K (sub_rows (msp_M m) rows) w -> nth 0 w (f0 K) = f1 K ->
  accepts K m ids = false.
Proof. exact @kernel_rejects. Qed.
Print Assumptions C02_kernel_rejects.

Theorem C02_monotone : forall F (K : fops F), flaws K -> forall (m : msp) ids ids', wf_msp m ->
  incl ids ids' -> (forall id, In id ids' -> In id (msp_lab m)) ->
  accepts K m ids = true -> accepts K m ids' = true.
Proof. exact @monotone. Qed.
Print Assumptions C02_monotone.

(* shares are linear *)
Theorem C02_share_linear_add : forall F (K : fops F), flaws K -> forall (m : msp) r1 r2 id, length r1 = length r2 ->
  share_add K (share_of K m (mvec K (msp_M m) r1) id) (share_of K m (mvec K (msp_M m) r2) id)
  = Some (share_of K m (mvec K (msp_M m) (vadd K r1 r2)) id).
Proof. exact @share_linear_add. Qed.
Print Assumptions C02_share_linear_add.

Theorem C02_share_linear_scale : forall F (K : fops F), flaws K -> forall (m : msp) r c id,
  share_scale K c (share_of K m (mvec K (msp_M m) r) id)
  = share_of K m (mvec K (msp_M m) (smul K c r)) id.
Proof. exact @share_linear_scale. Qed.
Print Assumptions C02_share_linear_scale.

(* converting to additive form over any accepted quorum (minimal or not) gives values that sum to the secret *)
Theorem C02_to_additive_sums : forall F (K : fops F), flaws K -> forall (m : msp) r ids,
  wf_msp m -> NoDup ids -> length r = msp_D m -> accepts K m ids = true ->
  exists f : N -> F,
    (forall id, In id ids ->
       to_additive K m (share_of K m (mvec K (msp_M m) r) id) ids = Some (f id)) /\
    fsumf K f ids = nth 0 r (f0 K).
Proof. exact @to_additive_dealt. Qed.
Print Assumptions C02_to_additive_sums.

(* ---- per family: the induced MSP accepts exactly the qualified sets ----------------------------------
   (for ID lists of holders that own a row of the MSP; any order, repetitions allowed) *)

(* threshold / Vandermonde.  Hypothesis: the nodes FromUint64(id) are pairwise distinct and non-zero
   in the field — true for distinct non-zero uint64 IDs whenever the field order exceeds 2^64 *)
Theorem C02_threshold_exact : forall F (K : fops F), flaws K -> forall (fromN : N -> F) t ps (m : msp) ids,
  induced_thr K fromN t ps = Some m ->
  NoDup (map fromN (nodupN ps)) -> (forall id, In id ps -> fromN id <> f0 K) ->
  (forall id, In id ids -> In id (msp_lab m)) ->
  accepts K m ids = is_qualified (Thr t ps) ids.
Proof. exact @thr_accepts_iff. Qed.
Print Assumptions C02_threshold_exact.

Theorem C02_unanimity_exact : forall F (K : fops F), flaws K -> forall ps (m : msp) ids,
  induced_una K ps = Some m ->
  (forall id, In id ids -> In id (msp_lab m)) ->
  accepts K m ids = is_qualified (Una ps) ids.
Proof. exact @una_accepts_iff. Qed.
Print Assumptions C02_unanimity_exact.

(* CNF.  A shareholder contained in every maximal unqualified set owns no row (known finding
   cnf-holder-without-rows); the statement is about lists of row-owning holders *)
Theorem C02_cnf_exact : forall F (K : fops F), flaws K -> forall mus (m : msp) ids,
  induced_cnf K mus = Some m ->
  (forall id, In id ids -> In id (msp_lab m)) ->
  accepts K m ids = is_qualified (Cnf mus) ids.
Proof. exact @cnf_accepts_iff_closed. Qed.
Print Assumptions C02_cnf_exact.

(* threshold-gate trees (Liu-Cao-Wong Convert): every tree accepted by checkTree — any depth, leaves may
   repeat in different gates (non-ideal MSP).  B bounds the fan-in of every gate (check_fan); hypothesis:
   the nodes 1..fan-in that convert gives to the children of a gate, FromUint64(z+a) - FromUint64(z) + 1,
   are pairwise distinct and non-zero in the field for a < B (true when the field characteristic exceeds B) *)
Theorem C02_gate_exact : forall F (K : fops F), flaws K -> forall (fromN : N -> F) (B : nat),
  (forall z a b, (a < B)%nat -> (b < B)%nat -> gx K fromN z (z + a) = gx K fromN z (z + b) -> a = b) ->
  (forall z a, (a < B)%nat -> gx K fromN z (z + a) <> f0 K) ->
  forall root (m : msp) ids,
  check_tree root = true -> check_fan B root = true ->
  induced_gate K fromN root = Some m ->
  (forall id, In id ids -> In id (msp_lab m)) ->
  accepts K m ids = tree_eval ids root.
Proof. exact @gate_exact. Qed.
Print Assumptions C02_gate_exact.

(* the depth-1 case with the hypotheses spelled out for one gate *)
Theorem C02_gate_flat_exact : forall F (K : fops F), flaws K -> forall (fromN : N -> F) t leaves (m : msp) ids,
  induced_gate K fromN (Gate t (map Leaf leaves)) = Some m ->
  NoDup leaves -> (0 < t)%nat -> leaves <> [] ->
  (forall i j, (i < length leaves)%nat -> (j < length leaves)%nat -> gate_node K fromN i = gate_node K fromN j -> i = j) ->
  (forall i, (i < length leaves)%nat -> gate_node K fromN i <> f0 K) ->
  (forall id, In id ids -> In id leaves) ->
  accepts K m ids = tree_eval ids (Gate t (map Leaf leaves)).
Proof. exact @gate_flat_exact. Qed.
Print Assumptions C02_gate_flat_exact.

(* ---- hierarchical (Tassa / Birkhoff) ------------------------------------------------------------------
   FULL STATEMENT:  induced_hier K fromN q levels = Some m -> (forall id, In id ids -> In id (msp_lab m)) ->
                    accepts K m ids = hier_eval ids [] levels.
   It is FALSE over an arbitrary field (C02_hier_exact_any_field_refuted below: Z_7, where 1 = 2*4); for the
   library's fields it is Tassa's theorem, which is not proved here.  Proved:
     - any MSP: D selected rows with non-zero determinant are accepted (C02_accepts_if_nonsingular);
     - the rows an ID list selects ARE the Birkhoff matrix of its members as the code builds it, so a
       non-singular Birkhoff matrix of k members gives acceptance (C02_hier_accepts_if_birkhoff_nonsingular);
     - qualified => accepted relative to the single named hypothesis tassa_wellposed (C02_hier_qualified_accepted);
     - unqualified by the count of the FIRST level => rejected, no hypothesis (C02_hier_exact_partial); for the
       other levels rejection cannot be proved without a field-size hypothesis (same counter-example);
     - the dedicated Tassa dealing is the KW dealing of this MSP, and Tassa Reconstruct returns the dealt
       secret whenever the Birkhoff matrix of the presented holders is non-singular. *)
Theorem C02_accepts_if_nonsingular : forall F (K : fops F), flaws K -> forall (m : msp) ids, wf_msp m -> ids <> [] ->
  (forall id, In id ids -> In id (msp_lab m)) ->
  length (sel_filter m ids) = msp_D m ->
  determinant K (sub_rows (msp_M m) (sel_filter m ids)) <> f0 K ->
  accepts K m ids = true.
Proof. exact @accepts_if_nonsingular. Qed.
Print Assumptions C02_accepts_if_nonsingular.

Theorem C02_hier_accepts_if_birkhoff_nonsingular : forall F (K : fops F), flaws K -> forall (fromN : N -> F) q levels (m : msp) ids,
  induced_hier K fromN q levels = Some m -> ids <> [] ->
  (forall id, In id ids -> In id (msp_lab m)) ->
  length (members levels ids) = hier_k levels ->
  determinant K (build_birkhoff K (map fromN (members levels ids))
                   (map (fun id => N.of_nat (rank0 levels id)) (members levels ids)) (hier_k levels)) <> f0 K ->
  accepts K m ids = true.
Proof. exact @hier_accepts_if_birkhoff_nonsingular. Qed.
Print Assumptions C02_hier_accepts_if_birkhoff_nonsingular.

(* qualified => accepted; the hypothesis tassa_wellposed (Tassa 2007, Thm 3: an authorised set contains k
   holders with a non-singular Birkhoff matrix when IDs increase with the level and the field is large —
   the condition hierarchical.CheckConstraints tests) stays a visible hypothesis *)
Theorem C02_hier_qualified_accepted : forall F (K : fops F), flaws K -> forall (fromN : N -> F) q levels,
  (* tassa_wellposed: *)
  (forall S, (forall id, In id S -> In id (hier_holders levels)) -> hier_eval S [] levels = true ->
     exists T, T <> [] /\ incl T S /\ length (members levels T) = hier_k levels /\
       determinant K (build_birkhoff K (map fromN (members levels T))
                        (map (fun id => N.of_nat (rank0 levels id)) (members levels T)) (hier_k levels)) <> f0 K) ->
  forall (m : msp) ids,
  induced_hier K fromN q levels = Some m ->
  (forall id, In id ids -> In id (msp_lab m)) ->
  is_qualified (Hier levels) ids = true -> accepts K m ids = true.
Proof. exact @hier_qualified_accepted. Qed.
Print Assumptions C02_hier_qualified_accepted.

(* the dedicated scheme deals exactly the KW shares of the hierarchical MSP: Tassa inherits
   reconstruct_correct / privacy / share_linear / to_additive_sums of the generic theorems *)
Theorem C02_tassa_deal_is_kw_deal : forall F (K : fops F), flaws K -> forall (fromN : N -> F) q levels (m : msp) cs id v,
  induced_hier K fromN q levels = Some m -> NoDup (flat_map snd levels) ->
  length cs = hier_k levels ->
  In (id, v) (tassa_deal K fromN levels cs) ->
  share_of K m (mvec K (msp_M m) cs) id = (id, [v]).
Proof. exact @tassa_deal_is_kw_deal. Qed.
Print Assumptions C02_tassa_deal_is_kw_deal.

(* Tassa Reconstruct (sort the nodes, Cramer's rule, degree check) returns the dealt secret whenever the
   Birkhoff matrix of the presented (sorted) nodes is non-singular *)
Theorem C02_tassa_reconstruct_correct_if_nonsingular : forall F (K : fops F), flaws K -> forall (fromN : N -> F)
  (fkey : F -> Z) levels cs S,
  NoDup S -> (2 <= length S)%nat -> incl S (flat_map snd levels) ->
  is_qualified (Hier levels) S = true ->
  length cs = hier_k levels -> (0 < hier_k levels)%nat -> nth (pred (hier_k levels)) cs (f0 K) <> f0 K ->
  (hier_k levels <= length S)%nat ->
  let xs := map fromN S in
  let js := map (fun id => N.of_nat (rank0 levels id)) S in
  let ys := map (fun id => peval K (pderiv_iter K (rank0 levels id) cs) (fromN id)) S in
  let nodes := sort_nodes fkey (combine (combine xs js) ys) in
  determinant K (build_birkhoff K (map (fun n : F * N * F => fst (fst n)) nodes)
                                  (map (fun n : F * N * F => snd (fst n)) nodes) (length S)) <> f0 K ->
  tassa_reconstruct K fromN fkey levels (combine S ys) = Some (nth 0 cs (f0 K)).
Proof. exact @tassa_reconstruct_correct_if_nonsingular. Qed.
Print Assumptions C02_tassa_reconstruct_correct_if_nonsingular.

(* unqualified by the first level's count => rejected (no hypothesis) *)
Theorem C02_hier_exact_partial : forall F (K : fops F), flaws K -> forall (fromN : N -> F) q t1 ps1 rest (m : msp) ids,
  induced_hier K fromN q ((t1, ps1) :: rest) = Some m ->
  hier_incr 0 ((t1, ps1) :: rest) ->
  (forall id, In id ids -> In id (msp_lab m)) ->
  (forall a b, In a ids -> In b ids -> In a ps1 -> In b ps1 -> fromN a = fromN b -> a = b) ->
  (forall id, In id ids -> In id ps1 -> fromN id <> f0 K) ->
  (card (interN ps1 ids) < t1)%nat ->
  accepts K m ids = false.
Proof. exact @hier_first_level_rejected. Qed.
Print Assumptions C02_hier_exact_partial.

(* ---- dedicated schemes ------------------------------------------------------------------------------------ *)

(* Shamir: any >= t distinct holders reconstruct the constant term (nodes distinct in the field) *)
Theorem C02_shamir_correct : forall F (K : fops F), flaws K -> forall (fromN : N -> F) t ps cs ids,
  (forall a b, In a ps -> In b ps -> fromN a = fromN b -> a = b) ->
  NoDup ids -> incl ids ps -> (t <= length ids)%nat -> length cs = t ->
  shamir_reconstruct K fromN t ps (map (fun id => (id, poly_eval K cs (fromN id))) ids) = Some (nth 0 cs (f0 K)).
Proof. exact @shamir_correct. Qed.
Print Assumptions C02_shamir_correct.

Theorem C02_shamir_exact : forall F (K : fops F) (fromN : N -> F) t ps (shares : list (N * F)),
  is_qualified (Thr t ps) (map fst (dedup_shares K shares)) = false ->
  shamir_reconstruct K fromN t ps shares = None.
Proof. exact @shamir_exact. Qed.
Print Assumptions C02_shamir_exact.

Theorem C02_shamir_privacy : forall F (K : fops F), flaws K -> forall (fromN : N -> F) t cs ids s',
  (forall a b, In a ids -> In b ids -> fromN a = fromN b -> a = b) ->
  (forall id, In id ids -> fromN id <> f0 K) ->
  NoDup ids -> (length ids < t)%nat -> length cs = t ->
  exists cs', length cs' = t /\ nth 0 cs' (f0 K) = s' /\
    forall id, In id ids -> poly_eval K cs' (fromN id) = poly_eval K cs (fromN id).
Proof. exact @shamir_privacy. Qed.
Print Assumptions C02_shamir_privacy.

(* Shamir shares converted to additive form over any quorum of >= t distinct holders sum to the secret *)
Theorem C02_shamir_to_additive_sums : forall F (K : fops F), flaws K -> forall (fromN : N -> F) cs Q,
  (forall a b, In a Q -> In b Q -> fromN a = fromN b -> a = b) ->
  NoDup Q -> (length cs <= length Q)%nat ->
  exists f : N -> F,
    (forall id, In id Q -> shamir_to_additive K fromN (id, poly_eval K cs (fromN id)) Q = Some (f id)) /\
    fsumN K f Q = nth 0 cs (f0 K).
Proof. exact @shamir_to_additive_sums. Qed.
Print Assumptions C02_shamir_to_additive_sums.

Theorem C02_additive_correct : forall F (K : fops F), flaws K -> forall ps (shares : list (N * F)) s rs,
  NoDup (map fst shares) -> seteqb (map fst shares) ps = true ->
  map snd shares = sum_to_secret K s rs ->
  additive_reconstruct K ps shares = Some s.
Proof. exact @additive_correct. Qed.
Print Assumptions C02_additive_correct.

Theorem C02_additive_privacy : forall F (K : fops F), flaws K -> forall (l : list F) j s', (j < length l)%nat ->
  exists l', length l' = length l /\ fsum K l' = s' /\ forall i, i <> j -> nth i l' (f0 K) = nth i l (f0 K).
Proof. exact @additive_privacy. Qed.
Print Assumptions C02_additive_privacy.

(* ISN (replicated additive sharing over the maximal unqualified sets) *)
Theorem C02_isn_correct : forall F (K : fops F), flaws K -> forall p mus (summands : list F) ids,
  length summands = length mus -> is_qualified p ids = true ->
  (forall k, (k < length mus)%nat -> exists id, In id ids /\ ~ In id (nth k mus [])) ->
  isn_reconstruct K p mus (isn_deal mus summands ids) = Some (fsum K summands).
Proof. exact @isn_correct. Qed.
Print Assumptions C02_isn_correct.

Theorem C02_isn_exact : forall F (K : fops F) p mus (shares : list (isn_share (F:=F))),
  is_qualified p (map fst shares) = false -> isn_reconstruct K p mus shares = None.
Proof. exact @isn_exact. Qed.
Print Assumptions C02_isn_exact.

(* holders that all lie in one maximal unqualified set never see that set's summand *)
Theorem C02_isn_privacy : forall F (K : fops F), flaws K -> forall mus (summands : list F) ids k d,
  length summands = length mus -> (k < length summands)%nat ->
  (forall id, In id ids -> In id (nth k mus [])) ->
  isn_deal mus (upd k (fadd K (nth k summands (f0 K)) d) summands) ids = isn_deal mus summands ids /\
  fsum K (upd k (fadd K (nth k summands (f0 K)) d) summands) = fadd K (fsum K summands) d.
Proof. exact @isn_privacy. Qed.
Print Assumptions C02_isn_privacy.

(* ISN shares converted to additive form over a quorum that every maximal unqualified set misses
   (i.e. a qualified quorum) sum to the secret.  The second hypothesis excludes members that lie in every
   maximal unqualified set: their share is empty and the code panics (finding isn-empty-share-toadditive-panic) *)
Theorem C02_isn_to_additive_sums : forall F (K : fops F), flaws K -> forall mus (summands : list F) Q,
  length summands = length mus -> NoDup Q ->
  (forall k, (k < length mus)%nat -> exists id, In id Q /\ ~ In id (nth k mus [])) ->
  (forall id, In id Q -> exists k, (k < length mus)%nat /\ ~ In id (nth k mus [])) ->
  exists f : N -> F,
    (forall id, In id Q ->
       isn_to_additive K mus (id, filter (fun kv => negb (memN id (nth (fst kv) mus []))) (combine (seq 0 (length mus)) summands)) Q = Some (f id)) /\
    fsumN K f Q = fsum K summands.
Proof. exact @isn_to_additive_sums. Qed.
Print Assumptions C02_isn_to_additive_sums.

(* ---- hypotheses are satisfiable: threshold (2,3) over Z_7, a CNF and a unanimity MSP ------------------ *)
Definition K7 := ZpS 7 (prime_gt0 7 prime_7).
Definition fromN7 (n : N) := zp_of 7 (prime_gt0 7 prime_7) (Z.of_N n).

Example C02_nonvacuous :
  (exists m, induced_thr K7 fromN7 2 [3;1;2]%N = Some m /\
             accepts K7 m [1;3]%N = true /\ accepts K7 m [2]%N = false /\
             reconstruct K7 m (map (share_of K7 m (mvec K7 (msp_M m) [fromN7 5; fromN7 4])) [3;1]%N) = Some (fromN7 5)) /\
  (exists m, induced_cnf K7 [[1;2];[2;3]]%N = Some m /\ accepts K7 m [1;3]%N = true /\ accepts K7 m [3]%N = false) /\
  (exists m, induced_una K7 [1;2;3]%N = Some m /\ accepts K7 m [1;2;3]%N = true /\ accepts K7 m [1;3]%N = false) /\
  (exists m, induced_gate K7 fromN7 (Gate 2 [Leaf 1; Gate 1 [Leaf 2; Leaf 3]; Leaf 2])%N = Some m /\
             check_tree (Gate 2 [Leaf 1; Gate 1 [Leaf 2; Leaf 3]; Leaf 2])%N = true /\
             check_fan 4 (Gate 2 [Leaf 1; Gate 1 [Leaf 2; Leaf 3]; Leaf 2])%N = true /\
             accepts K7 m [3;1]%N = true /\ accepts K7 m [2]%N = true /\ accepts K7 m [3]%N = false).
Proof.
  split; [|split; [|split]]; eexists; (split; [vm_compute; reflexivity|]); repeat split; vm_compute; reflexivity.
Qed.

(* the hierarchical exactness statement is false over an arbitrary field: over Z_7 the policy
   (1 of {1}) and (3 of {1,4,5}) has the unqualified set {1,4} accepted (1 = 2*4 in Z_7), although
   q = 2^256 passes the CheckConstraints guard — the guard is only meaningful when q is the field order *)
Example C02_hier_exact_any_field_refuted :
  exists m, induced_hier K7 fromN7 (2^256) [(1%nat, [1%N]); (3%nat, [4%N; 5%N])] = Some m /\
            is_qualified (Hier [(1%nat, [1%N]); (3%nat, [4%N; 5%N])]) [1%N; 4%N] = false /\
            accepts K7 m [1%N; 4%N] = true.
Proof. eexists. split; [vm_compute; reflexivity|]. split; vm_compute; reflexivity. Qed.

(* the hypotheses of the Tassa theorems are satisfiable: two levels over Z_7, dealer polynomial 5 + 3X
   (field elements compared through their representatives) *)
Example C02_tassa_nonvacuous :
  let levels := [(1%nat, [1%N; 2%N]); (2%nat, [3%N; 4%N])] in
  let cs := [fromN7 5; fromN7 3] in
  (exists m, induced_hier K7 fromN7 (2^256) levels = Some m /\
             accepts K7 m [3%N; 1%N] = true /\ accepts K7 m [3%N; 4%N] = false /\
             map zp_val (snd (share_of K7 m (mvec K7 (msp_M m) cs) 3%N)) = [3%Z]) /\
  map (fun s => (fst s, zp_val (snd s))) (tassa_deal K7 fromN7 levels cs) = [(1%N, 1%Z); (2%N, 4%Z); (3%N, 3%Z); (4%N, 3%Z)] /\
  option_map zp_val (tassa_reconstruct K7 fromN7 (fun a => zp_val a) levels [(3%N, fromN7 3); (1%N, fromN7 1)]) = Some 5%Z /\
  tassa_reconstruct K7 fromN7 (fun a => zp_val a) levels [(3%N, fromN7 3); (4%N, fromN7 3)] = None.
Proof.
  cbv zeta. split; [eexists; split; [vm_compute; reflexivity|]; repeat split; vm_compute; reflexivity|].
  repeat split; vm_compute; reflexivity.
Qed.
