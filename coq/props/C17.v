(* C17 — Big-number and modular arithmetic return the mathematically correct
   value.  Property theorems only; proofs are in proofs/NumTheory_proofs.v, the
   executable model (tied to /repo by the correspondence check) in
   model/NumTheory.v.  For add/sub/mul/divmod/exp/gcd/lcm/compare/shifts and
   rationals the model IS Coq's Z arithmetic (nothing to prove; the
   correspondence is the check); the theorems below cover the algorithms whose
   algorithm matters and the capacity/byte conventions.  All statements are for
   all operands (no size bounds). *)
From Coq Require Import List ZArith Znumtheory Bool Zeuclid.
Import ListNotations.
Require Import V.base.Bytes V.model.NumTheory V.proofs.NumTheory_proofs.
Local Open Scope Z_scope.

(* ---- CRT: crt.Params.Recombine (Garner) for coprime moduli returns THE residue
   modulo p*q with the given residues (second residue reduced, capacity as
   computed by Precompute: at least bitlen(p)+bitlen(q)) *)
Theorem C17_crt_recombine_correct : forall p q qinv cap mp mq,
  0 < p -> 0 < q -> Z.gcd p q = 1 ->
  crt_precompute p q = Some qinv ->
  0 <= mq < q -> p * q <= pow2 cap ->
  let r := crt_recombine p q qinv cap mp mq in
  0 <= r < p * q /\ r mod p = mp mod p /\ r mod q = mq /\
  (forall r', 0 <= r' < p * q -> r' mod p = mp mod p -> r' mod q = mq -> r' = r).
Proof. exact crt_recombine_correct. Qed.
Print Assumptions C17_crt_recombine_correct.

(* ---- crt_multi.go RecombineSerial (Garner, any number of factors): whenever it
   returns (all inverses exist, i.e. the factors are pairwise coprime) and the
   first residue is reduced, the result lies below the product of the factors
   and has every given residue *)
Theorem C17_crt_multi_serial_correct : forall ps rs y,
  crt_multi_serial ps rs = Some y -> Forall (fun p => 0 < p) ps ->
  (match ps, rs with p0 :: _, r0 :: _ => 0 <= r0 < p0 | _, _ => True end) ->
  0 <= y < prodl ps /\ Forall2 (fun p r => y mod p = r mod p) ps rs.
Proof. exact crt_multi_serial_correct. Qed.
Print Assumptions C17_crt_multi_serial_correct.

(* ---- modular inverse: non-invertibility is reported exactly when it holds *)
Theorem C17_modinv_iff_coprime : forall x m, 1 < m ->
  ((exists r, modinv x m = Some r) <-> Z.gcd x m = 1).
Proof. exact modinv_iff_coprime. Qed.
Print Assumptions C17_modinv_iff_coprime.

Theorem C17_modinv_sound : forall x m r, 0 < m ->
  modinv x m = Some r -> 0 <= r < m /\ (r * x) mod m = 1.
Proof. exact modinv_sound. Qed.
Print Assumptions C17_modinv_sound.

(* ModDiv (odd modulus: multiplication by the inverse; even modulus: solution of
   y*u = x modulo m/gcd): whatever is returned solves y * u = x (mod m) *)
Theorem C17_moddiv_sound : forall x y m u, 0 < m -> moddiv x y m = Some u -> (y * u) mod m = x mod m.
Proof. exact moddiv_sound. Qed.
Print Assumptions C17_moddiv_sound.

(* the logarithmic fuel of the extended Euclid loop always suffices *)
Theorem C17_egcd_fuel_enough : forall m x, 0 < m ->
  exists res, egcd (egcd_fuel m) m (x mod m) 0 1 = Some res.
Proof. exact egcd_fuel_enough. Qed.
Print Assumptions C17_egcd_fuel_enough.

(* ---- modular square root: whatever is returned squares back (every modulus,
   prime or composite branch, including Tonelli-Shanks: from the final check) *)
Theorem C17_sqrt_returned_squares_back : forall x m r,
  0 < m -> modsqrt x m = SqrtOk r -> (r * r) mod m = x mod m.
Proof. exact sqrt_returned_squares_back. Qed.
Print Assumptions C17_sqrt_returned_squares_back.

(* ---- ... and for a prime p = 3 (mod 4) a root is returned for every quadratic
   residue.  Euler's criterion (the half that follows from Fermat's little
   theorem) stays a visible hypothesis.  Full statement (also p = 1 (mod 4),
   Tonelli-Shanks) not proved: partial. *)
Theorem C17_sqrt_prime_complete :
  (forall p y, prime p -> 2 < p -> y mod p <> 0 -> ((y * y) ^ ((p - 1) / 2)) mod p = 1) ->
  forall x p, prime p -> is_prime_mr p = true -> p mod 4 = 3 ->
  (exists y, (y * y) mod p = x mod p) -> exists r, modsqrt x p = SqrtOk r.
Proof. exact sqrt_prime_complete. Qed.
Print Assumptions C17_sqrt_prime_complete.

(* ---- Jacobi symbol: the binary loop of jacobi_purego.go (with the repaired
   reduction of a negative numerator, F1) returns the Jacobi symbol, for any
   specification [jac] obeying periodicity, multiplicativity, the value at 0,
   the second supplementary law and quadratic reciprocity.  Those laws are not
   available in the installed libraries and stay hypotheses: partial.
   Full statement: the same with jac := the Jacobi symbol and no hypotheses. *)
Theorem C17_jacobi_loop_correct_partial : forall jac : Z -> Z -> Z,
  (forall a b, 0 < b -> Z.odd b = true -> jac a b = jac (a mod b) b) ->
  (forall a a' b, 0 < b -> Z.odd b = true -> jac (a * a') b = jac a b * jac a' b) ->
  (forall b, 0 < b -> Z.odd b = true -> jac 0 b = if b =? 1 then 1 else 0) ->
  (forall b, 0 < b -> Z.odd b = true -> jac 2 b = jacobi_tab b) ->
  (forall a b, 0 < a -> 0 < b -> Z.odd a = true -> Z.odd b = true ->
     jac a b = (if (a mod 4 =? 3) && (b mod 4 =? 3) then -1 else 1) * jac b a) ->
  forall fuel a b ret r,
  jacobi_loop fuel a b ret = Some r -> 0 <= a -> 0 < b -> Z.odd b = true ->
  r = ret * jac a b.
Proof. exact jacobi_loop_correct. Qed.
Print Assumptions C17_jacobi_loop_correct_partial.

Theorem C17_jacobi_correct_partial : forall jac : Z -> Z -> Z,
  (forall a b, 0 < b -> Z.odd b = true -> jac a b = jac (a mod b) b) ->
  (forall a a' b, 0 < b -> Z.odd b = true -> jac (a * a') b = jac a b * jac a' b) ->
  (forall b, 0 < b -> Z.odd b = true -> jac 0 b = if b =? 1 then 1 else 0) ->
  (forall b, 0 < b -> Z.odd b = true -> jac 2 b = jacobi_tab b) ->
  (forall a b, 0 < a -> 0 < b -> Z.odd a = true -> Z.odd b = true ->
     jac a b = (if (a mod 4 =? 3) && (b mod 4 =? 3) then -1 else 1) * jac b a) ->
  forall x y j, jacobi x y = Some j -> j = jac x y.
Proof. exact jacobi_correct. Qed.
Print Assumptions C17_jacobi_correct_partial.

(* a value is returned for every odd positive y: the logarithmic fuel of the
   model's loop is never exhausted (the first component at least halves every
   two iterations) *)
Theorem C17_jacobi_total : forall x y, 0 < y -> Z.odd y = true -> exists j, jacobi x y = Some j.
Proof. exact jacobi_total. Qed.
Print Assumptions C17_jacobi_total.

Theorem C17_jacobi_refuses : forall x y, y <= 0 \/ Z.even y = true -> jacobi x y = None.
Proof. exact jacobi_refuses. Qed.
Print Assumptions C17_jacobi_refuses.

(* ---- modular exponentiation (square and multiply) is exponentiation *)
Theorem C17_modpow_spec : forall b e m, 0 < m -> 0 <= e -> modpow b e m = (b ^ e) mod m.
Proof. exact modpow_spec. Qed.
Print Assumptions C17_modpow_spec.

(* ---- numct capacity semantics *)
Theorem C17_trunc_range : forall cap v, 0 <= trunc cap v < pow2 cap.
Proof. exact trunc_range. Qed.
Print Assumptions C17_trunc_range.

Theorem C17_trunc_land : forall cap v, 0 <= cap -> trunc cap v = Z.land v (Z.ones cap).
Proof. exact trunc_land. Qed.
Print Assumptions C17_trunc_land.

Theorem C17_trunc_add : forall cap x y, trunc cap (trunc cap x + trunc cap y) = trunc cap (x + y).
Proof. exact trunc_add. Qed.
Print Assumptions C17_trunc_add.

Theorem C17_trunc_sub : forall cap x y, trunc cap (trunc cap x - trunc cap y) = trunc cap (x - y).
Proof. exact trunc_sub. Qed.
Print Assumptions C17_trunc_sub.

Theorem C17_trunc_mul : forall cap x y, trunc cap (trunc cap x * trunc cap y) = trunc cap (x * y).
Proof. exact trunc_mul. Qed.
Print Assumptions C17_trunc_mul.

Theorem C17_add_cap_default_exact : forall x ax y ay,
  0 <= ax -> 0 <= ay -> 0 <= x < pow2 ax -> 0 <= y < pow2 ay -> add_cap x ax y ay (-1) = x + y.
Proof. exact add_cap_default_exact. Qed.
Print Assumptions C17_add_cap_default_exact.

Theorem C17_mul_cap_default_exact : forall x ax y ay,
  0 <= ax -> 0 <= ay -> 0 <= x < pow2 ax -> 0 <= y < pow2 ay -> mul_cap x ax y ay (-1) = x * y.
Proof. exact mul_cap_default_exact. Qed.
Print Assumptions C17_mul_cap_default_exact.

Theorem C17_sub_cap_spec : forall x ax y ay cap,
  let c := dflt cap (Z.max ax ay) in
  0 <= sub_cap x ax y ay cap < pow2 c /\ (pow2 c | sub_cap x ax y ay cap - (x - y)).
Proof. exact sub_cap_spec. Qed.
Print Assumptions C17_sub_cap_spec.

Theorem C17_lsh_cap_default_exact : forall x ax s,
  0 <= ax -> 0 <= s -> 0 <= x < pow2 ax -> lsh_cap x ax s (-1) = x * 2 ^ s.
Proof. exact lsh_cap_default_exact. Qed.
Print Assumptions C17_lsh_cap_default_exact.

Theorem C17_rsh_cap_default_exact : forall x ax s,
  0 <= ax -> 0 <= s -> 0 <= x < pow2 ax -> rsh_cap x ax s (-1) = x / 2 ^ s.
Proof. exact rsh_cap_default_exact. Qed.
Print Assumptions C17_rsh_cap_default_exact.

Theorem C17_mod_symmetric_spec : forall x m, 0 < m ->
  (m | mod_symmetric x m - x) /\ - m <= 2 * mod_symmetric x m < m.
Proof. exact mod_symmetric_spec. Qed.
Print Assumptions C17_mod_symmetric_spec.

(* ---- division conventions: EuclideanDiv has 0 <= r < |d| (unique), Div truncates *)
Theorem C17_eucdiv_spec : forall a d, d <> 0 ->
  a = d * ZEuclid.div a d + ZEuclid.modulo a d /\ 0 <= ZEuclid.modulo a d < Z.abs d.
Proof. exact eucdiv_spec. Qed.
Print Assumptions C17_eucdiv_spec.

Theorem C17_eucdiv_unique : forall a d q r, d <> 0 -> a = d * q + r -> 0 <= r < Z.abs d ->
  q = ZEuclid.div a d /\ r = ZEuclid.modulo a d.
Proof. exact eucdiv_unique. Qed.
Print Assumptions C17_eucdiv_unique.

Theorem C17_truncdiv_spec : forall a d, d <> 0 ->
  a = d * Z.quot a d + Z.rem a d /\ Z.abs (Z.rem a d) < Z.abs d /\ 0 <= Z.rem a d * a.
Proof. exact truncdiv_spec. Qed.
Print Assumptions C17_truncdiv_spec.

(* ---- rationals: the canonical form has a positive denominator, lowest terms, same value *)
Theorem C17_rat_canon_spec : forall a b, b <> 0 ->
  let '(n, d) := rat_canon a b in 0 < d /\ Z.gcd n d = 1 /\ n * b = a * d.
Proof. exact rat_canon_spec. Qed.
Print Assumptions C17_rat_canon_spec.

(* ---- byte conversions round trip *)
Theorem C17_be_value_be_bytes : forall k n, 0 <= k -> 0 <= n < 256 ^ k -> be_valueZ (be_bytesZ k n) = n.
Proof. exact be_valueZ_be_bytesZ. Qed.
Print Assumptions C17_be_value_be_bytes.

Theorem C17_nat_bytes_roundtrip : forall x ax, 0 <= ax -> 0 <= x < pow2 ax -> be_valueZ (nat_bytes x ax) = x.
Proof. exact nat_bytes_roundtrip. Qed.
Print Assumptions C17_nat_bytes_roundtrip.

Theorem C17_twos_roundtrip : forall x ax, 0 <= ax -> Z.abs x < pow2 ax -> twos_value (twos_bytes x ax) = x.
Proof. exact twos_roundtrip. Qed.
Print Assumptions C17_twos_roundtrip.

(* ---- hypotheses are satisfiable / definitions are not vacuous: concrete instances *)
Example C17_nonvacuous_crt :
  crt_precompute 7 11 = Some 2 /\ Z.gcd 7 11 = 1 /\ 7 * 11 <= pow2 7 /\
  crt_recombine 7 11 2 7 3 5 = 38 /\ 38 mod 7 = 3 /\ 38 mod 11 = 5.
Proof. vm_compute. repeat split; discriminate. Qed.

Example C17_nonvacuous_crt_multi :
  crt_multi_serial [3; 5; 7; 11] [2; 3; 2; 9] = Some 548 /\ crt_multi_parallel [3; 5; 7; 11] [2; 3; 2; 9] = Some 548 /\
  crt_multi_serial [3; 6] [1; 1] = None.
Proof. vm_compute. repeat split. Qed.

Example C17_nonvacuous_modinv :
  modinv 3 7 = Some 5 /\ modinv 6 9 = None /\ modinv (2^200 + 1) (2^521 - 1) <> None /\
  moddiv 4 6 8 = Some 2 /\ moddiv 3 6 8 = None /\ moddiv 5 3 7 = Some 4.
Proof. vm_compute. repeat split; discriminate. Qed.

Example C17_nonvacuous_sqrt :
  is_prime_mr 7 = true /\ 7 mod 4 = 3 /\ modsqrt 2 7 = SqrtOk 4 /\ modsqrt 3 7 = SqrtNone /\
  modsqrt 2 17 = SqrtOk 6 (* Tonelli-Shanks *) /\ modsqrt 4 15 = SqrtOk 2 /\ modsqrt 6 15 = SqrtNone.
Proof. vm_compute. repeat split. Qed.

(* F1's inputs: Jacobi(-1, 59) = -1, Jacobi(-8, 3) = 1 *)
Example C17_nonvacuous_jacobi :
  jacobi (-1) 59 = Some (-1) /\ jacobi (-8) 3 = Some 1 /\ jacobi 2 15 = Some 1 /\
  jacobi 1001 9907 = Some (-1) /\ jacobi 5 21 = Some 1 /\ jacobi 3 9 = Some 0 /\ jacobi 3 4 = None.
Proof. vm_compute. repeat split. Qed.

Example C17_nonvacuous_bytes :
  nat_bytes 4660 24 = [0; 18; 52] /\ twos_bytes (-2) 7 = [254] /\ twos_value [254] = -2 /\
  trunc 8 511 = 255 /\ sub_cap 1 8 2 8 (-1) = 255.
Proof. vm_compute. repeat split. Qed.
