(* C17 — Big-number and modular arithmetic return the mathematically correct
   value.  Property theorems only; proofs are in proofs/NumTheory_proofs.v. *)
From Coq Require Import List ZArith.
Import ListNotations.
Require Import V.base.Bytes V.model.NumTheory V.proofs.NumTheory_proofs.
Local Open Scope Z_scope.

Theorem C17_trunc_range : forall cap v, 0 <= trunc cap v < pow2 cap.
Proof. exact trunc_range. Qed.
Print Assumptions C17_trunc_range.
