spec("C13",
     gen=[],
     title="Element encodings are faithful; decoders admit only valid group elements",
     technique="Coq proof about a byte-exact executable model of every point/scalar codec (model/PointCodec.v) + correspondence of the extracted model with the Go decoders/encoders on structured and adversarial strings",
     level_text="(filled in below)",
     level_note="",
     partial=[],
     design_ref="§5 C13")
