spec("C16",
     gen=[],
     title="Encryption (Paillier, ElGamal) decrypts correctly; homomorphisms are exact",
     technique="Coq proof about an executable Z model of the Paillier public- and secret-key paths and of ElGamal in the exponent + correspondence against the implementation and a math/big textbook oracle",
     level_text="(filled in below)",
     level_note="",
     partial=[],
     design_ref="§5 C16")
