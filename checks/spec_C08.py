spec("C08",
     gen=["Hagrid"],
     title="Non-interactive proofs verify only for the right statement, prover and session",
     technique="Coq proof (Maurer's unified sigma protocol over arbitrary abelian groups with a homomorphism: completeness, special soundness of the coded extractor, coded simulator; Fiat-Shamir as the exact transcript operation sequence on the C19 transcript model: acceptance characterisation and rejection under any other session, transcript state, prover identity, statement, protocol name, commitment, challenge, response) + translator (hagrid framing) + correspondence: extracted model run on crypto/sha3 of its own transcript stream against the compiled verifiers, sigma level in the exponent",
     level_text="(filled below)",
     level_note="(filled below)",
     partial=[],
     design_ref="§5 C08")
