spec("C06",
     gen=[],
     title="Refresh, recovery and redistribution never change the key",
     technique="Coq proof about an executable model of HJKY zero sharing and the three redistribution rounds over an abstract linear sharing, with a history machine of epochs + correspondence: the extracted model is fed with the recorded random tapes of the real protocol runs and predicts every new share and verification-vector exponent",
     level_text="(filled in below)",
     level_note="",
     partial=[],
     design_ref="§5 C06")
