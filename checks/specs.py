"""Per-property specifications read by bin/check, bin/setup and bin/mkmanifest."""

SPECS = {}


def spec(id, **kw):
    kw["id"] = id
    kw.setdefault("name", id.lower())
    kw.setdefault("props", "props/%s.v" % id)
    kw.setdefault("extract", "Extract%s.v" % id)
    SPECS[id] = kw



import glob
import os

for _f in sorted(glob.glob(os.path.join(os.path.dirname(os.path.abspath(__file__)), "spec_C*.py"))):
    exec(compile(open(_f).read(), _f, "exec"), {"spec": spec})
