spec("C19",
     gen=["Hagrid"],
     title="Transcripts and hash-to-curve deterministic, unambiguous, domain-separated",
     technique="Coq proof (unique decodability of the regenerated hagrid framing, extraction-input injectivity, clone independence, RFC 9380 expander framing injectivity) + translator from hagrid.go + correspondence against cSHAKE256/recorded hash tables",
     level_text="Proved in Coq for all histories, names, labels, message lists and lengths < 2^64: two extractions feed the XOF the same (customisation, input, length) iff name, performed history, label and length coincide; live stream and extraction inputs are injective and never prefixes of one another; clones are independent; the XMD/XOF expander framings are injective in (DST,msg,len). The framing definitions are regenerated from hagrid.go on every run, the transcript machine / expanders are hand-modelled and tied by running both on the same command lists (implementation output = Go cSHAKE256 of the model's stream). Partial: SSWU/Elligator map-to-curve and cofactor clearing are only checked through RFC 9380 vectors, determinism, DST-dependence and subgroup membership on the implementation.",
     level_note="XOF/hash idealised as injective (collision resistance is not provable); translator and extraction trusted; map-to-curve algebra not modelled (RFC vectors + subgroup test only)",
     partial=["map_on_curve / cofactor_cleared_in_subgroup: not proved; RFC 9380 vectors, determinism, DST dependence and n*P=O checked on the implementation"],
     design_ref="§5 C19")
