spec("C11",
     gen=["RouterConsts"],
     title="Message routing is exact under every delivery order; broadcast is consistent",
     technique="Coq proof over all finite sequences of the router's atomic (lock-protected) steps + translator for router.go constants/prefixing + correspondence under testing/synctest with a checker-controlled Delivery; echo rounds over injective digests",
     level_text="(filled in below)",
     level_note="(filled in below)",
     partial=[],
     design_ref="§5 C11")
