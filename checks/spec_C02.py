spec("C02",
     gen=[],
     title="Exactly the qualified sets can reconstruct; unqualified sets learn nothing",
     technique="Coq proof over an arbitrary field (row-span/kernel duality by induction on rows; MSP acceptance = span membership via the proven Gauss-Jordan solver of C20; KW reconstruction, privacy, linearity, additive conversion) + correspondence of the hand-written access-structure/MSP/KW/scheme models against the implementation",
     level_text="(filled below)",
     level_note="(filled below)",
     partial=[],
     extra_vo=["model/Schemes.v"],
     design_ref="§5 C02")
