(* C07 driver: evaluates the extracted Draws model on the cases written by the Go harness,
   one case per line.
     W <bits>                                      -> wide_len
     D <proto> <round> <n> <d> <w> <xi> <l> <rho> <pail>   -> the draw specification of that round
     P <qhex> <proto> <round> <n> <d> <w> <xi> <l> <rho> <pail> <tapehex>
                                                   -> the values of that round's draws on the bytes served in it
     S <qhex> <byteshex>                           -> the scalar sampled from these bytes
     J sum|prod <qhex> <khex> ...                  -> joint value in the exponent *)
open Model
open Helpers

let proto_of = function
  | "session" -> PSession | "gennaro" -> PGennaro | "canetti" -> PCanetti | "hjky" -> PHjky
  | "redistribute" -> PRedistribute | "dkls23-bbot" -> PDkls23Bbot
  | "dkls23-softspoken" -> PDkls23Softspoken | "lindell22" -> PLindell22
  | "boldyreva" -> PBoldyreva | "lindell17-primary" -> PLindell17Primary
  | "lindell17-secondary" -> PLindell17Secondary
  | "ot-sender" -> POtSender | "ot-receiver" -> POtReceiver
  | "vole-alice" -> PVoleAlice | "vole-bob" -> PVoleBob
  | "otext-receiver" -> POtExtReceiver | "otext-sender" -> POtExtSender
  | s -> failwith ("unknown protocol " ^ s)

let site_name = function
  | SNonce -> "nonce" | SWitness -> "witness" | SPhi -> "phi" | SSecret -> "secret"
  | SCoeff -> "coeff" | SBlindSecret -> "blindsecret" | SBlindCoeff -> "blindcoeff"
  | SProofNonce -> "proofnonce" | SRho -> "rho" | SCommitKey -> "commitkey"
  | SContribution -> "contribution" | SPairContribution -> "paircontribution"
  | SZeroCoeff -> "zerocoeff" | SNextCoeff -> "nextcoeff" | SOtSenderKey -> "otsender"
  | SOtChoices -> "otchoices" | SOtReceiver -> "otreceiver" | SVoleAHat -> "voleahat"
  | SExtSeed -> "extseed" | SMask -> "mask" | SPaillierNonce -> "pailliernonce"

let cfg_of n d w xi l rho pail =
  { c_n = z_of_string n; c_d = z_of_string d; c_w = z_of_string w; c_xi = z_of_string xi;
    c_l = z_of_string l; c_rho = z_of_string rho; c_pail = z_of_string pail }

(* run-length compressed rows: site.idx:s|r[!]:len*count  (! = rejection sampled: count is a minimum) *)
let show_rows rows =
  let key (((s, i), k), len) = Printf.sprintf "%s.%s:%s:%s" (site_name s) (z_to_string i) ((if k then "s" else "r") ^ (if retry_site s then "!" else "") ^ (if discarded_site s i then "~" else "")) (z_to_string len) in
  let rec go acc cur cnt = function
    | [] -> (match cur with None -> acc | Some c -> (c, cnt) :: acc)
    | r :: rest ->
      let k = key r in
      (match cur with
       | Some c when c = k -> go acc cur (cnt + 1) rest
       | Some c -> go ((c, cnt) :: acc) (Some k) 1 rest
       | None -> go acc (Some k) 1 rest)
  in
  let parts = List.rev (go [] None 0 rows) in
  if parts = [] then "-" else String.concat "," (List.map (fun (k, c) -> Printf.sprintf "%s*%d" k c) parts)

let show_value = function
  | VScalar k -> "s:" ^ hex_of_z k
  | VRaw b -> "r:" ^ hex_of_bytes b

let () =
  iter_lines (fun line ->
    match String.split_on_char ' ' line with
    | ["W"; bits] -> print_endline (z_to_string (wide_len (z_of_string bits)))
    | ["D"; p; r; n; d; w; xi; l; rho; pail] ->
      print_endline (show_rows (draws_rows (proto_of p) (cfg_of n d w xi l rho pail) (z_of_string r)))
    | ["P"; q; p; r; n; d; w; xi; l; rho; pail; tape] ->
      let ds = draws (proto_of p) (cfg_of n d w xi l rho pail) (z_of_string r) in
      let vs = party_values (z_of_hex q) ds (bytes_of_hex tape) in
      print_endline (if vs = [] then "-" else String.concat "," (List.map show_value vs))
    | ["S"; q; b] -> print_endline (hex_of_z (sample_scalar (z_of_hex q) (bytes_of_hex b)))
    | "J" :: "sum" :: q :: ks -> print_endline (hex_of_z (joint_sum (z_of_hex q) (List.map z_of_hex ks)))
    | "J" :: "prod" :: q :: ks -> print_endline (hex_of_z (joint_prod (z_of_hex q) (List.map z_of_hex ks)))
    | _ -> print_endline "ERR bad line")
