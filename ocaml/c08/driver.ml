(* C08 driver: evaluates the extracted sigma-protocol / compiler model on the cases written
   by the Go harness.  One case per line on stdin, one result line per case on stdout.
   The XOF (cSHAKE256) and the hash (SHA3-256) are oracles answered by the harness: the
   driver prints "Q X <custom> <input> <len>" or "Q H <input>", flushes, and reads the
   answer (hex) from the next stdin line.  So the model runs on the real hash of the
   model's own byte streams. *)
open Model
open Helpers

let answer () = bytes_of_hex (input_line stdin)

let xof (c : xof_call) =
  Printf.printf "Q X %s %s %s\n%!" (hex_of_bytes c.xc_custom) (hex_of_bytes c.xc_input) (z_to_string c.xc_len);
  answer ()

let hash (inp : Big_int_Z.big_int list) =
  Printf.printf "Q H %s\n%!" (hex_of_bytes inp);
  answer ()

let parse_op (s : string) : op =
  match String.split_on_char ',' s with
  | "D" :: [h] -> Dom (bytes_of_hex h)
  | "A" :: l :: ms -> App (bytes_of_hex l, List.map bytes_of_hex ms)
  | _ -> failwith ("bad op " ^ s)

let ctx tname ops sid : context =
  { c_name = bytes_of_hex tname; c_hist = List.map parse_op (split_on ';' ops); c_sid = bytes_of_hex sid }

let vec (s : string) : Big_int_Z.big_int list = if s = "-" then [] else List.map z_of_hex (split_on ',' s)
let show_vec (v : Big_int_Z.big_int list) = if v = [] then "-" else String.concat "," (List.map hex_of_z v)
let mat (s : string) = List.map vec (split_on '/' s)
let vecs (s : string) = if s = "-" then [] else List.map vec (split_on '|' s)
let show_vecs vs = if vs = [] then "-" else String.concat "|" (List.map show_vec vs)
let blist (s : string) = if s = "-" then [] else List.map bytes_of_hex (split_on '|' s)
let show_blist bs = if bs = [] then "-" else String.concat "|" (List.map hex_of_bytes bs)
let nat s = nat_of_int (int_of_string s)
let b2s b = if b then "1" else "0"

let reps (s : string) =
  List.map (fun r -> match String.split_on_char ',' r with
      | [a; e; z] -> ((bytes_of_hex a, bytes_of_hex e), bytes_of_hex z)
      | _ -> failwith "bad rep") (split_on ';' s)

let sv_of (svs : string) = fun i _ ->
  let k = z_to_int i in k < String.length svs && svs.[k] = '1'

let m x = Obj.magic x

let () =
  iter_lines (fun line ->
    let out = match String.split_on_char ' ' line with
    | ["FSC"; tn; ops; sid; pname; stmt; a; l] ->
      (match fs_challenge_call (ctx tn ops sid) (bytes_of_hex pname) (bytes_of_hex stmt) (bytes_of_hex a) (z_of_string l) with
       | None -> "NONE"
       | Some c -> String.concat "," [hex_of_bytes c.xc_custom; hex_of_bytes c.xc_input; z_to_string c.xc_len])
    | ["FSV"; tn; ops; sid; pname; stmt; a; l; e; sv] ->
      b2s (fs_accept xof (ctx tn ops sid) (bytes_of_hex pname) (bytes_of_hex stmt) (bytes_of_hex a) (z_of_string l)
             (bytes_of_hex e) (fun _ -> sv = "1"))
    | ["FIK"; tn; ops; sid; pname; stmt; rho] ->
      (match fi_key_call (ctx tn ops sid) (bytes_of_hex pname) (bytes_of_hex stmt) (z_of_string rho) with
       | None -> "NONE"
       | Some c -> String.concat "," [hex_of_bytes c.xc_custom; hex_of_bytes c.xc_input; z_to_string c.xc_len])
    | ["RFK"; tn; ops; sid; pname] ->
      (match rf_crs_call (ctx tn ops sid) (bytes_of_hex pname) with
       | None -> "NONE"
       | Some c -> String.concat "," [hex_of_bytes c.xc_custom; hex_of_bytes c.xc_input; z_to_string c.xc_len])
    | ["FIP"; rho; ss] ->
      (match fischlin_params (z_of_string rho) (z_of_string ss) with
       | None -> "NONE"
       | Some (b, t) -> z_to_string b ^ "," ^ z_to_string t)
    | ["FIV"; tn; ops; sid; pname; stmt; rho; b; t; l; rs; svs] ->
      b2s (fischlin_accept xof hash (ctx tn ops sid) (bytes_of_hex pname) (bytes_of_hex stmt)
             (z_of_string rho) (z_of_string b) (z_of_string t) (nat l) (reps rs) (sv_of svs))
    | ["RFV"; tn; ops; sid; pname; l; rs; svs] ->
      b2s (randfischlin_accept xof hash (ctx tn ops sid) (bytes_of_hex pname) (nat l) (reps rs) (sv_of svs))
    | ["MP"; q; n; phi; k; w; e] ->
      let q = z_of_hex q in
      let a = lin_commit q (nat n) (mat phi) (vec k) in
      let z = lin_respond q (vec k) (vec w) (bytes_of_hex e) in
      show_vec a ^ " " ^ show_vec z
    | ["MV"; q; n; phi; x; a; e; z] ->
      b2s (lin_verify (z_of_hex q) (nat n) (mat phi) (vec x) (vec a) (bytes_of_hex e) (vec z))
    | ["MS"; q; n; phi; x; e; z] ->
      show_vec (fst (lin_simulate (z_of_hex q) (nat n) (mat phi) (vec x) (bytes_of_hex e) (vec z)))
    | ["MX"; q; n; phi; u; ell; x; a; e1; z1; e2; z2] ->
      (match lin_extract (z_of_hex q) (nat n) (mat phi) (vec u) (z_of_hex ell) (vec x) (vec a)
               (bytes_of_hex e1) (vec z1) (bytes_of_hex e2) (vec z2) with
       | None -> "NONE"
       | Some w -> show_vec w)
    | ["BP"; q; s; ws; e] ->
      hex_of_z (batch_respond (z_of_hex q) (z_of_hex s) (vec ws) (bytes_of_hex e))
    | ["BV"; q; k; l; xs; a; e; z] ->
      b2s (batch_verify (z_of_hex q) (nat k) (nat l) (vec xs) (z_of_hex a) (bytes_of_hex e) (z_of_hex z))
    | ["BS"; q; xs; e; z] ->
      hex_of_z (batch_simulate (z_of_hex q) (vec xs) (bytes_of_hex e) (z_of_hex z))
    | ["AV"; q; n; phi; l; count; e; xs; az; zs] ->
      let p = lin_proto (z_of_hex q) (nat n) (mat phi) (nat l) in
      b2s (andn_verify p (nat count) (m (vecs xs)) (m (vecs az)) (bytes_of_hex e) (m (vecs zs)))
    | ["OV"; q; n; phi; l; count; e; xs; az; es; zs] ->
      let p = lin_proto (z_of_hex q) (nat n) (mat phi) (nat l) in
      b2s (or_verify p (nat count) (m (vecs xs)) (m (vecs az)) (bytes_of_hex e) (blist es) (m (vecs zs)))
    | ["OP"; q; n; phi; l; b; k; w; e; xs; sims] ->
      let p = lin_proto (z_of_hex q) (nat n) (mat phi) (nat l) in
      let sims = List.map (fun s -> match String.split_on_char ':' s with
          | [ei; zi] -> (bytes_of_hex ei, m (vec zi))
          | _ -> failwith "bad sim") (split_on '|' sims) in
      let br = or_prove p (nat b) (m (vecs xs)) (m (vec w)) (m (vec k)) sims (bytes_of_hex e) in
      let tv x = (m x : Big_int_Z.big_int list) in
      show_vecs (List.map (fun ((a, _), _) -> tv a) br) ^ " " ^
      show_blist (List.map (fun ((_, ei), _) -> ei) br) ^ " " ^
      show_vecs (List.map (fun (_, z) -> tv z) br)
    | _ -> failwith ("bad line " ^ line) in
    print_string out; print_newline (); flush stdout)
