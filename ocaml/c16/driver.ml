(* C16 driver: evaluates the extracted Paillier / ElGamal model on the cases written
   by the Go harness, one case per line; integers are lower-case hex ('-' sign). *)
open Model
open Helpers

let z = z_of_hex
let h = hex_of_z
let opt = function None -> "ERR" | Some v -> h v

(* ---- Paillier register machine ---------------------------------------------------- *)
let run_paillier (k : skey) (ops : string list) : string list =
  let n = sk_N k in
  let regs : Big_int_Z.big_int array ref = ref [||] in
  let push v = regs := Array.append !regs [| v |] in
  let reg i = (!regs).(int_of_string i) in
  let ct v = push v; h v in
  let cto = function None -> push Big_int_Z.unit_big_int; "ERR" | Some v -> ct v in
  (* plaintext arguments: negative values go through NewPlaintextSymmetric, others
     through NewPlaintextFromNat; nonces through NewNonce *)
  let pt x = if Big_int_Z.sign_big_int x < 0 then plaintext_symmetric n x else plaintext_from_nat n x in
  let nonce r = unit_from n r in
  let ( let* ) o f = match o with None -> None | Some v -> f v in
  List.map (fun o ->
    match String.split_on_char ',' o with
    | ["E"; m; r] -> cto (let* m = pt (z m) in let* r = nonce (z r) in Some (enc n m r))
    | ["e"; m; r] -> cto (let* m = pt (z m) in let* r = nonce (z r) in Some (sk_enc k m r))
    | ["F"; m'; m; r] -> cto (let* m = plaintext_from_nat (z m') (z m) in let* r = nonce (z r) in pk_enc_ring n (z m') m r)
    | ["f"; m'; m; r] -> cto (let* m = plaintext_from_nat (z m') (z m) in let* r = nonce (z r) in sk_enc_ring k (z m') m r)
    | ["G"; i; m'; d] | ["g"; i; m'; d] ->
      (* Shift by a plaintext carried in Z_M: output only, no register *)
      opt (let* d = plaintext_from_nat (z m') (z d) in shift_ring n (z m') (reg i) d)
    | ["A"; i; j] -> ct (cmul n (reg i) (reg j))
    | ["a"; i; j] -> ct (sk_cmul k (reg i) (reg j))
    | ["M"; i; j; l] -> ct (cmul n (cmul n (reg i) (reg j)) (reg l))
    | ["m"; i; j; l] -> ct (sk_cmul k (sk_cmul k (reg i) (reg j)) (reg l))
    | ["S"; i; s] -> cto (cscale n (reg i) (z s))
    | ["s"; i; s] -> cto (sk_cscale k (reg i) (z s))
    | ["H"; i; d] -> cto (let* d = pt (z d) in Some (shift n (reg i) d))
    | ["h"; i; d] -> cto (let* d = pt (z d) in Some (sk_shift k (reg i) d))
    | ["R"; i; r] -> cto (let* r = nonce (z r) in Some (rerandomise n (reg i) r))
    | ["r"; i; r] -> cto (let* r = nonce (z r) in Some (sk_rerandomise k (reg i) r))
    | ["I"; i] -> cto (cinv n (reg i))
    | ["i"; i] -> cto (sk_cinv k (reg i))
    | ["X"; v] -> cto (unit_from (Big_int_Z.mult_big_int n n) (z v))
    | ["D"; i] -> h (decrypt k (reg i))
    | ["O"; i] -> (match open_ct k (reg i) with None -> "ERR" | Some (m, r) -> h m ^ "," ^ h r)
    | _ -> failwith ("bad paillier op " ^ o)) ops

(* ---- ElGamal register machine (exponents) ------------------------------------------- *)
let run_elgamal (q : Big_int_Z.big_int) (a : Big_int_Z.big_int) (ops : string list) : string list =
  let hh = eg_public q a in
  let regs : ect array ref = ref [||] in
  let push v = regs := Array.append !regs [| v |] in
  let reg i = (!regs).(int_of_string i) in
  let ct (v : ect) = push v; h (fst v) ^ "," ^ h (snd v) in
  List.map (fun o ->
    match String.split_on_char ',' o with
    | ["E"; m; r] -> ct (eg_enc q hh (z m) (z r))
    | ["e"; m; r] -> ct (eg_sk_enc q a (z m) (z r))
    | ["A"; i; j] -> ct (eg_op q (reg i) (reg j))
    | ["S"; i; s] -> ct (eg_scale q (reg i) (z s))
    | ["I"; i] -> ct (eg_inv q (reg i))
    | ["H"; i; d] -> ct (eg_shift q (reg i) (z d))
    | ["R"; i; r] -> ct (eg_rerandomise q hh (reg i) (z r))
    | ["r"; i; r] -> ct (eg_sk_rerandomise q a (reg i) (z r))
    | ["D"; i] -> h (eg_decrypt q a (reg i))
    | _ -> failwith ("bad elgamal op " ^ o)) ops

let () =
  iter_lines (fun line ->
    match String.split_on_char ' ' line with
    | ["P"; id; p; q; ops] ->
      (match precompute (z p) (z q) with
       | None -> Printf.printf "P %s NOKEY\n" id
       | Some k -> Printf.printf "P %s %s\n" id (String.concat ";" (run_paillier k (split_on ';' ops))))
    | ["G"; id; minlen; p; q] ->
      Printf.printf "G %s %s\n" id
        (match new_secret_key (z_of_string minlen) (z p) (z q) with None -> "ERR" | Some k -> h (sk_N k))
    | ["B"; id; minlen; n] ->
      Printf.printf "B %s %s\n" id (opt (new_public_key (z_of_string minlen) (z n)))
    | ["F"; id; p; q; cn; c] ->
      (match precompute (z p) (z q) with
       | None -> Printf.printf "F %s NOKEY\n" id
       | Some k -> Printf.printf "F %s %s\n" id (opt (decrypt_checked k (z cn) (z c))))
    | ["C"; id; p; q; op; items] ->
      (* lower layers: modular.OddPrimeSquareFactors / OddPrimeFactors / crt.Params for arbitrary
         (small, unbalanced) odd primes; only the CRT constants are needed *)
      let p = z p and q = z q in
      let ( * ) = Big_int_Z.mult_big_int and ( % ) = Big_int_Z.mod_big_int and ( - ) = Big_int_Z.sub_big_int in
      let some = function Some v -> v | None -> Big_int_Z.zero_big_int in
      let one = Big_int_Z.unit_big_int and zero = Big_int_Z.zero_big_int in
      let k = { sk_p = p; sk_q = q; sk_qinv = some (modinv q p);
                sk_q2inv = some (modinv ((q * q) % (p * p)) (p * p));
                sk_negqinv_p = zero; sk_negpinv_q = zero; sk_qinv_phip = zero; sk_pinv_phiq = zero;
                sk_ep2 = p * ((p * q) % (p - one)); sk_eq2 = q * ((p * q) % (q - one)) } in
      let pair s = match String.split_on_char ':' s with [a; b] -> (z a, z b) | _ -> failwith ("bad pair " ^ s) in
      let f = match op with
        | "rec2" -> (fun s -> let (a, b) = pair s in h (recombine_N2 k a b))
        | "rec1" -> (fun s -> let (a, b) = pair s in h (recombine_N k a b))
        | "exp2" -> (fun s -> let (a, b) = pair s in h (sk_modexp2 k a b))
        | "exp1" -> (fun s -> let (a, b) = pair s in h (sk_modexp1 k a b))
        | "mul1" -> (fun s -> let (a, b) = pair s in h (sk_nonce_mul k a b))
        | "inv2" -> (fun s -> opt (sk_modinv2 k (z s)))
        | "inv1" -> (fun s -> opt (sk_modinv1 k (z s)))
        | "ton" -> (fun s -> h (sk_noise k (z s)))
        | _ -> failwith ("bad C op " ^ line) in
      Printf.printf "C %s %s\n" id (String.concat ";" (List.map f (split_on ',' items)))
    | ["R"; id; pm; qm; items] ->
      (* crt.NewParamsExtended(P, Q).Recombine for arbitrary coprime moduli *)
      let pm = z pm and qm = z qm in
      (match modinv qm pm with
       | None -> Printf.printf "R %s NOINV\n" id
       | Some qi ->
         let f s = match String.split_on_char ':' s with
           | [a; b] -> h (recombine pm qm qi (z a) (z b))
           | _ -> failwith ("bad pair " ^ s) in
         Printf.printf "R %s %s\n" id (String.concat ";" (List.map f (split_on ',' items))))
    | ["T"; id; n; m; r] ->
      Printf.printf "T %s %s\n" id (h (textbook (z n) (z m) (z r)))
    | "Q" :: id :: n :: op :: args ->
      let n = z n in
      let r = match op, List.map z args with
        | "sym", [x] -> opt (plaintext_symmetric n x)
        | "nat", [x] -> opt (plaintext_from_nat n x)
        | "norm", [x] -> h (normalise n x)
        | "padd", [a; b] -> h (pt_add n a b)
        | "pneg", [a] -> h (pt_neg n a)
        | "pscale", [a; k] -> h (pt_scale n a k)
        | "nmul", [a; b] -> h (nonce_mul n a b)
        | "ninv", [a] -> opt (nonce_inv n a)
        | "nscale", [a; k] -> opt (nonce_scale n a k)
        | "unit", [v] -> opt (unit_from n v)
        | "rep", [m] -> h (representative n m)
        | "repM", [m'; m] -> opt (match plaintext_from_nat m' m with Some m -> pk_representative_ring n m' m | None -> None)
        | "paddM", [m'; a; b] -> opt (match plaintext_from_nat m' a with Some a -> pt_add_ring n m' a b | None -> None)
        | "pscaleM", [m'; a; k] -> opt (match plaintext_from_nat m' a with Some a -> pt_scale_ring n m' a k | None -> None)
        | "noise", [r] -> h (noise n r)
        | _ -> failwith ("bad Q op " ^ line) in
      Printf.printf "Q %s %s\n" id r
    | "K" :: id :: p :: q :: op :: args ->
      (match precompute (z p) (z q) with
       | None -> Printf.printf "K %s NOKEY\n" id
       | Some k ->
         let r = match op, List.map z args with
           | "nmul", [a; b] -> h (sk_nonce_mul k a b)
           | "ninv", [a] -> opt (sk_nonce_inv k a)
           | "nscale", [a; s] -> opt (sk_nonce_scale k a s)
           | "noise", [r] -> h (sk_noise k r)
           | _ -> failwith ("bad K op " ^ line) in
         Printf.printf "K %s %s\n" id r)
    | ["L"; id; q; a; ops] ->
      Printf.printf "L %s %s\n" id (String.concat ";" (run_elgamal (z q) (z a) (split_on ';' ops)))
    | ["M"; id; q; op; a] ->
      let q = z q in
      let r = match op with
        | "sk" -> opt (eg_new_secret_key q (z a))
        | "pk" -> opt (eg_new_public_key q (z a))
        | _ -> failwith ("bad M op " ^ line) in
      Printf.printf "M %s %s\n" id r
    | "J" :: id :: q :: op :: args ->
      let q = z q in
      let r = match op, List.map z args with
        | "padd", [a; b] -> h (eg_pt_op q a b)
        | "pneg", [a] -> h (eg_pt_inv q a)
        | "pscale", [a; s] -> h (eg_pt_scale q a s)
        | "nadd", [a; b] -> h (eg_nonce_op q a b)
        | "nneg", [a] -> h (eg_nonce_inv q a)
        | "nscale", [a; s] -> h (eg_nonce_scale q a s)
        | _ -> failwith ("bad J op " ^ line) in
      Printf.printf "J %s %s\n" id r
    | _ -> failwith ("bad line " ^ line))
