(* C09 driver: evaluates the extracted OT / bf128 / VOLE model on the cases written by
   the Go harness, one case per line (see harness/cmd/c09/main.go for the formats). *)
module ZA = Z
open Model
open Helpers

let bits_of_hex (s : string) : bool list = bits_of_bytes (bytes_of_hex s)
let hex_of_bits (v : bool list) : string = hex_of_bytes (bytes_of_bits v)
let rows_of (s : string) : bool list list = List.map bits_of_hex (split_on ',' s)
(* GF(2^128) elements: coefficient vectors <-> 16 big-endian bytes in hex *)
let pad32 (s : string) : string = if String.length s >= 32 then s else String.make (32 - String.length s) '0' ^ s
let el_of_hex (s : string) : bool list = emb128 (bits_of_hex (pad32 s))
let hex128 (e : bool list) : string = hex_of_bits (emb128 e)
let ellist (s : string) = List.map el_of_hex (split_on ',' s)
let zlist (s : string) = List.map z_of_hex (split_on ',' s)
let zrows (s : string) = List.map zlist (split_on ';' s)
let show_zlist l = String.concat "," (List.map hex_of_z l)
let show_zrows m = String.concat ";" (List.map show_zlist m)

let rec upd l i y = match l with
  | [] -> []
  | x :: r -> if i = 0 then y :: r else x :: upd r (i - 1) y

let field kv k =
  (* "K=v" fields *)
  let p = k ^ "=" in
  let n = String.length p in
  match List.find_opt (fun s -> String.length s >= n && String.sub s 0 n = p) kv with
  | Some s -> String.sub s n (String.length s - n)
  | None -> failwith ("missing field " ^ k)

let col_of = function Hash (_, _, c) -> c

let ext_case id kv =
  let l = int_of_string (field kv "L") and xi = int_of_string (field kv "XI") in
  let delta = bits_of_hex (field kv "D") in
  let x = bits_of_hex (field kv "X") in
  let sg = bits_of_hex (field kv "S") in
  let chi = ellist (field kv "CHI") in
  let t0 = rows_of (field kv "T0") and t1 = rows_of (field kv "T1") in
  let r = run_extension (nat_of_int l) (nat_of_int xi) delta x sg chi t0 t1 in
  let tampers = split_on ';' (field kv "TAMPER") in
  let verdict t =
    if t = "-" then (if r.er_ok then "1" else "0")
    else begin
      match String.index_opt t ':' with
      | None -> failwith "bad tamper"
      | Some p ->
        let what = String.sub t 0 p and v = el_of_hex (String.sub t (p + 1) (String.length t - p - 1)) in
        let (xx, tt) =
          if what = "X" then (v, r.er_t)
          else (r.er_x, upd r.er_t (int_of_string (String.sub what 1 (String.length what - 1))) v) in
        if verify_dots bf128 r.er_qdots xx tt delta then "1" else "0"
    end in
  let rc = List.concat_map (fun row -> List.map (fun d -> hex_of_bits (col_of d)) row) r.er_recv in
  let qc = List.concat_map (fun row -> List.map (fun (d, _) -> hex_of_bits (col_of d)) row) r.er_send in
  let sel = sel_pattern r.er_recv r.er_send in
  Printf.printf "E %s U=%s X=%s T=%s RC=%s QC=%s SEL=%s OK=%s V=%s\n" id
    (String.concat "," (List.map hex_of_bits r.er_u))
    (hex128 r.er_x)
    (String.concat "," (List.map hex128 r.er_t))
    (String.concat "," rc) (String.concat "," qc)
    (String.concat "" (List.map (fun n -> string_of_int (int_of_nat n)) sel))
    (if r.er_ok then "1" else "0")
    (String.concat "" (List.map verdict tampers))

let vole_case id kv =
  let p = z_of_hex (field kv "P") in
  let k = zp p in
  let l = int_of_string (field kv "L") and rho = int_of_string (field kv "RHO") and xi = int_of_string (field kv "XI") in
  let nl = nat_of_int l and nrho = nat_of_int rho and nxi = nat_of_int xi in
  let a = zlist (field kv "A") and g = zlist (field kv "G") in
  let beta = List.map (fun c -> c = '1') (List.init (String.length (field kv "BETA")) (String.get (field kv "BETA"))) in
  let alpha0 = zrows (field kv "A0") and alpha1 = zrows (field kv "A1") in
  let ahat = zlist (field kv "AHAT") in
  let theta = zrows (field kv "TH") in
  (* one table of re-derived challenges per ATilde alteration, consumed in order (the last one is reused) *)
  let thps = ref (List.map zrows (String.split_on_char '|' (field kv "THP"))) in
  let next_thp () = match !thps with
    | [t] -> t
    | t :: r -> thps := r; t
    | [] -> theta in
  let fn tbl = fun i kk -> List.nth (List.nth tbl (int_of_nat i)) (int_of_nat kk) in
  let (msg, c) = alice_round3 k (fun _ -> fn theta) nl nrho nxi g a ahat alpha0 alpha1 in
  let gamma = ot_gamma k nxi (nat_of_int (l + rho)) beta alpha0 alpha1 in
  let b = bob_b k nxi beta g in
  let run ro m = bob_round4 k ro nl nrho nxi g beta gamma m in
  let d = run (fun _ -> fn theta) msg in
  let addp x y = k.fadd x y in
  let verdict t =
    let r =
      if t = "-" then run (fun _ -> fn theta) msg
      else begin
        let p' = String.index t ':' in
        let what = String.sub t 0 p' and v = z_of_hex (String.sub t (p' + 1) (String.length t - p' - 1)) in
        let idx = String.sub what 1 (String.length what - 1) in
        match what.[0] with
        | 'A' ->
          (match String.split_on_char '.' idx with
           | [j; i] ->
             let j = int_of_string j and i = int_of_string i in
             let row = List.nth msg.m_atilde j in
             let row' = upd row i (addp (List.nth row i) v) in
             let theta' = next_thp () in
             run (fun _ -> fn theta') { msg with m_atilde = upd msg.m_atilde j row' }
           | _ -> failwith "bad A tamper")
        | 'E' ->
          let kk = int_of_string idx in
          run (fun _ -> fn theta) { msg with m_eta = upd msg.m_eta kk (addp (List.nth msg.m_eta kk) v) }
        | 'M' ->
          (* roMu is injective: a changed digest is the digest of no matrix Bob can compute,
             represented by changing one entry of the argument *)
          let row = List.nth msg.m_mu 0 in
          run (fun _ -> fn theta) { msg with m_mu = upd msg.m_mu 0 (upd row 0 (addp (List.nth row 0) v)) }
        | _ -> failwith "bad tamper"
      end in
    match r with Some _ -> "1" | None -> "0" in
  let tampers = split_on ';' (field kv "TAMPER") in
  Printf.printf "V %s B=%s C=%s AT=%s ETA=%s MU=%s D=%s V=%s\n" id (hex_of_z b) (show_zlist c) (show_zrows msg.m_atilde)
    (show_zlist msg.m_eta) (show_zrows msg.m_mu)
    (match d with Some d -> show_zlist d | None -> "ABORT")
    (String.concat "" (List.map verdict tampers))

let () =
  iter_lines (fun line ->
    match String.split_on_char ' ' line with
    | ["BF"; id; a; b] ->
      Printf.printf "BF %s %s\n" id (hex128 (bf_mul (el_of_hex a) (el_of_hex b)))
    | "E" :: id :: kv -> ext_case id kv
    | ["S"; id; p; a; b; w] ->
      (* vsot in the exponent *)
      let k = zp (z_of_hex p) in
      let a = z_of_hex a and b = z_of_hex b and w = (w = "1") in
      let bigA = vsot_bigA k a b w in
      let VKey (_, _, _, kr) = vsot_recv_key k O a w (vsot_bigB b) in
      let (VKey (_, _, _, k0), VKey (_, _, _, k1)) = vsot_send_keys k O b bigA in
      Printf.printf "S %s %s %s %s %s\n" id (hex_of_z bigA) (hex_of_z kr) (hex_of_z k0) (hex_of_z k1)
    | ["C"; id; p; a; bi; c] ->
      (* ecbbot in the exponent; the hash-to-curve functions and the programmed random point are arbitrary *)
      let k = zp (z_of_hex p) in
      let a = z_of_hex a and bi = z_of_hex bi and c = (c = "1") in
      let h0 = (fun x -> k.fmul x x) and h1 = (fun x -> k.fadd x k.f1) in
      let s = k.fadd a bi in
      let (phi, EKey (_, _, kr)) = ec_recv k h0 h1 O c bi s a in
      let (e0, e1) = ec_send k h0 h1 O a phi in
      let EKey (_, _, ks) = if c then e1 else e0 in
      Printf.printf "C %s %s %s %s\n" id (hex_of_z kr) (hex_of_z ks) (if e0 <> e1 then "1" else "0")
    | "V" :: id :: kv -> vole_case id kv
    | _ -> failwith ("bad line " ^ line))
