(* C15 driver: evaluates the extracted ECDSA / Schnorr-like / BLS exponent models on the
   cases written by the Go harness, one case per line, one result line per case.
   Numbers are lower-case hex.  The abstract maps of the models (x-coordinate, y-parity,
   FromAffineX, challenge, public-key encoding) arrive as finite tables; a lookup outside
   the table makes the case answer "miss" (the model has no prediction). *)
open Model
open Helpers

exception Miss

let zh = z_of_hex
let hz = hex_of_z
let zeq a b = Big_int_Z.eq_big_int a b

let fields c s = if s = "-" || s = "" then [] else String.split_on_char c s

(* k:x:o,...  ->  xf, yodd *)
let xf_tables (s : string) =
  let t = Hashtbl.create 8 in
  List.iter (fun e -> match String.split_on_char ':' e with
    | [k; x; o] -> Hashtbl.replace t (hz (zh k)) (zh x, o = "1")
    | _ -> failwith "bad xf table") (fields ',' s);
  let look k = match Hashtbl.find_opt t (hz k) with Some v -> v | None -> raise Miss in
  (fun k -> fst (look k)), (fun k -> snd (look k))

(* x:b:k|none,... -> lift *)
let lift_table (s : string) =
  let t = Hashtbl.create 8 in
  List.iter (fun e -> match String.split_on_char ':' e with
    | [x; b; k] -> Hashtbl.replace t (hz (zh x) ^ ":" ^ b) (if k = "none" then None else Some (zh k))
    | _ -> failwith "bad lift table") (fields ',' s);
  fun x b -> match Hashtbl.find_opt t (hz x ^ ":" ^ (if b then "1" else "0")) with
    | Some v -> v | None -> raise Miss

(* x:k|none,... -> lift_even *)
let lift_even_table (s : string) =
  let t = Hashtbl.create 8 in
  List.iter (fun e -> match String.split_on_char ':' e with
    | [x; k] -> Hashtbl.replace t (hz (zh x)) (if k = "none" then None else Some (zh k))
    | _ -> failwith "bad lift_even table") (fields ',' s);
  fun x -> match Hashtbl.find_opt t (hz x) with Some v -> v | None -> raise Miss

let yodd_table (s : string) =
  let t = Hashtbl.create 8 in
  List.iter (fun e -> match String.split_on_char ':' e with
    | [k; o] -> Hashtbl.replace t (hz (zh k)) (o = "1")
    | _ -> failwith "bad yodd table") (fields ',' s);
  fun k -> match Hashtbl.find_opt t (hz k) with Some v -> v | None -> raise Miss

(* encR:encP:m:e,... -> chal *)
let chal_table (s : string) =
  let t = Hashtbl.create 8 in
  List.iter (fun e -> match String.split_on_char ':' e with
    | [a; b; m; c] -> Hashtbl.replace t (hz (zh a) ^ ":" ^ hz (zh b) ^ ":" ^ m) (zh c)
    | _ -> failwith "bad chal table") (fields ',' s);
  fun a b (m : string) -> match Hashtbl.find_opt t (hz a ^ ":" ^ hz b ^ ":" ^ m) with
    | Some v -> v | None -> raise Miss

let pkenc_table (s : string) =
  let t = Hashtbl.create 8 in
  List.iter (fun e -> match String.split_on_char ':' e with
    | [a; b] -> Hashtbl.replace t (hz (zh a)) (bytes_of_hex b)
    | _ -> failwith "bad pkenc table") (fields ',' s);
  fun a -> match Hashtbl.find_opt t (hz a) with Some v -> v | None -> raise Miss

let vopt s = if s = "-" then None else Some (zh s)
let show_v = function None -> "-" | Some v -> hz v
let show_sig (g : sig0) = String.concat "," [hz g.sr; hz g.ss; show_v g.sv]
let verdict b = if b then "acc" else "rej"

(* ---- BLS text forms: c0;dst:payload:c;...   element: sub/form ---- *)
let parse_form (s : string) : form =
  match String.split_on_char ';' s with
  | c0 :: ts ->
    (zh c0, List.map (fun t -> match String.split_on_char ':' t with
       | [d; p; c] -> ((zh d, bytes_of_hex p), zh c)
       | _ -> failwith "bad form term") (List.filter (fun t -> t <> "") ts))
  | [] -> failwith "bad form"

let show_form q ((c0, ts) : form) : string =
  let md x = ZA.erem x q in
  String.concat ";" (hz (md c0) :: List.map (fun ((d, p), c) -> hz d ^ ":" ^ hex_of_bytes p ^ ":" ^ hz (md c)) ts)

let parse_sel (s : string) : sel =
  match String.index_opt s '/' with
  | Some i -> { s_sub = (String.sub s 0 i = "1"); s_f = parse_form (String.sub s (i + 1) (String.length s - i - 1)) }
  | None -> failwith "bad sel"
let show_sel q (e : sel) = (if e.s_sub then "1" else "0") ^ "/" ^ show_form q e.s_f

let parse_kel (s : string) : kel =
  match String.split_on_char ':' s with
  | [b; a] -> { k_sub = (b = "1"); k_a = zh a }
  | _ -> failwith "bad kel"

let parse_scheme = function "basic" -> Basic | "aug" -> Aug | "pop" -> Pop | s -> failwith ("bad scheme " ^ s)

let enc_of = function "1" -> (fun n -> xo n) | _ -> (fun n -> full n)

let () =
  iter_lines (fun line ->
    let f = String.split_on_char ' ' line in
    let tag, id = (match f with t :: i :: _ -> t, i | _ -> failwith "bad line") in
    let res =
      try
        (match f with
         | ["ES"; _; n; p; d; e; k; xft; lt] ->
           let xf, _ = xf_tables xft in
           (match ecdsa_sign (zh n) (zh p) xf (lift_table lt) (zh d) (zh e) (zh k) with
            | None -> "none" | Some g -> show_sig g)
         | ["EV"; _; n; p; strict; r; s; v; e; d; xft; lt] ->
           let xf, _ = xf_tables xft in
           verdict (ecdsa_verify (zh n) (zh p) xf (lift_table lt) (strict = "1")
                      { sr = zh r; ss = zh s; sv = vopt v } (zh d) (zh e))
         | ["ER"; _; n; p; r; s; v; e; lt] ->
           (match recover (zh n) (zh p) (lift_table lt) (zh r) (zh s) (zh v) (zh e) with
            | None -> "none" | Some q -> hz q)
         | ["EN"; _; n; r; s; v] -> show_sig (normalise (zh n) { sr = zh r; ss = zh s; sv = vopt v })
         | ["EF"; _; n; r; s; v] -> show_sig (flip (zh n) { sr = zh r; ss = zh s; sv = vopt v })
         | ["EC"; _; n; k; xft] ->
           let xf, yo = xf_tables xft in hz (compute_recovery_id (zh n) xf yo (zh k))
         | ["EW"; _; r; s; v] ->
           (match new_signature (zh r) (zh s) (vopt v) with None -> "err" | Some _ -> "ok")
         | ["GS"; _; n; neg; xr; xp; nn; x; k0; m; ch; yo] ->
           let n = zh n in
           let yodd = yodd_table yo in
           (match gen_sign n (chal_table ch) (neg = "1") (enc_of xr n) (enc_of xp n)
                    (if nn = "1" then yodd else (fun _ -> false)) (zh x) (zh k0) m with
            | None -> "none" | Some g -> hz g.s_R.g_k ^ "," ^ hz g.s_s)
         | ["GV"; _; n; neg; xr; xp; tf; rk; s; pk; m; ch] ->
           let n = zh n in
           verdict (gen_verify n (chal_table ch) (neg = "1") (enc_of xr n) (enc_of xp n)
                      { s_R = { g_tf = (tf = "1"); g_k = zh rk }; s_s = zh s } { g_tf = true; g_k = zh pk } m)
         | ["BS"; _; n; d0; k0; m; ch; yo] ->
           (match bip_sign (zh n) (yodd_table yo) (chal_table ch) (zh d0) (zh k0) m with
            | None -> "none" | Some g -> hz g.s_R.g_k ^ "," ^ hz g.s_s)
         | ["BV"; _; n; rk; s; pktf; pk; m; ch; yo] ->
           verdict (bip_verify (zh n) (yodd_table yo) (chal_table ch)
                      { s_R = { g_tf = true; g_k = zh rk }; s_s = zh s } { g_tf = (pktf = "1"); g_k = zh pk } m)
         | ["BB"; _; n; coefs; entries; ch; yo] ->
           (* entries: rk:s:pk:mid,...  (pk torsion free) *)
           let es = List.map (fun e -> match String.split_on_char ':' e with
             | [rk; s; pk; m] -> { be_sig = { s_R = { g_tf = true; g_k = zh rk }; s_s = zh s }; be_pk = { g_tf = true; g_k = zh pk }; be_m = m }
             | _ -> failwith "bad batch entry") (fields ',' entries) in
           verdict (bip_batch_verify (zh n) (yodd_table yo) (chal_table ch) (List.map zh (fields ',' coefs)) es)
         | ["GB"; _; n; neg; xr; xp; entries; ch] ->
           let n = zh n in
           let es = List.map (fun e -> match String.split_on_char ':' e with
             | [rk; s; pk; m] -> { be_sig = { s_R = { g_tf = true; g_k = zh rk }; s_s = zh s }; be_pk = { g_tf = true; g_k = zh pk }; be_m = m }
             | _ -> failwith "bad batch entry") (fields ',' entries) in
           verdict (gen_batch_verify n (chal_table ch) (neg = "1") (enc_of xr n) (enc_of xp n) es)
         | ["BW"; _; n; p; px; rx; s; m; ch; yo; le] ->
           verdict (bip_verify_wire (zh n) (yodd_table yo) (chal_table ch) (zh p) (lift_even_table le) (zh px) (zh rx) (zh s) m)
         | ["MW"; _; n; p; rx; s; pk; m; ch; le] ->
           verdict (mina_verify_wire (zh n) (chal_table ch) (zh p) (lift_even_table le) (zh rx) (zh s) { g_tf = true; g_k = zh pk } m)
         | ["LS"; _; q; sc; x; m; pe] ->
           let q = zh q in
           (match bls_sign q (pkenc_table pe) (parse_scheme sc) (zh x) (bytes_of_hex m) with
            | None -> "none"
            | Some g -> show_sel q g.b_v ^ "|" ^ (match g.b_pop with None -> "-" | Some p -> show_sel q p))
         | ["LV"; _; q; sc; pk; sg; pop; m; pe] ->
           verdict (bls_verify (zh q) (pkenc_table pe) (parse_scheme sc)
                      { b_v = parse_sel sg; b_pop = (if pop = "-" then None else Some (parse_sel pop)) }
                      (parse_kel pk) (bytes_of_hex m))
         | ["LA"; _; q; sc; sg; pks; ms; pops; pe] ->
           verdict (aggregate_verify (zh q) (pkenc_table pe) (parse_scheme sc) (parse_sel sg)
                      (List.map parse_kel (fields ',' pks)) (List.map bytes_of_hex (fields ',' ms))
                      (List.map parse_sel (fields ',' pops)))
         | ["LP"; _; q; pk; pop; pe] ->
           verdict (pop_verify (zh q) (pkenc_table pe) (parse_kel pk) (parse_sel pop))
         | ["LG"; _; q; sigs] ->
           let q = zh q in
           (match aggregate_signatures q (List.map parse_sel (fields ',' sigs)) with
            | None -> "none" | Some e -> show_sel q e)
         | ["LM"; _; q; x; dst; ms] ->
           let q = zh q in
           show_form q (aggregate_sign_value (zh x) (zh dst) (List.map bytes_of_hex (fields ',' ms)))
         | ["LE"; _; q; a; b] -> verdict (form_eqb (zh q) (parse_form a) (parse_form b))
         | _ -> failwith ("bad line " ^ line))
      with Miss -> "miss" in
    Printf.printf "%s %s %s\n" tag id res)
