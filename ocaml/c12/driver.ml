(* C12 driver: evaluates the extracted CBOR model / typed layer on the cases written by the
   Go harness, one case per line, one result line per case.

   item text:  u<dec> | n<dec> | b(<hex>) | t(<hex>) | a(<item>,...) | m(<key>:<val>,...)
               | g<dec>(<item>) | s<dec>
   E <id> <item>                 -> E <id> <hex encode> <within 0/1>
   G <id> <hex>                  -> G <id> ok <item> <hex encode (canon item)>  |  G <id> err <reason> <malformed 0/1>
   T <id> <type> <slen> <plen> <q hex> <sharematch 0/1> <hex>
                                 -> T <id> valid <hex encode value> | malformed <reason> | unsupported <reason>
                                    | unknown-field | shape | invalid <rule> *)
open Model
open Helpers

let parse_item (s : string) : item =
  let n = String.length s in
  let pos = ref 0 in
  let peek () = if !pos < n then s.[!pos] else '\000' in
  let adv () = incr pos in
  let expect c = if peek () <> c then failwith (Printf.sprintf "parse: expected %c at %d in %s" c !pos s) else adv () in
  let number () =
    let st = !pos in
    while !pos < n && s.[!pos] >= '0' && s.[!pos] <= '9' do adv () done;
    z_of_string (String.sub s st (!pos - st)) in
  let hexrun () =
    let st = !pos in
    while !pos < n && s.[!pos] <> ')' do adv () done;
    bytes_of_hex (String.sub s st (!pos - st)) in
  let rec item () =
    let c = peek () in
    adv ();
    match c with
    | 'u' -> UInt (number ())
    | 'n' -> NInt (number ())
    | 's' -> Simple (number ())
    | 'b' -> expect '('; let h = hexrun () in expect ')'; BStr h
    | 't' -> expect '('; let h = hexrun () in expect ')'; TStr h
    | 'g' -> let t = number () in expect '('; let x = item () in expect ')'; Tag (t, x)
    | 'a' ->
      expect '(';
      let acc = ref [] in
      if peek () = ')' then adv ()
      else begin
        let continue = ref true in
        while !continue do
          acc := item () :: !acc;
          if peek () = ',' then adv () else (expect ')'; continue := false)
        done
      end;
      Arr (List.rev !acc)
    | 'm' ->
      expect '(';
      let acc = ref [] in
      if peek () = ')' then adv ()
      else begin
        let continue = ref true in
        while !continue do
          let k = item () in
          expect ':';
          let v = item () in
          acc := (k, v) :: !acc;
          if peek () = ',' then adv () else (expect ')'; continue := false)
        done
      end;
      Map (List.rev !acc)
    | _ -> failwith ("parse: bad item char in " ^ s)
  in
  let x = item () in
  if !pos <> n then failwith ("parse: trailing text in " ^ s);
  x

let hexs l = if l = [] then "" else hex_of_bytes l

let rec show_item (x : item) : string =
  match x with
  | UInt n -> "u" ^ z_to_string n
  | NInt n -> "n" ^ z_to_string n
  | Simple n -> "s" ^ z_to_string n
  | BStr b -> "b(" ^ hexs b ^ ")"
  | TStr b -> "t(" ^ hexs b ^ ")"
  | Tag (t, y) -> "g" ^ z_to_string t ^ "(" ^ show_item y ^ ")"
  | Arr l -> "a(" ^ String.concat "," (List.map show_item l) ^ ")"
  | Map l -> "m(" ^ String.concat "," (List.map (fun (k, v) -> show_item k ^ ":" ^ show_item v) l) ^ ")"

let err_name (e : err) : string =
  match e with
  | ETrunc -> "trunc" | EIndef -> "indef" | EReserved -> "reserved" | EBreak -> "break"
  | EDup -> "dup" | ETrailing -> "trailing" | EDepth -> "depth" | ESize -> "size"
  | EUtf8 -> "utf8" | ESimple -> "simple" | EBigTag -> "bigtag" | EFloat -> "float"
  | EKey -> "key" | EFuel -> "fuel"

(* The shallow groups (wire field names of message structs and of DTOs known only by their field
   names) are Coq's gen/SerdeDtos.dto_groups; the extracted constant is too large for ocamlopt, so
   the translator writes the same table in line form into a comment block of gen/SerdeDtos.v:
     group <type-name prefix> <1 = the decoder itself validates>
     cand <field>:<omitempty> ...
   which is read here once.  Lookup = Schema.shallow_group: the group with the longest name that
   is a prefix of the type name. *)
let zbytes (s : string) = List.init (String.length s) (fun i -> z_of_int (Char.code s.[i]))

let shallow_table : (string * bool * (Big_int_Z.big_int list * bool) list list) list Lazy.t = lazy (
  let root = Filename.dirname (Filename.dirname (Filename.dirname
    (if Filename.is_relative Sys.executable_name then Filename.concat (Sys.getcwd ()) Sys.executable_name else Sys.executable_name))) in
  let path = Filename.concat root "coq/gen/SerdeDtos.v" in
  let ic = try open_in path with _ -> failwith ("cannot read " ^ path) in
  let groups = ref [] and cur = ref None and on = ref false in
  let flush () = match !cur with Some (n, s, cs) -> groups := (n, s, List.rev cs) :: !groups; cur := None | None -> () in
  (try
    while true do
      let l = input_line ic in
      if l = "(*TABLE" then on := true
      else if l = "TABLE*)" then on := false
      else if !on then
        match String.split_on_char ' ' l with
        | ["group"; n; s] -> flush (); cur := Some (n, s = "1", [])
        | "cand" :: fs ->
          let c = List.map (fun f -> match String.rindex_opt f ':' with
              | Some i -> (zbytes (String.sub f 0 i), String.sub f (i + 1) (String.length f - i - 1) = "1")
              | None -> failwith ("bad table field " ^ f)) fs in
          (match !cur with Some (n, s, cs) -> cur := Some (n, s, c :: cs) | None -> failwith "cand before group")
        | _ -> ()
    done
  with End_of_file -> ());
  close_in ic; flush (); !groups)

let shallow_ty (name : string) : ty =
  let best = List.fold_left (fun best (n, s, cs) ->
      let ln = String.length n in
      if ln <= String.length name && String.sub name 0 ln = n then
        (match best with Some (m, _, _) when String.length m >= ln -> best | _ -> Some (n, s, cs))
      else best) None (Lazy.force shallow_table) in
  match best with Some (_, s, cs) -> TShallow (s, cs) | None -> TGeneric

let ty_of (name : string) (c : curve) (sm : bool) : ty =
  (* the part before the first '-' selects the schema; the rest names the curve *)
  let base = match String.index_opt name '-' with Some i -> String.sub name 0 i | None -> name in
  match base with
  | "threshold" -> TThreshold | "unanimity" -> TUnanimity | "cnf" -> TCnf
  | "hierarchical" -> THierarchical | "boolexpr" -> TBoolexpr
  | "msp" -> TMsp c | "kwshare" | "feldmanshare" -> TKwShare c | "feldmanlifted" -> TLifted c
  | "feldmanvv" | "pedersenvv" -> TFeldmanVV c | "basepublic" -> TBasePublic c | "baseshard" | "dkls23shard" | "schnorrshard" -> TBaseShard (c, sm)
  | "ecdsasig" -> TEcdsaSig c | "dkls23partialsig" -> TDklsPartial c
  | "pedersenshare" -> TPedShare c | "pedersenlifted" -> TPedLifted c | "matrix" -> TMatrix c | "sqmatrix" -> TSqMatrix c | "mvmatrix" -> TMvMatrix c
  | "nat" -> TNat | "int" -> TInt | "natplus" -> TNatPlus | "uint" -> TUint
  | "scalar" -> TScalar c | "point" -> TPoint c
  | _ -> shallow_ty name

let () =
  iter_lines (fun line ->
    match String.split_on_char ' ' line with
    | ["E"; id; tree] ->
      let x = parse_item tree in
      Printf.printf "E %s %s %d\n" id (hex_of_bytes (encode x)) (if within serde_limits x then 1 else 0)
    | ["G"; id; hx] ->
      (match decode serde_limits (bytes_of_hex hx) with
       | Ok x -> Printf.printf "G %s ok %s %s\n" id (show_item x) (hex_of_bytes (encode (canon x)))
       | Err e -> Printf.printf "G %s err %s %d\n" id (err_name e) (if malformed_reason e then 1 else 0))
    | ["T"; id; tname; slen; plen; q; sm; hx] ->
      let c = { c_slen = z_of_string slen; c_plen = z_of_string plen; c_q = z_of_hex q } in
      let t = ty_of tname c (sm = "1") in
      let r = match classify serde_limits t (bytes_of_hex hx) with
        | VMalformed e -> "malformed " ^ err_name e
        | VUnsupported e -> "unsupported " ^ err_name e
        | VUnknownField -> "unknown-field"
        | VShape -> "shape"
        | VInvalid r -> "invalid " ^ z_to_string r
        | VValid x -> "valid " ^ hex_of_bytes (encode_typed x) in
      Printf.printf "T %s %s\n" id r
    | _ -> failwith ("bad line " ^ line))
