(* C03 driver: evaluates the extracted DKG model (coq/model/Dkg.v at Z_q, g = 1) on the
   cases written by the Go harness.  One case per stdin line, one result line per case.

   Line (fields separated by one space):
     PROTO q MAT HOLDERS PARTIES SUBSETS
       PROTO    G (Gennaro) | C (Canetti) | D (trusted dealer)
       q        group order, lower-case hex
       MAT      RxC:l,l,..:e,e,..   R row labels (holder ids, decimal), entries row-major hex
       HOLDERS  h,h,..             ascending holder ids (decimal)
       PARTIES  id=read,read,..;id=..   reads of the dealing round as hex bytes (dealer: id 0)
       SUBSETS  S|S|..  with S = id:c,c/id:c,..  reconstruction coefficients per holder ("-" = none)
       TAMPER   id:k:delta   shift coordinate k of party id's share by delta (hex)
   Result line (tokens separated by one space):
     secret=<hex>
     p:<id>:ok:<share,>:<vv,>:<pk>:<h=a|b;h=..>      party / holder output (exponents)
     p:<id>:blame:<j>   p:<id>:fail
     m:<id>:<pv_g,>:<pv_h,>:<feld,>:<h=s|s/b|b;..>    (Gennaro) what dealer <id> sends
     r:<k>:<0|1>:<value>                             subset k: lambda*M_S = e0 ?, lambda*shares
     t:<0|1>                                         NewBaseShard accepts the shifted share ?
   "bad <msg>" on a malformed line. *)
open Model
open Helpers

type z = Big_int_Z.big_int

let vec_of (s : string) : z list =
  if s = "-" || s = "" then [] else List.map z_of_hex (String.split_on_char ',' s)
let ids_of (s : string) : z list =
  if s = "-" || s = "" then [] else List.map z_of_string (String.split_on_char ',' s)
let show_vec (v : z list) : string =
  if v = [] then "-" else String.concat "," (List.map hex_of_z v)
let show_bar (v : z list) : string =
  if v = [] then "-" else String.concat "|" (List.map hex_of_z v)

let rec take n l = if n = 0 then [] else match l with [] -> failwith "short matrix" | h :: t -> h :: take (n - 1) t
let rec drop n l = if n = 0 then l else match l with [] -> failwith "short matrix" | _ :: t -> drop (n - 1) t

let mat_of (s : string) : z list list * z list * int =
  match String.split_on_char ':' s with
  | [dims; labs; es] ->
    (match String.split_on_char 'x' dims with
     | [r; c] ->
       let r = int_of_string r and c = int_of_string c in
       let es = vec_of es and labs = ids_of labs in
       if List.length es <> r * c || List.length labs <> r then failwith "bad matrix";
       let rec rows k l = if k = 0 then [] else take c l :: rows (k - 1) (drop c l) in
       (rows r es, labs, c)
     | _ -> failwith "bad dims")
  | _ -> failwith "bad matrix"

let parties_of (s : string) : (z * z list list) list =
  List.map (fun p ->
      match String.split_on_char '=' p with
      | [id; reads] -> (z_of_string id, List.map bytes_of_hex (split_on ',' reads))
      | _ -> failwith "bad party") (split_on ';' s)

let subsets_of (s : string) : (z * z list) list list =
  if s = "-" then [] else
  List.map (fun sub ->
      List.map (fun e -> match String.split_on_char ':' e with
          | [id; cs] -> (z_of_string id, vec_of cs)
          | _ -> failwith "bad subset") (split_on '/' sub)) (split_on '|' s)

let show_shard (id : z) (s : z shard) : string =
  Printf.sprintf "p:%s:ok:%s:%s:%s:%s" (z_to_string id) (show_vec s.sh_share) (show_vec s.sh_vv) (hex_of_z s.sh_pk)
    (String.concat ";" (List.map (fun (h, v) -> z_to_string h ^ "=" ^ show_bar v) s.sh_pks))

let show_verdict (id, v) =
  match v with
  | Ok s -> show_shard id s
  | Blame j -> Printf.sprintf "p:%s:blame:%s" (z_to_string id) (z_to_string j)
  | Fail -> Printf.sprintf "p:%s:fail" (z_to_string id)

let handle (line : string) : string =
  match String.split_on_char ' ' line with
  | [proto; q; m; holders; parties; subsets; tamper] ->
    let q = z_of_hex q in
    let (mat, labs, c) = mat_of m in
    let d = nat_of_int c in
    let holders = ids_of holders in
    let parties = parties_of parties in
    let subsets = subsets_of subsets in
    let outs, msgs =
      match proto with
      | "G" ->
        (zq_gennaro_run q mat labs d holders parties,
         List.map (fun (id, tape) ->
             match zq_gennaro_msgs q mat labs d holders tape with
             | None -> Printf.sprintf "m:%s:none" (z_to_string id)
             | Some ((b1, b2), us) ->
               Printf.sprintf "m:%s:%s:%s:%s:%s" (z_to_string id) (show_vec b1.pv_g) (show_vec b1.pv_h) (show_vec b2.feld)
                 (String.concat ";" (List.map (fun (h, u) -> z_to_string h ^ "=" ^ show_bar u.us ^ "/" ^ show_bar u.ub) us)))
           parties)
      | "C" -> (zq_canetti_run q mat labs d holders parties, [])
      | "D" ->
        (match parties with
         | [(_, tape)] ->
           (match zq_dealer_run q mat labs d holders tape with
            | None -> (List.map (fun h -> (h, Fail)) holders, [])
            | Some l -> (List.map (fun (h, o) -> (h, match o with Some s -> Ok s | None -> Fail)) l, []))
         | _ -> failwith "dealer needs one tape")
      | _ -> failwith "bad proto"
    in
    let shares = List.concat (List.map (fun (id, v) -> match v with Ok s -> [(id, s.sh_share)] | _ -> []) outs) in
    let recs = List.mapi (fun k sub ->
        let s = List.map fst sub in
        let (ok, v) = zq_recon q mat labs d s sub shares in
        Printf.sprintf "r:%d:%d:%s" k (if ok then 1 else 0) (hex_of_z v)) subsets in
    let tam =
      match String.split_on_char ':' tamper with
      | [tid; tk; td] ->
        let tid = z_of_string tid in
        (match List.find_opt (fun (id, _) -> Big_int_Z.eq_big_int id tid) outs with
         | Some (_, Ok s) ->
           [Printf.sprintf "t:%d" (if zq_tamper q mat labs d holders tid (nat_of_int (int_of_string tk)) (z_of_hex td) s then 1 else 0)]
         | _ -> [])
      | _ -> [] in
    String.concat " " (("secret=" ^ hex_of_z (zq_secret_sum q parties)) :: List.map show_verdict outs @ msgs @ recs @ tam)
  | _ -> failwith "fields"

let () =
  iter_lines (fun line ->
      let out = try handle line with
        | Failure m -> "bad " ^ m
        | Not_found -> "bad not_found"
        | Invalid_argument m -> "bad " ^ m in
      print_string out; print_newline ())
