(* C20 driver: evaluates the extracted linear-algebra / polynomial / interpolation model
   (coq/model/{LinAlg,Poly,Interp}.v at the field [Zp p]) on the cases written by the Go
   harness.  One case per stdin line, one result line per case, same order.

   Line format:   OP p arg ...      (fields separated by one space)
     p        scalar-field order, lower-case hex
     scalar   lower-case hex, canonical representative in [0,p)
     vector   e,e,...   ("-" = empty)
     matrix   RxC:e,e,...  (row-major, R,C decimal >= 1)
     nat      decimal
   Group elements ("in the exponent" operations) are given and returned as exponents:
   the module is [self_module (Zp p)].

   Result line:  status [payload]   with status in
     ok | none | err_len | err_div | err_empty | err_singular | err_dim | bad *)
open Model
open Helpers

type z = Big_int_Z.big_int

let vec_of (s : string) : z list =
  if s = "-" || s = "" then [] else List.map z_of_hex (String.split_on_char ',' s)

let show_vec (v : z list) : string =
  if v = [] then "-" else String.concat "," (List.map hex_of_z v)

let rec take n l = if n = 0 then [] else match l with [] -> failwith "short matrix" | h :: t -> h :: take (n - 1) t
let rec drop n l = if n = 0 then l else match l with [] -> failwith "short matrix" | _ :: t -> drop (n - 1) t

let mat_of (s : string) : z list list =
  match String.split_on_char ':' s with
  | [dims; es] ->
    (match String.split_on_char 'x' dims with
     | [r; c] ->
       let r = int_of_string r and c = int_of_string c in
       let es = vec_of es in
       if List.length es <> r * c || r < 1 || c < 1 then failwith ("bad matrix " ^ s);
       let rec rows k l = if k = 0 then [] else take c l :: rows (k - 1) (drop c l) in
       let m = rows r es in
       if not (wf_matrixb (nat_of_int r) (nat_of_int c) m) then failwith "wf_matrixb";
       m
     | _ -> failwith ("bad dims " ^ s))
  | _ -> failwith ("bad matrix " ^ s)

let show_mat (m : z list list) : string =
  let r = List.length m in
  let c = match m with [] -> 0 | h :: _ -> List.length h in
  Printf.sprintf "%dx%d:%s" r c (show_vec (List.concat m))

let show_err = function
  | ErrLength -> "err_len"
  | ErrDiv -> "err_div"
  | ErrEmpty -> "err_empty"
  | ErrSingular -> "err_singular"
  | ErrDim -> "err_dim"

let show_res (f : 'a -> string) (r : 'a res) : string =
  match r with Ok a -> "ok " ^ f a | Err e -> show_err e

let show_opt (f : 'a -> string) (none : string) (r : 'a option) : string =
  match r with Some a -> "ok " ^ f a | None -> none

let nat s = nat_of_int (int_of_string s)

(* sort key of a Z_p element: its canonical representative *)
let fkey (x : z) : z = x

let eval (line : string) : string =
  match String.split_on_char ' ' line with
  | op :: p :: args ->
    let k = zp (z_of_hex p) in
    let mo = self_module k in
    (match op, args with
     | "SOLVE_R", [m; b] -> show_opt show_vec "none" (solve_right k (mat_of m) (vec_of b))
     | "SOLVE_L", [m; r] -> show_opt show_vec "none" (solve_left k (mat_of m) (vec_of r))
     | "SOLVE_AUG", [m] -> show_opt show_vec "none" (solve_augmented k (mat_of m))
     | "MVEC", [m; x] -> "ok " ^ show_vec (mvec k (mat_of m) (vec_of x))
     | "VECM", [x; m] -> "ok " ^ show_vec (vecm k (vec_of x) (mat_of m))
     | "INV", [m] -> show_opt show_mat "none" (try_inv k (mat_of m))
     | "DET", [m] -> "ok " ^ hex_of_z (determinant k (mat_of m))
     | "MUL", [a; b] -> show_opt show_mat "err_dim" (try_mul k (mat_of a) (mat_of b))
     | "MMUL", [a; b] -> "ok " ^ show_mat (mmul k (mat_of a) (mat_of b))
     | "TRANSPOSE", [m] -> "ok " ^ show_mat (transpose k (mat_of m))
     | "AUGMENT", [a; b] ->
       let a = mat_of a and b = mat_of b in
       if List.length a <> List.length b then "err_dim" else "ok " ^ show_mat (augment a b)
     | "COLVEC", [b] -> "ok " ^ show_mat (col_vector (vec_of b))
     | "IDENT", [n] -> "ok " ^ show_mat (identity k (nat n))
     | "DOT", [a; b] ->
       let a = vec_of a and b = vec_of b in
       if List.length a <> List.length b then "err_dim" else "ok " ^ hex_of_z (dot k a b)
     | "MINOR", [m; r; c] -> show_opt show_mat "err_dim" (minor (nat r) (nat c) (mat_of m))
     | "SETCOL", [m; c; d] -> show_opt show_mat "err_dim" (set_column (nat c) (vec_of d) (mat_of m))
     | "LIFT", [m; g] -> "ok " ^ show_mat (lift mo (mat_of m) (z_of_hex g))
     | "LACT", [a; x; g] -> show_opt show_mat "err_dim" (try_left_action mo (mat_of a) (lift mo (mat_of x) (z_of_hex g)))
     | "RACT", [x; a; g] -> show_opt show_mat "err_dim" (try_right_action k mo (lift mo (mat_of x) (z_of_hex g)) (mat_of a))
     | "EVAL", [c; x] -> "ok " ^ hex_of_z (peval k (vec_of c) (z_of_hex x))
     | "DEGREE", [c] -> (match pdegree k (vec_of c) with None -> "ok -1" | Some d -> Printf.sprintf "ok %d" (int_of_nat d))
     | "DERIV", [c] -> "ok " ^ show_vec (pderiv k (vec_of c))
     | "LIFTPOLY", [c; g] -> "ok " ^ show_vec (lift_poly mo (vec_of c) (z_of_hex g))
     | "GEVAL", [c; g; x] -> show_opt hex_of_z "none" (gpeval mo (lift_poly mo (vec_of c) (z_of_hex g)) (z_of_hex x))
     | "GDERIV", [c; g] -> "ok " ^ show_vec (gpderiv mo (lift_poly mo (vec_of c) (z_of_hex g)))
     | "BASIS", [xs; at] -> show_opt show_vec "err_div" (basis_at k (vec_of xs) (z_of_hex at))
     | "LAGRANGE", [xs; ys; at] -> show_res hex_of_z (lagrange_interpolate_at k (vec_of xs) (vec_of ys) (z_of_hex at))
     | "LAGRANGE_EXP", [xs; ys; at] -> show_res hex_of_z (lagrange_interpolate_in_exponent_at k mo (vec_of xs) (vec_of ys) (z_of_hex at))
     | "BVAND", [xs; cols] -> show_res show_mat (build_vandermonde k (vec_of xs) (nat cols))
     | "VANDERMONDE", [xs; ys] -> show_res show_vec (vandermonde_interpolate k (vec_of xs) (vec_of ys))
     | "BBUILD", [xs; js; cols] ->
       let xs = vec_of xs and js = vec_of js in
       if List.length xs <> List.length js then "err_len"
       else if int_of_string cols <= 0 then "err_empty"
       else if xs = [] then "err_dim"
       else "ok " ^ show_mat (build_birkhoff k xs js (nat cols))
     | "PHI", [t; x; j] -> "ok " ^ hex_of_z (phi k (nat t) (z_of_hex x) (z_of_hex j))
     | "BIRKHOFF", [xs; js; ys] -> show_res show_vec (birkhoff_interpolate k fkey (vec_of xs) (vec_of js) (vec_of ys))
     | "BIRKHOFF_EXP", [xs; js; ys] -> show_res show_vec (birkhoff_interpolate_in_exponent k mo fkey (vec_of xs) (vec_of js) (vec_of ys))
     | "POW", [a; e] -> "ok " ^ hex_of_z (zp_pow (z_of_hex p) (z_of_hex a) (z_of_hex e))
     | _ -> "bad op")
  | _ -> "bad line"

let () =
  iter_lines (fun line ->
    let r = try eval line with Failure m -> "bad " ^ m | Invalid_argument m -> "bad " ^ m | Not_found -> "bad notfound" in
    print_string r; print_newline ())
