(* C14 driver: evaluates the extracted affine big-integer model (Curve.v, ScalarMul.v) on the
   cases written by the Go harness.  One case per line in, one result line out.

   point text   Weierstrass / Montgomery:  inf | x,y      (coordinates lower-case hex)
                over F_p2:                 inf | x0:x1,y0:y1
                Edwards:                   x,y            (identity is 0,1)
   commands     PARAMS c | GEN c | ADD c P Q | SUB c P Q | DBL c P | NEG c P | EQ c P Q | ISID c P | ORDN c P
                ONC c x,y | MUL c k lebytes P | MSM c k;lebytes;P ... | MSMN (naive sum only) | MSMC (bucket algorithm only) | EDMONT x,y
                F field op x [y]      field = <curve>.p | <curve>.n | g2.p2 *)
open Model
open Helpers

let zero = Big_int_Z.zero_big_int
let hz = hex_of_z
let zh = z_of_hex

(* coordinate codecs *)
let show_fp x = hz x
let parse_fp s = zh s
let show_fp2 (a, b) = hz a ^ ":" ^ hz b
let parse_fp2 s = match String.split_on_char ':' s with
  | [a; b] -> (zh a, zh b) | _ -> failwith ("bad fp2 " ^ s)

let show_opt showc = function None -> "inf" | Some (x, y) -> showc x ^ "," ^ showc y
let parse_opt parsec s =
  if s = "inf" then None
  else match String.split_on_char ',' s with
    | [x; y] -> Some (parsec x, parsec y) | _ -> failwith ("bad point " ^ s)
let show_pair (x, y) = hz x ^ "," ^ hz y
let parse_pair s = match String.split_on_char ',' s with
  | [x; y] -> (zh x, zh y) | _ -> failwith ("bad point " ^ s)

let b2s b = if b then "1" else "0"

(* a group as string-level closures *)
type grp = {
  params : unit -> string;
  gen : unit -> string;
  add : string -> string -> string;
  sub : string -> string -> string;
  dbl : string -> string;
  neg : string -> string;
  eq : string -> string -> string;
  isid : string -> string;
  onc : string -> string;
  mul : Big_int_Z.big_int -> Big_int_Z.big_int list -> string -> string;   (* naive, window *)
  msm : (Big_int_Z.big_int * Big_int_Z.big_int list * string) list -> string; (* naive, code *)
  msmn : (Big_int_Z.big_int * Big_int_Z.big_int list * string) list -> string; (* naive only *)
  msmc : (Big_int_Z.big_int * Big_int_Z.big_int list * string) list -> string; (* bucket-algorithm model only *)
  ordn : string -> string;                                                 (* n*P = identity ? *)
}

let mk parse show ~params ~gen ~add ~sub ~dbl ~neg ~eq ~isid ~onc ~mul ~smw ~msm ~msmcode ~n : grp = {
  params; gen = (fun () -> show gen);
  add = (fun p q -> show (add (parse p) (parse q)));
  sub = (fun p q -> show (sub (parse p) (parse q)));
  dbl = (fun p -> show (dbl (parse p)));
  neg = (fun p -> show (neg (parse p)));
  eq = (fun p q -> b2s (eq (parse p) (parse q)));
  isid = (fun p -> b2s (isid (parse p)));
  onc = (fun p -> b2s (onc (parse p)));
  mul = (fun k bs p -> let pp = parse p in show (mul k pp) ^ " " ^ show (smw pp bs));
  msm = (fun l ->
    let ks = List.map (fun (k, _, _) -> k) l
    and bs = List.map (fun (_, b, _) -> b) l
    and ps = List.map (fun (_, _, p) -> parse p) l in
    show (msm ks ps) ^ " " ^ (match msmcode ps bs with None -> "PANIC" | Some r -> show r));
  ordn = (fun p -> b2s (isid (mul n (parse p))));
  msmc = (fun l ->
    let bs = List.map (fun (_, b, _) -> b) l
    and ps = List.map (fun (_, _, p) -> parse p) l in
    (match msmcode ps bs with None -> "PANIC" | Some r -> show r));
  msmn = (fun l ->
    let ks = List.map (fun (k, _, _) -> k) l
    and ps = List.map (fun (_, _, p) -> parse p) l in
    show (msm ks ps));
}

let is_none = function None -> true | Some _ -> false

let mk_w (c : wparams) : grp =
  mk (parse_opt parse_fp) (show_opt show_fp)
    ~params:(fun () -> String.concat " " (List.map hz [c.wp_p; c.wp_a; c.wp_b; c.wp_gx; c.wp_gy; c.wp_n; c.wp_h]))
    ~gen:(w_gen c) ~add:(w_add c) ~sub:(w_sub c) ~dbl:(w_double c) ~neg:(w_neg c) ~eq:(w_eqb c)
    ~isid:is_none ~onc:(w_on_curve c) ~mul:(w_mul c) ~smw:(w_smw c) ~msm:(w_msm c) ~msmcode:(w_msm_code c) ~n:c.wp_n

let mk_w2 (c : w2params) : grp =
  mk (parse_opt parse_fp2) (show_opt show_fp2)
    ~params:(fun () -> String.concat " " [hz c.w2_p; show_fp2 c.w2_a; show_fp2 c.w2_b; show_fp2 c.w2_gx; show_fp2 c.w2_gy; hz c.w2_n; hz c.w2_h])
    ~gen:(w2_gen c) ~add:(w2_add c) ~sub:(w2_sub c) ~dbl:(w2_double c) ~neg:(w2_neg c) ~eq:(w2_eqb c)
    ~isid:is_none ~onc:(w2_on_curve c) ~mul:(w2_mul c) ~smw:(w2_smw c) ~msm:(w2_msm c) ~msmcode:(w2_msm_code c) ~n:c.w2_n

let mk_e (c : eparams) : grp =
  mk parse_pair show_pair
    ~params:(fun () -> String.concat " " (List.map hz [c.ep_p; c.ep_a; c.ep_d; c.ep_gx; c.ep_gy; c.ep_n; c.ep_h]))
    ~gen:(e_gen c) ~add:(e_add c) ~sub:(e_sub c) ~dbl:(e_double c) ~neg:(e_neg c) ~eq:(e_eqb c)
    ~isid:(e_is_zero c) ~onc:(e_on_curve c) ~mul:(e_mul c) ~smw:(e_smw c) ~msm:(e_msm c) ~msmcode:(e_msm_code c) ~n:c.ep_n

let mk_m (c : mparams) : grp =
  let sub p q = m_add c p (m_neg c q) in
  let rec msm ks ps = match ks, ps with
    | k :: ks', p :: ps' -> m_add c (m_mul c k p) (msm ks' ps')
    | _, _ -> None in
  mk (parse_opt parse_fp) (show_opt show_fp)
    ~params:(fun () -> String.concat " " (List.map hz [c.mp_p; c.mp_A; c.mp_gu; c.mp_gv; c.mp_n; c.mp_h]))
    ~gen:(m_gen c) ~add:(m_add c) ~sub ~dbl:(m_double c) ~neg:(m_neg c)
    ~eq:(fun p q -> p = q || (match p, q with
        | Some (a, b), Some (a', b') -> Big_int_Z.eq_big_int a a' && Big_int_Z.eq_big_int b b'
        | None, None -> true | _ -> false))
    ~isid:is_none ~onc:(m_on_curve c) ~mul:(m_mul c) ~smw:(m_smw c) ~msm ~msmcode:(fun _ _ -> None) ~n:c.mp_n

let groups : (string, grp) Hashtbl.t = Hashtbl.create 16
let () =
  List.iter (fun (n, g) -> Hashtbl.replace groups n g) [
    "k256", mk_w k256_params; "p256", mk_w p256_params; "pallas", mk_w pallas_params;
    "vesta", mk_w vesta_params; "g1", mk_w bls12381g1_params; "g2", mk_w2 bls12381g2_params;
    "ed25519", mk_e ed25519_params; "curve25519", mk_m curve25519_params ]

let grp n = try Hashtbl.find groups n with Not_found -> failwith ("unknown curve " ^ n)

(* field moduli by name *)
let modulus (f : string) : Big_int_Z.big_int =
  let w (c : wparams) which = if which = "p" then c.wp_p else c.wp_n in
  match String.split_on_char '.' f with
  | ["k256"; x] -> w k256_params x
  | ["p256"; x] -> w p256_params x
  | ["pallas"; x] -> w pallas_params x
  | ["vesta"; x] -> w vesta_params x
  | ["g1"; x] -> w bls12381g1_params x
  | ["g2"; "n"] -> bls12381g2_params.w2_n
  | ["g2"; "p2"] -> bls12381g2_params.w2_p
  | ["ed25519"; "p"] -> ed25519_params.ep_p
  | ["ed25519"; "n"] -> ed25519_params.ep_n
  | ["curve25519"; "p"] -> curve25519_params.mp_p
  | ["curve25519"; "n"] -> curve25519_params.mp_n
  | _ -> failwith ("unknown field " ^ f)

let field_op (f : string) (op : string) (args : string list) : string =
  let p = modulus f in
  let is2 = (match String.split_on_char '.' f with [_; "p2"] -> true | _ -> false) in
  if is2 then begin
    match op, args with
    | "add", [x; y] -> show_fp2 (fp2_add p (parse_fp2 x) (parse_fp2 y))
    | "sub", [x; y] -> show_fp2 (fp2_sub p (parse_fp2 x) (parse_fp2 y))
    | "mul", [x; y] -> show_fp2 (fp2_mulz p (parse_fp2 x) (parse_fp2 y))
    | "neg", [x] -> show_fp2 (fp2_neg p (parse_fp2 x))
    | "sqr", [x] -> let v = parse_fp2 x in show_fp2 (fp2_mulz p v v)
    | "inv", [x] -> (match fp2_inv_opt p (parse_fp2 x) with None -> "none" | Some v -> show_fp2 v)
    | _ -> failwith ("bad fp2 op " ^ op)
  end else begin
    match op, args with
    | "add", [x; y] -> hz (zp_add p (zh x) (zh y))
    | "sub", [x; y] -> hz (zp_sub p (zh x) (zh y))
    | "mul", [x; y] -> hz (zp_mul p (zh x) (zh y))
    | "neg", [x] -> hz (zp_neg p (zh x))
    | "sqr", [x] -> hz (zp_mul p (zh x) (zh x))
    | "inv", [x] -> (match zp_inv_opt p (zh x) with None -> "none" | Some v -> hz v)
    | "sqrt", [x] -> (match zp_sqrt p (zh x) with None -> "none" | Some v -> hz v)
    | "wide", [x] -> hz (zp_from_wide_be p (bytes_of_hex x))
    | _ -> failwith ("bad field op " ^ op)
  end

let parse_term (s : string) =
  match String.split_on_char ';' s with
  | [k; b; p] -> (zh k, bytes_of_hex b, p)
  | _ -> failwith ("bad msm term " ^ s)

let () =
  iter_lines (fun line ->
    let out =
      try
        match String.split_on_char ' ' line with
        | ["PARAMS"; c] -> (grp c).params ()
        | ["GEN"; c] -> (grp c).gen ()
        | ["ADD"; c; p; q] -> (grp c).add p q
        | ["SUB"; c; p; q] -> (grp c).sub p q
        | ["DBL"; c; p] -> (grp c).dbl p
        | ["NEG"; c; p] -> (grp c).neg p
        | ["EQ"; c; p; q] -> (grp c).eq p q
        | ["ISID"; c; p] -> (grp c).isid p
        | ["ORDN"; c; p] -> (grp c).ordn p
        | ["ONC"; c; p] -> (grp c).onc p
        | ["MUL"; c; k; b; p] -> (grp c).mul (zh k) (bytes_of_hex b) p
        | "MSM" :: c :: terms -> (grp c).msm (List.map parse_term terms)
        | "MSMN" :: c :: terms -> (grp c).msmn (List.map parse_term terms)
        | "MSMC" :: c :: terms -> (grp c).msmc (List.map parse_term terms)
        | ["EDMONT"; p] -> show_opt show_fp (m_of_ed curve25519_params (parse_pair p))
        | ["MONTED"; p] -> show_pair (m_to_ed curve25519_params (parse_opt parse_fp p))
        | "F" :: f :: op :: args -> field_op f op args
        | _ -> "BADCMD"
      with Failure m -> "ERROR " ^ m
    in
    print_string out; print_newline ())
