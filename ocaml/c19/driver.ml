(* C19 driver: evaluates the extracted transcript / expander model on the cases
   written by the Go harness, one case per line. *)
open Model
open Helpers

let parse_cmd (s : string) : cmd =
  match String.split_on_char ',' s with
  | "D" :: i :: [h] -> Do (nat_of_int (int_of_string i), Dom (bytes_of_hex h))
  | "A" :: i :: l :: ms -> Do (nat_of_int (int_of_string i), App (bytes_of_hex l, List.map bytes_of_hex ms))
  | "E" :: i :: l :: [n] -> Do (nat_of_int (int_of_string i), Ext (bytes_of_hex l, z_of_string n))
  | "K" :: [i] -> CloneOf (nat_of_int (int_of_string i))
  | _ -> failwith ("bad cmd " ^ s)

let show_out = function
  | None -> "-"
  | Some c -> String.concat "," [hex_of_bytes c.xc_custom; hex_of_bytes c.xc_input; z_to_string c.xc_len]

exception Miss

let table_fn (tbl : string) : (Big_int_Z.big_int list -> Big_int_Z.big_int list) =
  let h = Hashtbl.create 16 in
  List.iter (fun e -> match String.split_on_char ':' e with
    | [i; o] -> Hashtbl.replace h i o
    | _ -> failwith "bad table") (split_on ',' tbl);
  fun inp -> match Hashtbl.find_opt h (hex_of_bytes inp) with
    | Some o -> bytes_of_hex o
    | None -> raise Miss

let table_xof (tbl : string) =
  let h = Hashtbl.create 16 in
  List.iter (fun e -> match String.split_on_char ':' e with
    | [i; n; o] -> Hashtbl.replace h (i ^ ":" ^ n) o
    | _ -> failwith "bad table") (split_on ',' tbl);
  fun inp n -> match Hashtbl.find_opt h (hex_of_bytes inp ^ ":" ^ z_to_string n) with
    | Some o -> bytes_of_hex o
    | None -> if Big_int_Z.sign_big_int n = 0 then [] (* io.ReadFull of 0 bytes makes no Read call *) else raise Miss

let suite_of = function
  | "k256" -> k256_suite
  | "p256" -> p256_suite
  | "bls12381g1" -> bls12381g1_suite
  | "pallas" -> pallas_suite
  | "vesta" -> vesta_suite
  | s -> failwith ("unknown suite " ^ s)

let show_pt = function
  | None -> "inf"
  | Some (x, y) -> hex_of_z x ^ "," ^ hex_of_z y

let show_fp2 (a, b) = hex_of_z a ^ ":" ^ hex_of_z b
let show_pt2 = function
  | None -> "inf"
  | Some (x, y) -> show_fp2 x ^ "," ^ show_fp2 y

let () =
  iter_lines (fun line ->
    match String.split_on_char ' ' line with
    | "T" :: id :: name :: rest ->
      let cmds = match rest with [c] -> List.map parse_cmd (split_on ';' c) | _ -> [] in
      let (_, outs) = crun [new_transcript (bytes_of_hex name)] cmds in
      Printf.printf "T %s %s\n" id (String.concat ";" (List.map show_out outs))
    | ["X"; id; b; s; dst; msg; len; tbl] ->
      let r = try
          (match expand_message_xmd (table_fn tbl) (z_of_string b) (z_of_string s)
                   (bytes_of_hex dst) (bytes_of_hex msg) (z_of_string len) with
           | None -> "PANIC"
           | Some o -> hex_of_bytes o)
        with Miss -> "MISS" in
      Printf.printf "X %s %s\n" id r
    | ["F"; id; k; dst; msg; len; tbl] ->
      let r = try
          (match expand_message_xof (table_xof tbl) (z_of_string k)
                   (bytes_of_hex dst) (bytes_of_hex msg) (z_of_string len) with
           | None -> "PANIC"
           | Some o -> hex_of_bytes o)
        with Miss -> "MISS" in
      Printf.printf "F %s %s\n" id r
    | ["U"; id; p; count; m; l; u] ->
      let r = hash_to_field_from_uniform (z_of_hex p) (z_of_string l) (z_of_string m)
          (z_of_string count) (bytes_of_hex u) in
      Printf.printf "U %s %s\n" id
        (String.concat ";" (List.map (fun e -> String.concat "," (List.map hex_of_z e)) r))
    | ["ISO"; id; "bls12381g2"] -> Printf.printf "ISO %s %b\n" id g2_iso_identity
    | ["ISO"; id; suite] -> Printf.printf "ISO %s %b\n" id (ws_iso_identity (suite_of suite))
    | ["HF"; id; "bls12381g2"; _; count; b; s; dst; msg; tbl] ->
      let r = try
          (match g2_h2f (table_fn tbl) (z_of_string b) (z_of_string s)
                   (z_of_string count) (bytes_of_hex dst) (bytes_of_hex msg) with
           | None -> "PANIC"
           | Some us -> String.concat "," (List.map show_fp2 us))
        with Miss -> "MISS" in
      Printf.printf "HF %s %s\n" id r
    | ["HC"; id; "bls12381g2"; b; s; dst; msg; tbl] ->
      let h = table_fn tbl and bb = z_of_string b and ss = z_of_string s in
      let r = try
          (match g2_h2f h bb ss (z_of_int 2) (bytes_of_hex dst) (bytes_of_hex msg),
                 g2_hash_to_curve h bb ss (bytes_of_hex dst) (bytes_of_hex msg) with
           | Some us, Some p ->
             let qs = List.map (fun u -> show_pt2 (g2_to_affine (g2_map u))) us in
             String.concat ";" [String.concat "," (List.map show_fp2 us); String.concat ";" qs; show_pt2 p;
                                string_of_bool (g2_on_curve p); string_of_bool (g2_in_subgroup p)]
           | _ -> "PANIC")
        with Miss -> "MISS" in
      Printf.printf "HC %s %s\n" id r
    | ["HF"; id; "edwards25519"; scalar; count; b; s; dst; msg; tbl] ->
      let r = try
          (match ed_h2f (table_fn tbl) (z_of_string b) (z_of_string s) (scalar = "1")
                   (z_of_string count) (bytes_of_hex dst) (bytes_of_hex msg) with
           | None -> "PANIC"
           | Some us -> String.concat "," (List.map hex_of_z us))
        with Miss -> "MISS" in
      Printf.printf "HF %s %s\n" id r
    | ["HC"; id; "edwards25519"; b; s; dst; msg; tbl] ->
      let h = table_fn tbl and bb = z_of_string b and ss = z_of_string s in
      let r = try
          (match ed_h2f h bb ss false (z_of_int 2) (bytes_of_hex dst) (bytes_of_hex msg),
                 ed_hash_to_curve h bb ss (bytes_of_hex dst) (bytes_of_hex msg) with
           | Some us, Some p ->
             let qs = List.map (fun u -> show_pt (ed_to_affine (ed_map u))) us in
             String.concat ";" [String.concat "," (List.map hex_of_z us); String.concat ";" qs; show_pt p;
                                string_of_bool (ed_on_curve p); string_of_bool (ed_in_subgroup p)]
           | _ -> "PANIC")
        with Miss -> "MISS" in
      Printf.printf "HC %s %s\n" id r
    | ["HF"; id; suite; scalar; count; b; s; dst; msg; tbl] ->
      let r = try
          (match ws_h2f (table_fn tbl) (z_of_string b) (z_of_string s) (suite_of suite) (scalar = "1")
                   (z_of_string count) (bytes_of_hex dst) (bytes_of_hex msg) with
           | None -> "PANIC"
           | Some us -> String.concat "," (List.map hex_of_z us))
        with Miss -> "MISS" in
      Printf.printf "HF %s %s\n" id r
    | ["HC"; id; suite; b; s; dst; msg; tbl] ->
      let su = suite_of suite in
      let h = table_fn tbl and bb = z_of_string b and ss = z_of_string s in
      let r = try
          (match ws_h2f h bb ss su false (z_of_int 2) (bytes_of_hex dst) (bytes_of_hex msg),
                 ws_hash_to_curve h bb ss su (bytes_of_hex dst) (bytes_of_hex msg) with
           | Some us, Some p ->
             let qs = List.map (fun u -> show_pt (ws_to_affine su (ws_map su u))) us in
             String.concat ";" [String.concat "," (List.map hex_of_z us); String.concat ";" qs; show_pt p;
                                string_of_bool (ws_on_curve su p); string_of_bool (ws_in_subgroup su p)]
           | _ -> "PANIC")
        with Miss -> "MISS" in
      Printf.printf "HC %s %s\n" id r
    | ["EN"; id; suite; b; s; dst; msg; tbl] ->
      let su = suite_of suite in
      let r = try
          (match ws_encode_to_curve (table_fn tbl) (z_of_string b) (z_of_string s) su (bytes_of_hex dst) (bytes_of_hex msg) with
           | Some p -> show_pt p
           | None -> "PANIC")
        with Miss -> "MISS" in
      Printf.printf "EN %s %s\n" id r
    | _ -> failwith ("bad line " ^ line))
