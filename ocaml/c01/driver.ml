(* C01 driver: evaluates the extracted signing models (DKLs23, Lindell22, Boldyreva, Lindell17)
   on the cases written by the Go harness, one case per line; integers are lower-case hex,
   tape reads are byte strings in hex, lists are comma separated, matrix rows ';' separated. *)
open Model
open Helpers

let zs (s : string) : Big_int_Z.big_int list = List.map z_of_hex (split_on ',' s)
let tapes (s : string) : Big_int_Z.big_int list list = List.map bytes_of_hex (split_on ',' s)
let mat (s : string) : Big_int_Z.big_int list list =
  List.map (fun r -> if r = "-" then [] else zs r) (split_on ';' s)
let b (s : string) : bool = (s = "1")
let sb (x : bool) : string = if x then "1" else "0"
let hz = hex_of_z

let () =
  iter_lines (fun line ->
    match String.split_on_char ' ' line with
    | ["D"; id; q; m; x; rx; odd; over; n; rt; pt; sk; chi; cu; cv] ->
      let q = z_of_hex q in
      let rs = List.map (scalar_of_tape q) (tapes rt) in
      let phis = List.map (scalar_of_tape q) (tapes pt) in
      let inp = dkls_inputs_Z q (nat_of_int (int_of_string n)) rs phis (zs sk) (mat chi) (mat cu) (mat cv) in
      let (((r, kk), us), ws) = dkls_run_Z q inp (z_of_hex m) (z_of_hex x) (z_of_hex rx) (b odd) (b over) in
      (match r with
       | Some ((rr, s), (b0, b1)) ->
         Printf.printf "D %s some %s %s %s %s %s %s %s\n" id (hz rr) (hz s) (sb b0) (sb b1) (hz kk) (hz us) (hz ws)
       | None -> Printf.printf "D %s none %s %s %s\n" id (hz kk) (hz us) (hz ws))
    | ["L"; id; q; fl; cos; x; e; oddr; oddp; n; kt; a; z] ->
      let q = z_of_hex q in
      let fl = (match fl with "v0" -> Vanilla false | "v1" -> Vanilla true | "b" -> Bip340 | "m" -> Mina
                             | _ -> failwith "bad flavour") in
      let ks = List.map (scalar_of_tape q) (tapes kt) in
      let inp = l22_inputs_Z (nat_of_int (int_of_string n)) ks (zs a) (zs z) in
      let ((r, kk), es) = l22_run_Z q fl (b cos) inp (z_of_hex x) (z_of_hex e) (b oddr) (b oddp) in
      (match r with
       | Some ((_, rr), s) -> Printf.printf "L %s some %s %s %s %s\n" id (hz rr) (hz s) (hz kk) (hz es)
       | None -> Printf.printf "L %s none %s %s\n" id (hz kk) (hz es))
    | ["B"; id; q; md; x; rows; coefs] ->
      let md = (match md with "basic" -> Basic | "aug" -> MessageAugmentation | "pop" -> POP | _ -> failwith "bad mode") in
      let (r, rc) = bls_run_Z (z_of_hex q) md (z_of_hex x) (mat rows) (mat coefs) in
      (match r with
       | Some (c, p) ->
         Printf.printf "B %s some %s %s %s\n" id (hz c) (match p with Some pp -> hz pp | None -> "-") (hz rc)
       | None -> Printf.printf "B %s none %s\n" id (hz rc))
    | ["P"; id; q; nn; k1t; k2t; x1; lam; x2; zeta2; rho; m; x; rx; odd; over] ->
      let q = z_of_hex q in
      let k1 = scalar_of_tape q (bytes_of_hex k1t) and k2 = scalar_of_tape q (bytes_of_hex k2t) in
      let inp = l17_inputs_Z k1 k2 (zs x1) (zs lam) (z_of_hex x2) (z_of_hex zeta2) (z_of_hex rho) in
      let ((r, kk), c3) = l17_run_Z q (z_of_hex nn) inp (z_of_hex m) (z_of_hex x) (z_of_hex rx) (b odd) (b over) in
      (match r with
       | Some ((rr, s), (b0, b1)) ->
         Printf.printf "P %s some %s %s %s %s %s %s\n" id (hz rr) (hz s) (sb b0) (sb b1) (hz kk) (hz c3)
       | None -> Printf.printf "P %s none %s %s\n" id (hz kk) (hz c3))
    | ["G"; id; q; m; y; rx; odd; over; n; kt; gt; xs; beta; betah] ->
      let q = z_of_hex q in
      let ks = List.map (scalar_of_tape q) (tapes kt) in
      let gs = List.map (scalar_of_tape q) (tapes gt) in
      let inp = cggmp_inputs_Z q (nat_of_int (int_of_string n)) ks gs (zs xs) (mat beta) (mat betah) in
      let (r, g) = cggmp_run_Z q inp (z_of_hex m) (z_of_hex y) (z_of_hex rx) (b odd) (b over) in
      (match r with
       | Some ((rr, s), (b0, b1)) ->
         Printf.printf "G %s some %s %s %s %s %s\n" id (hz rr) (hz s) (sb b0) (sb b1) (hz g)
       | None -> Printf.printf "G %s none %s\n" id (hz g))
    | _ -> failwith ("bad line " ^ line))
