(* C04 driver: answers the harness's questions about the classification table of
   coq/model/Deviate.v.  One query per line:
     classify <protocol> <round> <b|u> <hex of the field path | ->
   prints  bound | late | unbound | unknown.  The table is keyed by the FNV-1a hash of the
   path; the hash of the query is computed with the model's own [fnv]. *)
open Model
open Helpers

let proto_of = function
  | "session" -> Some PSession
  | "gennaro" -> Some PGennaro
  | "hjky" -> Some PHjky
  | "redistribute" -> Some PRedistribute
  | "dkls23" -> Some PDkls23
  | "lindell22" | "lindell22-2" -> Some PLindell22
  | "boldyreva" | "boldyreva-pop" -> Some PBoldyreva
  | "canetti" -> Some PCanetti
  | "aor" -> Some PAor
  | "dkls23-softspoken" -> Some PSoftspoken
  | _ -> None

let show = function
  | Bound -> "bound"
  | Late -> "late"
  | Unbound -> "unbound"
  | Unknown -> "unknown"

let () =
  iter_lines (fun line ->
    match String.split_on_char ' ' line with
    | ["classify"; p; r; b; f] ->
      (match proto_of p with
       | None -> print_endline "unknown"
       | Some pr ->
         print_endline (show (classify pr (nat_of_int (int_of_string r)) (b = "b") (fnv (bytes_of_hex f)))))
    | _ -> print_endline "error")
