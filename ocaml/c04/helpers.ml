(* helpers shared by every driver; compiled per driver directory against that
   directory's extracted Model (for its [nat] type). *)
module ZA = Z   (* zarith's Z, captured before Model (which may define its own module Z) is opened *)
open Model

let rec nat_of_int (n : int) : nat = if n <= 0 then O else S (nat_of_int (n - 1))
let rec int_of_nat (n : nat) : int = match n with O -> 0 | S m -> 1 + int_of_nat m

let z_of_int = Big_int_Z.big_int_of_int
let z_of_string = Big_int_Z.big_int_of_string
let z_to_string = Big_int_Z.string_of_big_int
let z_to_int = Big_int_Z.int_of_big_int

(* hex <-> byte lists (bytes are big ints in the model); "-" is the empty string *)
let bytes_of_hex (s : string) : Big_int_Z.big_int list =
  if s = "-" || s = "" then []
  else begin
    let n = String.length s / 2 in
    let rec go i acc =
      if i < 0 then acc
      else go (i - 1) (z_of_int (int_of_string ("0x" ^ String.sub s (2 * i) 2)) :: acc)
    in
    go (n - 1) []
  end

let hex_of_bytes (l : Big_int_Z.big_int list) : string =
  if l = [] then "-"
  else begin
    let b = Buffer.create 64 in
    List.iter (fun x -> Buffer.add_string b (Printf.sprintf "%02x" (z_to_int x))) l;
    Buffer.contents b
  end

(* big integers as lower-case hex without prefix ("0" for zero); negative with '-' *)
let z_of_hex (s : string) : Big_int_Z.big_int =
  if s = "" then Big_int_Z.zero_big_int
  else if s.[0] = '-' then ZA.neg (ZA.of_string_base 16 (String.sub s 1 (String.length s - 1)))
  else ZA.of_string_base 16 s
let hex_of_z (z : Big_int_Z.big_int) : string = ZA.format "%x" z

let split_on (c : char) (s : string) : string list =
  if s = "" then [] else String.split_on_char c s

let iter_lines (f : string -> unit) : unit =
  try
    while true do
      let l = input_line stdin in
      if l <> "" then f l
    done
  with End_of_file -> ()
