(* C02 driver: evaluates the extracted access-structure / MSP / KW / scheme models on the
   cases written by the Go harness, one case per line, one result line per case.

   line kinds (fields separated by one space; "-" = empty list):
     K tag q policy r1 r2 c subsets        KW/MSP over a policy
     S tag q t ids coeffs subsets          Shamir
     A tag q ids secret rs shares subsets  additive
     I tag q policy mus summands subsets   ISN
     H tag q levels coeffs subsets         Tassa
   policy  = T:t:ids | U:ids | N:set|set.. | H:t:ids|t:ids.. | G:tree   (constructor INPUT)
   ids/set = decimal,decimal,..  ("e" = empty set, "-" = no sets)
   tree    = decimal | g<t>[tree,tree,..]
   field elements are lower-case hex. *)
open Model
open Helpers

let ids_of (s : string) : Big_int_Z.big_int list =
  if s = "-" || s = "e" || s = "" then [] else List.map z_of_string (String.split_on_char ',' s)
let fes_of (s : string) : Big_int_Z.big_int list =
  if s = "-" || s = "" then [] else List.map z_of_hex (String.split_on_char ',' s)
let show_fes l = if l = [] then "-" else String.concat "," (List.map hex_of_z l)
let show_ids l = if l = [] then "-" else String.concat "," (List.map z_to_string l)
let b2s b = if b then "1" else "0"

(* tree parser *)
let parse_tree (s : string) : tree =
  let n = String.length s in
  let pos = ref 0 in
  let number () =
    let st = !pos in
    while !pos < n && s.[!pos] >= '0' && s.[!pos] <= '9' do incr pos done;
    String.sub s st (!pos - st) in
  let rec node () : tree =
    if !pos < n && s.[!pos] = 'g' then begin
      incr pos;
      let t = int_of_string (number ()) in
      if s.[!pos] <> '[' then failwith "tree: expected [";
      incr pos;
      let cs = ref [] in
      if s.[!pos] = ']' then incr pos
      else begin
        let fin = ref false in
        while not !fin do
          cs := node () :: !cs;
          if s.[!pos] = ',' then incr pos
          else if s.[!pos] = ']' then (incr pos; fin := true)
          else failwith "tree: expected , or ]"
        done
      end;
      Gate (nat_of_int t, List.rev !cs)
    end else Leaf (z_of_string (number ())) in
  let t = node () in
  if !pos <> n then failwith "tree: trailing input";
  t

let parse_levels (s : string) : (nat * Big_int_Z.big_int list) list =
  if s = "-" then [] else
  List.map (fun l -> match String.split_on_char ':' l with
      | [t; ids] -> (nat_of_int (int_of_string t), ids_of ids)
      | _ -> failwith "bad level") (String.split_on_char '|' s)

let parse_sets (s : string) : Big_int_Z.big_int list list =
  if s = "-" then [] else List.map ids_of (String.split_on_char '|' s)

(* constructor call: Some policy or None (refused) *)
let parse_policy (s : string) : policy option =
  let k = String.sub s 0 2 and rest = String.sub s 2 (String.length s - 2) in
  match k with
  | "T:" -> (match String.split_on_char ':' rest with
      | [t; ids] -> thr_new (nat_of_int (int_of_string t)) (ids_of ids)
      | _ -> failwith "bad T")
  | "U:" -> una_new (ids_of rest)
  | "N:" -> cnf_new (parse_sets rest)
  | "H:" -> hier_new (parse_levels rest)
  | "G:" -> gate_new (parse_tree rest)
  | _ -> failwith ("bad policy " ^ s)

let subsets_of (s : string) : Big_int_Z.big_int list list =
  if s = "-" then [] else List.map ids_of (String.split_on_char ';' s)

let show_shares (l : (Big_int_Z.big_int * Big_int_Z.big_int list) list) : string =
  if l = [] then "-" else
  String.concat ";" (List.map (fun (id, v) -> z_to_string id ^ "=" ^ show_fes v) l)

let show_msp (m : Big_int_Z.big_int msp) : string =
  Printf.sprintf "%dx%d:%s:%s" (int_of_nat (msp_size m)) (int_of_nat (msp_D m))
    (show_ids m.msp_lab) (show_fes (List.concat m.msp_M))

let opt_fe = function None -> "E" | Some v -> hex_of_z v

let valid_quorum (s : Big_int_Z.big_int list) = match una_new s with Some _ -> true | None -> false

let find_share shares id = List.find_opt (fun (i, _) -> Big_int_Z.eq_big_int i id) shares

let () =
  iter_lines (fun line ->
    match String.split_on_char ' ' line with
    | ["K"; tag; qh; pol; r1; r2; c; subs] ->
      let q = z_of_hex qh in
      let k = zp q in
      let fromn = fun n -> Big_int_Z.mod_big_int n q in
      (match parse_policy pol with
       | None -> Printf.printf "K %s refuse\n" tag
       | Some p ->
         let mo = induced k fromn q p in
         let subsets = subsets_of subs in
         let quals = List.map (fun s -> b2s (is_qualified p s)) subsets in
         (match mo with
          | None ->
            Printf.printf "K %s ok | refuse | %s\n" tag (String.concat ";" (List.map (fun qv -> "q" ^ qv) quals))
          | Some m ->
            let d1 = deal k m (fes_of r1) in
            let d2 = deal k m (fes_of r2) in
            let sd = function None -> "refuse" | Some l -> show_shares l in
            let lin = match d1, d2 with
              | Some l1, Some l2 ->
                let adds = List.map2 (fun a b -> match share_add k a b with Some s -> s | None -> (Big_int_Z.zero_big_int, [])) l1 l2 in
                let sc = List.map (share_scale k (z_of_hex c)) l1 in
                "add:" ^ show_shares adds ^ "|scale:" ^ show_shares sc
              | _ -> "-" in
            let per = List.map2 (fun s qv ->
                let a = accepts k m s in
                let rt = match d1 with
                  | None -> ""
                  | Some l1 ->
                    let mine = List.filter_map (fun id -> find_share l1 id) s in
                    let r = if List.length mine <> List.length s then "E" else opt_fe (reconstruct k m mine) in
                    let t =
                      if not (valid_quorum s) then "-" else begin
                        let qs = nodupN s in
                        let parts = List.map (fun id -> match find_share l1 id with
                            | None -> None
                            | Some sh -> to_additive k m sh qs) qs in
                        if List.exists (fun x -> x = None) parts then "E"
                        else hex_of_z (List.fold_left (fun acc x -> match x with Some v -> k.fadd acc v | None -> acc) Big_int_Z.zero_big_int parts)
                      end in
                    "r" ^ r ^ "t" ^ t in
                "q" ^ qv ^ "a" ^ b2s a ^ rt) subsets quals in
            Printf.printf "K %s ok | %s | %s | %s | %s | %s\n" tag (show_msp m) (sd d1) (sd d2) lin (String.concat ";" per)))
    | ["S"; tag; qh; t; ids; coeffs; subs] ->
      let q = z_of_hex qh in
      let k = zp q in
      let fromn = fun n -> Big_int_Z.mod_big_int n q in
      let ps = ids_of ids in
      let tn = nat_of_int (int_of_string t) in
      let shares = shamir_deal k fromn ps (fes_of coeffs) in
      let per = List.map (fun s ->
          let mine = List.filter_map (fun id -> List.find_opt (fun (i, _) -> Big_int_Z.eq_big_int i id) shares) s in
          let r = if List.length mine <> List.length s then "E" else opt_fe (shamir_reconstruct k fromn tn ps mine) in
          let ta =
            if not (valid_quorum s) then "-" else begin
              let qs = nodupN s in
              let parts = List.map (fun id -> match List.find_opt (fun (i, _) -> Big_int_Z.eq_big_int i id) shares with
                  | None -> None
                  | Some sh -> shamir_to_additive k fromn sh qs) qs in
              if List.exists (fun x -> x = None) parts then "E"
              else hex_of_z (List.fold_left (fun acc x -> match x with Some v -> k.fadd acc v | None -> acc) Big_int_Z.zero_big_int parts)
            end in
          "r" ^ r ^ "t" ^ ta) (subsets_of subs) in
      Printf.printf "S %s %s | %s\n" tag
        (String.concat ";" (List.map (fun (id, v) -> z_to_string id ^ "=" ^ hex_of_z v) shares))
        (String.concat ";" per)
    | ["A"; tag; qh; ids; secret; rs; shares; subs] ->
      let q = z_of_hex qh in
      let k = zp q in
      let ps = ids_of ids in
      let summands = sum_to_secret k (z_of_hex secret) (fes_of rs) in
      let shs = List.map (fun e -> match String.split_on_char '=' e with
          | [i; v] -> (z_of_string i, z_of_hex v) | _ -> failwith "bad share") (split_on ';' shares) in
      let per = List.map (fun s ->
          let mine = List.filter_map (fun id -> List.find_opt (fun (i, _) -> Big_int_Z.eq_big_int i id) shs) s in
          if List.length mine <> List.length s then "rE" else "r" ^ opt_fe (additive_reconstruct k ps mine)) (subsets_of subs) in
      Printf.printf "A %s %s | %s\n" tag (show_fes summands) (String.concat ";" per)
    | ["I"; tag; qh; pol; mus; summands; subs] ->
      let q = z_of_hex qh in
      let k = zp q in
      (match parse_policy pol with
       | None -> Printf.printf "I %s refuse\n" tag
       | Some p ->
         let musl = parse_sets mus in
         (* isn.NewFiniteScheme converts the policy with cnf.ConvertToCNF: the scheme's access
            structure (CanReconstruct, Shareholders, Reconstruct's guard) is the CNF of the maximal
            unqualified sets *)
         let p = Cnf musl in
         let holders = sortN (shareholders p) in
         let shares = isn_deal musl (fes_of summands) holders in
         let show_sh (id, kv) = z_to_string id ^ "=" ^
             (if kv = [] then "-" else String.concat "," (List.map (fun (i, v) -> string_of_int (int_of_nat i) ^ ":" ^ hex_of_z v) kv)) in
         let per = List.map (fun s ->
             let mine = List.filter_map (fun id -> List.find_opt (fun (i, _) -> Big_int_Z.eq_big_int i id) shares) s in
             let r = if List.length mine <> List.length s then "E" else opt_fe (isn_reconstruct k p musl mine) in
             let ta =
               if not (valid_quorum s) then "-" else begin
                 let qs = nodupN s in
                 let parts = List.map (fun id -> match List.find_opt (fun (i, _) -> Big_int_Z.eq_big_int i id) shares with
                     | None -> None
                     | Some sh -> isn_to_additive k musl sh qs) qs in
                 if List.exists (fun x -> x = None) parts then "E"
                 else hex_of_z (List.fold_left (fun acc x -> match x with Some v -> k.fadd acc v | None -> acc) Big_int_Z.zero_big_int parts)
               end in
             "q" ^ b2s (is_qualified p s) ^ "r" ^ r ^ "t" ^ ta) (subsets_of subs) in
         Printf.printf "I %s %s | %s\n" tag (String.concat ";" (List.map show_sh shares)) (String.concat ";" per))
    | ["H"; tag; qh; levels; coeffs; subs] ->
      let q = z_of_hex qh in
      let k = zp q in
      let fromn = fun n -> Big_int_Z.mod_big_int n q in
      (match hier_new (parse_levels levels) with
       | Some (Hier ls) ->
         let shares = tassa_deal k fromn ls (fes_of coeffs) in
         let sorted = List.sort (fun (a, _) (b, _) -> Big_int_Z.compare_big_int a b) shares in
         let per = List.map (fun s ->
             let mine = List.filter_map (fun id -> List.find_opt (fun (i, _) -> Big_int_Z.eq_big_int i id) shares) s in
             let r = if List.length mine <> List.length s then "E" else opt_fe (tassa_reconstruct k fromn (fun x -> x) ls mine) in
             "r" ^ r) (subsets_of subs) in
         Printf.printf "H %s %s | %s\n" tag
           (String.concat ";" (List.map (fun (id, v) -> z_to_string id ^ "=" ^ hex_of_z v) sorted))
           (String.concat ";" per)
       | _ -> Printf.printf "H %s refuse\n" tag)
    | _ -> failwith ("bad line " ^ line))
