(* C10 driver: evaluates the extracted session / context / zero-share model on the
   cases written by the Go harness, one case per line.

   The three hash parameters of the model are answered from a table carried by the
   case line (filled by the harness with Go's own blake2b / sha3).  A query that is
   not in the table is answered with zeros of the right length and recorded; if any
   query was missing the driver prints  "Q <id> <queries>"  instead of a result and
   the harness re-submits the case with the answers added (the nesting depth of the
   hashes bounds the number of passes). *)
open Model
open Helpers

let missing : (string, unit) Hashtbl.t = Hashtbl.create 16
let missing_order : string list ref = ref []
let table : (string, string) Hashtbl.t = Hashtbl.create 64

let zeros n = List.init n (fun _ -> z_of_int 0)

let ask key n =
  match Hashtbl.find_opt table key with
  | Some o -> bytes_of_hex o
  | None ->
    if not (Hashtbl.mem missing key) then begin
      Hashtbl.replace missing key ();
      missing_order := key :: !missing_order
    end;
    zeros n

let com k i = ask (String.concat "," ["c"; hex_of_bytes k; hex_of_bytes i]) 32
let h512 i = ask (String.concat "," ["h"; hex_of_bytes i]) 64
let xof s i off n =
  if Big_int_Z.sign_big_int n = 0 then []
  else ask (String.concat "," ["x"; hex_of_bytes s; hex_of_bytes i; z_to_string off; z_to_string n]) (z_to_int n)

let load_table (tbl : string) =
  Hashtbl.reset table; Hashtbl.reset missing; missing_order := [];
  if tbl <> "-" then
    List.iter (fun e ->
        match String.rindex_opt e ':' with
        | Some k -> Hashtbl.replace table (String.sub e 0 k) (String.sub e (k + 1) (String.length e - k - 1))
        | None -> failwith "bad table entry") (split_on ';' tbl)

let ids_of sep s = if s = "-" || s = "" then [] else List.map z_of_string (String.split_on_char sep s)
let ids_str l = String.concat "," (List.map z_to_string l)

let parse_inbox (f : string list -> 'a) (s : string) : (Big_int_Z.big_int * 'a) list =
  if s = "-" then []
  else List.map (fun e -> match String.split_on_char ':' e with
      | from :: rest -> (z_of_string from, f rest)
      | _ -> failwith "bad inbox") (String.split_on_char ',' s)

let verdict_str = function
  | VOk -> "ok"
  | VReject -> "reject"
  | VBlame id -> "blame:" ^ z_to_string id

let n32 = z_of_int 32

let ctx_fields (label : bytes) (c : context) : string =
  let tx = match ctx_extract xof c label n32 with Some b -> hex_of_bytes b | None -> "ERR" in
  let seeds = List.map (fun (peer, s) -> z_to_string peer ^ ":" ^ hex_of_bytes (seed_read xof s n32)) c.cx_seeds in
  String.concat "/" [hex_of_bytes c.cx_sid; tx; ids_str c.cx_quorum; String.concat "+" seeds]

let rec apply_path (c : context) (path : Big_int_Z.big_int list list) : context option =
  match path with
  | [] -> Some c
  | q :: r -> (match sub_context xof c q with None -> None | Some c' -> apply_path c' r)

let finish (cid : string) (out : string list) =
  if !missing_order <> [] then
    Printf.printf "Q %s %s\n" cid (String.concat ";" (List.rev !missing_order))
  else
    Printf.printf "R %s %s\n" cid (String.concat " " out)

let rec parties (toks : string list) acc =
  match toks with
  | [] -> List.rev acc
  | "P" :: id :: q :: tape :: undec :: b1 :: b2 :: u2 :: u3 :: rest ->
    parties rest ((id, q, tape, undec, b1, b2, u2, u3) :: acc)
  | _ -> failwith "bad party section"

let () =
  iter_lines (fun line ->
    match String.split_on_char ' ' line with
    | "S" :: cid :: tbl :: label :: subs :: rest ->
      load_table tbl;
      let label = bytes_of_hex label in
      let paths = if subs = "-" then [] else
          List.map (fun p -> List.map (ids_of '.') (String.split_on_char '/' p)) (String.split_on_char '|' subs) in
      let out = ref [] in
      let add k v = out := (k ^ "=" ^ v) :: !out in
      List.iter (fun (id, q, tape, undec, b1, b2, u2, u3) ->
          let inb1 = parse_inbox (function [cc; ck] -> { r1_ccom = bytes_of_hex cc; r1_ck = bytes_of_hex ck } | _ -> failwith "b1") b1 in
          let inb2 = parse_inbox (function [cc; cw] -> { r2_cc = bytes_of_hex cc; r2_cw = bytes_of_hex cw } | _ -> failwith "b2") b2 in
          let inu2 = parse_inbox (function [c] -> (bytes_of_hex c : r2u) | _ -> failwith "u2") u2 in
          let inu3 = parse_inbox (function [c; w] -> { r3_pc = bytes_of_hex c; r3_pw = bytes_of_hex w } | _ -> failwith "u3") u3 in
          let r = party_run com h512 (z_of_string id) (ids_of ',' q) (bytes_of_hex tape) (z_of_string undec) inb1 inb2 inu2 inu3 in
          add (id ^ ".v") (verdict_str r.pr_verdict);
          add (id ^ ".vr") (z_to_string r.pr_round);
          (match r.pr_r1 with Some m -> add (id ^ ".r1") (hex_of_bytes m.r1_ccom ^ ":" ^ hex_of_bytes m.r1_ck) | None -> ());
          (match r.pr_r2b with Some m -> add (id ^ ".r2b") (hex_of_bytes m.r2_cc ^ ":" ^ hex_of_bytes m.r2_cw) | None -> ());
          List.iter (fun (to_, (m : r2u)) -> add (id ^ ".r2u." ^ z_to_string to_) (hex_of_bytes m)) r.pr_r2u;
          List.iter (fun (to_, m) -> add (id ^ ".r3u." ^ z_to_string to_) (hex_of_bytes m.r3_pc ^ ":" ^ hex_of_bytes m.r3_pw)) r.pr_r3u;
          (match r.pr_ctx with
           | None -> ()
           | Some c ->
             add (id ^ ".ctx") (ctx_fields label c);
             List.iteri (fun k path ->
                 match apply_path c path with
                 | None -> add (id ^ ".sub." ^ string_of_int k) "none"
                 | Some sc -> add (id ^ ".sub." ^ string_of_int k) (ctx_fields label sc)) paths))
        (parties rest []);
      finish cid (List.rev !out)
    | ["N"; cid; tbl; label; id; q; cs; pw] ->
      load_table tbl;
      let pairwise = parse_inbox (function [s] -> bytes_of_hex s | _ -> failwith "pw") pw in
      let r = match new_context h512 (z_of_string id) (ids_of ',' q) (bytes_of_hex cs) pairwise with
        | None -> "none"
        | Some c -> ctx_fields (bytes_of_hex label) c in
      finish cid ["ctx=" ^ r]
    | ["Z"; cid; q; ids; rs] ->
      Hashtbl.reset missing; missing_order := [];
      let q = z_of_hex q in
      let ids = ids_of ',' ids in
      let tbl = Hashtbl.create 16 in
      if rs <> "-" then
        List.iter (fun e -> match String.split_on_char '.' e with
            | [a; b; v] -> Hashtbl.replace tbl (a ^ "." ^ b) (z_of_hex v)
            | _ -> failwith "bad R") (String.split_on_char ',' rs);
      let r a b = match Hashtbl.find_opt tbl (z_to_string a ^ "." ^ z_to_string b) with
        | Some v -> v
        | None -> failwith "R miss" in
      let shares = List.map (fun i -> z_to_string i ^ ":" ^ hex_of_z (zq_zero_share q r ids i)) ids in
      Printf.printf "R %s %s sum=%s\n" cid (String.concat "," shares) (hex_of_z (zq_sum_shares q r ids))
    | _ -> failwith ("bad line " ^ line))
