(* C10 driver: evaluates the extracted session / context / zero-share model on the
   cases written by the Go harness, one case per line.

   The three hash parameters of the model are an ORACLE answered by the harness with
   Go's own blake2b / sha3: when the model applies a hash to an input it has not seen
   in this case, the driver prints  "Q <query>"  on stdout, flushes, and reads the
   answer (hex) from the next stdin line.  After the last query of a case it prints
   "R <id> <observables>". *)
open Model
open Helpers

let table : (string, Big_int_Z.big_int list) Hashtbl.t = Hashtbl.create 256

let hexdigits = "0123456789abcdef"
let fast_hex (l : Big_int_Z.big_int list) : string =
  if l = [] then "-" else begin
    let b = Buffer.create 128 in
    List.iter (fun x -> let v = z_to_int x in
                Buffer.add_char b hexdigits.[(v lsr 4) land 15];
                Buffer.add_char b hexdigits.[v land 15]) l;
    Buffer.contents b
  end

let hexval c = match c with
  | '0'..'9' -> Char.code c - 48
  | 'a'..'f' -> Char.code c - 87
  | 'A'..'F' -> Char.code c - 55
  | _ -> failwith "bad hex"
let fast_unhex (s : string) : Big_int_Z.big_int list =
  if s = "-" || s = "" then [] else begin
    let n = String.length s / 2 in
    let rec go i acc = if i < 0 then acc
      else go (i - 1) (z_of_int (hexval s.[2*i] * 16 + hexval s.[2*i+1]) :: acc) in
    go (n - 1) []
  end

let ask key =
  match Hashtbl.find_opt table key with
  | Some o -> o
  | None ->
    print_string "Q "; print_string key; print_newline ();
    let a = fast_unhex (input_line stdin) in
    Hashtbl.replace table key a; a

let com k i = ask (String.concat "," ["c"; fast_hex k; fast_hex i])
let h512 i = ask (String.concat "," ["h"; fast_hex i])
let xof s i off n =
  if Big_int_Z.sign_big_int n = 0 then []
  else ask (String.concat "," ["x"; fast_hex s; fast_hex i; z_to_string off; z_to_string n])

let load_table (_ : string) = Hashtbl.reset table

let ids_of sep s = if s = "-" || s = "" then [] else List.map z_of_string (String.split_on_char sep s)
let ids_str l = String.concat "," (List.map z_to_string l)

let parse_inbox (f : string list -> 'a) (s : string) : (Big_int_Z.big_int * 'a) list =
  if s = "-" then []
  else List.map (fun e -> match String.split_on_char ':' e with
      | from :: rest -> (z_of_string from, f rest)
      | _ -> failwith "bad inbox") (String.split_on_char ',' s)

let verdict_str = function
  | VOk -> "ok"
  | VReject -> "reject"
  | VBlame id -> "blame:" ^ z_to_string id

let n32 = z_of_int 32

let ctx_fields (label : bytes) (c : context) : string =
  let tx = match ctx_extract xof c label n32 with Some b -> fast_hex b | None -> "ERR" in
  let seeds = List.map (fun (peer, s) -> z_to_string peer ^ ":" ^ fast_hex (seed_read xof s n32)) c.cx_seeds in
  String.concat "/" [fast_hex c.cx_sid; tx; ids_str c.cx_quorum; String.concat "+" seeds]

let rec apply_path (c : context) (path : Big_int_Z.big_int list list) : context option =
  match path with
  | [] -> Some c
  | q :: r -> (match sub_context xof c q with None -> None | Some c' -> apply_path c' r)

let finish (cid : string) (out : string list) =
  Printf.printf "R %s %s\n" cid (String.concat " " out); flush stdout

let rec parties (toks : string list) acc =
  match toks with
  | [] -> List.rev acc
  | "P" :: id :: q :: tape :: undec :: b1 :: b2 :: u2 :: u3 :: rest ->
    parties rest ((id, q, tape, undec, b1, b2, u2, u3) :: acc)
  | _ -> failwith "bad party section"

let () =
  iter_lines (fun line ->
    match String.split_on_char ' ' line with
    | "S" :: cid :: tbl :: label :: subs :: rest ->
      load_table tbl;
      let label = fast_unhex label in
      let paths = if subs = "-" then [] else
          List.map (fun p -> List.map (ids_of '.') (String.split_on_char '/' p)) (String.split_on_char '|' subs) in
      let out = ref [] in
      let add k v = out := (k ^ "=" ^ v) :: !out in
      List.iter (fun (id, q, tape, undec, b1, b2, u2, u3) ->
          let inb1 = parse_inbox (function [cc; ck] -> { r1_ccom = fast_unhex cc; r1_ck = fast_unhex ck } | _ -> failwith "b1") b1 in
          let inb2 = parse_inbox (function [cc; cw] -> { r2_cc = fast_unhex cc; r2_cw = fast_unhex cw } | _ -> failwith "b2") b2 in
          let inu2 = parse_inbox (function [c] -> (fast_unhex c : r2u) | _ -> failwith "u2") u2 in
          let inu3 = parse_inbox (function [c; w] -> { r3_pc = fast_unhex c; r3_pw = fast_unhex w } | _ -> failwith "u3") u3 in
          let r = party_run com h512 (z_of_string id) (ids_of ',' q) (fast_unhex tape) (z_of_string undec) inb1 inb2 inu2 inu3 in
          add (id ^ ".v") (verdict_str r.pr_verdict);
          add (id ^ ".vr") (z_to_string r.pr_round);
          (match r.pr_r1 with Some m -> add (id ^ ".r1") (fast_hex m.r1_ccom ^ ":" ^ fast_hex m.r1_ck) | None -> ());
          (match r.pr_r2b with Some m -> add (id ^ ".r2b") (fast_hex m.r2_cc ^ ":" ^ fast_hex m.r2_cw) | None -> ());
          List.iter (fun (to_, (m : r2u)) -> add (id ^ ".r2u." ^ z_to_string to_) (fast_hex m)) r.pr_r2u;
          List.iter (fun (to_, m) -> add (id ^ ".r3u." ^ z_to_string to_) (fast_hex m.r3_pc ^ ":" ^ fast_hex m.r3_pw)) r.pr_r3u;
          (match r.pr_ctx with
           | None -> ()
           | Some c ->
             add (id ^ ".ctx") (ctx_fields label c);
             List.iteri (fun k path ->
                 match apply_path c path with
                 | None -> add (id ^ ".sub." ^ string_of_int k) "none"
                 | Some sc -> add (id ^ ".sub." ^ string_of_int k) (ctx_fields label sc)) paths))
        (parties rest []);
      finish cid (List.rev !out)
    | ["N"; cid; tbl; label; id; q; cs; pw] ->
      load_table tbl;
      let pairwise = parse_inbox (function [s] -> fast_unhex s | _ -> failwith "pw") pw in
      let r = match new_context h512 (z_of_string id) (ids_of ',' q) (fast_unhex cs) pairwise with
        | None -> "none"
        | Some c -> ctx_fields (fast_unhex label) c in
      finish cid ["ctx=" ^ r]
    | ["Z"; cid; q; ids; rs] ->
      let q = z_of_hex q in
      let ids = ids_of ',' ids in
      let tbl = Hashtbl.create 16 in
      if rs <> "-" then
        List.iter (fun e -> match String.split_on_char '.' e with
            | [a; b; v] -> Hashtbl.replace tbl (a ^ "." ^ b) (z_of_hex v)
            | _ -> failwith "bad R") (String.split_on_char ',' rs);
      let r a b = match Hashtbl.find_opt tbl (z_to_string a ^ "." ^ z_to_string b) with
        | Some v -> v
        | None -> failwith "R miss" in
      let shares = List.map (fun i -> z_to_string i ^ ":" ^ hex_of_z (zq_zero_share q r ids i)) ids in
      Printf.printf "R %s %s sum=%s\n" cid (String.concat "," shares) (hex_of_z (zq_sum_shares q r ids)); flush stdout
    | _ -> failwith ("bad line " ^ line))
