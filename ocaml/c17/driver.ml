(* C17 driver: one case per line "<op> <hex> <hex> ...", evaluates the extracted
   number-theory model (Model.eval over Model.table) and prints
   "ok:<hex>,<hex>,..." | "refuse" | "panic". *)
open Model
open Helpers

let coq_name (s : string) : opname =
  (List.init (String.length s) (fun i -> z_of_int (Char.code s.[i])))  (* extraction unboxes the single-constructor type *)

let tbl : (string, Big_int_Z.big_int list -> res) Hashtbl.t = Hashtbl.create 64

let lookup (name : string) =
  match Hashtbl.find_opt tbl name with
  | Some f -> f
  | None ->
    let code = opcode (coq_name name) in
    let f = (fun args -> eval code args) in
    Hashtbl.replace tbl name f; f

let () =
  iter_lines (fun line ->
    match String.split_on_char ' ' line with
    | op :: args ->
      let r = (try
          (match (lookup op) (List.map z_of_hex args) with
           | Ok l -> "ok:" ^ String.concat "," (List.map hex_of_z l)
           | Refuse -> "refuse"
           | Panic -> "panic")
        with Stack_overflow -> "model-stack-overflow" | Division_by_zero -> "model-div0") in
      print_string r; print_newline ()
    | _ -> failwith ("bad line " ^ line))
