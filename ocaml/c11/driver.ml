(* C11 driver: replays harness schedules in the extracted router model
   (coq/model/Router.v), computes the result sets the model allows for racing
   scenarios, and evaluates the echo-broadcast rounds (coq/model/Echo.v).
   One case per line in, one line out.

   S <id> <quorum> <ops>          serialised schedule; ops separated by ';'
        R,<rid>,<nspath>,<cidhex>,<froms '+'>,<pause>,<pre>   launch ReceiveFrom (pause at the k-th park, 0 = never;
                                                          pre = 1: the context is cancelled before the call)
        D,<from>,<nspath>,<cidhex>,<payloadhex>           the reader is handed this message
        C,<rid>    cancel the receive's context       U,<rid>  release a paused receive
        S  Close   E  Delivery.Receive fails          X,<from> undecodable bytes from <from>
     -> S <id> r<rid>@<op index or ->:<result> ...
   A <id> <quorum> <deposits ';'> <receives ';'>   racing scenario, one receive per full id:
        deposits D,<from>,<nspath>,<cidhex>,<payloadhex>; receives <rid>,<nspath>,<cidhex>,<froms>
     -> A <id> r<rid>:<result>;<result>...   (every result a check can return at some point of the deposit sequence)
   E <id> <quorum> <equivocator or 0> <groupA csv> <msgs id=hex,..> <m2 hex>
     -> E <id> <party>:<ok[...]|failed> ...
   K  -> K <maxReceiveBufferSize> <notifyCapacity>
   The scheduler below only decides WHICH enabled internal step runs next after
   each harness operation (wake-ups, checks, deferred clean-ups, until quiescence);
   every state change is made by the extracted [step]. *)
open Model
open Helpers

let ids_of (s : string) : Big_int_Z.big_int list =
  if s = "_" || s = "" then []
  else List.map z_of_string (String.split_on_char ',' (String.map (fun c -> if c = '+' then ',' else c) s))

let nspath_of (s : string) : bytes list =
  if s = "_" || s = "" then [] else List.map bytes_of_hex (String.split_on_char '.' s)

let show_payloads (res : (Big_int_Z.big_int * bytes) list) : string =
  let l = List.sort (fun (a, _) (b, _) -> Big_int_Z.compare_big_int a b) res in
  "ok[" ^ String.concat "|" (List.map (fun (i, p) -> z_to_string i ^ "=" ^ hex_of_bytes p) l) ^ "]"

let show_err = function
  | EFatal FClosed -> "closed"
  | EFatal FBufferFull -> "bufferfull"
  | EFatal FReader -> "reader"
  | EConcurrent -> "concurrent"
  | EConflict g -> "conflict(" ^ z_to_string g ^ ")"
  | ECancelled -> "cancelled"

type rcv = {
  rid : int; rcid : cid; pause : int;
  mutable parks : int; mutable held : bool; mutable released : bool; mutable active : bool;
  mutable result : string; mutable whenr : int }

let run_schedule (quorum : string) (ops : string list) : string =
  let s = ref (init (ids_of quorum)) in
  let rcvs : rcv list ref = ref [] in
  let do_step e = let (s', o) = step !s e in s := s'; o in
  let finish r idx res =
    ignore (do_step (RecvExit r.rcid));
    r.active <- false; r.result <- res; r.whenr <- idx in
  let settle idx =
    let progress = ref true in
    while !progress do
      progress := false;
      List.iter (fun r ->
        if r.active && not r.held then
          match find_box !s r.rcid with
          | Some { mb_waiter = Some w; _ } ->
            (match w.w_phase with
             | Checking ->
               progress := true;
               (match do_step (RecvCheck r.rcid) with
                | OParked -> r.parks <- r.parks + 1; if r.parks = r.pause && not r.released then r.held <- true
                | ORecvOk res -> finish r idx (show_payloads res)
                | ORecvErr e -> finish r idx (show_err e)
                | _ -> failwith "unexpected output of RecvCheck")
             | Parked ->
               (match do_step (WakeToken r.rcid) with
                | OWoken -> progress := true
                | _ -> (match do_step (WakeAlt r.rcid) with
                    | OWoken -> progress := true
                    | _ -> ()))
             | Finished -> failwith "finished receiver still active")
          | _ -> failwith "active receiver without waiter") (List.rev !rcvs)
    done in
  List.iteri (fun idx o ->
    (match String.split_on_char ',' o with
     | ["R"; rid; ns; c; froms; pause; pre] ->
       let full = recv_full (nspath_of ns) (bytes_of_hex c) in
       let r = { rid = int_of_string rid; rcid = full; pause = int_of_string pause;
                 parks = 0; held = false; released = false; active = false; result = "parked"; whenr = -1 } in
       rcvs := r :: !rcvs;
       (match do_step (RecvEnter (full, ids_of froms)) with
        | OEntered -> r.active <- true; if pre = "1" then ignore (do_step (Cancel full))
        | ORecvErr e -> r.result <- show_err e; r.whenr <- idx
        | _ -> failwith "unexpected output of RecvEnter")
     | ["D"; from; ns; c; p] ->
       ignore (do_step (Deposit (z_of_string from, send_full (nspath_of ns) (bytes_of_hex c), bytes_of_hex p)))
     | ["C"; rid] ->
       List.iter (fun r -> if r.rid = int_of_string rid && r.active then ignore (do_step (Cancel r.rcid))) !rcvs
     | ["U"; rid] ->
       List.iter (fun r -> if r.rid = int_of_string rid then (r.held <- false; r.released <- true)) !rcvs
     | ["S"] -> ignore (do_step Shutdown)
     | ["E"] -> ignore (do_step ReaderError)
     | ["X"; from] -> ignore (do_step (BadMessage (z_of_string from)))
     | _ -> failwith ("bad op " ^ o));
    settle idx) ops;
  String.concat " " (List.map (fun r ->
    Printf.sprintf "r%d@%s:%s" r.rid (if r.whenr < 0 then "-" else string_of_int r.whenr) r.result)
    (List.sort (fun a b -> compare a.rid b.rid) !rcvs))

(* racing scenario: the deposits reach the reader in the given order; a receive may
   enter and (re-)check at any point.  Its possible results are the non-parking
   outcomes of a check after any prefix of the deposit sequence (a late check sees
   every earlier deposit).  One receive per full id, so receives do not interact. *)
let allowed (quorum : string) (deps : string list) (rcvs : string list) : string =
  let boot s = fst (step s (RecvEnter ([], []))) in
  let s0 = boot (init (ids_of quorum)) in
  let s0 = fst (step s0 (RecvCheck [])) in
  let s0 = fst (step s0 (RecvExit [])) in
  let dep_events = List.map (fun o ->
    match String.split_on_char ',' o with
    | ["D"; from; ns; c; p] -> Deposit (z_of_string from, send_full (nspath_of ns) (bytes_of_hex c), bytes_of_hex p)
    | _ -> failwith ("bad deposit " ^ o)) deps in
  let prefixes =
    let rec go s evs acc = match evs with
      | [] -> List.rev (s :: acc)
      | e :: r -> go (fst (step s e)) r (s :: acc) in
    go s0 dep_events [] in
  String.concat " " (List.map (fun o ->
    match String.split_on_char ',' o with
    | [rid; ns; c; froms] ->
      let full = recv_full (nspath_of ns) (bytes_of_hex c) in
      let outs = List.filter_map (fun s ->
        let (s1, o1) = step s (RecvEnter (full, ids_of froms)) in
        match o1 with
        | OEntered ->
          (match snd (step s1 (RecvCheck full)) with
           | ORecvOk res -> Some (show_payloads res)
           | ORecvErr e -> Some (show_err e)
           | _ -> None)
        | ORecvErr e -> Some (show_err e)
        | _ -> None) prefixes in
      let outs = List.sort_uniq compare outs in
      Printf.sprintf "r%s:%s" rid (if outs = [] then "parked" else String.concat ";" outs)
    | _ -> failwith ("bad receive " ^ o)) rcvs)

(* echo broadcast with an optional two-faced party: face 1 talks to group A with its
   message, face 2 to everybody else with m2.  All routing is exact (C11 router part). *)
let echo_case (quorum : string) (eq : string) (groupA : string) (msgs : string) (m2 : string) : string =
  let q = ids_of quorum in
  let eqv = z_of_string eq in
  let ga = ids_of groupA in
  let is_eq i = Big_int_Z.eq_big_int i eqv in
  let in_a i = List.exists (Big_int_Z.eq_big_int i) ga in
  let msg_tbl = List.map (fun e -> match String.split_on_char '=' e with
    | [i; h] -> (z_of_string i, bytes_of_hex h) | _ -> failwith "bad msgs") (split_on ',' msgs) in
  let msg_of i = snd (List.find (fun (a, _) -> Big_int_Z.eq_big_int a i) msg_tbl) in
  (* what party [dst] receives from [src] in round 1 *)
  let r1_from src dst =
    if is_eq src && not (in_a dst) then bytes_of_hex m2 else msg_of src in
  let r1_in dst = List.filter_map (fun src ->
    if Big_int_Z.eq_big_int src dst then None else Some (src, r1_from src dst)) q in
  (* round 2 of every party (both faces of the equivocator see the same inbox) *)
  let r2_of p =
    let (st, _) = round1 p q (msg_of p) in
    round2 p q st (r1_in p) in
  let r2_in dst = List.filter_map (fun src ->
    if Big_int_Z.eq_big_int src dst then None else
      match r2_of src with
      | None -> None
      | Some (_, outs) -> (match List.find_opt (fun (d, _) -> Big_int_Z.eq_big_int d dst) outs with
          | Some (_, m) -> Some (src, m) | None -> None)) q in
  String.concat " " (List.filter_map (fun p ->
    if is_eq p then None else
      let r = match r2_of p with
        | None -> "failed"
        | Some (st, _) -> (match round3 p q st (r2_in p) with
            | None -> "failed"
            | Some res -> show_payloads res) in
      Some (z_to_string p ^ ":" ^ r)) q)

let sp (s : string) : string list = if s = "_" then [] else split_on ';' s

let () =
  iter_lines (fun line ->
    match String.split_on_char ' ' line with
    | ["S"; id; quorum; ops] ->
      Printf.printf "S %s %s\n" id (run_schedule quorum (sp ops))
    | ["A"; id; quorum; deps; rcvs] ->
      Printf.printf "A %s %s\n" id (allowed quorum (sp deps) (sp rcvs))
    | ["E"; id; quorum; eq; ga; msgs; m2] ->
      Printf.printf "E %s %s\n" id (echo_case quorum eq ga msgs m2)
    | ["K"] ->
      Printf.printf "K %s %s\n" (z_to_string maxReceiveBufferSize) (z_to_string notifyCapacity)
    | _ -> failwith ("bad case line: " ^ line))
