(* C05 driver: evaluates the extracted VSS model (in the exponent) on the cases written by the Go
   harness, one case per line, one result line per case.

   line kinds (fields separated by one space; "-" = empty list; field elements lower-case hex):
     V tag q policy vexps id vals                 Feldman: NewVerificationVector / Verify / NewBaseShard
     P tag q policy aexps bexps id svals tvals    Pedersen Verify (V_j = a_j G + b_j H)
     O tag q policy V1|V2|..|Vn id vals           VerificationVector.Op over n dealers, then Verify
     R tag q policy vexps ids                     ReconstructInTheExponent from the lifted shares of ids
   policy as in the C02 driver (constructor input). *)
open Model
open Helpers

let ids_of (s : string) : Big_int_Z.big_int list =
  if s = "-" || s = "e" || s = "" then [] else List.map z_of_string (String.split_on_char ',' s)
let fes_of (s : string) : Big_int_Z.big_int list =
  if s = "-" || s = "" then [] else List.map z_of_hex (String.split_on_char ',' s)
let show_fes l = if l = [] then "-" else String.concat "," (List.map hex_of_z l)
let show_ids l = if l = [] then "-" else String.concat "," (List.map z_to_string l)
let b2s b = if b then "1" else "0"

(* tree parser *)
let parse_tree (s : string) : tree =
  let n = String.length s in
  let pos = ref 0 in
  let number () =
    let st = !pos in
    while !pos < n && s.[!pos] >= '0' && s.[!pos] <= '9' do incr pos done;
    String.sub s st (!pos - st) in
  let rec node () : tree =
    if !pos < n && s.[!pos] = 'g' then begin
      incr pos;
      let t = int_of_string (number ()) in
      if s.[!pos] <> '[' then failwith "tree: expected [";
      incr pos;
      let cs = ref [] in
      if s.[!pos] = ']' then incr pos
      else begin
        let fin = ref false in
        while not !fin do
          cs := node () :: !cs;
          if s.[!pos] = ',' then incr pos
          else if s.[!pos] = ']' then (incr pos; fin := true)
          else failwith "tree: expected , or ]"
        done
      end;
      Gate (nat_of_int t, List.rev !cs)
    end else Leaf (z_of_string (number ())) in
  let t = node () in
  if !pos <> n then failwith "tree: trailing input";
  t

let parse_levels (s : string) : (nat * Big_int_Z.big_int list) list =
  if s = "-" then [] else
  List.map (fun l -> match String.split_on_char ':' l with
      | [t; ids] -> (nat_of_int (int_of_string t), ids_of ids)
      | _ -> failwith "bad level") (String.split_on_char '|' s)

let parse_sets (s : string) : Big_int_Z.big_int list list =
  if s = "-" then [] else List.map ids_of (String.split_on_char '|' s)

(* constructor call: Some policy or None (refused) *)
let parse_policy (s : string) : policy option =
  let k = String.sub s 0 2 and rest = String.sub s 2 (String.length s - 2) in
  match k with
  | "T:" -> (match String.split_on_char ':' rest with
      | [t; ids] -> thr_new (nat_of_int (int_of_string t)) (ids_of ids)
      | _ -> failwith "bad T")
  | "U:" -> una_new (ids_of rest)
  | "N:" -> cnf_new (parse_sets rest)
  | "H:" -> hier_new (parse_levels rest)
  | "G:" -> gate_new (parse_tree rest)
  | _ -> failwith ("bad policy " ^ s)


let with_msp qh pol (k : Big_int_Z.big_int msp -> Big_int_Z.big_int fops -> string) : string =
  let q = z_of_hex qh in
  let kf = zp q in
  let fromn = fun n -> Big_int_Z.mod_big_int n q in
  match parse_policy pol with
  | None -> "refuse"
  | Some p -> (match induced kf fromn q p with None -> "refuse" | Some m -> k m kf)

let () =
  iter_lines (fun line ->
    match String.split_on_char ' ' line with
    | ["V"; tag; qh; pol; vexps; id; vals] ->
      let r = with_msp qh pol (fun m kf ->
          let v = fes_of vexps in
          let sh = (z_of_string id, fes_of vals) in
          "n" ^ b2s (new_vv m v) ^ "v" ^ b2s (feldman_verify kf m sh v) ^ "b" ^ b2s (base_shard_ok kf m sh v)) in
      Printf.printf "V %s %s\n" tag r
    | ["P"; tag; qh; pol; aexps; bexps; id; svals; tvals] ->
      let r = with_msp qh pol (fun m kf ->
          "v" ^ b2s (pedersen_verify kf m (z_of_string id) (fes_of svals) (fes_of tvals) (fes_of aexps) (fes_of bexps))) in
      Printf.printf "P %s %s\n" tag r
    | ["O"; tag; qh; pol; vs; id; vals] ->
      let r = with_msp qh pol (fun m kf ->
          let vl = List.map fes_of (String.split_on_char '|' vs) in
          let comb = match vl with
            | [] -> None
            | v0 :: rest -> List.fold_left (fun acc v -> match acc with None -> None | Some a -> vv_op kf a v) (Some v0) rest in
          match comb with
          | None -> "o0v0"
          | Some v -> "o1v" ^ b2s (feldman_verify kf m (z_of_string id, fes_of vals) v)) in
      Printf.printf "O %s %s\n" tag r
    | ["R"; tag; qh; pol; vexps; ids] ->
      let r = with_msp qh pol (fun m kf ->
          let v = fes_of vexps in
          let l = List.map (fun id -> match lifted_share kf m v id with None -> None | Some ls -> Some (id, ls)) (ids_of ids) in
          if List.exists (fun x -> x = None) l then "E"
          else match recon_exp kf m (List.filter_map (fun x -> x) l) with None -> "E" | Some x -> hex_of_z x) in
      Printf.printf "R %s %s\n" tag r
    | _ -> failwith ("bad line " ^ line))
