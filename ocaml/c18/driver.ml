(* C18 driver: evaluates the extracted commitment model on the cases written by
   the Go harness, one case per line, one result line per case. *)
open Model
open Helpers

exception Miss

let zh = z_of_hex
let hz = hex_of_z
let b01 b = if b then "1" else "0"

let pair_of (s : string) : Big_int_Z.big_int * Big_int_Z.big_int =
  match String.split_on_char ',' s with
  | [a; b] -> (zh a, zh b)
  | _ -> failwith ("bad pair " ^ s)

let nat_of_s s = nat_of_int (int_of_string s)

let parse_hop (s : string) : hop =
  match String.split_on_char ',' s with
  | ["N"; m; r] -> HNew (zh m, zh r)
  | ["O"; i; j] -> HOp (nat_of_s i, nat_of_s j)
  | ["V"; i] -> HInv (nat_of_s i)
  | ["S"; i; k] -> HScal (nat_of_s i, zh k)
  | ["R"; i; k] -> HRer (nat_of_s i, zh k)
  | ["T"; i; k] -> HShift (nat_of_s i, zh k)
  | _ -> failwith ("bad hop " ^ s)

let parse_hops s = List.map parse_hop (split_on ';' s)

(* keyspec: pub:g0,g1:h0,h1 | trap:g0,g1:lambda *)
type pkey = KErr | KPub of ped_key | KTrap of ped_tkey * ped_key

let parse_pkey q (s : string) : pkey =
  match String.split_on_char ':' s with
  | ["pub"; g; h] -> (match ped_new_key q (pair_of g) (pair_of h) with None -> KErr | Some k -> KPub k)
  | ["trap"; g; l] -> (match ped_new_tkey q (pair_of g) (zh l) with None -> KErr | Some t -> KTrap (t, ped_export q t))
  | _ -> failwith ("bad key " ^ s)

(* transcript commands as in the C19 driver *)
let parse_cmd (s : string) : cmd =
  match String.split_on_char ',' s with
  | "D" :: i :: [h] -> Do (nat_of_s i, Dom (bytes_of_hex h))
  | "A" :: i :: l :: ms -> Do (nat_of_s i, App (bytes_of_hex l, List.map bytes_of_hex ms))
  | "E" :: i :: l :: [n] -> Do (nat_of_s i, Ext (bytes_of_hex l, z_of_string n))
  | "K" :: [i] -> CloneOf (nat_of_s i)
  | _ -> failwith ("bad cmd " ^ s)

let show_out = function
  | None -> "-"
  | Some c -> String.concat "," [hex_of_bytes c.xc_custom; hex_of_bytes c.xc_input; z_to_string c.xc_len]

let () =
  iter_lines (fun line ->
    match String.split_on_char ' ' line with
    | ["HF"; id; _key; msg; wit] ->
      (* the frame: BLAKE2b key and the bytes written to the hash *)
      let k = bytes_of_hex _key in
      Printf.printf "HF %s %s %s\n" id (hex_of_bytes (hashcom_hash_key k)) (hex_of_bytes (hashcom_input k (bytes_of_hex msg) (bytes_of_hex wit)))
    | ["HO"; id; key; com; msg; wit; fk; fi; dg] ->
      let fk = bytes_of_hex fk and fi = bytes_of_hex fi and dg = bytes_of_hex dg in
      let h k i = if k = fk && i = fi then dg else raise Miss in
      let r = try b01 (hashcom_open h (bytes_of_hex key) (bytes_of_hex com) (bytes_of_hex msg) (bytes_of_hex wit))
        with Miss -> "MISS" in
      Printf.printf "HO %s %s\n" id r
    | ["P"; id; q; key; ops] ->
      let q = zh q in
      (match parse_pkey q key with
       | KErr -> Printf.printf "P %s KEYERR\n" id
       | (KPub _ | KTrap _) as pk ->
         let k = (match pk with KPub k -> k | KTrap (_, k) -> k | KErr -> assert false) in
         let regs = hrun (ped_scheme q k) (parse_hops ops) in
         let show ((m, r), c) =
           let base = [hz m; hz r; hz (fst c); hz (snd c); b01 (ped_open q k c m r)] in
           let extra = (match pk with
               | KTrap (t, _) -> let tc = ped_tcommit q t m r in [hz (fst tc); hz (snd tc)]
               | _ -> []) in
           String.concat "," (base @ extra) in
         Printf.printf "P %s %s\n" id (String.concat ";" (List.map show regs)))
    | ["PO"; id; q; key; c; m; r] ->
      let q = zh q in
      (match parse_pkey q key with
       | KErr -> Printf.printf "PO %s KEYERR\n" id
       | KPub k | KTrap (_, k) -> Printf.printf "PO %s %s\n" id (b01 (ped_open q k (pair_of c) (zh m) (zh r))))
    | ["PE"; id; q; g; l; m; r; m2] ->
      let q = zh q in
      (match ped_new_tkey q (pair_of g) (zh l) with
       | None -> Printf.printf "PE %s KEYERR\n" id
       | Some t ->
         (match ped_equivocate q t (zh m) (zh r) (zh m2) with
          | None -> Printf.printf "PE %s ERR\n" id
          | Some r2 ->
            let c = ped_tcommit q t (zh m) (zh r) in
            Printf.printf "PE %s %s %s\n" id (hz r2) (b01 (ped_open q (ped_export q t) c (zh m2) r2))))
    | ["I"; id; n; s; t; ops] ->
      let k = { ik_n = zh n; ik_s = zh s; ik_t = zh t } in
      let regs = hrun (int_scheme k) (parse_hops ops) in
      let show ((m, r), c) = String.concat "," [hz m; hz r; hz c; b01 (int_open k c m r)] in
      Printf.printf "I %s %s\n" id (String.concat ";" (List.map show regs))
    | ["IO"; id; n; s; t; c; m; r] ->
      let k = { ik_n = zh n; ik_s = zh s; ik_t = zh t } in
      Printf.printf "IO %s %s\n" id (b01 (int_open k (zh c) (zh m) (zh r)))
    | ["IE"; id; n; s; t; ord; l; m; r; m2; r2] ->
      let k = { ik_n = zh n; ik_s = zh s; ik_t = zh t } in
      let ok = int_equivocate_ok (zh ord) (zh l) (zh m) (zh r) (zh m2) (zh r2) in
      let o = int_open k (int_commit k (zh m) (zh r)) (zh m2) (zh r2) in
      Printf.printf "IE %s %s %s %s\n" id (b01 ok) (b01 o) (b01 (int_witness_in_range k (zh r2)))
    | ["E"; id; q; x; ops] ->
      let q = zh q and x = zh x in
      let regs = hrun (eg_scheme q x) (parse_hops ops) in
      let show ((m, r), c) = String.concat "," [hz m; hz r; hz (fst c); hz (snd c); b01 (eg_open q x c m r)] in
      Printf.printf "E %s %s\n" id (String.concat ";" (List.map show regs))
    | ["EO"; id; q; x; c; m; r] ->
      Printf.printf "EO %s %s\n" id (b01 (eg_open (zh q) (zh x) (pair_of c) (zh m) (zh r)))
    | ["QP"; id; q; g1; h1; g2; h2] ->
      let k1 = { pk_g = pair_of g1; pk_h = pair_of h1 } and k2 = { pk_g = pair_of g2; pk_h = pair_of h2 } in
      Printf.printf "QP %s %s\n" id (b01 (ped_key_eqb (zh q) k1 k2))
    | ["QT"; id; q; g1; l1; g2; l2] ->
      let k1 = { tk_g = pair_of g1; tk_lambda = zh l1 } and k2 = { tk_g = pair_of g2; tk_lambda = zh l2 } in
      Printf.printf "QT %s %s\n" id (b01 (ped_tkey_eqb (zh q) k1 k2))
    | ["QI"; id; n1; s1; t1; n2; s2; t2] ->
      let k1 = { ik_n = zh n1; ik_s = zh s1; ik_t = zh t1 } and k2 = { ik_n = zh n2; ik_s = zh s2; ik_t = zh t2 } in
      Printf.printf "QI %s %s\n" id (b01 (int_key_eqb k1 k2))
    | ["QJ"; id; n1; t1; l1; o1; n2; t2; l2; o2] ->
      let k1 = { itk_n = zh n1; itk_t = zh t1; itk_lambda = zh l1; itk_ord = zh o1 }
      and k2 = { itk_n = zh n2; itk_t = zh t2; itk_lambda = zh l2; itk_ord = zh o2 } in
      Printf.printf "QJ %s %s\n" id (b01 (int_tkey_eqb k1 k2))
    | ["QL"; id; q; a; b] ->
      Printf.printf "QL %s %s\n" id (b01 (lf_eqb (lf_norm (zh q) (pair_of a)) (lf_norm (zh q) (pair_of b))))
    | ["QS"; id; q; a; b] ->
      Printf.printf "QS %s %s\n" id (b01 (eg_key_eqb (zh q) (zh a) (zh b)))
    | ["QZ"; id; a; b] ->
      Printf.printf "QZ %s %s\n" id (b01 (Big_int_Z.eq_big_int (zh a) (zh b)))
    | ["QB"; id; a; b] ->
      Printf.printf "QB %s %s\n" id (b01 (bytes_eqb (bytes_of_hex a) (bytes_of_hex b)))
    | "T" :: id :: name :: rest ->
      let cmds = match rest with [c] -> List.map parse_cmd (split_on ';' c) | _ -> [] in
      let (_, outs) = crun [new_transcript (bytes_of_hex name)] cmds in
      Printf.printf "T %s %s\n" id (String.concat ";" (List.map show_out outs))
    | _ -> failwith ("bad line " ^ line))
