(* C13 driver: evaluates the extracted codec model on the cases written by the Go
   harness, one case per line, one result line per case.
     D  <codec> <c|u> <hex>          decode            -> REJ | OK <point>
     E  <codec> <c|u> <point>        encode            -> <hex> | PANIC
     A  <codec> <x> <y>              FromAffine        -> REJ | OK <point>
     AX <codec> <x> <0|1>            FromAffineX       -> REJ | OK <point>
     F  <field> <hex>                FromBytes         -> REJ | OK <value>
     W  <field> <hex>                FromWideBytes     -> REJ | OK <value>
     FE <field> <value>              Bytes             -> <hex>
     QR <codec>                      Euler symbol of b -> 1 | <p-1 hex> | 0
   points: "inf" or "x,y" (hex); curve25519 points are Montgomery (u,v), v = "ERR" when
   AffineY has no value. *)
open Model
open Helpers

(* the instances are functions of unit in the model (see PointCodec.v); evaluate them once *)
let k256_codec = k256_codec_f () and p256_codec = p256_codec_f ()
let pallas_codec = pallas_codec_f () and vesta_codec = vesta_codec_f ()
let blsg1_codec = blsg1_codec_f () and ed25519_codec = ed25519_codec_f ()
let curve25519_params = curve25519_params_f ()
let blsg2_codec = blsg2_codec_f ()
let curve25519_c = curve25519_params.mp_c

let wcodec_of = function
  | "k256" -> k256_codec | "p256" -> p256_codec | "pallas" -> pallas_codec
  | "vesta" -> vesta_codec | "blsg1" -> blsg1_codec
  | s -> failwith ("unknown weierstrass codec " ^ s)

let show_w = function
  | None -> "REJ"
  | Some None -> "OK inf"
  | Some (Some (x, y)) -> Printf.sprintf "OK %s,%s" (hex_of_z x) (hex_of_z y)

let show_e = function
  | None -> "REJ"
  | Some (x, y) -> Printf.sprintf "OK %s,%s" (hex_of_z x) (hex_of_z y)

let show_w2 = function
  | None -> "REJ"
  | Some None -> "OK inf"
  | Some (Some ((x0, x1), (y0, y1))) ->
    Printf.sprintf "OK %s,%s,%s,%s" (hex_of_z x0) (hex_of_z x1) (hex_of_z y0) (hex_of_z y1)

let parse_w2 (s : string) =
  if s = "inf" then None
  else match String.split_on_char ',' s with
    | [x0; x1; y0; y1] -> Some ((z_of_hex x0, z_of_hex x1), (z_of_hex y0, z_of_hex y1))
    | _ -> failwith ("bad G2 point " ^ s)

(* an Fp2 element handed over as one integer c0 * 2^384 + c1 (the bytes c0 || c1 of the API) *)
let split2 (v : Big_int_Z.big_int) =
  let m = Big_int_Z.power_int_positive_int 2 384 in
  (Big_int_Z.div_big_int v m, Big_int_Z.mod_big_int v m)

(* curve25519: the model value is the Edwards point, the observable is (u, v) *)
let show_x = function
  | None -> "REJ"
  | Some p ->
    if e_is_identity ed25519_codec p then "OK inf"
    else
      let u = match x_affine_u ed25519_codec p with Some u -> hex_of_z u | None -> "ERR" in
      let v = match x_affine_v ed25519_codec curve25519_c p with Some v -> hex_of_z v | None -> "ERR" in
      Printf.sprintf "OK %s,%s" u v

let parse_w (s : string) : wpt =
  if s = "inf" then None
  else match String.split_on_char ',' s with
    | [x; y] -> Some (z_of_hex x, z_of_hex y)
    | _ -> failwith ("bad point " ^ s)

let parse_e (s : string) : ept =
  match String.split_on_char ',' s with
  | [x; y] -> (z_of_hex x, z_of_hex y)
  | _ -> failwith ("bad point " ^ s)

let parse_x (s : string) : ept =
  if s = "inf" then m_to_ed curve25519_params None
  else match String.split_on_char ',' s with
    | [u; v] -> m_to_ed curve25519_params (Some (z_of_hex u, (if v = "ERR" then Big_int_Z.zero_big_int else z_of_hex v)))
    | _ -> failwith ("bad point " ^ s)

let field_of = function
  | "k256.fp" -> (k256_codec.wc.wp_p, 32) | "k256.fq" -> (k256_codec.wc.wp_n, 32)
  | "p256.fp" -> (p256_codec.wc.wp_p, 32) | "p256.fq" -> (p256_codec.wc.wp_n, 32)
  | "pallas.fp" -> (pallas_codec.wc.wp_p, 32) | "pallas.fq" -> (pallas_codec.wc.wp_n, 32)
  | "vesta.fp" -> (vesta_codec.wc.wp_p, 32) | "vesta.fq" -> (vesta_codec.wc.wp_n, 32)
  | "bls.fp" -> (blsg1_codec.wc.wp_p, 48) | "bls.fq" -> (blsg1_codec.wc.wp_n, 32)
  | "ed.fq" -> (ed25519_codec.ec.ep_n, 32)
  | "ed.fp" -> (ed25519_codec.ec.ep_p, 32)
  | s -> failwith ("unknown field " ^ s)

let show_f = function None -> "REJ" | Some v -> "OK " ^ hex_of_z v
let show_b = function None -> "PANIC" | Some b -> hex_of_bytes b

let decode codec fmt bs =
  let fmt = if fmt = "b" then "c" else fmt in   (* FromBytes = FromCompressed *)
  match codec, fmt with
  | ("k256" | "p256"), "c" -> show_w (sec1_dec_c (wcodec_of codec) bs)
  | ("k256" | "p256"), "u" -> show_w (sec1_dec_u (wcodec_of codec) bs)
  | ("pallas" | "vesta"), "c" -> show_w (pasta_dec_c (wcodec_of codec) bs)
  | ("pallas" | "vesta"), "u" -> show_w (pasta_dec_u (wcodec_of codec) bs)
  | "blsg2", "c" -> show_w2 (blsg2_dec_c blsg2_codec bs)
  | "blsg2", "u" -> show_w2 (blsg2_dec_u blsg2_codec bs)
  | "blsg1", "c" -> show_w (blsg1_dec_c blsg1_codec bs)
  | "blsg1", "u" -> show_w (blsg1_dec_u blsg1_codec bs)
  | "ed25519", "c" -> show_e (ed_dec_c ed25519_codec bs)
  | "ed25519", "u" -> show_e (ed_dec_u ed25519_codec bs)
  | "ed25519p", "c" -> show_e (edp_dec_c ed25519_codec bs)
  | "ed25519p", "u" -> show_e (edp_dec_u ed25519_codec bs)
  | "x25519", "c" -> show_x (x_dec_c ed25519_codec bs)
  | "x25519", "u" -> show_x (x_dec_u ed25519_codec curve25519_c bs)
  | "x25519p", "c" -> show_x (xp_dec_c ed25519_codec bs)
  | "x25519p", "u" -> show_x (xp_dec_u ed25519_codec curve25519_c bs)
  | _ -> failwith ("bad codec/format " ^ codec ^ "/" ^ fmt)

let encode codec fmt pt =
  match codec, fmt with
  | ("k256" | "p256"), "c" -> hex_of_bytes (sec1_enc_c (wcodec_of codec) (parse_w pt))
  | ("k256" | "p256"), "u" -> hex_of_bytes (sec1_enc_u (wcodec_of codec) (parse_w pt))
  | ("pallas" | "vesta"), "c" -> hex_of_bytes (pasta_enc_c (wcodec_of codec) (parse_w pt))
  | ("pallas" | "vesta"), "u" -> hex_of_bytes (pasta_enc_u (wcodec_of codec) (parse_w pt))
  | "blsg2", "c" -> hex_of_bytes (blsg2_enc_c blsg2_codec (parse_w2 pt))
  | "blsg2", "u" -> hex_of_bytes (blsg2_enc_u blsg2_codec (parse_w2 pt))
  | "blsg1", "c" -> hex_of_bytes (blsg1_enc_c blsg1_codec (parse_w pt))
  | "blsg1", "u" -> hex_of_bytes (blsg1_enc_u blsg1_codec (parse_w pt))
  | ("ed25519" | "ed25519p"), "c" -> hex_of_bytes (ed_enc_c ed25519_codec (parse_e pt))
  | ("ed25519" | "ed25519p"), "u" -> hex_of_bytes (ed_enc_u ed25519_codec (parse_e pt))
  | ("x25519" | "x25519p"), "c" -> show_b (x_enc_c ed25519_codec (parse_x pt))
  | ("x25519" | "x25519p"), "u" -> show_b (x_enc_u ed25519_codec curve25519_c (parse_x pt))
  | _ -> failwith ("bad codec/format " ^ codec ^ "/" ^ fmt)

let () =
  iter_lines (fun line ->
    let out = match String.split_on_char ' ' line with
      | ["D"; codec; fmt; h] -> decode codec fmt (bytes_of_hex h)
      | ["E"; codec; fmt; pt] -> encode codec fmt pt
      | ["A"; codec; x; y] ->
        let x = z_of_hex x and y = z_of_hex y in
        (match codec with
         | "k256" | "p256" | "pallas" | "vesta" -> show_w (w_from_affine (wcodec_of codec) x y)
         | "blsg1" -> show_w (blsg1_from_affine blsg1_codec x y)
         | "blsg2" -> show_w2 (blsg2_from_affine blsg2_codec (split2 x) (split2 y))
         | "ed25519" -> show_e (ed_from_affine ed25519_codec x y)
         | "ed25519p" -> show_e (edp_from_affine ed25519_codec x y)
         | "x25519" -> show_x (x_from_affine ed25519_codec curve25519_c x y)
         | "x25519p" -> show_x (e_sub ed25519_codec (x_from_affine ed25519_codec curve25519_c x y))
         | _ -> failwith ("bad codec " ^ codec))
      | ["AX"; "blsg1"; x; odd] -> show_w (blsg1_from_affine_x blsg1_codec (z_of_hex x) (odd = "1"))
      | ["AX"; codec; x; odd] -> show_w (w_from_affine_x (wcodec_of codec) (z_of_hex x) (odd = "1"))
      | ["F"; fld; h] ->
        if fld = "ed.fp" then show_f (fld25519_from_bytes ed25519_codec.ec.ep_p (bytes_of_hex h))
        else let (q, len) = field_of fld in show_f (fld_from_bytes q (nat_of_int len) (bytes_of_hex h))
      | ["W"; fld; h] ->
        if fld = "ed.fp" then show_f (fld25519_from_wide ed25519_codec.ec.ep_p (bytes_of_hex h))
        else let (q, len) = field_of fld in show_f (fld_from_wide q (nat_of_int len) (bytes_of_hex h))
      | ["FE"; fld; v] -> let (_, len) = field_of fld in hex_of_bytes (fld_enc (nat_of_int len) (z_of_hex v))
      | ["G"; h] ->
        (match gt_from_bytes blsg1_codec.wc.wp_p blsg1_codec.wc.wp_n (nat_of_int 48) (bytes_of_hex h) with
         | None -> "REJ"
         | Some x -> "OK " ^ String.concat "," (List.map hex_of_z (gt_coeffs x)))
      | ["QR"; codec] -> let c = wcodec_of codec in hex_of_z (euler (wc_p c) c.wc.wp_b)
      | _ -> failwith ("bad line " ^ line) in
    print_string out; print_newline ())
