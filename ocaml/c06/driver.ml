(* C06 driver: evaluates the extracted model (linear sharing, HJKY, redistribution rounds,
   history machine) on the cases written by the Go harness, one case per line.

   token grammar (no blanks inside a token; "-" = empty)
     scalars   hex,hex,...
     sharing   <dim>~<id>=<row>/<row>~<id>=<row>...          row = scalars
     coefs     <id>=<scalars>~<id>=<scalars>
     reads     hexbytes,hexbytes,...                            (one entry per tape read)
     rnd       <id>=<reads>~<id>=<reads>
     args      <Q ids>|<anchor>|<zero sharing>|<rnd1>|<rnd2>|<coefs of (current sharing,Q)>|<coefs of (zero sharing,Q)>
   lines
     H <id> <q> <sharing> <dealer reads> <op> <op> ...
        op = F|args  refresh      C|<i>|args  recover i      D|<sharing>|args  redistribute
             S|<ids>|<coefs>      observation: reconstruct over ids with the current shares
             X|<ids A>|<ids B>|<coefs>  observation: A's shares from the previous performed epoch, B's from the current one
        -> H <id> <genesis> <result per op>
           genesis / performed step:  1;<column>;<id>=<share>~...      refused step: 0
           S: S;<value>|none      X: X;<value>|none
     Z <id> <q> <zero sharing> <rnd> [<j> <delta>]     HJKY alone; with j,delta party j deals delta instead of 0
        -> Z <id> <per party, in order: ok;<share>;<vv> | blame:<j> | abort> separated by blanks
     V <id> <q> <sharing> <dealer reads> <next sharing> <Q ids> <anchor> <zero sharing> <rnd1> <rnd2> <coefs (sharing,Q)> <coefs (zero,Q)> <dev> <mode> <delta>
        one redistribution step in which previous holder dev deviates: mode 0 = deals its contribution + delta
        (consistent pieces), 1 = broadcasts a previous vector with first entry + delta, 2 = both,
        3:<recipient>:<position> = adds delta to ONE component of the piece it sends to <recipient>
        -> V <id> <per next holder other than dev, in table order: <i>:ok | <i>:blame:<j> | <i>:abort> *)
open Model
open Helpers

let z_of_id s = z_of_string s
let ids_of s = List.map z_of_id (split_on ',' (if s = "-" then "" else s))
let scalars_of s = if s = "-" then [] else List.map z_of_hex (split_on ',' s)
let text_scalars l = if l = [] then "-" else String.concat "," (List.map hex_of_z l)

let eq_split s =
  match String.index_opt s '=' with
  | Some k -> (String.sub s 0 k, String.sub s (k + 1) (String.length s - k - 1))
  | None -> failwith ("bad entry " ^ s)

let sharing_of (s : string) : Big_int_Z.big_int sharing =
  match split_on '~' s with
  | d :: entries ->
    { sh_dim = nat_of_int (int_of_string d);
      sh_tab = List.map (fun e ->
          let (i, rs) = eq_split e in
          (z_of_id i, List.map scalars_of (split_on '/' rs))) entries }
  | [] -> failwith "bad sharing"

let coefs_of (s : string) : Big_int_Z.big_int coefs =
  if s = "-" then [] else
    List.map (fun e -> let (i, v) = eq_split e in (z_of_id i, scalars_of v)) (split_on '~' s)

let reads_of (s : string) : Big_int_Z.big_int list list =
  if s = "-" then [] else List.map bytes_of_hex (split_on ',' s)

let rnd_of_text q (s : string) =
  if s = "-" then [] else
    List.map (fun e -> let (i, r) = eq_split e in (z_of_id i, scalars_of_reads q (reads_of r))) (split_on '~' s)

let text_world (w : Big_int_Z.big_int world) : string =
  Printf.sprintf "1;%s;%s" (text_scalars w.w_vv)
    (if w.w_shares = [] then "-" else
       String.concat "~" (List.map (fun (i, s) -> z_to_string i ^ "=" ^ text_scalars s) w.w_shares))

(* the solver oracle: a table filled from the case, looked up structurally *)
let table : ((Big_int_Z.big_int sharing * Big_int_Z.big_int list) * Big_int_Z.big_int coefs) list ref = ref []
let solve sh s = List.assoc_opt (sh, s) !table
let register sh s lam = table := ((sh, s), lam) :: !table

let args_of q (w : Big_int_Z.big_int world) (fs : string list) : Big_int_Z.big_int step_args =
  match fs with
  | [qs; anchor; zs; r1; r2; lam; lamz] ->
    let qq = ids_of qs in
    let zsh = sharing_of zs in
    register w.w_sh qq (coefs_of lam);
    register zsh qq (coefs_of lamz);
    { sa_Q = qq; sa_anchor = z_of_id anchor; sa_zs = zsh; sa_rnd1 = rnd_of_text q r1; sa_rnd2 = rnd_of_text q r2 }
  | _ -> failwith "bad args"

let () =
  iter_lines (fun line ->
    table := [];
    match String.split_on_char ' ' line with
    | "H" :: id :: qs :: sh :: dealer :: ops ->
      let q = z_of_hex qs in
      let k = zp q in
      (match genesis_of_tape q (sharing_of sh) (reads_of dealer) with
       | None -> Printf.printf "H %s 0\n" id
       | Some w0 ->
         let out = Buffer.create 1024 in
         Buffer.add_string out (text_world w0);
         let w = ref w0 in
         let prev = ref None in
         List.iter (fun o ->
             Buffer.add_char out ' ';
             match String.split_on_char '|' o with
             | "S" :: s :: [lam] ->
               let ss = ids_of s in
               register !w.w_sh ss (coefs_of lam);
               (match reconstruct k solve !w ss with
                | Some v -> Buffer.add_string out ("S;" ^ hex_of_z v)
                | None -> Buffer.add_string out "S;none")
             | "X" :: a :: b :: [lam] ->
               (match !prev with
                | Some wp when sharing_eqb k wp.w_sh !w.w_sh ->
                  let aa = ids_of a and bb = ids_of b in
                  let l = coefs_of lam in
                  if reconstructs_b k !w.w_sh (aa @ bb) l
                  then Buffer.add_string out ("X;" ^ hex_of_z (mixed_recon k wp !w aa bb l))
                  else Buffer.add_string out "X;none"
                | _ -> Buffer.add_string out "X;none")
             | kind :: rest ->
               let mop = (match kind, rest with
                   | "F", fs -> Refresh (args_of q !w fs)
                   | "C", i :: fs -> Recover (z_of_id i, args_of q !w fs)
                   | "D", ns :: fs -> Redistribute (sharing_of ns, args_of q !w fs)
                   | _ -> failwith ("bad op " ^ o)) in
               (match trace_history k solve !w [mop] with
                | [(true, w')] -> prev := Some !w; w := w'; Buffer.add_string out (text_world w')
                | _ -> Buffer.add_string out "0")
             | [] -> failwith "empty op") ops;
         Printf.printf "H %s %s\n" id (Buffer.contents out))
    | "Z" :: id :: qs :: zs :: rnd :: dev ->
      let q = z_of_hex qs in
      let k = zp q in
      let zsh = sharing_of zs in
      let r = rnd_of_text q rnd in
      (match hjky_cols k zsh r with
       | None -> Printf.printf "Z %s refused\n" id
       | Some cols ->
         let cols = (match dev with
             | [j; delta] ->
               let jj = z_of_id j in
               List.map (fun (i, c) -> if Big_int_Z.eq_big_int i jj then (i, z_of_hex delta :: List.tl c) else (i, c)) cols
             | _ -> cols) in
         let outs = List.map (fun (i, _) ->
             match hjky_party k zsh cols i with
             | Ok (s, v) -> Printf.sprintf "ok;%s;%s" (text_scalars s) (text_scalars v)
             | Blame j -> "blame:" ^ z_to_string j
             | Abort -> "abort") cols in
         Printf.printf "Z %s %s\n" id (String.concat " " outs))
    | ["V"; id; qs; sh; dealer; ns; qq; anchor; zs; r1; r2; lam; lamz; dev; mode; delta] ->
      let q = z_of_hex qs in
      let k = zp q in
      (match genesis_of_tape q (sharing_of sh) (reads_of dealer) with
       | None -> Printf.printf "V %s refused\n" id
       | Some w ->
         let nsh = sharing_of ns and zsh = sharing_of zs in
         let quorum = ids_of qq in
         register w.w_sh quorum (coefs_of lam);
         register zsh quorum (coefs_of lamz);
         let rnd1 = rnd_of_text q r1 and rnd2 = rnd_of_text q r2 in
         let devid = z_of_id dev and d = z_of_hex delta in
         (* mode 0|1|2, or 3:<recipient>:<position> = component <position> of the piece for <recipient> + delta *)
         let (md, prc, ppos) = (match String.split_on_char ':' mode with
             | [m] -> (int_of_string m, Big_int_Z.zero_big_int, 0)
             | [m; rc; ps] -> (int_of_string m, z_of_id rc, int_of_string ps)
             | _ -> failwith "bad mode") in
         let anch = z_of_id anchor in
         let eq = Big_int_Z.eq_big_int in
         (match hjky_cols k zsh rnd1 with
          | None -> Printf.printf "V %s refused\n" id
          | Some zc ->
            let zres = List.map (fun j -> (j, match hjky_party k zsh zc j with Ok z -> z | _ -> failwith "hjky")) quorum in
            let cols = List.map (fun j ->
                (j, match round2 k solve w.w_sh zsh nsh quorum j (share_in w j) (fst (List.assoc j zres)) (rnd_of rnd2 j) with
                  | Some ac -> ac | None -> failwith "round2")) quorum in
            let bump v = match v with [] -> [] | x :: t -> k.fadd x d :: t in
            let outs = List.filter_map (fun (i, _) ->
                if eq i devid then None else begin
                  let isprev = List.exists (eq i) quorum in
                  let inbox = r3_inbox k w nsh zres cols i in
                  let inbox = List.map (fun m ->
                      if eq m.m_from devid then begin
                        let b = m.m_b in
                        let nvv = if md = 0 || md = 2 then bump b.b_nextvv else b.b_nextvv in
                        let pvv = if md = 1 || md = 2 then bump b.b_prevvv else b.b_prevvv in
                        { m_from = m.m_from;
                          m_b = { b_prev = b.b_prev; b_prevvv = pvv; b_zerovv = b.b_zerovv; b_nextvv = nvv };
                          m_piece = if md = 0 || md = 2 then share_of k nsh nvv i
                            else if md = 3 && eq i prc then List.mapi (fun n x -> if n = ppos then k.fadd x d else x) m.m_piece
                            else m.m_piece }
                      end else m) inbox in
                  let own = if isprev then (let (_, c) = List.assoc i cols in Some (share_of k nsh c i, c)) else None in
                  let own_t = if isprev then Some ((w.w_sh, w.w_vv), snd (List.assoc i zres)) else None in
                  let r = match round3 k solve own_t own anch zsh nsh quorum i inbox with
                    | Ok _ -> "ok" | Blame j -> "blame:" ^ z_to_string j | Abort -> "abort" in
                  Some (z_to_string i ^ ":" ^ r)
                end) nsh.sh_tab in
            Printf.printf "V %s %s\n" id (String.concat " " outs)))
    | _ -> failwith ("bad line " ^ line))
