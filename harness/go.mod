module verif/harness

go 1.26

require (
	github.com/bronlabs/bron-crypto v0.0.0
	github.com/fxamacker/cbor/v2 v2.9.0
	golang.org/x/crypto v0.52.0
)

require (
	github.com/bronlabs/errs-go v0.2.2 // indirect
	github.com/cronokirby/saferith v0.33.0 // indirect
	github.com/x448/float16 v0.8.4 // indirect
	golang.org/x/exp v0.0.0-20260209203927-2842357ff358 // indirect
	golang.org/x/sync v0.20.0 // indirect
)

replace github.com/bronlabs/bron-crypto => /repo
